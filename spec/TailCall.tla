------------------------------ MODULE TailCall ------------------------------
(***************************************************************************)
(* The VM's call / return discipline for self calls (vm.go OpCall,         *)
(* OpReturn): a self call whose next instruction is RET - or POP; RET - is  *)
(* executed by overwriting the parameters and restarting the current frame *)
(* instead of pushing a new one.  The spec runs an abstract self-recursive *)
(* function                                                                *)
(*     f(n) == if n = 0 then return Base; <Shape>                          *)
(* on the frame machine and, independently, by plain recursion (Ref), and  *)
(* TLC checks that both give the same value for every shape and depth, and *)
(* that the frame count stays constant exactly for the shapes in tail      *)
(* position.  Shapes (the instruction sequence after the self call):       *)
(*   "ret"      return f(n-1)            CALL; RET 1                       *)
(*   "popret"   f(n-1); return           CALL; POP; RET 0   -> undefined   *)
(*   "popend"   f(n-1)  <end of body>    CALL; POP; RET 0   -> undefined   *)
(*   "popret1"  f(n-1); return 7         CALL; POP; CONST; RET 1           *)
(*   "plus"     return f(n-1) + 1        CALL; CONST; BINOP; RET 1         *)
(*   "bind"     x := f(n-1); return x    CALL; DEFL; GETL; RET 1           *)
(* DiscardFlag = FALSE is the machine before the repair (DESIGN 15.4): TLC *)
(* then reports that "popret" returns Base instead of undefined.           *)
(***************************************************************************)
EXTENDS Integers, Sequences, TLC

CONSTANTS MaxDepth, MaxFrames, DiscardFlag

Shapes == {"ret", "popret", "popend", "popret1", "plus", "bind"}
Base == 5
Undef == -1
TailShapes == {"ret", "popret", "popend"}

\* reference: plain recursion, no frames
RECURSIVE Ref(_, _)
Ref(shape, n) ==
  IF n = 0 THEN Base
  ELSE LET r == Ref(shape, n - 1) IN
       CASE shape = "ret" -> r
         [] shape \in {"popret", "popend"} -> Undef
         [] shape = "popret1" -> 7
         [] shape = "plus" -> IF r = Undef THEN Undef ELSE r + 1
         [] shape = "bind" -> r

VARIABLES shape, depth,     \* the program
          frames,           \* stack of [n, pc, discard]; pc: "entry" | "after" (just after the self call returned)
          ret,              \* value being returned to the frame below / final result
          maxfi, status

vars == <<shape, depth, frames, ret, maxfi, status>>

Init == /\ shape \in Shapes /\ depth \in 0..MaxDepth
        /\ frames = <<[n |-> depth, pc |-> "entry", discard |-> FALSE]>>
        /\ ret = Undef /\ maxfi = 1 /\ status = "running"

Top == frames[Len(frames)]
IsTailPattern == shape \in {"ret", "popret", "popend"}      \* next op is RET, or POP; RET

Return(v) ==   \* OpReturn of the top frame with value v
  LET rv == IF DiscardFlag /\ Top.discard THEN Undef ELSE v IN
  IF Len(frames) = 1 THEN /\ status' = "done" /\ ret' = rv /\ frames' = <<>> /\ UNCHANGED <<shape, depth, maxfi>>
  ELSE /\ frames' = [SubSeq(frames, 1, Len(frames) - 1) EXCEPT ![Len(frames) - 1].pc = "after"]
       /\ ret' = rv /\ UNCHANGED <<shape, depth, maxfi, status>>

Step ==
  /\ status = "running"
  /\ IF Top.pc = "entry" THEN
       IF Top.n = 0 THEN Return(Base)
       ELSE \* the self call f(n-1)
         IF IsTailPattern THEN   \* frame re-used: parameters overwritten, ip reset
           /\ frames' = [frames EXCEPT ![Len(frames)] = [n |-> Top.n - 1, pc |-> "entry",
                                                         discard |-> Top.discard \/ (shape \in {"popret", "popend"})]]
           /\ UNCHANGED <<shape, depth, ret, maxfi, status>>
         ELSE IF Len(frames) >= MaxFrames THEN status' = "overflow" /\ UNCHANGED <<shape, depth, frames, ret, maxfi>>
         ELSE /\ frames' = Append(frames, [n |-> Top.n - 1, pc |-> "entry", discard |-> FALSE])
              /\ maxfi' = IF Len(frames) + 1 > maxfi THEN Len(frames) + 1 ELSE maxfi
              /\ UNCHANGED <<shape, depth, ret, status>>
     ELSE \* after the self call returned (only non-tail shapes get here): the rest of the body
       CASE shape = "popret1" -> Return(7)
         [] shape = "plus" -> Return(IF ret = Undef THEN Undef ELSE ret + 1)
         [] shape = "bind" -> Return(ret)
         [] OTHER -> Return(ret)

Spec == Init /\ [][Step]_vars /\ WF_vars(Step)

\* ---- properties -----------------------------------------------------------
SameAsReference == status = "done" => ret = Ref(shape, depth)
ConstantFrames == shape \in TailShapes => maxfi = 1
NonTailGrows == (status = "done" /\ shape \notin TailShapes) => maxfi = depth + 1
OverflowOnlyNonTail == status = "overflow" => (shape \notin TailShapes /\ depth + 1 > MaxFrames)
Terminates == <>(status # "running")
Safety == SameAsReference /\ ConstantFrames /\ NonTailGrows /\ OverflowOnlyNonTail
=============================================================================
