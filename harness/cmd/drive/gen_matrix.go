package main

import (
	"fmt"
)

// Exhaustively enumerated small-scope families ("matrices").  Every cell is one tiny
// program, so that a run-time error in one cell cannot hide another cell.  The value
// universe below is shared by all matrix families.

type mval struct {
	name string
	mk   func() *Node
}

func valueUniverse() []mval {
	return []mval{
		{"int0", func() *Node { return Int(0) }},
		{"int3", func() *Node { return Int(3) }},
		{"int-2", func() *Node { return Int(-2) }},
		{"int100", func() *Node { return Int(100) }},
		{"float0", func() *Node { return Float16(0) }},
		{"float1.5", func() *Node { return Float16(24) }},
		{"float-2", func() *Node { return Float16(-32) }},
		{"float3", func() *Node { return Float16(48) }},
		{"chara", func() *Node { return Char('a') }},
		{"charA", func() *Node { return Char('A') }},
		{"char3", func() *Node { return Call(Id("char"), Int(3)) }},
		{"str", func() *Node { return Str("") }},
		{"stra", func() *Node { return Str("a") }},
		{"strab", func() *Node { return Str("ab") }},
		{"str3", func() *Node { return Str("3") }},
		{"true", func() *Node { return Bool(true) }},
		{"false", func() *Node { return Bool(false) }},
		{"undef", func() *Node { return Undef() }},
		{"bytes", func() *Node { return Call(Id("bytes"), Str("ab")) }},
		{"bytes0", func() *Node { return Call(Id("bytes"), Str("")) }},
		{"arr", func() *Node { return Arr(Int(1), Int(2)) }},
		{"arr0", func() *Node { return Arr() }},
		{"immarr", func() *Node { return Imm(Arr(Int(1), Int(2))) }},
		{"map", func() *Node { return Map([]string{"a"}, []*Node{Int(1)}) }},
		{"map0", func() *Node { return Map(nil, nil) }},
		{"immmap", func() *Node { return Imm(Map([]string{"a"}, []*Node{Int(1)})) }},
		{"err", func() *Node { return ErrE(Str("e")) }},
		{"fn", func() *Node { return Fn(nil, false, Ret(Int(1))) }},
		{"builtin", func() *Node { return Id("len") }},
	}
}

var binOps = []string{"+", "-", "*", "/", "%", "&", "|", "^", "&^", "<<", ">>", "<", "<=", ">", ">=", "==", "!=", "&&", "||"}

func cell(meta string, st ...*Node) *Program {
	return &Program{Stmts: st, Meta: map[string]interface{}{"cell": meta}}
}

func opsMatrix() []*Program {
	var ps []*Program
	u := valueUniverse()
	for _, op := range binOps {
		for _, a := range u {
			for _, b := range u {
				// values arrive through variables so that nothing is folded by the printer
				ps = append(ps, cell(fmt.Sprintf("%s %s %s", a.name, op, b.name),
					Def("a", a.mk()), Def("b", b.mk()), Def("r", Bin(op, Id("a"), Id("b")))))
			}
		}
	}
	for _, op := range []string{"!", "-", "^", "+"} {
		for _, a := range u {
			ps = append(ps, cell(fmt.Sprintf("%s%s", op, a.name), Def("a", a.mk()), Def("r", Un(op, Id("a")))))
		}
	}
	// compound assignment forms of every arithmetic/bitwise operator
	for _, op := range []string{"+=", "-=", "*=", "/=", "%=", "&=", "|=", "^=", "&^=", "<<=", ">>="} {
		for _, a := range u[:16] {
			for _, b := range []mval{u[1], u[5], u[8], u[13]} {
				ps = append(ps, cell(fmt.Sprintf("%s %s %s", a.name, op, b.name), Def("a", a.mk()), Set("a", nil, op, b.mk())))
			}
		}
	}
	return ps
}

func indexMatrix() []*Program {
	var ps []*Program
	u := valueUniverse()
	conts := []mval{
		{"arr3", func() *Node { return Arr(Int(10), Int(20), Int(30)) }},
		{"immarr3", func() *Node { return Imm(Arr(Int(10), Int(20), Int(30))) }},
		{"str", func() *Node { return Str("héllo") }},
		{"bytes", func() *Node { return Call(Id("bytes"), Str("abc")) }},
		{"map", func() *Node { return Map([]string{"a", "1", "true"}, []*Node{Int(1), Int(2), Int(3)}) }},
		{"immmap", func() *Node { return Imm(Map([]string{"a", "1"}, []*Node{Int(1), Int(2)})) }},
		{"err", func() *Node { return ErrE(Str("e")) }},
		{"undef", func() *Node { return Undef() }},
		{"int", func() *Node { return Int(5) }},
		{"fn", func() *Node { return Fn(nil, false) }},
		{"arr0", func() *Node { return Arr() }},
	}
	idxs := []mval{
		{"-1", func() *Node { return Int(-1) }}, {"0", func() *Node { return Int(0) }}, {"1", func() *Node { return Int(1) }},
		{"2", func() *Node { return Int(2) }}, {"3", func() *Node { return Int(3) }}, {"5", func() *Node { return Int(5) }},
		{"1.0", func() *Node { return Float16(16) }}, {"'a'", func() *Node { return Char('a') }}, {"a", func() *Node { return Str("a") }},
		{"1s", func() *Node { return Str("1") }}, {"true", func() *Node { return Bool(true) }}, {"undef", func() *Node { return Undef() }},
		{"value", func() *Node { return Str("value") }}, {"arr", func() *Node { return Arr(Int(1)) }},
	}
	for _, c := range conts {
		for _, i := range idxs {
			ps = append(ps, cell(fmt.Sprintf("%s[%s]", c.name, i.name), Def("c", c.mk()), Def("i", i.mk()), Def("r", Idx(Id("c"), Id("i")))))
			ps = append(ps, cell(fmt.Sprintf("%s[%s]=9", c.name, i.name), Def("c", c.mk()), Def("i", i.mk()), Set("c", []*Node{Id("i")}, "=", Int(9))))
		}
		ps = append(ps, cell(c.name+".a", Def("c", c.mk()), Def("r", Sel(Id("c"), "a"))))
		ps = append(ps, cell(c.name+".a=9", Def("c", c.mk()), Set("c", []*Node{DotKey("a")}, "=", Int(9))))
		// slices: every (lo, hi) class pair
		sl := []mval{
			{"", nil}, {"-2", func() *Node { return Int(-2) }}, {"0", func() *Node { return Int(0) }}, {"1", func() *Node { return Int(1) }},
			{"2", func() *Node { return Int(2) }}, {"3", func() *Node { return Int(3) }}, {"5", func() *Node { return Int(5) }},
			{"7", func() *Node { return Int(7) }}, {"x", func() *Node { return Str("x") }}, {"1.0", func() *Node { return Float16(16) }},
			{"undef", func() *Node { return Undef() }},
		}
		for _, lo := range sl {
			for _, hi := range sl {
				var l, h *Node
				if lo.mk != nil {
					l = lo.mk()
				}
				if hi.mk != nil {
					h = hi.mk()
				}
				ps = append(ps, cell(fmt.Sprintf("%s[%s:%s]", c.name, lo.name, hi.name), Def("c", c.mk()), Def("r", Slice(Id("c"), l, h))))
			}
		}
	}
	// element assignment with every value type as the index of an array (int-convertible indices are accepted)
	for _, i := range u {
		ps = append(ps, cell("arr["+i.name+"]=9", Def("c", Arr(Int(10), Int(20), Int(30), Int(40))), Def("i", i.mk()), Set("c", []*Node{Id("i")}, "=", Int(9))))
		ps = append(ps, cell("map["+i.name+"]=9", Def("c", Map([]string{"a"}, []*Node{Int(1)})), Def("i", i.mk()), Set("c", []*Node{Id("i")}, "=", Int(9))))
	}
	return ps
}

func builtinMatrix() []*Program {
	var ps []*Program
	u := valueUniverse()
	one := []string{"len", "copy", "string", "int", "bool", "float", "char", "bytes", "is_int", "is_float", "is_string", "is_bool", "is_char",
		"is_bytes", "is_array", "is_immutable_array", "is_map", "is_immutable_map", "is_iterable", "is_time", "is_error", "is_undefined",
		"is_function", "is_callable", "type_name", "freeze", "append", "delete"}
	for _, f := range one {
		ps = append(ps, cell(f+"()", Def("r", Call(Id(f)))))
		for _, a := range u {
			if f == "type_name" && a.name == "builtin" {
				continue
			}
			ps = append(ps, cell(fmt.Sprintf("%s(%s)", f, a.name), Def("a", a.mk()), Def("r", Call(Id(f), Id("a")))))
		}
	}
	two := []string{"string", "int", "bool", "float", "char", "bytes", "append", "delete", "len", "copy"}
	for _, f := range two {
		for _, a := range u {
			for _, b := range []mval{u[1], u[13], u[17], u[20]} {
				ps = append(ps, cell(fmt.Sprintf("%s(%s,%s)", f, a.name, b.name), Def("a", a.mk()), Def("b", b.mk()),
					Def("r", Call(Id(f), Id("a"), Id("b"))), Def("a2", Id("a"))))
			}
		}
	}
	for _, a := range u {
		ps = append(ps, cell(fmt.Sprintf("string(%s,1,2)", a.name), Def("a", a.mk()), Def("r", Call(Id("string"), Id("a"), Int(1), Int(2)))))
		ps = append(ps, cell(fmt.Sprintf("append(%s,1,2)", a.name), Def("a", a.mk()), Def("r", Call(Id("append"), Id("a"), Int(1), Int(2)))))
	}
	// range(start, stop[, step]): every combination of small ints (ascending, descending, empty, step not dividing, step <= 0),
	// wrong arities and one wrongly typed position
	rv := []int64{-3, -1, 0, 1, 2, 5}
	for _, a := range rv {
		for _, b := range rv {
			ps = append(ps, cell(fmt.Sprintf("range(%d,%d)", a, b), Def("r", Call(Id("range"), Int(a), Int(b))), Def("n", Call(Id("len"), Id("r")))))
			for _, st := range []int64{-1, 0, 1, 2, 3, 7} {
				ps = append(ps, cell(fmt.Sprintf("range(%d,%d,%d)", a, b, st), Def("r", Call(Id("range"), Int(a), Int(b), Int(st)))))
			}
		}
	}
	ps = append(ps, cell("range()", Def("r", Call(Id("range")))), cell("range(1)", Def("r", Call(Id("range"), Int(1)))),
		cell("range(1,2,3,4)", Def("r", Call(Id("range"), Int(1), Int(2), Int(3), Int(4)))))
	for _, a := range u {
		ps = append(ps, cell(fmt.Sprintf("range(%s,3)", a.name), Def("a", a.mk()), Def("r", Call(Id("range"), Id("a"), Int(3)))))
		ps = append(ps, cell(fmt.Sprintf("range(0,%s)", a.name), Def("a", a.mk()), Def("r", Call(Id("range"), Int(0), Id("a")))))
		ps = append(ps, cell(fmt.Sprintf("range(0,3,%s)", a.name), Def("a", a.mk()), Def("r", Call(Id("range"), Int(0), Int(3), Id("a")))))
		ps = append(ps, cell(fmt.Sprintf("range(%s,3,0)", a.name), Def("a", a.mk()), Def("r", Call(Id("range"), Id("a"), Int(3), Int(0)))))
	}
	// int/string conversions of numeric strings and numbers at the edges of the model's range
	for _, s := range []string{"0", "-0", "+5", "12", "-12", "007", "1_0", " 1", "1 ", "0x10", "1.5", "abc", "", "99999999"} {
		ps = append(ps, cell("int("+s+")", Def("r", Call(Id("int"), Str(s))), Def("c", Arr(Int(1), Int(2))), Def("d", Call(Id("int"), Str(s), Int(-1)))))
	}
	for _, n := range []int64{0, 1, 65, 97, 233, 8364, 128512} {
		ps = append(ps, cell(fmt.Sprintf("char(%d)", n), Def("r", Call(Id("char"), Int(n))), Def("s", Call(Id("string"), Call(Id("char"), Int(n)))),
			Def("l", Call(Id("len"), Call(Id("string"), Call(Id("char"), Int(n)))))))
	}
	return ps
}

func callMatrix() []*Program {
	var ps []*Program
	type sig struct {
		np int
		va bool
	}
	for _, s := range []sig{{0, false}, {1, false}, {2, false}, {1, true}, {2, true}, {3, true}} {
		var params []string
		for i := 0; i < s.np; i++ {
			params = append(params, fmt.Sprintf("p%d", i))
		}
		var ret []*Node
		for _, p := range params {
			ret = append(ret, Id(p))
		}
		mkf := func() *Node { return Fn(params, s.va, Ret(Arr(ret...))) }
		for nargs := 0; nargs <= 4; nargs++ {
			var args []*Node
			for i := 0; i < nargs; i++ {
				args = append(args, Int(int64(10+i)))
			}
			ps = append(ps, cell(fmt.Sprintf("f%d%v(%d args)", s.np, s.va, nargs), Def("f", mkf()), Def("r", Call(Id("f"), args...))))
			for _, sp := range []mval{{"arr2", func() *Node { return Arr(Int(7), Int(8)) }}, {"arr0", func() *Node { return Arr() }},
				{"immarr", func() *Node { return Imm(Arr(Int(7))) }}, {"int", func() *Node { return Int(1) }},
				{"str", func() *Node { return Str("ab") }}, {"map", func() *Node { return Map(nil, nil) }}} {
				a2 := append(append([]*Node{}, args...), sp.mk())
				ps = append(ps, cell(fmt.Sprintf("f%d%v(%d args, %s...)", s.np, s.va, nargs, sp.name), Def("f", mkf()), Def("r", CallSpread(Id("f"), a2...))))
			}
		}
		// the rolled-up array is a fresh, mutable array; mutating it does not affect the caller's array
		if s.va {
			body := []*Node{Set(params[s.np-1], []*Node{Int(0)}, "=", Int(99)), Ret(Id(params[s.np-1]))}
			var args []*Node
			for i := 0; i < s.np-1; i++ {
				args = append(args, Int(1))
			}
			ps = append(ps, cell(fmt.Sprintf("f%dva mutate spread", s.np), Def("f", Fn(params, true, body...)), Def("a", Arr(Int(5), Int(6))),
				Def("r", CallSpread(Id("f"), append(args, Id("a"))...))))
		}
	}
	// builtins called with spread
	ps = append(ps, cell("len(spread)", Def("r", CallSpread(Id("len"), Arr(Str("abc"))))))
	ps = append(ps, cell("append(spread)", Def("r", CallSpread(Id("append"), Arr(Int(0)), Arr(Int(1), Int(2))))))
	return ps
}

// closureMatrix: where a variable lives x what captures it x when the closure runs.
func closureMatrix() []*Program {
	var ps []*Program
	type loopKind struct {
		name string
		mk   func(body []*Node) *Node // builds the loop with vars k (counter/key) and v (value)
		hasV bool
	}
	loops := []loopKind{
		{"for", func(b []*Node) *Node {
			return For(Def("k", Int(0)), Bin("<", Id("k"), Int(3)), IncDec("k", nil, "++"), Blk(b...))
		}, false},
		{"forin-arr", func(b []*Node) *Node { return ForIn("k", "v", Arr(Int(10), Int(20), Int(30)), Blk(b...)) }, true},
		{"forin-arr-v", func(b []*Node) *Node { return ForIn("", "v", Arr(Int(10), Int(20), Int(30)), Blk(b...)) }, true},
		{"forin-str", func(b []*Node) *Node { return ForIn("k", "v", Str("abc"), Blk(b...)) }, true},
		{"forin-map1", func(b []*Node) *Node { return ForIn("k", "v", Map([]string{"x"}, []*Node{Int(5)}), Blk(b...)) }, true},
		{"forin-bytes", func(b []*Node) *Node { return ForIn("k", "v", Call(Id("bytes"), Str("ab")), Blk(b...)) }, true},
	}
	caps := []string{"k", "v", "body", "kv"}
	for _, lk := range loops {
		for _, cap := range caps {
			if (cap == "v" || cap == "kv") && !lk.hasV {
				continue
			}
			if cap == "k" && lk.name == "forin-arr-v" {
				continue
			}
			if cap == "kv" && lk.name == "forin-arr-v" {
				continue
			}
			for _, mut := range []bool{false, true} {
				for _, when := range []string{"after", "inside"} {
					for _, scope := range []string{"global", "func", "nested"} {
						var capExpr *Node
						var pre []*Node
						switch cap {
						case "k":
							capExpr = Id("k")
						case "v":
							capExpr = Id("v")
						case "kv":
							capExpr = Arr(Id("k"), Id("v"))
						case "body":
							src := "k"
							if lk.name == "forin-arr-v" {
								src = "v"
							}
							pre = []*Node{Def("b", Bin("+", Id(src), Int(100)))}
							if lk.name == "forin-str" || lk.name == "forin-map1" {
								pre = []*Node{Def("b", Arr(Id(src)))}
							}
							capExpr = Id("b")
						}
						fnBody := []*Node{Ret(capExpr)}
						if mut && cap == "body" && lk.name != "forin-str" && lk.name != "forin-map1" {
							fnBody = []*Node{Set("b", nil, "+=", Int(1)), Ret(Id("b"))}
						} else if mut {
							continue
						}
						body := append(append([]*Node{}, pre...), Set("fs", nil, "=", Call(Id("append"), Id("fs"), Fn(nil, false, fnBody...))))
						if when == "inside" {
							body = append(body, Set("out", nil, "=", Call(Id("append"), Id("out"), Call(Idx(Id("fs"), Bin("-", Call(Id("len"), Id("fs")), Int(1)))))))
						}
						st := []*Node{Def("fs", Arr()), Def("out", Arr()), lk.mk(body)}
						st = append(st, ForIn("", "f", Id("fs"), Blk(Set("out", nil, "=", Call(Id("append"), Id("out"), Call(Id("f")))))))
						if mut {
							st = append(st, ForIn("", "f", Id("fs"), Blk(Set("out", nil, "=", Call(Id("append"), Id("out"), Call(Id("f")))))))
						}
						var prog []*Node
						switch scope {
						case "global":
							prog = st
						case "func":
							prog = []*Node{Def("res", Call(Fn(nil, false, append(st, Ret(Id("out")))...)))}
						case "nested":
							inner := Fn(nil, false, append(st, Ret(Id("out")))...)
							prog = []*Node{Def("res", Call(Fn(nil, false, Def("g", inner), Ret(Call(Id("g"))))))}
						}
						ps = append(ps, cell(fmt.Sprintf("closure %s cap=%s mut=%v %s %s", lk.name, cap, mut, when, scope), prog...))
					}
				}
			}
		}
	}
	// captured parameter and local, mutation visible both ways, three nesting levels
	for _, scope := range []string{"func", "nested"} {
		inner := []*Node{Def("x", Int(1)), Def("inc", Fn(nil, false, Set("x", nil, "+=", Int(1)), Ret(Id("x")))),
			Def("a", Call(Id("inc"))), Set("x", nil, "=", Int(10)), Def("b", Call(Id("inc"))),
			Def("deep", Fn(nil, false, Ret(Fn(nil, false, Set("x", nil, "*=", Int(2)), Ret(Id("x")))))),
			Def("c", Call(Call(Id("deep")))), Ret(Arr(Id("a"), Id("b"), Id("c"), Id("x")))}
		if scope == "func" {
			ps = append(ps, cell("capture-mutate func", Def("res", Call(Fn(nil, false, inner...)))))
		} else {
			ps = append(ps, cell("capture-mutate nested", Def("res", Call(Fn([]string{"p"}, false, Def("h", Fn(nil, false, inner...)), Ret(Arr(Call(Id("h")), Id("p")))), Int(7)))))
		}
	}
	// shadowing: inner declaration must not affect a closure created before it
	ps = append(ps, cell("shadow-after-closure",
		Def("x", Int(1)),
		Def("f", Fn(nil, false, Def("g", Fn(nil, false, Ret(Id("x")))), Def("x", Int(5)), Ret(Arr(Call(Id("g")), Id("x"))))),
		Def("r", Call(Id("f")))))
	ps = append(ps, cell("shadow-in-block",
		Def("x", Int(1)), Def("r", Arr()),
		If(nil, Bool(true), Blk(Def("x", Int(2)), Set("r", nil, "=", Call(Id("append"), Id("r"), Id("x"))), Set("x", nil, "+=", Int(1)),
			Set("r", nil, "=", Call(Id("append"), Id("r"), Id("x")))), nil),
		Set("r", nil, "=", Call(Id("append"), Id("r"), Id("x")))))
	ps = append(ps, cell("define-reads-outer",
		Def("x", Int(1)), Def("f", Fn(nil, false, Def("x", Bin("+", Id("x"), Int(1))), Ret(Id("x")))), Def("r", Arr(Call(Id("f")), Id("x")))))
	ps = append(ps, cell("param-shadow", Def("f", Fn([]string{"a"}, false, Def("a", Bin("*", Id("a"), Int(2))), Ret(Id("a")))), Def("r", Call(Id("f"), Int(4)))))
	return ps
}

// assignMatrix: every assignment operator through every target shape in every variable position.
func assignMatrix() []*Program {
	var ps []*Program
	ops := []string{"=", "+=", "-=", "*=", "/=", "%=", "|=", "<<="}
	type target struct {
		name string
		init func() *Node
		sels func() []*Node
		read func() *Node
	}
	targets := []target{
		{"x", func() *Node { return Int(12) }, func() []*Node { return nil }, func() *Node { return Id("x") }},
		{"x[1]", func() *Node { return Arr(Int(1), Int(12), Int(3)) }, func() []*Node { return []*Node{Int(1)} }, func() *Node { return Id("x") }},
		{"x.k", func() *Node { return Map([]string{"k"}, []*Node{Int(12)}) }, func() []*Node { return []*Node{DotKey("k")} }, func() *Node { return Sel(Id("x"), "k") }},
		{"x[\"k\"]", func() *Node { return Map([]string{"k"}, []*Node{Int(12)}) }, func() []*Node { return []*Node{Str("k")} }, func() *Node { return Sel(Id("x"), "k") }},
		{"x.k[0]", func() *Node { return Map([]string{"k"}, []*Node{Arr(Int(12), Int(5))}) }, func() []*Node { return []*Node{DotKey("k"), Int(0)} },
			func() *Node { return Sel(Id("x"), "k") }},
		{"x[0].k", func() *Node { return Arr(Map([]string{"k", "j"}, []*Node{Int(12), Int(1)})) }, func() []*Node { return []*Node{Int(0), DotKey("k")} },
			func() *Node { return Idx(Id("x"), Int(0)) }},
		{"x.a.b.c", func() *Node {
			return Map([]string{"a"}, []*Node{Map([]string{"b"}, []*Node{Map([]string{"c"}, []*Node{Int(12)})})})
		}, func() []*Node { return []*Node{DotKey("a"), DotKey("b"), DotKey("c")} },
			func() *Node { return Sel(Sel(Sel(Id("x"), "a"), "b"), "c") }},
		{"x.new", func() *Node { return Map(nil, nil) }, func() []*Node { return []*Node{DotKey("new")} }, func() *Node { return Id("x") }},
	}
	for _, t := range targets {
		for _, op := range ops {
			for _, scope := range []string{"global", "local", "free", "param"} {
				asg := Set("x", t.sels(), op, Int(5))
				switch scope {
				case "global":
					ps = append(ps, cell(fmt.Sprintf("%s %s global", t.name, op), Def("x", t.init()), asg, Def("r", t.read())))
				case "local":
					ps = append(ps, cell(fmt.Sprintf("%s %s local", t.name, op),
						Def("r", Call(Fn(nil, false, Def("x", t.init()), asg, Ret(t.read()))))))
				case "free":
					ps = append(ps, cell(fmt.Sprintf("%s %s free", t.name, op),
						Def("r", Call(Fn(nil, false, Def("x", t.init()), Def("g", Fn(nil, false, asg)), ExprS(Call(Id("g"))), Ret(t.read()))))))
				case "param":
					ps = append(ps, cell(fmt.Sprintf("%s %s param", t.name, op),
						Def("r", Call(Fn([]string{"x"}, false, asg, Ret(t.read())), t.init()))))
				}
			}
		}
		// ++ / --
		for _, op := range []string{"++", "--"} {
			ps = append(ps, cell(fmt.Sprintf("%s%s", t.name, op), Def("x", t.init()), IncDec("x", t.sels(), op), Def("r", t.read())))
		}
	}
	return ps
}

// equalMatrix: == and != over containers whose difference is subtle - undefined members, key sets of equal size that differ,
// the same members under other keys, int/float members, nested containers, immutable twins, member order.
func equalMatrix() []*Program {
	u := []mval{
		{"{x:1,y:undef}", func() *Node { return Map([]string{"x", "y"}, []*Node{Int(1), Undef()}) }},
		{"{x:1,z:undef}", func() *Node { return Map([]string{"x", "z"}, []*Node{Int(1), Undef()}) }},
		{"{x:1}", func() *Node { return Map([]string{"x"}, []*Node{Int(1)}) }},
		{"{x:1,y:2}", func() *Node { return Map([]string{"x", "y"}, []*Node{Int(1), Int(2)}) }},
		{"{y:2,x:1}", func() *Node { return Map([]string{"y", "x"}, []*Node{Int(2), Int(1)}) }},
		{"{x:2,y:1}", func() *Node { return Map([]string{"x", "y"}, []*Node{Int(2), Int(1)}) }},
		{"{x:1.0,y:2}", func() *Node { return Map([]string{"x", "y"}, []*Node{Float16(16), Int(2)}) }},
		{"imm{x:1,y:2}", func() *Node { return Imm(Map([]string{"x", "y"}, []*Node{Int(1), Int(2)})) }},
		{"imm{x:1,y:undef}", func() *Node { return Imm(Map([]string{"x", "y"}, []*Node{Int(1), Undef()})) }},
		{"{x:{y:undef}}", func() *Node { return Map([]string{"x"}, []*Node{Map([]string{"y"}, []*Node{Undef()})}) }},
		{"{x:{z:undef}}", func() *Node { return Map([]string{"x"}, []*Node{Map([]string{"z"}, []*Node{Undef()})}) }},
		{"{x:{}}", func() *Node { return Map([]string{"x"}, []*Node{Map(nil, nil)}) }},
		{"{}", func() *Node { return Map(nil, nil) }},
		{"[1,undef]", func() *Node { return Arr(Int(1), Undef()) }},
		{"[1]", func() *Node { return Arr(Int(1)) }},
		{"[undef,1]", func() *Node { return Arr(Undef(), Int(1)) }},
		{"[1,2]", func() *Node { return Arr(Int(1), Int(2)) }},
		{"[2,1]", func() *Node { return Arr(Int(2), Int(1)) }},
		{"[1.0,2]", func() *Node { return Arr(Float16(16), Int(2)) }},
		{"imm[1,2]", func() *Node { return Imm(Arr(Int(1), Int(2))) }},
		{"[[1],[2]]", func() *Node { return Arr(Arr(Int(1)), Arr(Int(2))) }},
		{"[[1],[]]", func() *Node { return Arr(Arr(Int(1)), Arr()) }},
		{"[{x:undef}]", func() *Node { return Arr(Map([]string{"x"}, []*Node{Undef()})) }},
		{"[{y:undef}]", func() *Node { return Arr(Map([]string{"y"}, []*Node{Undef()})) }},
		{"[]", func() *Node { return Arr() }},
		{"undef", func() *Node { return Undef() }},
		{"error(undef)", func() *Node { return ErrE(Undef()) }},
		{"\"\"", func() *Node { return Str("") }},
		{"bytes(\"\")", func() *Node { return Call(Id("bytes"), Str("")) }},
	}
	var ps []*Program
	// functions never compare equal - not even a function with itself, whether the two operands are one shared constant (a literal
	// that captures nothing), one closure object reached twice, or two closures
	one := func() *Node { return Fn(nil, false, Ret(Int(1))) }
	for _, place := range []string{"top", "func"} {
		body := []*Node{
			Def("f", one()), Def("g", Id("f")), Def("eq", Bin("==", Id("f"), Id("f"))), Def("ne", Bin("!=", Id("f"), Id("f"))), Def("eq2", Bin("==", Id("f"), Id("g"))),
			Def("inarr", Bin("==", Arr(Id("f")), Arr(Id("f")))), Def("inmap", Bin("==", Map([]string{"k"}, []*Node{Id("f")}), Map([]string{"k"}, []*Node{Id("g")}))),
			Def("mk", Fn(nil, false, Ret(one()))), Def("eq3", Bin("==", Call(Id("mk")), Call(Id("mk")))), Def("ne3", Bin("!=", Call(Id("mk")), Call(Id("mk")))),
			Def("mkc", Fn([]string{"n"}, false, Ret(Fn(nil, false, Ret(Id("n")))))), Def("eq4", Bin("==", Call(Id("mkc"), Int(1)), Call(Id("mkc"), Int(1)))),
			Def("c", Call(Id("mkc"), Int(2))), Def("eq5", Bin("==", Id("c"), Id("c"))), Def("ne5", Bin("!=", Id("c"), Id("c"))),
			Def("b1", Bin("==", Id("len"), Id("len"))), Def("cp", Id("copy")), Def("b2", Bin("==", Id("cp"), Id("copy"))), Def("b3", Bin("!=", Id("cp"), Id("cp"))),
			Def("e1", Bin("==", Id("f"), Undef())), Def("e2", Bin("==", Id("f"), Int(0))),
		}
		if place == "top" {
			ps = append(ps, cell("functions ==/!= (top level)", body...))
		} else {
			names := []string{"eq", "ne", "eq2", "inarr", "inmap", "eq3", "ne3", "eq4", "eq5", "ne5", "b1", "b2", "b3", "e1", "e2"}
			var vals []*Node
			for _, n := range names {
				vals = append(vals, Id(n))
			}
			ps = append(ps, cell("functions ==/!= (in a function)", Def("run", Fn(nil, false, append(body, Ret(Arr(vals...)))...)), Def("r", Call(Id("run")))))
		}
	}
	for _, a := range u {
		for _, b := range u {
			ps = append(ps, cell(fmt.Sprintf("%s ==/!= %s", a.name, b.name),
				Def("a", a.mk()), Def("b", b.mk()), Def("eq", Bin("==", Id("a"), Id("b"))), Def("ne", Bin("!=", Id("a"), Id("b"))),
				Def("inarr", Bin("==", Arr(Id("a")), Arr(Id("b"))))))
		}
	}
	return ps
}

func init() {
	wrap := func(f func() []*Program) func(int64, int) []*Program {
		return func(seed int64, n int) []*Program {
			ps := f()
			if n > 0 && n < len(ps) {
				// deterministic stride sample (quick tier); n <= 0 means everything
				out := make([]*Program, 0, n)
				step := float64(len(ps)) / float64(n)
				off := float64(int(seed) % 997)
				for i := 0; i < n; i++ {
					out = append(out, ps[int(off+float64(i)*step)%len(ps)])
				}
				return out
			}
			return ps
		}
	}
	families["m-ops"] = wrap(opsMatrix)
	families["m-index"] = wrap(indexMatrix)
	families["m-builtin"] = wrap(builtinMatrix)
	families["m-call"] = wrap(callMatrix)
	families["m-closure"] = wrap(closureMatrix)
	families["m-assign"] = wrap(assignMatrix)
	families["m-equal"] = wrap(equalMatrix)
}
