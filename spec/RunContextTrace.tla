------------------------- MODULE RunContextTrace -------------------------
(***************************************************************************)
(* Trace validation for RunContext.  A trace is the sequence of hook       *)
(* events of one real execution (two rounds), totally ordered by a         *)
(* sequence number taken inside the hook.  A hook sits inside one process  *)
(* between two of its actions, so at the instant of the hook that process  *)
(* is at a known label; every other process is wherever it is.  Hence an   *)
(* event is an *observation* (a guard on the current state that consumes   *)
(* one line and changes nothing), and the specification's own actions run  *)
(* silently in between.  The only event that is an action is "cancel": the *)
(* harness logs it immediately before calling cancel().                    *)
(*                                                                         *)
(*   event            hook site (script.go / vm.go)         guard          *)
(*   runnerStart      goroutine entry                       pc.runner = r_entry *)
(*   step i           run(): after v.ip++, before dispatch  pc.runner = r_step, i-1 done *)
(*   finished r       VM.Run after run() / deferred exit    pc.runner = r_send, r *)
(*   afterAbort       after v.Abort()                       pc.caller = c_drain *)
(*   callerRet res    before return                         pc.caller = c_ret, result *)
(***************************************************************************)
EXTENDS RunContext, Json, FiniteSets

Traces == ndJsonDeserialize("traces.ndjson")

VARIABLES tr, l

Ev == Traces[tr].ev
Min(a, b) == IF a < b THEN a ELSE b

TraceInit == /\ Init
             /\ tr \in 1..Len(Traces)
             /\ Shape = Traces[tr].shape
             /\ NSteps = Traces[tr].n
             /\ l = 1

Silent == (caller \/ runner) /\ UNCHANGED <<tr, l>>

Holds(e) ==
  CASE e.e = "runnerStart" -> pc["runner"] = "r_entry"
    [] e.e = "step"        -> pc["runner"] = "r_step" /\ steps = Min(e.i - 1, MaxSteps)
    [] e.e = "finished"    -> pc["runner"] = "r_send" /\ r = e.r
    [] e.e = "afterAbort"  -> pc["caller"] = "c_drain"
    [] e.e = "callerRet"   -> pc["caller"] = "c_ret" /\ results[Len(results)] = e.res
    [] OTHER -> FALSE

Observe == /\ l <= Len(Ev)
           /\ Ev[l].e # "cancel"
           /\ Holds(Ev[l])
           /\ l' = l + 1
           /\ UNCHANGED <<vars, tr>>

Cancel == /\ l <= Len(Ev)
          /\ Ev[l].e = "cancel"
          /\ env /\ ctxDone'
          /\ l' = l + 1
          /\ UNCHANGED tr

TraceNext == Silent \/ Observe \/ Cancel
TraceSpec == TraceInit /\ [][TraceNext]_<<vars, tr, l>>

(* Acceptance: register 1 collects the traces that were consumed completely. *)
Consumed == IF l > Len(Ev) THEN TLCSet(1, TLCGet(1) \cup {tr}) /\ FALSE ELSE TRUE
RegInit == TLCSet(1, {})
ASSUME RegInit
AllAccepted ==
  LET missing == (1..Len(Traces)) \ TLCGet(1) IN
  IF missing = {} THEN TRUE
  ELSE PrintT(<<"REJECTED", ToJson([ids |-> {Traces[i].id : i \in missing}])>>) /\ FALSE
=============================================================================
