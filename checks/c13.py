"""C13 Modules are isolated, immutable to importers, and acyclic.

E: Modules.tla - the import-graph compilation algorithm (cycle check along the parent
   chain, root cache, store at every level) over *every* graph of up to N modules with
   ordered import lists: terminates; fails exactly when a cycle is reachable from main;
   every reachable module compiled once; the parent chain is a simple path.  TengoSem
   for the run-time half (module environment has builtins only; export made immutable;
   undefined without export; body re-run per evaluation of import).
R: every graph TLC enumerated is compiled by the real compiler (source modules whose
   bodies are exactly the import lists): ok/cyclic verdict and per-module compile counts
   (files added to the FileSet) must equal what the model says.  The 'modules' program
   family is run against TengoSem.  With file import disabled, path-like names next to
   decoy .tengo files must fail with 'not found'.
"""
import json

import semcmp
import semlib
import vlib

CFG = """SPECIFICATION Spec
CONSTANTS
  Mods = {%s}
  MaxImports = %d
INVARIANTS Safety Emit
PROPERTY Terminates
"""


def run(ck):
    quick = ck.quick()
    mods, maxi = (('"a", "b", "c"', 2) if quick else ('"a", "b", "c", "d"', 2))
    r = ck.tlc("Modules", CFG % (mods, maxi), workers=16, name="graphs", timeout=3000, xmx="14g")
    if r.violated:
        raise vlib.Infra("Modules.tla violates %s:\n%s" % (r.violated, r.stdout[-3000:]))
    graphs = r.tagged("GRAPH")
    ck.log("Modules.tla: %d states, %d graphs" % (r.distinct, len(graphs)))
    # every graph is compiled twice: with the model's module names, and with names that are path-like aliases of one another
    # ("m", "./m", "lib/../m", "m/.") - distinct entries of the module map that must stay distinct modules
    ALIAS = {"a": "m", "b": "./m", "c": "lib/../m", "d": "m/."}
    cases = [{"id": i, "imports": g["imports"]} for i, g in enumerate(graphs)]
    cases += [{"id": len(graphs) + i, "imports": g["imports"], "rename": ALIAS} for i, g in enumerate(graphs)]
    # ... and under names that differ only in letter case
    CASEALIAS = {"a": "Mod", "b": "mod", "c": "MOD", "d": "mOd"}
    cases += [{"id": 2 * len(graphs) + i, "imports": g["imports"], "rename": CASEALIAS} for i, g in enumerate(graphs)]
    # ... and with every module's last import standing after its export statement: code that never runs is compiled all the same,
    # and a cycle or a missing module there is as much an error as anywhere else
    cases += [{"id": 3 * len(graphs) + i, "imports": g["imports"], "late": True} for i, g in enumerate(graphs)]
    res = vlib.run_cases(ck, "modgraph", cases, nproc=12)
    ncyc = 0
    for ci, cs in enumerate(cases):
        i = ci % len(graphs)
        g = graphs[i]
        o = res[ci]
        ck.evaluations += 1
        rep = {"imports": g["imports"], "rename": cs.get("rename"), "model": {"result": g["result"], "compiles": g["compiles"]}, "real": o}
        if o.get("wrong_module"):
            ck.violation("graph-wrong-module" + (":aliases" if cs.get("rename") else ""), "import graph %s (names %s): %s" % (
                json.dumps(g["imports"]), cs.get("rename") or "as in the model", o["wrong_module"]), rep)
            continue
        if o.get("hang") or o.get("died") or o.get("result") == "panic":
            ck.violation("graph-host-down", "compiling an import graph did not return: %s" % json.dumps(g["imports"]), rep)
            continue
        if o["result"] != g["result"]:
            ck.violation("graph-verdict:" + g["result"], "import graph %s: model says %s, compiler says %s (%s)" % (
                json.dumps(g["imports"]), g["result"], o["result"], o.get("msg", "").split("\n")[0]), rep)
            continue
        if g["result"] == "ok":
            if o["compiles"] != g["compiles"]:
                ck.violation("graph-compile-count", "import graph %s: modules compiled %s, expected %s" % (
                    json.dumps(g["imports"]), o["compiles"], g["compiles"]), rep)
                continue
            if o.get("run_error"):
                ck.violation("graph-run", "acyclic import graph fails at run time: %s" % o["run_error"], rep)
                continue
        else:
            ncyc += 1
        ck.traces += 1
        ck.note_distinct(json.dumps(g["imports"], sort_keys=True))
    ck.extra["graphs"] = len(graphs)
    ck.extra["cyclic_graphs"] = ncyc
    ck.exhaustive = True
    # ---- run-time half: modules family vs TengoSem
    progs = semlib.generate(ck, "modules", 150 if quick else 4000)
    for i, p in enumerate(progs):
        p["id"] = i + 1
    outs = semlib.tlc_outcomes(ck, progs, njobs=10)
    real = semlib.real_outcomes(ck, progs, nproc=8)
    agree = 0
    for p in progs:
        v, det = semcmp.compare(outs[p["id"]], real[p["id"]])
        ck.evaluations += 1
        if v == "disagree":
            ck.violation("sem:" + str(p.get("cell")), "module program disagrees with TengoSem: expected %s, got %s\n%s\nmodules: %s" % (
                det["expected"], det["got"], p["src"], json.dumps(p["mods"])), {"program": p, "model": outs[p["id"]], "real": real[p["id"]]})
        elif v == "host_down":
            ck.violation("host-down", "module program took the host down: %s\n%s" % (real[p["id"]], p["src"]), {"program": p})
        elif v == "agree":
            agree += 1
            ck.traces += 1
    ck.extra["module_programs_agree"] = agree
    # ---- isolation matrix: where the import expression stands in the importer x what the imported module refers to
    icases = []
    refs = {"importer-global": ("ig", False), "importer-function-local": ("loc", False), "importer-parameter": ("par", False),
            "importer-block-local": ("blk", False), "main-global": ("mg", False), "builtin": ("len", True), "own": ("mine", True)}
    places = {
        "top": "%s",
        "block": "if true {\n  blk := 4\n  %s\n}",
        "function": "fn := func(par) {\n  loc := 3\n  %s\n  return 0\n}\nfn(1)",
        "nested-function": "fn := func(par) {\n  loc := 3\n  return func() {\n    blk := 4\n    %s\n    return 0\n  }()\n}\nfn(1)",
        "loop-in-function": "fn := func(par) {\n  loc := 3\n  for blk := 0; blk < 1; blk++ {\n    %s\n  }\n  return 0\n}\nfn(1)",
    }
    for importer in ("main", "module"):
        for place, tmpl in places.items():
            for rname, (ident, legal) in refs.items():
                inner = "mine := 1\nexport %s\n" % (ident if ident != "len" else "len([1])")
                body = "ig := 2\n" + (tmpl % 'got := import("inner")') + "\n"
                if importer == "main":
                    prog = {"src": "mg := 1\n" + body, "mods": [{"name": "inner", "src": inner}]}
                else:
                    prog = {"src": 'mg := 1\nouter := import("outer")\n', "mods": [{"name": "outer", "src": body + "export 0\n"}, {"name": "inner", "src": inner}]}
                prog.update({"id": len(icases) + 1, "inputs": [], "legal": legal, "tag": "%s/%s/%s" % (importer, place, rname)})
                icases.append(prog)
    ireal = semlib.real_outcomes(ck, icases, nproc=6)
    for c in icases:
        o = ireal[c["id"]]
        ck.evaluations += 1
        rep = {"case": c, "real": o}
        if o.get("k") in ("host_down", "timeout"):
            ck.violation("isolation-host-down:" + c["tag"], "isolation case %s did not return: %s" % (c["tag"], str(o)[:300]), rep)
        elif c["legal"] and o.get("k") != "ok":
            ck.violation("isolation-rejected:" + c["tag"], "module referring to %s must compile and run (%s): %s" % (c["tag"].split("/")[2], c["tag"], str(o.get("msg"))[:200]), rep)
        elif not c["legal"] and not (o.get("k") == "compile_error" and o.get("kind") == "unresolved_reference"):
            ck.violation("isolation-leak:" + c["tag"].split("/")[2] + ":" + c["tag"].split("/")[1], "the imported module refers to a name of its importer (%s) and is not rejected as unresolved: %s" % (
                c["tag"], str(o)[:300]), rep)
        else:
            ck.traces += 1
    ck.extra["isolation_cases"] = len(icases)
    # ---- the value of an import expression is the module that was asked for: embedder-supplied plain objects without a module name
    ucases = [
        {"id": 1, "src": 'a := import("cfgA")\nb := import("cfgB")\na2 := import("cfgA")\nc := import("cfgC")\nout := [a.id, b.id, a2.id, c.id, a.n + b.n + c.n]\n', "mods": []},
        {"id": 2, "src": 'm := import("inner")\nb := import("cfgB")\nout := [m.a.id, m.b.id, b.id, m.c.n]\n',
         "mods": [{"name": "inner", "src": 'export {a: import("cfgA"), b: import("cfgB"), c: import("cfgC")}\n'}]},
        {"id": 3, "src": 'f := func() { return import("cfgB") }\ng := func() { return import("cfgA") }\nout := [g().id, f().id, f().n]\n', "mods": []},
    ]
    want = {1: ["A", "B", "A", "A", 4], 2: ["A", "B", "B", 1], 3: ["A", "B", 2]}
    for c in ucases:
        c["inputs"] = []
    ureal = semlib.real_outcomes(ck, ucases, nproc=2, extra={"weird": "two-unnamed"})
    for c in ucases:
        o = ureal[c["id"]]
        ck.evaluations += 1
        got = None
        if o.get("k") == "ok":
            g = dict((n, v) for n, v in o["g"])
            got = [(bytes(e["b"]).decode() if e["k"] == "string" else e.get("n")) for e in g["out"]["e"]]
        if got != want[c["id"]]:
            ck.violation("import-yields-other-module", "imports of embedder-supplied unnamed modules yield %s, expected %s\n%s" % (got if got is not None else str(o)[:200], want[c["id"]], c["src"]), {"case": c, "real": o})
        else:
            ck.traces += 1
    # ---- file import disabled: names resolve from the module map only
    fcases = []
    names = ["m", "./m", "../m", "sub/m", "{dir}/m", "{dir}/sub/m", "m.tengo", "./m.tengo", "{dir}/m.tengo", "decoy", "../decoy", "/etc/passwd", ""]
    for nm in names:
        for setdir in (False, True):
            fcases.append({"id": len(fcases), "name": nm, "enable": False, "inmap": False, "setdir": setdir})
            if nm:
                fcases.append({"id": len(fcases), "name": nm, "enable": False, "inmap": True, "setdir": setdir})
                fcases.append({"id": len(fcases), "name": nm, "enable": True, "inmap": True, "setdir": setdir})
    # look-alikes of the import name in the module map (the name without / with the .tengo suffix, other case, cleaned path) are other modules
    for nm, near in (("m.tengo", ["m"]), ("lib.tengo", ["lib"]), ("m", ["m.tengo"]), ("./m", ["m"]), ("m", ["./m", "M"]), ("M", ["m"]), ("sub/m", ["m", "sub/m.tengo"]),
                     ("m.tengo.tengo", ["m.tengo", "m"]), ("m/", ["m"]), (" m", ["m"])):
        for nested in (False, True):
            fcases.append({"id": len(fcases), "name": nm, "enable": False, "inmap": False, "setdir": False, "near": near, "nested": nested})
    fres = vlib.run_cases(ck, "fileimport", fcases, nproc=4, env={"VERIF_SCRATCH_DIR": ck.scratch})
    for c in fcases:
        o = fres[c["id"]]
        ck.evaluations += 1
        if o.get("result") == "panic" or o.get("died") or o.get("hang"):
            ck.violation("fileimport-host-down", "import(%r) did not return" % c["name"], {"case": c, "real": o})
        elif c["inmap"]:
            if o.get("result") != "ok" or "FROM-MAP" not in o.get("out", ""):
                ck.violation("fileimport-map", "import(%r) present in the module map did not yield the map's module: %s" % (c["name"], o),
                             {"case": c, "real": o})
            else:
                ck.traces += 1
        else:
            if o.get("result") == "ok":
                ck.violation("fileimport-leak", "file import is disabled but import(%r) resolved to %s" % (o.get("name"), o.get("out")),
                             {"case": c, "real": o})
            elif o["result"] not in ("error:module_not_found", "error:empty_module_name"):
                ck.violation("fileimport-error", "import(%r) with file import disabled failed with %s instead of 'not found'" % (
                    c["name"], o.get("msg")), {"case": c, "real": o})
            else:
                ck.traces += 1
    # graphs that mix module-map and file modules (file import enabled, import directory != working directory, decoys in the latter):
    # map modules resolve files from the import directory, file modules from their own directory, and the working directory never counts
    mixed = [("lib", "FROM-HELPER"), ("a", "FROM-LIB2"), ("e", "FROM-D"), ("nested/c", "FROM-D"), ("lib3", '["FROM-LIB2", "FROM-HELPER", "FROM-LIB2"]'),
             ("helper", "FROM-HELPER"), ("d", "FROM-OUTER-D"),
             # exports are immutable wherever the module came from; a copy of the module map modified afterwards leaves the original alone
             ("@immut", '["immutable-map", "immutable-map", "immutable-array", "immutable-array", true, true]'),
             ("@immut-write-file", "ERROR:not index-assignable"), ("@immut-write-file-array", "ERROR:not index-assignable"),
             ("@copy-secret", "ERROR:module 'secret' not found"), ("@copy-kept", "FROM-LIB2")]
    mcases = [{"id": i, "main": m} for i, (m, _) in enumerate(mixed)]
    mres = vlib.run_cases(ck, "mixedimport", mcases, nproc=2, env={"VERIF_SCRATCH_DIR": ck.scratch})
    for c, (m, want) in zip(mcases, mixed):
        o = mres[c["id"]]
        ck.evaluations += 1
        if o.get("error") and "result" not in o:
            raise vlib.Infra("mixedimport driver: %s" % o["error"])
        if want.startswith("ERROR:"):
            if o.get("result") != "error" or want[6:] not in o.get("msg", ""):
                ck.violation("mixed-import:" + m, "scenario %r must fail with %r, got %s %s" % (m, want[6:], o.get("result"), o.get("out") or o.get("msg")), {"case": c, "real": o})
            else:
                ck.traces += 1
            continue
        if o.get("result") != "ok" or o.get("out", "").strip('"') != want.strip('"'):
            ck.violation("mixed-import:" + m, "main imports %r in a graph mixing module-map and file modules: expected %s, got %s %s" % (
                m, want, o.get("result"), o.get("out") or o.get("msg")), {"case": c, "real": o})
        else:
            ck.traces += 1
    ck.extra["file_import_cases"] = len(fcases)
    ck.add_sample({"graph": graphs[len(graphs) // 2]["imports"], "result": graphs[len(graphs) // 2]["result"]})
    ck.rule = ("all import graphs over the module set with ordered import lists up to MaxImports (exhaustive); distinct = distinct graphs "
               "whose real verdict and compile counts equal the model's; plus the modules program family and file-import decoys")
    ck.assumptions = ["a module is compiled once iff one file of that name is added to the FileSet"]


def replay(ck, path):
    rep = json.load(open(path))["replay"]
    print(json.dumps(rep, indent=1)[:3000])
    return 0
