package main

import (
	"context"
	"encoding/base64"
	"encoding/json"
	"fmt"
	"strings"
	"time"

	"github.com/d5/tengo/v2"
	"github.com/d5/tengo/v2/parser"
	"github.com/d5/tengo/v2/stdlib"
)

// total: arbitrary bytes through every public entry point (parser, compiler, Script.Compile incl.
// RemoveDuplicates, Script.RunContext) under every configuration; each must return a value or an
// error, and every position named in an error must lie inside the offending input.
type totalCase struct {
	ID      int    `json:"id"`
	B64     string `json:"b64"`
	Src     string `json:"src"`
	AsMod   bool   `json:"asmod"`   // the bytes are the body of a source module imported by a fixed main program
	Imports bool   `json:"imports"` // a module map (stdlib + source modules) is configured
	FileImp bool   `json:"fileimp"` // EnableFileImport(true)
	Vars    bool   `json:"vars"`    // pre-declared variables a, b, c, x, len-shadowing
	Run     bool   `json:"run"`
	Weird   string `json:"weird"` // a custom Importable named "weird" returning this kind of value
}

type weirdImportable struct{ kind string }

func (w weirdImportable) Import(name string) (interface{}, error) {
	switch w.kind {
	case "map":
		return &tengo.Map{Value: map[string]tengo.Object{"a": &tengo.Int{Value: 1}}}, nil
	case "array":
		return &tengo.Array{Value: []tengo.Object{&tengo.Int{Value: 1}}}, nil
	case "int":
		return &tengo.Int{Value: 7}, nil
	case "immutable-map-noname":
		return &tengo.ImmutableMap{Value: map[string]tengo.Object{"a": &tengo.Int{Value: 1}}}, nil
	case "undefined":
		return tengo.UndefinedValue, nil
	case "bytes-src":
		return []byte("export 5"), nil
	case "error":
		return nil, fmt.Errorf("custom importable failed")
	}
	return &tengo.String{Value: "s"}, nil
}

func posOK(msg string, files map[string]string) (bool, string) {
	for _, p := range parsePositions(msg, files) {
		src, known := files[p.File]
		if !known {
			if p.File == "" || p.File == "-" {
				continue
			}
			return false, fmt.Sprintf("position in unknown file %q", p.File)
		}
		lines := strings.Split(src, "\n")
		if p.Line < 1 || p.Line > len(lines) {
			return false, fmt.Sprintf("line %d outside the input (%d lines)", p.Line, len(lines))
		}
		if p.Col < 1 || p.Col > len(lines[p.Line-1])+2 {
			return false, fmt.Sprintf("column %d outside line %d (length %d)", p.Col, p.Line, len(lines[p.Line-1]))
		}
	}
	return true, ""
}

func totalHandle(raw []byte) map[string]interface{} {
	var c totalCase
	if err := json.Unmarshal(raw, &c); err != nil {
		return map[string]interface{}{"error": err.Error()}
	}
	input := []byte(c.Src)
	if c.B64 != "" {
		b, err := base64.StdEncoding.DecodeString(c.B64)
		if err != nil {
			return map[string]interface{}{"error": err.Error()}
		}
		input = b
	}
	out := map[string]interface{}{}
	step := func(name string, f func() (string, error)) bool {
		res := ""
		func() {
			defer func() {
				if r := recover(); r != nil {
					res = "panic:" + fmt.Sprint(r)
				}
			}()
			r, err := f()
			if err != nil {
				res = "err"
				if len(r) > 0 {
					res = "err:" + r
				}
			} else {
				res = "ok"
			}
		}()
		out[name] = res
		return !strings.HasPrefix(res, "panic:")
	}
	mainSrc := input
	files := map[string]string{"(main)": string(input), "t": string(input)}
	// 1. parser alone
	step("parse", func() (string, error) {
		fs := parser.NewFileSet()
		f := fs.AddFile("t", -1, len(input))
		p := parser.NewParser(f, input, nil)
		_, err := p.ParseFile()
		if err != nil {
			if ok, why := posOK(err.Error(), files); !ok {
				return "badpos " + why + " in " + firstLine(err.Error()), err
			}
		}
		return "", err
	})
	// 2. Script.Compile (parser + compiler + RemoveDuplicates) under the configuration
	mm := tengo.NewModuleMap()
	if c.Imports {
		mm = stdlib.GetModuleMap(stdlib.AllModuleNames()...)
		mm.AddSourceModule("m1", []byte("export {f: func(x) { return x + 1 }, v: [1, 2]}"))
		mm.AddSourceModule("m2", []byte("m1 := import(\"m1\"); export m1.f(2)"))
	}
	if c.AsMod {
		mm.AddSourceModule("victim", input)
		mainSrc = []byte("v := import(\"victim\")\nw := import(\"victim\")\n")
		files = map[string]string{"(main)": string(mainSrc), "victim": string(input)}
	}
	if c.Weird != "" {
		mm.Add("weird", weirdImportable{c.Weird})
	}
	s := tengo.NewScript(mainSrc)
	s.SetImports(mm)
	s.EnableFileImport(c.FileImp)
	if c.Vars {
		for _, n := range []string{"a", "b", "c", "x", "f"} {
			_ = s.Add(n, 1)
		}
		_ = s.Add("arr", []interface{}{1, 2})
		_ = s.Add("len", 7)
	}
	var comp *tengo.Compiled
	ok := step("compile", func() (string, error) {
		var err error
		comp, err = s.Compile()
		if err != nil {
			if ok, why := posOK(err.Error(), files); !ok {
				return "badpos " + why + " in " + firstLine(err.Error()), err
			}
		}
		return "", err
	})
	if ok && comp != nil && c.Run {
		step("run", func() (string, error) {
			ctx, cancel := context.WithTimeout(context.Background(), 300*time.Millisecond)
			defer cancel()
			err := comp.RunContext(ctx)
			if err != nil && err != context.DeadlineExceeded {
				if ok, why := posOK(err.Error(), files); !ok {
					return "badpos " + why + " in " + firstLine(err.Error()), err
				}
			}
			return "", err
		})
	}
	return out
}

func firstLine(s string) string {
	if i := strings.Index(s, "\n"); i >= 0 {
		s = s[:i]
	}
	if len(s) > 120 {
		s = s[:120]
	}
	return s
}

func init() {
	register("total", "arbitrary source bytes through parser / compiler / Script under configurations", func(args []string) error {
		return runCases(20*time.Second, totalHandle)
	})
}

func init() {
	register("munch", "scan operator strings", func(args []string) error {
		return runCases(20*time.Second, func(raw []byte) map[string]interface{} {
			var c struct {
				S string `json:"s"`
			}
			_ = json.Unmarshal(raw, &c)
			toks, _, _ := scanAll(c.S)
			var out []string
			for _, t := range toks {
				if t == "EOF" || t == ";" {
					continue
				}
				out = append(out, t)
			}
			if out == nil {
				out = []string{}
			}
			return map[string]interface{}{"toks": out}
		})
	})
}
