"""C04 Scanner, parser and compiler are total on arbitrary source bytes.

E: SourceSpace.tla - the token-level input space: TLC enumerates every token sequence up to the length
   bound over the complete token alphabet; the maximal-munch table of the operator characters (every
   string over them up to the bound, with the token sequence implied by the documented operator set);
   the table of static errors.
R: every enumerated sequence - and every single-token mutation (delete, duplicate, swap, replace by each
   token class) of valid generated programs, every string over ~30 byte classes (NUL, BOM, invalid
   UTF-8, quotes, backslash ...) up to a length bound, static-error constructs in every scope position,
   oversized inputs (1024+ globals, 300 locals, deep nesting) - goes through parser.ParseFile,
   Script.Compile (compiler + RemoveDuplicates) and Script.RunContext under the configurations
   {main, module body} x {module map on/off} x {file import on/off} x {pre-declared variables}, in child
   processes with a deadline.
O: a value or an error - a panic, a fatal error or a hang is the violation - and every position named
   in an error lies inside the offending input; operator strings must scan to the munch table's tokens;
   static errors must be compile errors of the stated class.
"""
import base64
import itertools
import json
import random

import semlib
import vlib

CFG = "SPECIFICATION Spec\nCONSTANTS\n  MaxLen = %d\n  Mode = \"%s\"\nINVARIANTS EmitTokens EmitMunch EmitStatic\n"

BYTE_CLASSES = [b"a", b"Z", b"_", b"0", b"7", b"9", b".", b"e", b"x", b"\"", b"'", b"`", b"\\", b"\n", b"\r", b" ", b"\t", b"/", b"*", b"+", b"-", b"=",
                b":", b";", b"(", b")", b"[", b"]", b"{", b"}", b",", b"?", b"!", b"&", b"|", b"<", b"\x00", b"\xef\xbb\xbf", b"\x80", b"\xc3", b"\xc3\xa9",
                b"\xe4\xb8\x96", b"\xf0\x9f\x98\x80", b"\xff", b"#", b"$", b"@", b"~",
                # other Unicode categories: decimal digits of other scripts, fullwidth digit/letter, combining mark, no-break / zero-width
                # space, line separator, a letter-number, a superscript digit
                b"\xd9\xa3", b"\xef\xbc\x91", b"\xef\xbd\x81", b"\xcc\x81", b"\xc2\xa0", b"\xe2\x80\x8b", b"\xe2\x80\xa8", b"\xe2\x85\xa7", b"\xc2\xb2"]

STATIC = {
    "unresolved_read": "r := nope + 1",
    "unresolved_assign": "nope = 1",
    "redeclare_same_block": "q := 1\nq := 2",
    "define_with_selector": "q := {}\nq.a := 1",
    "tuple_define": "q, r2 := 1, 2",
    "tuple_assign": "q := 1\nq, q = 1, 2",
    "break_outside_loop": "break",
    "continue_outside_loop": "continue",
    "break_in_function_in_loop": "for i := 0; i < 1; i++ { g := func() { break } }",
    "assign_to_builtin": "len = 5",
    "return_top": "return 1",
    "return_in_block": "if true { return 1 }",
    "return_in_loop": "for { return }",
    "return_in_nested_blocks": "for q in [1] { if q { return q } else { return } }",
    "export_in_function": "export 5",
    "import_unknown": "q := import(\"no_such_module\")",
    "import_empty": "q := import(\"\")",
}


def place(code, where):
    ind = lambda s: "\n".join("  " + l for l in s.split("\n"))
    if where == "top":
        return code + "\n"
    if where == "block":
        return "if true {\n" + ind(code) + "\n}\n"
    if where == "func":
        return "f := func() {\n" + ind(code) + "\n}\nf()\n"
    if where == "nested":
        return "f := func() {\n  g := func() {\n" + ind(ind(code)) + "\n  }\n  return g()\n}\nf()\n"
    if where == "loop-func":
        return "for k := 0; k < 1; k++ {\n  h := func() {\n" + ind(ind(code)) + "\n  }\n}\n"
    return code


def run(ck):
    quick = ck.quick()
    rnd = random.Random(ck.seed)
    cases = []

    def add(src=None, raw=None, tag="", **cfg):
        c = {"id": len(cases), "tag": tag}
        if raw is not None:
            c["b64"] = base64.b64encode(raw).decode()
        else:
            c["src"] = src
        c.update(cfg)
        cases.append(c)
    # ---- (1) token sequences from TLC
    r = ck.tlc("SourceSpace", CFG % (2 if quick else 3, "tokens"), workers=8, name="tokens", timeout=3000, xmx="12g")
    seqs = [t["w"] for t in r.tagged("TOKS")]
    static = r.tagged("STATIC")[0]
    for w in seqs:
        src = " ".join("\n" if t == "NL" else t for t in w)
        add(src=src, tag="tokens", run=True)
        if len(w) <= (2 if quick else 2):
            add(src=src, tag="tokens/module", asmod=True, run=True)
            add(src=src, tag="tokens/vars", vars=True, imports=True, run=True)
    # length-3 sequences: a seeded sample in the quick tier (all of them in the thorough tier, from TLC)
    if quick:
        toks = sorted({t for w in seqs for t in w})
        for _ in range(25000):
            w = [rnd.choice(toks) for _ in range(rnd.choice([3, 3, 4, 5]))]
            add(src=" ".join("\n" if t == "NL" else t for t in w), tag="tokens/sampled", run=True)
    # ---- (2) operator maximal munch
    m = ck.tlc("SourceSpace", CFG % (3 if quick else 4, "munch"), workers=8, name="munch", timeout=3000, xmx="12g")
    munch = m.tagged("MUNCH")
    mcases = [{"id": i, "kind": "munch", "s": "".join(t["w"])} for i, t in enumerate(munch)]
    # ---- (3) single-token mutations of valid programs
    base = []
    for fam, k in (("random", 12 if quick else 150), ("dce", 6 if quick else 60), ("shapes", 30 if quick else 400), ("modules", 6 if quick else 60)):
        base += [p["src"] for p in semlib.generate(ck, fam, k)]
    alltoks = ["a", "1", "\"s\"", ":=", "=", "+", "(", ")", "[", "]", "{", "}", ",", ".", ";", "\n", "func", "if", "else", "for", "in", "return", "break",
               "continue", "export", "import", "error", "immutable", "?", ":", "...", "++", "&&", "!", "undefined", "'c'", "1.5", "/*", "//", "`"]
    import re
    tokre = re.compile(r'"(?:[^"\\\n]|\\.)*"|\'(?:[^\'\\\n]|\\.)*\'|[A-Za-z_][A-Za-z_0-9]*|\d+\.\d+|\d+|:=|\+=|-=|\*=|==|!=|<=|>=|&&|\|\||\+\+|--|\.\.\.|<<|>>|&\^|\n|\S')
    nmut = 0
    for src in base:
        toks = tokre.findall(src)
        if len(toks) > 120:
            toks = toks[:120]
        idx = list(range(len(toks)))
        rnd.shuffle(idx)
        for i in idx[: (12 if quick else 60)]:
            muts = [toks[:i] + toks[i + 1:], toks[:i] + [toks[i]] + toks[i:]]
            if i + 1 < len(toks):
                muts.append(toks[:i] + [toks[i + 1], toks[i]] + toks[i + 2:])
            for t in (rnd.sample(alltoks, 6) if quick else alltoks):
                muts.append(toks[:i] + [t] + toks[i + 1:])
            for mt in muts:
                add(src=" ".join(mt).replace(" \n ", "\n"), tag="mutation", run=True, imports=True)
                nmut += 1
    # ---- (4) byte-class strings
    n = 2 if quick else 3
    for k in range(1, n + 1):
        for tup in itertools.product(BYTE_CLASSES, repeat=k):
            add(raw=b"".join(tup), tag="bytes", run=False)
    for _ in range(4000 if quick else 200000):
        add(raw=b"".join(rnd.choice(BYTE_CLASSES) for _ in range(rnd.randint(3, 12))), tag="bytes/sampled", run=False)
    for _ in range(300 if quick else 5000):
        add(raw=b"x := " + b"".join(rnd.choice(BYTE_CLASSES) for _ in range(rnd.randint(1, 8))) + b"\ny := 1\n", tag="bytes/embedded", run=True)
        add(raw=b"".join(rnd.choice(BYTE_CLASSES) for _ in range(rnd.randint(1, 8))), tag="bytes/module", asmod=True, run=True)
    # ---- (5) static errors in every scope position and configuration
    scases = []
    for name, code in STATIC.items():
        for where in ("top", "block", "func", "nested", "loop-func"):
            if name.startswith("return_") and where not in ("top", "block"):
                continue  # a return inside a function body is legal
            if name.startswith("export_") and where in ("top", "block"):
                continue  # export at module level is legal
            for asmod in (False, True):
                if asmod and name.startswith("return_"):
                    continue  # a module body is compiled as a function body: return is legal there
                c = {"id": len(cases), "tag": "static:" + name, "src": place(code, where), "asmod": asmod, "imports": False, "run": False, "static": name, "where": where}
                cases.append(c)
                scases.append(c)
    # ---- (6) inputs at the static limits
    add(src="".join("g%d := %d\n" % (i, i) for i in range(1023)), tag="limit:1023-globals", run=True)
    add(src="".join("g%d := %d\n" % (i, i) for i in range(1024)), tag="limit:1024-globals", run=True)
    add(src="".join("g%d := %d\n" % (i, i) for i in range(1030)), tag="limit:1030-globals", run=True)
    add(src="f := func() {\n" + "".join("  v%d := %d\n" % (i, i) for i in range(300)) + "  return v0 + v299\n}\nr := f()\n", tag="limit:300-locals", run=True)
    add(src="f := func(" + ", ".join("p%d" % i for i in range(300)) + ") { return p0 }\nr := f(" + ", ".join("1" for i in range(300)) + ")\n", tag="limit:300-params", run=True)
    add(src="r := " + "(" * 190 + "1" + ")" * 190 + "\n", tag="limit:nesting-190", run=True)
    add(src="r := " + "[" * 190 + "]" * 190 + "\n", tag="limit:array-nesting-190", run=True)
    add(src="r := " + "".join("%d + " % i for i in range(3000)) + "0\n", tag="limit:3000-operands", run=True)
    add(src="f := func() { return " + "func() { return " * 150 + "1" + " }" * 150 + " }\n", tag="limit:func-nesting-150", run=True)
    add(src="m := {" + ", ".join("k%d: %d" % (i, i) for i in range(40000)) + "}\n", tag="limit:40000-map-keys", run=True)
    add(src="x := 1\n" * 20000, tag="limit:20000-redeclare", run=False)
    add(src="a := [" + ", ".join("%d" % i for i in range(70000)) + "]\n", tag="limit:70000-elements", run=True)
    # ---- (6b) list arities: every construct with a list slot, with 0..4 items, trailing/leading/double separators and a
    # variadic marker in every position (a parser that handles "one or two" items must say something about three)
    def lists(items, sep=", "):
        out = []
        for n in range(0, 5):
            base = items[:n]
            out.append(sep.join(base))
            if n:
                out += [sep.join(base) + sep.strip(), sep.strip() + sep.join(base), (sep + sep.strip() + " ").join(base)]
                for k in range(n):
                    out.append(sep.join(base[:k] + ["..." + base[k]] + base[k + 1:]))
                    out.append(sep.join(base[:k] + [base[k] + "..."] + base[k + 1:]))
        return out
    ids = ["a", "b", "c", "d"]
    vals = ["1", "x", "[2]", '"s"']
    for l in lists(ids):
        add(src="x := [1]\nfor %s in x {}\n" % l, tag="arity:forin", run=True)
        add(src="f := func(%s) { return 1 }\nr := f(1, 2)\n" % l, tag="arity:params", run=True)
        add(src="%s := 1\n" % l, tag="arity:define", run=True)
        add(src="a := 0; b := 0; c := 0; d := 0\n%s = 1\n" % l, tag="arity:assign", run=True)
        add(src="export {%s}\n" % l, tag="arity:export-map", asmod=True, run=True)
    for l in lists(vals):
        add(src="x := 0\nf := func(...r) { return r }\nr := f(%s)\n" % l, tag="arity:args", run=True)
        add(src="x := 0\nr := [%s]\n" % l, tag="arity:array", run=True)
        add(src="x := 0\na := 1, %s\n" % l, tag="arity:rhs", run=True)
        add(src="x := [1, 2, 3]\nr := x[%s]\n" % l.replace(", ", ":"), tag="arity:slice", run=True)
        add(src="x := [1, 2, 3]\nr := x[%s]\n" % l, tag="arity:index", run=True)
        add(src="x := 0\nr := {%s}\n" % ", ".join("k%d: %s" % (i, v) for i, v in enumerate(l.split(", ")) if v), tag="arity:map", run=True)
        add(src="x := 0\nreturn %s\n" % l, tag="arity:return", asmod=True, run=True)
        add(src="x := 0\nr := x ? %s\n" % l.replace(", ", " : "), tag="arity:ternary", run=True)
        add(src="x := 0\nif %s { x = 1 }\nfor %s { break }\n" % (l.replace(", ", "; "), l.replace(", ", "; ")), tag="arity:if-for-clauses", run=True)
    # ---- (6b') assignment targets: every kind of expression as the root of the left-hand side x every assignment form
    roots = ["a", "f()", "[1, 2]", '"abc"', "{k: 1}", "(a)", "1", "undefined", "true", "'c'", "func() {}", "a.b", "a[0]", "f().g()", "import(\"m\")", "error(1)",
             "immutable([1])", "(a + 1)", "-a", "a ? a : a"]
    sels = ["", ".x", "[0]", ".x.y", "[0][1]", '["k"]', ".x[0]", "[0:1]", "()", "().x"]
    forms = ["%s = 1", "%s := 1", "%s += 1", "%s++", "%s--", "%s <<= 1", "%s, b = 1, 2", "b, %s = 1, 2", "%s = %s"]
    for r_ in roots:
        for sl in sels:
            for fm in forms:
                lhs = r_ + sl
                src = "a := {x: {y: 1}, b: 2}\nf := func() { return {x: 1} }\n" + (fm % ((lhs, lhs) if fm.count("%s") == 2 else lhs)) + "\n"
                add(src=src, tag="lvalue", run=True)
    # ---- (6c) openers of multi-character tokens with every short tail (unterminated comments/strings/chars ending in the
    # characters their scanners look ahead for), and floods of scanner errors in first and in later position
    tails_alpha = [b"*", b"/", b"\r", b"\n", b"\\", b"\"", b"'", b"`", b"\x00", b"\xff", b"a", b" "]
    for opener in (b"/*", b"//", b"\"", b"`", b"'", b"/**", b"'\\", b"\"\\", b"0x", b"1e", b"#!", b"\xef\xbb\xbf"):
        for n in range(0, 4):
            for tup in itertools.product(tails_alpha, repeat=n):
                raw = opener + b"".join(tup)
                add(raw=raw, tag="opener-tail", run=False)
                if n <= 2:
                    add(raw=b"x := 1\n" + raw, tag="opener-tail/later", run=False)
                    add(raw=raw, tag="opener-tail/module", asmod=True, run=False)
    for bad in (b"\x00", b"\xff", b"\xef\xbb\xbf", b"\xc3", b"\x80"):
        for lines in (1, 9, 10, 11, 12, 13, 25):
            body = b"".join(b"line " + bad + b" x\n" for _ in range(lines))
            for wrap in (b"/*\n%s*/\nx := 1\n", b"`\n%s`\n", b"// c\n" * 0 + b"%s", b"x := `\n%s`\n", b"x := 1 /*\n%s*/\n", b"x := \"%s\"\n"):
                src = wrap.replace(b"%s", body) if b"%s" in wrap else wrap
                add(raw=src, tag="error-flood", run=False)
                add(raw=src, tag="error-flood/module", asmod=True, run=False)
            add(raw=b"".join(b"// " + bad + b"\n" for _ in range(lines)) + b"x := 1\n", tag="error-flood/line-comments", run=False)
    # ---- (6d) legal nestings of loops and function literals with break/continue at every level
    for inner in ("for { break }", "for j := 0; j < 2; j++ { continue }", "for x in [1, 2] { if x == 1 { continue }; break }"):
        for outer in ("for i := 0; i < 2; i++ { %s }", "for i in [1, 2] { %s }", "for { %s; break }"):
            for mid in ("f := func() { %s; return 1 }; f()", "f := func() { g := func() { %s }; g() }; f()", "%s"):
                add(src=(outer % (mid % inner)) + "\n", tag="nesting:loop-func-loop", run=True)
                add(src=(outer % (mid % inner)) + "\n", tag="nesting:loop-func-loop/module", asmod=True, run=True)
    # ---- (6e) unreachable code of every shape: statements after return / break / continue, with their own branches and
    #      loops inside (the optimizer removes them: jump targets inside removed code, back-jumps to removed loop heads)
    dead_stmts = ("x := 1", "for i := 0; i < 3; i++ { if i { continue } }", "for i := 0; i < 3; i++ { z := i || 2 }",
                  "for v in [1, 2] { w := v ? 1 : 2 }", "for { if q { break }; q = !q }", "for k, v in {a: 1} { if k { continue } else { break } }",
                  "if q { return 2 } else if !q { return 3 }", "w := q ? 1 : 2", "w := q && len([q])", "for { for { break }; break }",
                  "g := func() { for { if q { return 1 } } }", "if q { } else { for { break } }", "return 5", "for false { }",
                  "for i := 0; i < 2; i++ { for j in [1] { if i == j { continue }; if j { break } } }")
    dead_ctxs = ("f := func(q) { return 1; %s }\nr := f(true)", "f := func(q) { if q { return 1 } else { return 2 }; %s }\nr := f(false)",
                 "f := func(q) { for { break; %s }; return 1 }\nr := f(true)", "f := func(q) { for i := 0; i < 2; i++ { continue; %s }; return 1 }\nr := f(true)",
                 "f := func(q) { for { return 1; %s } }\nr := f(true)", "f := func(q) { return func() { return 1; %s }() }\nr := f(true)",
                 "q := true\nfor { break; %s }", "q := true\nfor i := 0; i < 2; i++ { continue; %s }",
                 "f := func(q) { if q { return 1; %s }; return 2 }\nr := f(true)", "f := func(q) { return 1; %s; %s }\nr := f(true)")
    for dctx in dead_ctxs:
        for dst in dead_stmts:
            if dst.startswith("return") and dctx.startswith("q :="):
                continue
            add(src=dctx.replace("%s", dst).replace("\\n", "\n") + "\n", tag="dead-code", run=True)
            add(src=dctx.replace("%s", dst).replace("\\n", "\n") + "\n", tag="dead-code/module", asmod=True, run=True)
    # ---- (7) embedder-supplied importables returning every kind of value
    for kind in ("map", "array", "int", "immutable-map-noname", "undefined", "bytes-src", "error", "string"):
        add(src="x := import(\"weird\")\ny := import(\"weird\")\nz := [x, y]\n", tag="importable:" + kind, weird=kind, imports=True, run=True)
        add(src="f := func() { return import(\"weird\") }\nz := [f(), f()]\n", tag="importable-in-func:" + kind, weird=kind, run=True)
    res = vlib.run_cases(ck, "total", cases, nproc=12, timeout=3000)
    mres = vlib.run_cases(ck, "syntax", [{"id": c["id"], "kind": "semi", "tc": "", "gap": ""} for c in []], nproc=1) if False else {}
    tags = {}
    for c in cases:
        o = res[c["id"]]
        ck.evaluations += 1
        shown = c.get("src") if "src" in c else repr(base64.b64decode(c["b64"]))
        rep = {"case": {k: v for k, v in c.items() if k not in ("src",)}, "input": (shown or "")[:3000], "real": o}
        if o.get("died"):
            ck.violation("fatal:" + c["tag"], "input killed the process (fatal error): %s" % shown[:300], rep)
            continue
        if o.get("hang"):
            ck.violation("hang:" + c["tag"], "scan/parse/compile did not return within the deadline: %s" % shown[:300], rep)
            continue
        if o.get("panic"):
            ck.violation("panic:" + c["tag"], "panic: %s on %s" % (o["panic"][:160], shown[:300]), rep)
            continue
        bad = [(k, v) for k, v in o.items() if isinstance(v, str) and (v.startswith("panic:") or v.startswith("err:badpos"))]
        if bad:
            what = "panic" if bad[0][1].startswith("panic:") else "position"
            ck.violation("%s:%s:%s" % (what, bad[0][0], c["tag"]), "%s in %s: %s\ninput: %s" % (what, bad[0][0], bad[0][1][:300], shown[:400]), rep)
            continue
        if "static" in c:
            want = static[c["static"]]
            got = o.get("compile", "")
            if not got.startswith("err"):
                ck.violation("static-accepted:%s:%s" % (c["static"], c["where"]), "static error %s (%s%s) was accepted by the compiler:\n%s" % (
                    c["static"], c["where"], ", module body" if c["asmod"] else "", c["src"]), rep)
                continue
        tags[c["tag"].split(":")[0]] = tags.get(c["tag"].split(":")[0], 0) + 1
        ck.traces += 1
    # operator munch through the real scanner
    mr = vlib.run_cases(ck, "munch", mcases, nproc=6)
    for i, t in enumerate(munch):
        o = mr[i]
        ck.evaluations += 1
        if o.get("toks") != t["toks"]:
            ck.violation("munch:" + "".join(t["w"])[:6], "operator string %r scans as %s, maximal munch over the documented operator set gives %s" % (
                "".join(t["w"]), o.get("toks"), t["toks"]), {"case": t, "real": o})
        else:
            ck.traces += 1
    ck.extra.update({"inputs_by_family": tags, "token_sequences_from_tlc": len(seqs), "munch_strings": len(munch), "mutations": nmut})
    ck.add_sample({"token_sequence": seqs[len(seqs) // 2], "mutation_example": cases[len(seqs) * 2 + 5].get("src", "")[:200]})
    for t in tags:
        ck.note_distinct(t)
    for c in cases[::97]:
        ck.note_distinct(json.dumps({k: c.get(k) for k in ("src", "b64", "tag")})[:300])
    ck.rule = ("token sequences (TLC), single-token mutations of valid programs, byte-class strings, static errors x scope positions x {main, module}, "
               "inputs at the static limits; non-trivial counted conservatively as distinct families plus every 97th input")
    ck.assumptions = ["'never loops' is observed as a 20 s deadline per input in a child process", "valid-program acceptance and tree shape are C20's business"]


def replay(ck, path):
    rep = json.load(open(path))["replay"]
    c = rep["case"]
    c["id"] = 0
    if "b64" not in c:
        c["src"] = rep["input"]
    print(json.dumps(vlib.run_cases(ck, "total", [c], nproc=1)[0], indent=1)[:3000])
    return 0
