package main

import (
	"fmt"
	"math/rand"
)

// Family "scopes": block-scoped variables captured by closures that escape their block through an
// outer variable, followed by sibling constructs that declare new variables (and so re-use the
// slots when the code lives in a function), shadowing of captured names, self-recursive closures in
// sibling blocks.  At top level every variable is a global; the interesting placements are produced
// by the variants of family "variants" (function body, module body, IIFE).
func scopesProgram(r *rand.Rand) *Program {
	n := 0
	nm := func(p string) string { n++; return fmt.Sprintf("%s%d", p, n) }
	var st []*Node
	st = append(st, Def("acc", Int(0)))
	var closures []string
	blocks := 1 + r.Intn(3)
	for b := 0; b < blocks; b++ {
		g := nm("g")
		st = append(st, Def(g, Undef()))
		closures = append(closures, g)
		// a block declaring 1-3 locals, exporting a closure over one or two of them
		k := 1 + r.Intn(3)
		var body []*Node
		var locals []string
		for i := 0; i < k; i++ {
			l := nm("l")
			locals = append(locals, l)
			body = append(body, Def(l, Int(int64(10*(b+1)+i))))
		}
		cap1 := locals[r.Intn(len(locals))]
		var fn *Node
		switch r.Intn(4) {
		case 0:
			fn = Fn(nil, false, Ret(Id(cap1)))
		case 1:
			fn = Fn(nil, false, Set(cap1, nil, "+=", Int(1)), Ret(Id(cap1)))
		case 2:
			fn = Fn(nil, false, Ret(Arr(Id(cap1), Id(locals[0]))))
		default:
			fn = Fn([]string{"d"}, false, Ret(Bin("+", Id(cap1), Bin("||", Id("d"), Int(0)))))
		}
		body = append(body, Set(g, nil, "=", fn), Set("acc", nil, "+=", Id(locals[0])))
		switch r.Intn(4) {
		case 0:
			st = append(st, If(nil, Bool(true), Blk(body...), nil))
		case 1:
			st = append(st, If(nil, Bool(false), Blk(Def(nm("u"), Int(0))), Blk(body...)))
		case 2:
			i := nm("i")
			st = append(st, For(Def(i, Int(0)), Bin("<", Id(i), Int(1)), IncDec(i, nil, "++"), Blk(body...)))
		default:
			st = append(st, ForIn("", nm("e"), Arr(Int(0)), Blk(body...)))
		}
		// sibling constructs declaring fresh variables
		for s, m := 0, 1+r.Intn(2); s < m; s++ {
			switch r.Intn(8) {
			case 0:
				kk, vv := nm("k"), nm("v")
				st = append(st, ForIn(kk, vv, Arr(Int(7), Int(8), Int(9)), Blk(Set("acc", nil, "+=", Bin("+", Id(kk), Id(vv))))))
			case 1:
				vv := nm("v")
				st = append(st, ForIn("", vv, Arr(Int(7), Int(8)), Blk(Set("acc", nil, "+=", Id(vv)))))
			case 2:
				kk := nm("k")
				st = append(st, ForIn(kk, "_", Str("ab"), Blk(Set("acc", nil, "+=", Id(kk)))))
			case 3:
				i := nm("i")
				st = append(st, For(Def(i, Int(0)), Bin("<", Id(i), Int(2)), IncDec(i, nil, "++"), Blk(Def(nm("t"), Id(i)), Set("acc", nil, "+=", Id(i)))))
			case 4:
				sum := nm("sum")
				st = append(st, If(nil, Bool(true), Blk(
					Def(sum, Fn([]string{"q"}, false, Ret(Cond(Bin("==", Id("q"), Int(0)), Int(0), Bin("+", Id("q"), Call(Id(sum), Bin("-", Id("q"), Int(1)))))))),
					Set("acc", nil, "+=", Call(Id(sum), Int(3)))), nil))
			case 5:
				a, bb := nm("a"), nm("b")
				st = append(st, If(nil, Bool(true), Blk(Def(a, Int(1)), Def(bb, Fn(nil, false, Ret(Bin("+", Id(a), Int(1))))), Set("acc", nil, "+=", Call(Id(bb)))), nil))
			case 6:
				t := nm("t")
				st = append(st, If(Def(t, Int(5)), Bin(">", Id(t), Int(1)), Blk(Def(nm("w"), Id(t)), Set("acc", nil, "+=", Id(t))), nil))
			case 7:
				// shadowing of a name that an inner function captured earlier in the same body
				f, y := nm("f"), nm("y")
				st = append(st, Def(f, Fn(nil, false, Def(y, Id("acc")), Def("acc", Int(5)), Ret(Bin("+", Id("acc"), Id(y))))),
					Def(nm("r"), Call(Id(f))))
			}
		}
	}
	var calls []*Node
	for _, g := range closures {
		if r.Intn(5) == 0 {
			calls = append(calls, Call(Id(g), Int(1)))
		} else {
			calls = append(calls, Call(Id(g)))
		}
	}
	st = append(st, Def("out", Arr(append(calls, Id("acc"))...)))
	if r.Intn(3) == 0 {
		st = append(st, Def("again", Arr(Call(Id(closures[0])), Call(Id(closures[len(closures)-1])))))
	}
	// parameter shadowing
	if r.Intn(4) == 0 {
		st = append(st, Def("ps", Call(Fn([]string{"a"}, false, Def("a", Bin("*", Id("a"), Int(2))), Ret(Id("a"))), Int(4))))
	}
	return &Program{Stmts: st}
}

func init() {
	families["scopes"] = func(seed int64, n int) []*Program {
		r := rand.New(rand.NewSource(seed))
		var ps []*Program
		for i := 0; i < n; i++ {
			ps = append(ps, scopesProgram(r))
		}
		return ps
	}
}
