------------------------------- MODULE Syntax -------------------------------
(***************************************************************************)
(* The documented surface syntax of Tengo expressions and tokens:          *)
(*  (1) precedence and associativity (docs/tutorial.md "Operator           *)
(*      Precedences"): unary operators bind strongest, then five left-     *)
(*      associative binary levels, the ternary operator binds weakest      *)
(*      (and nests to the right).  Trees are enumerated, printed with      *)
(*      *minimal* parentheses (ShowMin - each tree then tests exactly the  *)
(*      documented grouping) and in fully parenthesised form (ShowFull,    *)
(*      the shape of the parser's own String()).                           *)
(*  (2) automatic semicolon insertion ("like Go"): a newline - or a        *)
(*      comment containing one, or the end of input - after a line's last  *)
(*      token terminates the statement iff that token is an identifier, a  *)
(*      literal (incl. true/false/undefined), one of break continue        *)
(*      return export, ++ --, or a closing ) ] }.                          *)
(*  (3) number literals as in Go: an automaton over character classes      *)
(*      recognising int and float spellings (prefixes 0x 0o 0b, legacy     *)
(*      octal, '_' separators, fractions, exponents, hex floats).          *)
(***************************************************************************)
EXTENDS Integers, Sequences, FiniteSets, TLC, Json

\* ---- (1) expressions ---------------------------------------------------------
BinPrec(op) ==
  CASE op \in {"*", "/", "%", "<<", ">>", "&", "&^"} -> 5
    [] op \in {"+", "-", "|", "^"} -> 4
    [] op \in {"==", "!=", "<", "<=", ">", ">="} -> 3
    [] op = "&&" -> 2
    [] op = "||" -> 1
BinOps == {"*", "/", "%", "<<", ">>", "&", "&^", "+", "-", "|", "^", "==", "!=", "<", "<=", ">", ">=", "&&", "||"}
UnOps == {"+", "-", "!", "^"}

Leaf(n) == [t |-> "leaf", n |-> n]
Un(op, e) == [t |-> "un", op |-> op, e |-> e]
Bin(op, l, r) == [t |-> "bin", op |-> op, l |-> l, r |-> r]
Cond(c, a, b) == [t |-> "cond", c |-> c, a |-> a, b |-> b]

Prec(x) == CASE x.t = "leaf" -> 7 [] x.t = "un" -> 6 [] x.t = "bin" -> BinPrec(x.op) [] x.t = "cond" -> 0

Paren(s) == <<"(">> \o s \o <<")">>
RECURSIVE ShowMin(_)
ShowMin(x) ==
  LET P(y, need) == IF need THEN Paren(ShowMin(y)) ELSE ShowMin(y) IN
  CASE x.t = "leaf" -> <<x.n>>
    [] x.t = "un" -> <<x.op>> \o P(x.e, Prec(x.e) < 6)
    [] x.t = "bin" -> P(x.l, Prec(x.l) < BinPrec(x.op)) \o <<x.op>> \o P(x.r, Prec(x.r) <= BinPrec(x.op))   \* left associative
    [] x.t = "cond" -> P(x.c, Prec(x.c) = 0) \o <<"?">> \o ShowMin(x.a) \o <<":">> \o ShowMin(x.b)

RECURSIVE ShowFull(_)
ShowFull(x) ==
  CASE x.t = "leaf" -> <<x.n>>
    [] x.t = "un" -> Paren(<<x.op>> \o ShowFull(x.e))
    [] x.t = "bin" -> Paren(ShowFull(x.l) \o <<x.op>> \o ShowFull(x.r))
    [] x.t = "cond" -> Paren(ShowFull(x.c) \o <<"?">> \o ShowFull(x.a) \o <<":">> \o ShowFull(x.b))

\* all trees with at most `d` operator nodes on a path (depth), leaves named in order of appearance
RECURSIVE Trees(_)
Trees(d) ==
  IF d = 0 THEN {Leaf("x")}
  ELSE LET S == Trees(d - 1) IN
       S \cup {Un(op, e) : op \in UnOps, e \in S}
         \cup {Bin(op, l, r) : op \in BinOps, l \in S, r \in S}
         \cup {Cond(c, a, b) : c \in S, a \in S, b \in S}

\* ---- (2) semicolon insertion --------------------------------------------------
TokClasses == {"ident", "int", "float", "char", "string", "rawstring", "true", "false", "undefined",
               "break", "continue", "return", "export", "++", "--", ")", "]", "}",
               "(", "[", "{", ",", ".", ":", ":=", "=", "+", "-", "*", "&&", "!", "?", "...", ";",
               "func", "if", "else", "for", "in", "import", "error", "immutable", "+=", "==", "<"}
EndsStatement(tc) == tc \in {"ident", "int", "float", "char", "string", "rawstring", "true", "false", "undefined",
                             "break", "continue", "return", "export", "++", "--", ")", "]", "}"}
GapKinds == {"newline", "linecomment", "blockcomment-nl", "blockcomment-then-nl", "eof", "spaces", "blockcomment-inline",
             "blockcomment-eof", "spaces-eof", "linecomment-eof", "blockcomments-eof", "crlf"}
\* does the gap after a token of class tc produce a semicolon token?
SemiInserted(tc, gap) == EndsStatement(tc) /\ gap \in {"newline", "linecomment", "blockcomment-nl", "blockcomment-then-nl", "eof",
                                                      "blockcomment-eof", "spaces-eof", "linecomment-eof", "blockcomments-eof", "crlf"}

\* ---- (3) number literals ------------------------------------------------------
Chars == {"0", "1", "7", "9", "a", "e", "f", "x", "o", "b", "p", "_", ".", "+", "-"}
IsDec(c) == c \in {"0", "1", "7", "9"}
IsOct(c) == c \in {"0", "1", "7"}
IsBin(c) == c \in {"0", "1"}
IsHex(c) == c \in {"0", "1", "7", "9", "a", "e", "f", "b"}

\* digits with '_' separators: a '_' must be followed by a digit; first may be '_' only right after a base prefix.
\* Returns the set of positions j such that s[i..j-1] is a non-empty well-formed digit run (set: at most the maximal one matters,
\* but every prefix of a run that does not end in '_' is itself a run)
DigitsEnd(s, i, ok(_), sepAllowedFirst) ==   \* maximal run: returns [end, n] with n = number of digits; end = i if none
  LET RECURSIVE go(_, _, _)
      go(j, n, lastSep) ==
        IF j <= Len(s) /\ ok(s[j]) THEN go(j + 1, n + 1, FALSE)
        ELSE IF j <= Len(s) /\ s[j] = "_" /\ ~lastSep /\ (n > 0 \/ sepAllowedFirst) /\ j + 1 <= Len(s) /\ ok(s[j + 1]) THEN go(j + 1, n, TRUE)
        ELSE [end |-> j, n |-> n]
  IN go(i, 0, FALSE)

\* classification of a whole string: "int" | "float" | "no"
Classify(s) ==
  IF Len(s) = 0 THEN "no"
  ELSE LET n == Len(s)
           Exp(i, marker) ==   \* optional exponent at i: returns end position or 0 if malformed (marker present but no digits)
             IF i <= n /\ s[i] = marker
             THEN LET k == IF i + 1 <= n /\ s[i + 1] \in {"+", "-"} THEN i + 2 ELSE i + 1
                      d == DigitsEnd(s, k, IsDec, FALSE)
                  IN IF d.n = 0 THEN 0 ELSE d.end
             ELSE i
       IN
       IF s[1] = "0" /\ n >= 2 /\ s[2] = "x" THEN
            LET m == DigitsEnd(s, 3, IsHex, TRUE) IN
            IF m.end > n /\ m.n > 0 THEN "int"
            ELSE IF m.end <= n /\ s[m.end] = "." THEN
                   LET f == DigitsEnd(s, m.end + 1, IsHex, FALSE)
                       e == Exp(f.end, "p") IN
                   IF (m.n + f.n > 0) /\ f.end <= n /\ s[f.end] = "p" /\ e > n THEN "float" ELSE "no"    \* hex float needs a p exponent
            ELSE IF m.end <= n /\ s[m.end] = "p" /\ m.n > 0 THEN (IF Exp(m.end, "p") > n THEN "float" ELSE "no")
            ELSE "no"
       ELSE IF s[1] = "0" /\ n >= 2 /\ s[2] \in {"o", "b"} THEN
            LET m == IF s[2] = "o" THEN DigitsEnd(s, 3, IsOct, TRUE) ELSE DigitsEnd(s, 3, IsBin, TRUE) IN
            IF m.end > n /\ m.n > 0 THEN "int" ELSE "no"
       ELSE IF IsDec(s[1]) THEN
            LET m == DigitsEnd(s, 1, IsDec, FALSE) IN
            IF m.end > n THEN
                 \* a decimal integer; with a leading 0 it is a legacy octal literal and must have octal digits only
                 (IF s[1] = "0" /\ n > 1 /\ \E i \in 1..n : s[i] \in {"9"} THEN "no" ELSE "int")
            ELSE IF s[m.end] = "." THEN
                 LET f == DigitsEnd(s, m.end + 1, IsDec, FALSE)
                     e == Exp(f.end, "e") IN
                 IF e > n THEN "float" ELSE "no"
            ELSE IF s[m.end] = "e" THEN (IF Exp(m.end, "e") > n THEN "float" ELSE "no")
            ELSE "no"
       ELSE IF s[1] = "." /\ n >= 2 /\ IsDec(s[2]) THEN
            LET f == DigitsEnd(s, 2, IsDec, FALSE)
                e == Exp(f.end, "e") IN
            IF e > n THEN "float" ELSE "no"
       ELSE "no"

\* ---- enumeration / emission ---------------------------------------------------
CONSTANTS Depth, MaxLitLen, Mode      \* Mode: "trees" | "semis" | "numbers"

VARIABLE s
StrInit == s = <<>>
StrNext == Len(s) < MaxLitLen /\ \E c \in Chars : s' = Append(s, c)

Init == IF Mode = "numbers" THEN StrInit ELSE s = <<>>
Next == IF Mode = "numbers" THEN StrNext ELSE UNCHANGED s
Spec == Init /\ [][Next]_s

EmitNumber == (Mode = "numbers" /\ Classify(s) # "no") => PrintT(<<"NUM", ToJson([s |-> s, k |-> Classify(s)])>>)
EmitTrees == (Mode = "trees") =>
   \A x \in Trees(Depth) : PrintT(<<"TREE", ToJson([min |-> ShowMin(x), full |-> ShowFull(x)])>>)
EmitSemis == (Mode = "semis") =>
   \A tc \in TokClasses : \A g \in GapKinds : PrintT(<<"SEMI", ToJson([tc |-> tc, gap |-> g, semi |-> SemiInserted(tc, g)])>>)

\* sanity of the printing functions, checked on every enumerated tree: full parenthesisation never needs fewer tokens
MinNotLonger == (Mode = "trees") => \A x \in Trees(Depth) : Len(ShowMin(x)) <= Len(ShowFull(x))
=============================================================================
