----------------------------- MODULE SourcePos -----------------------------
(***************************************************************************)
(* parser.SourceFileSet / SourceFile (parser/source_file.go): the mapping   *)
(* from the compact positions stored in AST nodes and in the bytecode's     *)
(* source map to file / line / column - what every error location of C14    *)
(* goes through.  A file set hands out disjoint position ranges to files    *)
(* (AddFile), files learn their line starts while being scanned (AddLine),  *)
(* and lookups go through a one-element cache (LastFile) in front of a      *)
(* binary search.                                                           *)
(*                                                                         *)
(* Actions are written the way the code computes (cache first, then the     *)
(* search; AddLine's guard; AddFile's base bookkeeping); the invariants say *)
(* what callers rely on, without the cache and without the search.          *)
(* hist carries the call history with return values (hidden by VIEW); the   *)
(* ACTION_CONSTRAINT prints one witness history per (state, call) edge and  *)
(* the harness replays each on a real SourceFileSet.                        *)
(***************************************************************************)
EXTENDS Integers, Sequences, FiniteSets, TLC, Json

CONSTANTS MaxFiles, MaxSize, MaxLen

VARIABLES files,   \* sequence of [base, size, lines]
          next,    \* SourceFileSet.Base: base offset for the next file
          last,    \* index of the cached file, 0 = none
          hist
vars == <<files, next, last, hist>>

Init == files = <<>> /\ next = 1 /\ last = 0 /\ hist = <<>>

Call(op, args, ret) == hist' = Append(hist, [op |-> op, args |-> args, ret |-> ret])

NoPosition == [file |-> 0, offset |-> 0, line |-> 0, column |-> 0]

\* ---- the code's way -----------------------------------------------------------------------
\* sort.Search(len(a), a[i].Base > x) - 1: index of the last file whose base is <= x (0 if none)
SearchFiles(x) == LET S == {i \in 1..Len(files) : files[i].base > x} IN
                  (IF S = {} THEN Len(files) + 1 ELSE CHOOSE i \in S : \A j \in S : i <= j) - 1
\* file(p): cache, then search; returns [f, last']
FileOf(p) ==
  IF last # 0 /\ files[last].base <= p /\ p <= files[last].base + files[last].size
  THEN [f |-> last, last |-> last]
  ELSE LET i == SearchFiles(p) IN
       IF i >= 1 /\ p <= files[i].base + files[i].size THEN [f |-> i, last |-> i] ELSE [f |-> 0, last |-> last]
\* searchInts: index of the last line start <= offset
RECURSIVE Bisect(_, _, _, _)
Bisect(a, x, i, j) == IF i < j THEN LET h == i + (j - i) \div 2 IN
                                    IF a[h + 1] <= x THEN Bisect(a, x, h + 1, j) ELSE Bisect(a, x, i, h)
                      ELSE i - 1
Unpack(f, offset) == LET i == Bisect(files[f].lines, offset, 0, Len(files[f].lines)) IN
                     IF i >= 0 THEN [file |-> f, offset |-> offset, line |-> i + 1, column |-> offset - files[f].lines[i + 1] + 1]
                     ELSE [file |-> f, offset |-> offset, line |-> 0, column |-> 0]

\* ---- actions ----------------------------------------------------------------------------------
\* explicit = FALSE passes base -1 ("use the set's base"), TRUE passes next + gap
AddFile(size, gap, explicit) ==
  /\ Len(files) < MaxFiles
  /\ explicit \/ gap = 0
  /\ LET base == next + gap IN
     /\ files' = Append(files, [base |-> base, size |-> size, lines |-> <<0>>])
     /\ next' = base + size + 1
     /\ last' = Len(files) + 1
     /\ Call("AddFile", <<IF explicit THEN base ELSE -1, size>>, [base |-> base, next |-> base + size + 1])

AddLine(f, off) ==
  /\ LET L == files[f].lines
         ok == (Len(L) = 0 \/ L[Len(L)] < off) /\ off < files[f].size
     IN /\ files' = IF ok THEN [files EXCEPT ![f].lines = Append(@, off)] ELSE files
        /\ Call("AddLine", <<f, off>>, [lines |-> IF ok THEN Append(L, off) ELSE L])
  /\ UNCHANGED <<next, last>>

Position(p) ==
  /\ IF p = 0 THEN /\ Call("Position", <<p>>, NoPosition) /\ UNCHANGED last
     ELSE LET r == FileOf(p) IN
          /\ last' = r.last
          /\ Call("Position", <<p>>, IF r.f = 0 THEN NoPosition ELSE Unpack(r.f, p - files[r.f].base))
  /\ UNCHANGED <<files, next>>

\* SourceFile methods that do not go through the set
LineStart(f, line) ==
  /\ Call("LineStart", <<f, line>>, IF line < 1 \/ line > Len(files[f].lines) THEN "panic" ELSE files[f].base + files[f].lines[line])
  /\ UNCHANGED <<files, next, last>>
OffsetOf(f, p) ==
  /\ Call("Offset", <<f, p>>, IF p < files[f].base \/ p > files[f].base + files[f].size THEN "panic" ELSE p - files[f].base)
  /\ UNCHANGED <<files, next, last>>

Next == \/ \E s \in 0..MaxSize, g \in 0..1, e \in BOOLEAN : AddFile(s, g, e)
        \/ \E f \in 1..Len(files) : \E o \in 0..MaxSize : AddLine(f, o)
        \/ \E p \in 0..(next + 1) : Position(p)
        \/ \E f \in 1..Len(files) : \E l \in 0..(Len(files[f].lines) + 1) : LineStart(f, l)
        \/ \E f \in 1..Len(files) : \E p \in (files[f].base - 1)..(files[f].base + files[f].size + 1) : OffsetOf(f, p)

Spec == Init /\ [][Next]_vars
View == <<files, next, last>>
Bounded == Len(hist) < MaxLen


\* ---- what callers rely on ------------------------------------------------------------------------
Range(f) == files[f].base..(files[f].base + files[f].size)
\* files own disjoint, increasing ranges; position 0 (NoPos) belongs to nobody; the set's base is past all of them
Disjoint == /\ \A f, g \in 1..Len(files) : f < g => files[f].base + files[f].size < files[g].base
            /\ \A f \in 1..Len(files) : files[f].base >= 1 /\ files[f].base + files[f].size < next
\* line starts: first line at offset 0, strictly increasing, inside the file
LinesSorted == \A f \in 1..Len(files) : LET L == files[f].lines IN
                 /\ Len(L) >= 1 /\ L[1] = 0
                 /\ \A i \in 2..Len(L) : L[i - 1] < L[i] /\ L[i] < files[f].size
\* the declarative meaning of a position: the unique file whose range holds it; line = number of line starts at or
\* before the offset, column counted from that line's start
Owner(p) == IF \E f \in 1..Len(files) : p \in Range(f) THEN CHOOSE f \in 1..Len(files) : p \in Range(f) ELSE 0
Meaning(p) == LET f == Owner(p) IN
              IF p = 0 \/ f = 0 THEN NoPosition
              ELSE LET o == p - files[f].base
                       ln == Cardinality({i \in 1..Len(files[f].lines) : files[f].lines[i] <= o})
                   IN [file |-> f, offset |-> o, line |-> ln, column |-> o - files[f].lines[ln] + 1]
Table == [pos |-> [p \in 0..(next + 1) |-> Meaning(p)],
          linestart |-> [f \in 1..Len(files) |-> [l \in 0..(Len(files[f].lines) + 1) |->
                           IF l < 1 \/ l > Len(files[f].lines) THEN -1 ELSE files[f].base + files[f].lines[l]]],
          offset |-> [f \in 1..Len(files) |-> [p \in 0..(next + 1) |->
                           IF p < files[f].base \/ p > files[f].base + files[f].size THEN -1 ELSE p - files[f].base]]]
\* Emission: one witness history per (state, mutating call) edge, together with the complete answer table of the state
\* reached - every Position, LineStart and Offset query.  The harness replays the history and then asks every query,
\* in several orders (every ordered pair of positions: the first lookup loads the cache, the second must not care).
NextMut == \/ \E s \in 0..MaxSize, g \in 0..1, e \in BOOLEAN : AddFile(s, g, e)
           \/ \E f \in 1..Len(files) : \E o \in 0..MaxSize : AddLine(f, o)
SpecMut == Init /\ [][NextMut]_vars
EmitEdge == PrintT(<<"CASE", ToJson([calls |-> hist', table |-> Table'])>>)

\* the lookup (whatever the cache holds) computes the meaning
LookupRight == \A p \in 1..(next + 1) : LET r == FileOf(p) IN
                 (IF r.f = 0 THEN NoPosition ELSE Unpack(r.f, p - files[r.f].base)) = Meaning(p)
\* the cache is only a cache: any cache content gives the same answers
CacheTransparent == \A c \in 0..Len(files) : \A p \in 1..(next + 1) :
                      LET viaC == IF c # 0 /\ files[c].base <= p /\ p <= files[c].base + files[c].size THEN c
                                  ELSE LET i == SearchFiles(p) IN IF i >= 1 /\ p <= files[i].base + files[i].size THEN i ELSE 0
                      IN viaC = Owner(p)
\* positions inside a file are ordered like (line, column), every line start is column 1 of its line,
\* and every valid position has a line and a column (never line 0)
Ordered == \A f \in 1..Len(files) : \A p, q \in Range(f) :
             p < q => LET a == Meaning(p) b == Meaning(q) IN a.line < b.line \/ (a.line = b.line /\ a.column < b.column)
LineStarts == \A f \in 1..Len(files) : \A i \in 1..Len(files[f].lines) :
                LET m == Meaning(files[f].base + files[f].lines[i]) IN m.line = i /\ m.column = 1
Valid == \A f \in 1..Len(files) : \A p \in Range(f) : Meaning(p).line >= 1 /\ Meaning(p).column >= 1
=============================================================================
