"""C12 Bytecode post-processing and serialization preserve behaviour.

E: Dedup.tla - RemoveDuplicates transcribed on abstract bytecode (constant pool with per-kind
   merge rules, functions with CONST/CLOSURE references); TLC checks for every small pool and
   reference layout: every reference of every loadable function still denotes an equal constant,
   no two mergeable constants remain, nothing is lost, idempotence.
R: for every generated program (nested functions, closures, source modules, builtin modules
   imported several times) the bytecode before/after the real RemoveDuplicates is validated by TLC
   against the transcription (DedupPairs.tla); the deduplicated and the encoded+decoded bytecode
   are checked by BytecodeWF.tla; the three pipelines raw / +RemoveDuplicates / +Encode+Decode are
   run in the real VM and must give identical results, error text and positions (judged through
   TengoSem where the program is order dependent).
"""
import json

import c02
import c06
import semcmp
import semlib
import vlib

EXH = "SPECIFICATION Spec\nCONSTANTS\n  MaxConsts = %d\n  MaxRefs = %d\nINVARIANT Inv\n"
PAIRS = "SPECIFICATION PSpec\nCONSTANTS\n  MaxConsts = 1\n  MaxRefs = 1\nINVARIANT Emit\n"


def run(ck):
    quick = ck.quick()
    mc, mr = (3, 1) if quick else (3, 2)
    r = ck.tlc("Dedup", EXH % (mc, mr), workers=16, name="exh", timeout=3000, xmx="14g")
    if r.violated:
        raise vlib.Infra("Dedup.tla: transcription violates %s:\n%s" % (r.violated, r.stdout[-2000:]))
    ck.log("Dedup.tla exhaustive: %d abstract bytecodes" % r.distinct)
    ck.extra["exhaustive_bytecodes"] = r.distinct
    n = 200 if quick else 5000
    progs = []
    for fam, k in (("stdlibuse", n // 2), ("modules", n // 2), ("random", n), ("dce", n // 3), ("errs", n // 2), ("m-closure", 0), ("smoke", 0)):
        for p in semlib.generate(ck, fam, k):
            p["id"] = len(progs) + 1
            p["family"] = fam
            progs.append(p)
    # hand-written layouts the generators do not reach: constant pools beyond 255 entries with a capturing function literal behind
    # them (index >= 256 before de-duplication; below / above 256 after it), embedder-supplied modules that are plain objects
    # with duplicates before them, a builtin module with mutable container attributes that the script changes
    def special(src, **kw):
        p = {"id": len(progs) + 1, "family": "special", "src": src, "inputs": [], "mods": []}
        p.update(kw)
        progs.append(p)
    for distinct, dups in ((300, 0), (300, 40), (245, 30), (250, 8), (254, 3), (520, 300)):
        src = "a := [" + ", ".join(str(1000 + i) for i in range(distinct)) + "]\n"
        src += "".join('d%d := "dup%d"\n' % (i, i % 3) for i in range(dups))
        src += ("mk := func() { x := 5; return func(y) { return x + y + 777000 } }\nf := mk()\n"
                "g := func() { z := 2; return func() { return z * 5 } }\nout := [f(1), g()(), a[%d]]\n" % (distinct - 1))
        special(src)
    for kind in ("map", "array", "int", "string", "immutable-map-noname", "undefined"):
        for pre in ("", 'a := "dup"\nb := "dup"\nc := 5\nd := 5\n', 'a := "dup"\nb := "dup"\nc := "dup"\nf := func() { return "dup" }\n'):
            special(pre + 'cfg := import("weird")\nother := import("weird")\nout := [cfg, other, "tail", 5]\n', weird=kind)
    special('st := import("st")\nst.counter.n += st.step\nout := st.counter.n\n', statemod=True)
    special('st := import("st")\nst.counter.n += st.step\nst.counter.n += st.step\nst2 := import("st")\nout := [st.counter.n, st2.counter.n, len(st.log)]\n', statemod=True,
            cell="stateful-builtin-module-imported-twice")
    special('st := import("st")\nout := [st.flags[0] == true, st.flags[1] == false, st.flags[0] ? 1 : 2, st.flags[2] == undefined, st.flags == [true, false, undefined], st.step == 1]\n',
            statemod=True)
    byid = {p["id"]: p for p in progs}
    cases = [{"id": p["id"], "src": p["src"], "inputs": p.get("inputs", []), "weird": p.get("weird", ""), "statemod": bool(p.get("statemod")),
              "mods": p.get("mods", []), "stdlib": bool(p.get("stdlib"))} for p in progs]
    res = vlib.run_cases(ck, "pipelines", cases, nproc=8)
    pairs, dumpsB, dumpsC = [], {}, {}
    plain = [p for p in progs if not p.get("stdlib") and p.get("family") != "special"]
    outs = semlib.tlc_outcomes(ck, [p for p in plain if p["id"] in {c["id"] for c in cases}], njobs=10)
    same3 = 0
    for c in cases:
        o = res[c["id"]]
        p = byid[c["id"]]
        ck.evaluations += 1
        if o.get("hang") or o.get("died") or o.get("panic"):
            ck.violation("pipeline-host-down", "pipelines did not return:\n" + p["src"], {"program": p, "result": o})
            continue
        if "dedup_panic" in o:
            ck.violation("dedup-panic", "RemoveDuplicates panicked: %s\n%s" % (o["dedup_panic"], p["src"]), {"program": p})
            continue
        if "compile" in o:
            continue
        pairs.append({"id": c["id"], "before": o["dedup"]["before"], "after": o["dedup"]["after"]})
        dumpsB[c["id"]] = o["wf"]
        if "wfC" in o:
            dumpsC[c["id"]] = o["wfC"]
        a, b, cc = o["A"], o["B"], o.get("C", {})
        if cc.get("k") in ("encode_error", "decode_error"):
            ck.violation("gob:" + cc["k"], "bytecode cannot be written/read back: %s\n%s" % (cc["msg"], p["src"]), {"program": p})
            continue
        ms = outs.get(c["id"])
        deterministic = ms is None or (len(ms) == 1 and ms[0]["k"] != "excluded")
        drop = ("recovered", "g", "msg", "positions") if (a.get("k") == "runtime_error" and c06.order_dependent(p)) else ("recovered",)
        key = lambda x: json.dumps({k: v for k, v in x.items() if k not in drop}, sort_keys=True)
        if deterministic:
            if key(a) != key(b):
                ck.violation("dedup-behaviour" + (":" + p["cell"] if p.get("cell") else ""), "raw and de-duplicated bytecode behave differently:\n%s\nraw:   %s\ndedup: %s" % (
                    p["src"], json.dumps(a)[:500], json.dumps(b)[:500]), {"program": p, "A": a, "B": b})
                continue
            if "C2" in o and key(cc) != key(o["C2"]):
                ck.violation("gob-second-decode", "the same encoding decoded a second time (same module map) behaves differently:\n%s\nfirst:  %s\nsecond: %s" % (
                    p["src"], json.dumps(cc)[:500], json.dumps(o["C2"])[:500]), {"program": p, "C": cc, "C2": o["C2"]})
                continue
            for tag, what in (("D", "the bytecode Encode was called on (not de-duplicated before)"), ("D2", "the second encoding of the same bytecode, decoded"),
                              ("E", "the encoding decoded without the embedder's module map")):
                if tag in o and o[tag].get("k") not in (None,) and key(o[tag]) != key(a):
                    ck.violation("gob-" + tag, "%s behaves differently from the compiled program:\n%s\ncompiled: %s\n%s: %s" % (
                        what, p["src"][:1500], json.dumps(a)[:400], tag, json.dumps(o[tag])[:400]), {"program": p, "A": a, tag: o[tag]})
                    break
            else:
                pass
            if key(b) != key(cc):
                ck.violation("gob-behaviour", "bytecode read back from its encoding behaves differently:\n%s\nbefore: %s\nafter:  %s" % (
                    p["src"], json.dumps(b)[:500], json.dumps(cc)[:500]), {"program": p, "B": b, "C": cc})
                continue
        else:
            # several outcomes are allowed (iteration order of a map reaches the result): every pipeline must end in one of them;
            # two real runs need not end in the same one
            allowed = ms is not None and all(semcmp.compare(ms, x)[0] != "disagree" for x in (a, b, cc) if x.get("k") in ("ok", "runtime_error"))
            if not allowed and not (a["k"] == b["k"] == cc.get("k") and a.get("kind") == b.get("kind") == cc.get("kind")):
                ck.violation("pipeline-behaviour", "pipelines end differently:\n" + p["src"], {"program": p, "A": a, "B": b, "C": cc})
                continue
        if ms is not None and b["k"] in ("ok", "runtime_error"):
            v, det = semcmp.compare(ms, b)
            if v == "disagree":
                ck.violation("sem", "de-duplicated program disagrees with TengoSem: %s\n%s" % (det, p["src"]), {"program": p, "model": ms, "real": b})
                continue
        same3 += 1
        ck.traces += 1
    ck.extra["programs_three_pipelines_equal"] = same3
    # ---- before/after pairs against the transcription
    njobs = 10
    batches = [pairs[i::njobs] for i in range(njobs) if pairs[i::njobs]]

    def job(ib):
        i, b = ib
        return ck.tlc("DedupPairs", PAIRS, files={"dedup.ndjson": vlib.ndjson(b)}, workers=1, name="pairs%d" % i, timeout=1800, xmx="3g", xss="256m")
    merged = 0
    for r in vlib.parallel(job, list(enumerate(batches)), nproc=njobs):
        for v in r.tagged("DEDUP"):
            p = byid[v["id"]]
            bad = [k for k, x in v["props"].items() if not x and k != "wellformed"]
            if not (v["same_consts"] and v["same_fns"]):
                ck.violation("dedup-differs", "real RemoveDuplicates output is not RemoveDuplicates(before) of the transcription (consts equal: %s, refs equal: %s)\n%s" % (
                    v["same_consts"], v["same_fns"], p["src"]), {"program": p, "verdict": v})
            elif bad:
                ck.violation("dedup-props:" + ",".join(bad), "de-duplication property %s fails on a real program:\n%s" % (bad, p["src"]), {"program": p, "verdict": v})
            else:
                ck.traces += 1
                if v["nafter"] < v["nbefore"]:
                    merged += 1
                    ck.note_distinct(p["src"])
    ck.extra["pairs_validated"] = len(pairs)
    ck.extra["pairs_with_merged_constants"] = merged
    # ---- well-formedness of the post-processed and of the decoded bytecode
    for tag, dumps in (("dedup", dumpsB), ("decoded", dumpsC)):
        verdicts = c02.wf_batch(ck, dumps, njobs=10, tag="wf" + tag)
        for (pid, cidx), v in verdicts.items():
            if not v["ok"]:
                ck.violation("wf-%s:%s" % (tag, v["why"]), "%s bytecode: function const %d ill-formed at %d: %s\n%s" % (
                    tag, cidx, v["at"], v["why"], byid[pid]["src"]), {"program": byid[pid], "cidx": cidx})
    if pairs:
        big = max(pairs, key=lambda q: len(q["before"]["consts"]) - len(q["after"]["consts"]))
        ck.add_sample({"src": byid[big["id"]]["src"], "consts_before": len(big["before"]["consts"]), "consts_after": len(big["after"]["consts"])})
    ck.rule = ("exhaustive small abstract bytecodes; real programs with duplicated constants (families stdlibuse, modules, random, dce, errs, "
               "m-closure); non-trivial = programs where constants were merged and all checks passed")
    ck.assumptions = ["encoding/gob itself is not modelled: only the behaviour and well-formedness of the decoded bytecode are decided"]


def replay(ck, path):
    rep = json.load(open(path))["replay"]
    print(rep["program"]["src"])
    print(json.dumps({k: v for k, v in rep.items() if k != "program"})[:3000])
    return 0
