"""C01 Compile-and-run agrees with the language's reference semantics.

E: TengoSem.tla / TengoValues.tla - the documented language as a small-step abstract
   machine with names, lexical environments, cells and a heap with slice aliasing.  TLC
   evaluates every program of the batch; behaviour the documentation leaves open is a
   nondeterministic choice (map iteration order: every order is explored) or the outcome
   'excluded' (hidden append capacity, model range).
R: the same programs, printed from the harness's own AST, through Script.Add / Compile /
   RunContext / GetAll of the real code.
O: the real outcome (global values compared structurally, or error class) must be one of
   the outcomes TLC found for that program.
"""
import json

import semcmp
import largelib
import semlib
import vlib


def classify(prog, detail):
    """Normal form of a disagreement for known_findings matching."""
    return "sem:" + detail.get("got", "?")[:0] + "program"


def run(ck, families=None):
    quick = ck.quick()
    matrices = [("m-ops", 0), ("m-index", 0), ("m-builtin", 0), ("m-call", 0), ("m-closure", 0), ("m-assign", 0), ("m-equal", 0)]
    fams = families or ([("smoke", 0), ("random", 400), ("random-clean", 200), ("random-minparens", 300), ("alias", 300), ("modules", 60), ("shapes", 1500), ("scopes", 300), ("immut", 300), ("tailcalls", 0)] + matrices if quick
                        else [("smoke", 0), ("random", 12000), ("random-clean", 8000), ("random-minparens", 6000), ("alias", 6000), ("modules", 3000), ("shapes", 0), ("dce", 5000), ("errs", 3000), ("scopes", 5000), ("immut", 5000), ("tailcalls", 0), ("variants", 1500)] + matrices)
    progs = []
    for fam, n in fams:
        ps = semlib.generate(ck, fam, n)
        for p in ps:
            p["family"] = fam
            p["id"] = len(progs) + 1
            progs.append(p)
    ck.log("generated %d programs" % len(progs))
    outs = semlib.tlc_outcomes(ck, progs, njobs=14)
    ck.log("TengoSem evaluated: %d states" % ck.states)
    real = semlib.real_outcomes(ck, progs, nproc=8)
    stats = {}
    for p in progs:
        v, det = semcmp.compare(outs[p["id"]], real[p["id"]])
        stats[v] = stats.get(v, 0) + 1
        ck.evaluations += 1
        if v == "agree":
            ck.traces += 1
            ck.note_distinct(p["src"])
            if len(ck.samples) < 3 and p["family"] != "smoke" and real[p["id"]]["k"] == "ok":
                ck.add_sample({"src": p["src"], "inputs": p.get("inputs", []), "outcome": "ok, %d globals equal" % len(real[p["id"]]["g"])})
        elif v == "disagree":
            ck.violation(classify(p, det), "compile+run disagrees with TengoSem: expected one of %s, got %s\n%s" % (
                det["expected"], det["got"], p["src"]), {"program": p, "model": outs[p["id"]], "real": real[p["id"]]})
        elif v == "host_down":
            ck.violation("host-down", "real run did not return a value or error: %s\n%s" % (real[p["id"]], p["src"]),
                         {"program": p, "real": real[p["id"]]})
    # bytecode level: the recorded instruction-by-instruction run of the real VM must be a behaviour of TengoVM.tla
    vmp = [p for p in progs if not p.get("stdlib")]
    if quick:
        vmp = vmp[::3]
    vv = semlib.vm_validate(ck, vmp, njobs=12)
    vstats = {}
    for p in vmp:
        o = vv.get(p["id"], {"v": "skipped"})
        vstats[o["v"]] = vstats.get(o["v"], 0) + 1
        ck.evaluations += 1
        if o["v"] == "accepted":
            ck.traces += 1
            ck.extra["vm_events_validated"] = ck.extra.get("vm_events_validated", 0) + o.get("n", 0)
        elif o["v"] == "rejected":
            ck.violation("vm-trace:" + str(o["why"]).split(":")[0][:40],
                         "the recorded run of the real VM is not a behaviour of TengoVM.tla: %s at event %s of %s (%s)\n%s" % (
                             o["why"], o.get("at"), o.get("n"), json.dumps(o.get("event"))[:200], p["src"]), {"program": p, "vm": o})
    ck.extra["vm_trace_verdicts"] = vstats
    # programs beyond 64 KiB of code / 255 constants (every jump and constant operand needs its upper bytes): closed-form results
    largelib.judge(ck, quick)
    ck.extra["verdicts"] = stats
    ck.extra["programs"] = len(progs)
    ck.rule = ("programs printed from the harness AST (smoke family + seeded random compositions); non-trivial = distinct source "
               "text whose real outcome matched a TengoSem outcome; excluded/unrepresentable programs are counted, not judged")
    ck.assumptions = ["the AST printer renders the node table faithfully (fully parenthesised expressions)",
                      "model range: |int| < 2^30, dyadic floats, error classes rather than messages"]


def replay(ck, path):
    rep = json.load(open(path))["replay"]
    p = rep["program"]
    outs = semlib.tlc_outcomes(ck, [p], njobs=1)
    real = semlib.real_outcomes(ck, [p], nproc=1)
    print(p["src"])
    print("model:", json.dumps(outs[p["id"]])[:2000])
    print("real :", json.dumps(real[p["id"]])[:2000])
    v, det = semcmp.compare(outs[p["id"]], real[p["id"]])
    print(v, det)
    return 1 if v in ("disagree", "host_down") else 0
