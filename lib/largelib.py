"""Programs beyond the sizes TLC can take through BytecodeWF/Optimizer: functions over 64 KiB of bytecode (jump operands need more
than 16 bits) and constant pools over 255 entries (CLOSURE/CONST operands need their high byte).  Each has a closed-form result."""
import vlib


def _tail(n):
    # s == n here; the loop adds 1000 (i=0), 100 (i=1), skips i=2, adds 100 (i=3, i=4), breaks at i=5
    return ("for i := 0; i < 6; i++ {\n  if i == 2 { continue }\n  if i == 5 { break }\n  s += (i > 0 && s > 3) ? 100 : 1000\n}\n"
            "if s > 7 || s < 0 { s += 5 } else { s = -1 }\n"), n + 1305


def programs(quick):
    out = []
    for n in ([6100] if quick else [6100, 13000, 30000]):
        tail, exp = _tail(n)
        body = "s := 0\n" + "s += 1\n" * n + tail
        out.append({"tag": "main>64KiB/%d" % n, "src": body + "out := s\n", "expect": exp})
        out.append({"tag": "func>64KiB/%d" % n, "src": "f := func() {\n" + body + "return s\n}\nout := f()\n", "expect": exp})
        # dead code early in the function: everything behind it is moved by the optimizer, jump operands beyond 65535 are remapped
        dead = "if s < 0 {\n  return -1\n  s = 7\n  s = 8\n}\n"
        out.append({"tag": "func>64KiB+dead/%d" % n, "src": "f := func() {\ns := 0\n" + dead + "s += 1\n" * n + tail + "return s\n  s = 9\n}\nout := f()\n", "expect": exp})
        # backward jump across 64 KiB: a loop whose body is the long part
        out.append({"tag": "loop-body>64KiB/%d" % n, "src": "f := func() {\ns := 0\nfor k := 0; k < 2; k++ {\n" + "s += 1\n" * n + "if k == 0 { continue }\n}\nreturn s\n}\nout := f()\n",
                    "expect": 2 * n})
    for distinct, dups in ((300, 0), (300, 40), (245, 30), (254, 3), (520, 300)):
        src = "a := [" + ", ".join(str(1000 + i) for i in range(distinct)) + "]\n"
        src += "".join('d%d := "dup%d"\n' % (i, i % 3) for i in range(dups))
        # the function literals capture locals, so they are loaded with CLOSURE (a 16-bit constant index) from a pool position beyond 255
        src += ("mk := func() { x := 5; return func(y) { return x + y + 777000 } }\nf := mk()\n"
                "g := func() { z := 2; return func() { return z * 5 } }\nout := f(1) + g()() + a[%d]\n" % (distinct - 1))
        out.append({"tag": "consts>255/%d+%d" % (distinct, dups), "src": src, "expect": 777006 + 10 + 1000 + distinct - 1})
    # more than 255 globals: selector / index assignment and compound assignment to a global whose index needs two bytes
    for ng in (254, 255, 256, 300, 600):
        src = "".join("g%d := %d\n" % (i, i) for i in range(ng))
        src += "m := {k: 0, arr: [0, 0]}\nm.k = 7\nm.arr[1] = 5\nm.k += g%d\nz := 1\nz += m.k\nout := z + m.arr[1]\n" % (ng - 1)
        out.append({"tag": "globals>255/%d" % ng, "src": src, "expect": 1 + 7 + ng - 1 + 5})
        # the same variables as top-level block variables (they occupy global slots that are never re-used)
        src = "".join("if true { b%d := %d }\n" % (i, i) for i in range(ng)) + "m := {k: 0}\nm.k = 7\nm.k += 1\nout := m.k\n"
        out.append({"tag": "block-globals>255/%d" % ng, "src": src, "expect": 8})
    for i, p in enumerate(out):
        p["id"] = i + 1
    return out


def judge(ck, quick, keyprefix="large"):
    """Runs the family; reports structural faults, wrong results and optimizer/no-optimizer differences.  Returns the number judged."""
    progs = programs(quick)
    res = vlib.run_cases(ck, "largeprog", [{"id": p["id"], "src": p["src"], "inputs": [], "mods": [], "expect": p["expect"]} for p in progs], nproc=6, timeout=1800)
    n = 0
    for p in progs:
        o = res[p["id"]]
        ck.evaluations += 1
        rep = {"tag": p["tag"], "expect": p["expect"], "result": {k: v for k, v in o.items()}, "src_head": p["src"][:300]}
        if o.get("hang") or o.get("died") or o.get("panic"):
            ck.violation("%s:host-down:%s" % (keyprefix, p["tag"].split("/")[0]), "large program %s did not return: %s" % (p["tag"], str(o)[:300]), rep)
            continue
        bad = False
        for tag in ("opt", "nodce"):
            r = o.get(tag) or {}
            what = None
            if r.get("k") != "ok":
                what = "ends with %s %s" % (r.get("k"), str(r.get("msg"))[:200])
            elif r.get("faults"):
                what = "ill-formed bytecode: %s" % r["faults"][0]
            elif r.get("out") != {"k": "int", "n": p["expect"]}:
                what = "out = %s, the closed form gives %d" % (r.get("out"), p["expect"])
            if what:
                ck.violation("%s:%s:%s" % (keyprefix, tag, p["tag"].split("/")[0]), "large program %s (%s, sizes %s, %s constants) %s" % (
                    p["tag"], "optimized" if tag == "opt" else "without dead-code elimination", r.get("sizes"), r.get("nconsts"), what), rep)
                bad = True
                break
        if not bad:
            ck.traces += 1
            n += 1
    ck.extra["large_programs"] = len(progs)
    return n
