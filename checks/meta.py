"""Per-property metadata: single source of truth for MANIFEST.json."""

HOOK_COMMITS = ["de1cf5f", "8fe0b83", "8b52b07", "aba82cb"]

NOTES = ("All checks: bin/check <ID> --tier quick|thorough; exit 0 held / 1 VIOLATION / 2 infrastructure. "
         "Scratch under ${VERIF_SCRATCH:-/var/tmp}, removed on exit. known_findings.json lists recorded defects.")

NOT_CLAIMED = {}

_C20 = {
    "text": ("Syntax.tla holds the documented precedence/associativity table, the semicolon-insertion rule and a number-literal automaton. TLC "
             "enumerates every expression tree of depth <= 2 over all operators (minimal vs full parenthesisation), every token class x gap "
             "kind, and every spelling over the literal alphabet up to the length bound; the real parser/scanner must agree on each, literal "
             "values are compared with Go's own scanner/constant evaluation (three-way agreement), escapes with strconv, and the printed form "
             "of generated programs must re-parse and compile to the same instructions and constants."),
    "design_ref": "DESIGN.md 5.10, 8/C20",
    "note": "Trusted: TLC; Go's scanner, go/constant and strconv as the literal-syntax oracle named by the property.",
    "technique": "TLA+ grammar tables/automata enumerated by TLC, every case replayed into the real scanner and parser",
}

CHECKS = {
    "C20": _C20,
    "C04": {
        "text": ("SourceSpace.tla spans the front end's input space at token level: TLC enumerates every token sequence up to the bound over the "
                 "complete token alphabet, the maximal-munch table of every operator-character string, and the static-error table. Those inputs, "
                 "single-token mutations of valid programs, byte-class strings (NUL, BOM, invalid UTF-8 ...), static errors in every scope "
                 "position, inputs at the static limits and embedder-supplied importables go through parser, compiler, Script.Compile and "
                 "RunContext under all configurations in child processes: a value or an error, never a panic/hang, positions inside the input."),
        "design_ref": "DESIGN.md 8/C04, 15",
        "note": ("Trusted: TLC for the enumeration; totality itself needs no model prediction (the oracle is 'returns, with positions inside the input'), "
                 "so the specification's part is the input space, the munch table and the static-error classes; 20 s deadline per input."),
        "technique": "TLC-enumerated token-level input space + mutation/byte-class/limit families replayed into every front-end entry point in child processes",
    },
    "C17": {
        "text": ("FormatDirective.tla is the directive grammar of format()/sprintf and a transcription of the reference's argument bookkeeping "
                 "(explicit indexes, '*' width/precision, MISSING/BADINDEX/NOVERB/BADWIDTH/BADPREC/EXTRA). TLC enumerates every directive of the "
                 "grammar with 0..3 arguments (and two-directive formats) and computes the consumption trace; each case is rendered to concrete "
                 "formats and seeded argument vectors of the five mapped types; tengo.Format, builtin format and fmt.sprintf must equal "
                 "fmt.Sprintf on the corresponding Go values (spec trace checked against the reference's markers; the property's three exclusions "
                 "decided per directive). Arbitrary formats x objects: string or ErrStringLimit, never a panic."),
        "design_ref": "DESIGN.md 8/C17, 15",
        "note": ("Trusted: Go's fmt as the executable reference (the property names it); TLC for the enumeration; the renaming of Go type names in "
                 "bad-verb markers. The value space is a boundary table, not all int64/float64."),
        "technique": "TLC-enumerated directive grammar with consumption traces, replayed into Format/format/sprintf and compared with fmt.Sprintf",
    },
    "C18": {
        "text": ("JsonGrammar.tla is the RFC 8259 grammar as a TLA+ recogniser with the denoted value (int/float typing by spelling, duplicate keys, "
                 "white space), the string-body decoding rules (escapes, surrogate pairs, U+FFFD) and the encodable value shapes. TLC enumerates every "
                 "symbol sequence up to the bound, every single-symbol mutation of valid documents, every number spelling, every string-token "
                 "sequence and every value shape with its verdict; each is rendered to bytes and decided three ways: specification, json.Decode/"
                 "Encode (and the json module in a script), encoding/json. Encodings must be valid, read back as the same data by encoding/json "
                 "and decode to an Equal value; seeded random values and byte mutations extend the enumeration."),
        "design_ref": "DESIGN.md 8/C18, 15",
        "note": ("Trusted: encoding/json (named by the property) and TLC. Numbers outside int64/float64 range, non-UTF-8 strings, NaN/Inf and "
                 "nesting beyond encoding/json's limit are outside the claim."),
        "technique": "TLA+ JSON grammar/recogniser enumerated by TLC, three-way agreement spec / real codec / encoding/json per rendered case",
    },
    "C19": {
        "text": ("StdlibSig.tla holds the documented signature table of text/math/base64/hex/times (parameter kinds, arity range, result kind, error "
                 "surfacing) and the coercion rules as an acceptance matrix; TLC derives every call obligation (function x arity 0..max+1, function x "
                 "position x 14 run-time types) with the required outcome class, and evaluates a direct specification of the enum module (all, any, "
                 "filter, find, find_key, chunk, map, at, each) on every array over a small domain. Each obligation is executed against the real "
                 "module tables with seeded boundary arguments; values must equal the Go function named by the module documentation, called "
                 "through an independent reflection-based coercion."),
        "design_ref": "DESIGN.md 8/C19, 15",
        "note": ("Trusted: the Go standard library functions named by the documentation; TLC; the harness's transcription of the documentation "
                 "into the reference table. Clock-dependent functions are checked for arity/types/result kind only."),
        "technique": "TLC-derived call obligations from a TLA+ signature/coercion table + TLA+ specification of enum, executed against the real module tables",
    },
    "C01": {
        "text": ("TengoSem.tla/TengoValues.tla are an executable TLA+ reference semantics of the documented language (names, lexical "
                 "environments, cells, heap with slice aliasing, operator/builtin tables). TLC evaluates every generated program, exploring "
                 "every map iteration order and marking capacity/range dependent programs 'excluded'; the real Script.Compile/RunContext/"
                 "GetAll outcome (globals structurally, or error class) must be one of the outcomes TLC found. Below that, TengoVM.tla specifies "
                 "the machine at bytecode level (one action per opcode over stack, frames, boxes, cells, iterators, with the same value layer): the "
                 "instrumented VM records one event per dispatched instruction and TLC validates each recording as a behaviour of that machine on "
                 "the real compiler's bytecode, ending in the real final globals."),
        "design_ref": "DESIGN.md 5.1, 5.2, 8/C01, 15.7",
        "note": ("Trusted: TLC; the harness AST printer and value codec; the transcription of docs/*.md into TengoValues. Model range: "
                 "|int| < 2^30, dyadic floats, 1-4 byte UTF-8; int64 wrap-around and float rounding are not modelled (programs leaving the "
                 "range are counted as excluded)."),
        "technique": "TLA+ reference interpreter evaluated by TLC (all nondeterministic branches) vs real compile+run, per program; plus trace validation of the real VM's instruction stream against a TLA+ bytecode machine",
    },
    "C02": {
        "text": ("BytecodeWF.tla is an abstract interpreter (TLA+ actions over a worklist) on the raw instruction bytes of every function "
                 "the real compiler emitted: instruction boundaries, jump targets, operand validity, equal non-negative stack heights on "
                 "all paths, every path ends in RET/SUSPEND. TLC follows all paths, executed or not. The heights it computes are then "
                 "checked against the real VM at every dispatched instruction (sp = bp + NumLocals + H[fn][ip]) through the probe hook."),
        "design_ref": "DESIGN.md 5.4, 8/C02",
        "note": "Trusted: TLC; the opcode width/effect tables transcribed into the spec; the harness dump of Instructions and the probe hook.",
        "technique": "TLA+ abstract interpretation of real bytecode checked by TLC (artefact validation) + per-instruction VM probe against predicted heights",
    },
    "C03": {
        "text": ("Optimizer.tla transcribes optimizeFunc on index-addressed code; TLC checks NoPanic, RemovedUnreachable, Simulates, EndOK, "
                 "EndsInRet, PosPreserved for every instruction sequence up to the length bound over all jump kinds. Every real optimizer "
                 "invocation (input/output recorded by a guarded hook) is validated by TLC against Optimize() and the same properties; "
                 "optimized and unoptimized twins (hook verifNoDCE) are run and must give identical results, error text and positions, "
                 "and the optimized run must agree with TengoSem."),
        "design_ref": "DESIGN.md 5.5, 8/C03",
        "note": "Trusted: TLC; the abstraction of byte code to index-addressed instructions in the harness; the two guarded hooks.",
        "technique": "TLA+ transcription model-checked exhaustively (small scope) + artefact validation of real optimizer in/out pairs + twin runs",
    },
    "C08": {
        "text": ("CompiledConc.tla models the original and its clones (RW lock each, private globals, shared constants/index map, the lazily written "
                 "rune and last-file caches) under concurrent Run/Get/GetAll/IsDefined/Set/Clone/ReplaceBuiltinModule; TLC explores all "
                 "interleavings of every plan: NoRace, Isolation, lock sanity. The faithful configuration (caches included) is rejected - the "
                 "model-level statement of the two known findings; the contract configuration holds and its plans are executed on real objects "
                 "under Go's race detector, with isolation and post-history correctness checks."),
        "design_ref": "DESIGN.md 5.8, 8/C08",
        "note": ("Trusted: TLC; Go's race detector as the observer of memory accesses; plans respect the documented contract of ReplaceBuiltinModule "
                 "(on clones that are not themselves cloned). Values returned by Get are live references and are not traversed concurrently."),
        "technique": "TLA+ model of locks and shared regions checked by TLC; TLC-generated concurrent plans executed under the Go race detector",
    },
    "C09": {
        "text": ("TengoSem carries a ghost set of snapshots of every container that became immutable from storage no mutable value shares; TLC "
                 "checks the invariant ImmStable (contents never change) in every state of every program. The immut family (every origin of "
                 "immutability x derivation sequences <= 3 x a write through a derived value) is evaluated by TLC and run on the real VM; all "
                 "final globals must be among the outcomes the model allows."),
        "design_ref": "DESIGN.md 8/C09",
        "note": "Trusted: TLC; TengoValues' storage model (windows into shared stores). Builtin-module tables are not modelled.",
        "technique": "TLA+ reference semantics with a ghost immutability invariant checked by TLC + program family replayed on the real VM",
    },
    "C10": {
        "text": ("Laws.tla holds the equality/ordering/truthiness/copy/conversion tables over abstract descriptors (type pair x relation); TLC "
                 "checks the property's laws on them for every descriptor and emits them. The real runtime is evaluated on a concrete universe "
                 "with boundary numerics, nested/shared containers, immutables, errors, times and seeded random values - every ordered pair, "
                 "through the Object API and through compiled scripts - and each answer must equal the table entry of the pair's descriptor, "
                 "which the harness computes with Go's own operators."),
        "design_ref": "DESIGN.md 5.10 (Laws), 8/C10",
        "note": "Trusted: TLC; Go's comparison operators and strconv/conversions as the descriptor and value oracles.",
        "technique": "TLA+ tables with laws as TLC invariants; exhaustive pair evaluation of the real runtime against the tables",
    },
    "C11": {
        "text": ("For each base program the harness builds the variants function-body, module-body, IIFE-wrapped sub-expressions (single, all, "
                 "and combined with function-body) and renaming. TLC evaluates base and variants with TengoSem and requires the variants' "
                 "outcomes to equal the base's under the result mapping (the spec itself is placement invariant on these programs); every "
                 "variant is then run on the real VM and must yield an outcome TengoSem allows, mapped back to the base's result. "
                 "SymbolTable.tla models the compiler's symbol table (Define/Resolve/assign/Fork/leave, free-variable capture, block slot reuse, "
                 "root-level accounting of globals) with the invariants lexical resolution, live locals disjoint, frames large enough, global "
                 "slots unique, free lists servable; one witness call history per (state, call) edge is replayed on a real tengo.SymbolTable; "
                 "in the other direction the compiler's own calls (hooks) are trace-validated per compilation unit (SymbolTableTrace.tla), with the "
                 "invariants evaluated in every state a real compilation reaches."),
        "design_ref": "DESIGN.md 8/C11, 15.11",
        "note": "Trusted: TLC; the AST transformations (checked per program by the model-level equality). Closures in global-scope loops are not generated.",
        "technique": "TLA+ reference semantics evaluated on program variants (metamorphic relation checked on the model and on the real VM)",
    },
    "C12": {
        "text": ("Dedup.tla transcribes RemoveDuplicates on abstract bytecode; TLC checks, for every small constant pool and reference layout, that "
                 "every reference of every loadable function still denotes an equal constant, no mergeable duplicates remain, nothing is lost, and "
                 "idempotence. For real programs the bytecode before/after the real RemoveDuplicates is validated against the transcription "
                 "(DedupPairs.tla), the de-duplicated and the gob-decoded bytecode are checked by BytecodeWF.tla, and the pipelines raw / "
                 "+RemoveDuplicates / +Encode+Decode are run in the real VM and must behave identically (results, error text, positions)."),
        "design_ref": "DESIGN.md 5.6, 8/C12",
        "note": "Trusted: TLC; the abstraction of constants (value keys, pointer identity of functions); gob fidelity itself is not modelled.",
        "technique": "TLA+ transcription model-checked exhaustively (small scope) + artefact validation of real before/after pairs + three-pipeline runs",
    },
    "C13": {
        "text": ("Modules.tla models the import-graph compilation (cycle check on the parent chain, root cache, store at every level); TLC "
                 "checks termination, 'fails iff a cycle is reachable', compiled-once and simple-path over every graph of the bounded "
                 "module set with ordered import lists, and every such graph is then compiled by the real compiler (verdict and per-module "
                 "compile counts must match). TengoSem decides the run-time half (isolation, export immutability, undefined without "
                 "export, body re-run per import) on the modules program family; path-like import names next to decoy files must not "
                 "resolve when file import is disabled."),
        "design_ref": "DESIGN.md 5.7, 8/C13",
        "note": "Trusted: TLC; compile count observed as files added to the FileSet; decoy-file test observes results, not syscalls (strace not used).",
        "technique": "TLA+ model checking of the import-graph algorithm over all small graphs + exhaustive replay into the real compiler; TengoSem for module run-time semantics",
    },
    "C14": {
        "text": ("TengoSem records the innermost executing statement and the stack of call-site statements of every run-time error (it has no "
                 "offsets, source maps or frames). For failing programs (every failing operation kind x call depth 0-4 x statement form, next to "
                 "dead code) the positions in the real error text must lie inside the extents of exactly those statements, innermost first; "
                 "the no-DCE twin must report the same text. "
                 "SourcePos.tla models the file set all reported locations go through (position ranges per file, line tables, the LastFile cache "
                 "in front of the binary search) with the invariants lookup = declarative meaning under any cache content, ranges disjoint, "
                 "positions ordered like (line, column); witness histories and complete answer tables are replayed on a real SourceFileSet."),
        "design_ref": "DESIGN.md 8/C14",
        "note": "Trusted: TLC; statement extents from the harness printer; error classes via errors.Is / fixed prefixes. Module files: not yet covered.",
        "technique": "TLA+ reference semantics predicts failing statement and call stack; real error positions validated by containment",
    },
    "C15": {
        "text": ("ScriptAPI.tla models Script.Add/Remove/Compile and Compiled.Run/Get/GetAll/IsDefined/Set/Clone with every return value over a "
                 "script family (incl. a run that fails after a partial effect and a variable named like a builtin). TLC's edge-covering search "
                 "(VIEW without the history) yields one shortest call history per (abstract state, call) transition; each is replayed on the real "
                 "API comparing every return value. The FromGo/ToGo tables of the spec are checked on every supported Go kind, through "
                 "FromInterface, a script run, ToInterface and the typed accessors."),
        "design_ref": "DESIGN.md 5.9, 8/C15",
        "note": "Trusted: TLC; the script effects written in the spec; value universe of ints and strings for the histories.",
        "technique": "TLA+ state machine of the API, edge-covering history generation by TLC, replay into the real API",
    },
    "C16": {
        "text": ("TailCall.tla models the VM's frame re-use for self calls (next instruction RET, or POP; RET with the discard flag) against plain "
                 "recursion for every shape of the code after the call and every depth: same value, constant frames exactly for tail shapes; the "
                 "pre-repair machine is rejected. TengoSem (no frames) evaluates the tailcalls family at depths 0-12; the real VM runs it there "
                 "and at depths up to 10^5 (10^6 thorough) with a frame probe against the closed form of the equivalent loop."),
        "design_ref": "DESIGN.md 8/C16",
        "note": "Trusted: TLC; closed forms for deep depths (validated against TengoSem at model depths in the same run); the probe hook.",
        "technique": "TLA+ model of the frame discipline checked by TLC + reference semantics at small depths + deep real runs with frame probe",
    },
    "C05": {
        "text": ("Every run-time error branch of the language is a named branch of TengoSem/TengoValues; programs with injected type errors are "
                 "evaluated by TLC and the real RunContext outcome must be one the model allows (the evidence lists the branches reached). The "
                 "hostile family (runaway recursion, operand-stack exhaustion, containers mutated while iterated, cyclic containers through every "
                 "traversal, builtins with extreme arguments, failing and panicking host functions) runs through RunContext in child processes: "
                 "no panic, fatal error or hang may reach the host, and GetAll/Get/Set/RunContext/Clone on the same object must keep working."),
        "design_ref": "DESIGN.md 8/C05",
        "note": "Trusted: TLC; process death / 30 s deadline as the observation of 'takes the host down'. Known findings: cyclic containers traversed inside the VM.",
        "technique": "TLA+ reference semantics predicts the error outcome of ill-typed programs; hostile programs replayed through RunContext in sacrificial child processes",
    },
    "C06": {
        "text": ("AllocTrace.tla states the VM's allocation accounting (counter N+1, tracked sites, decrement after success, stop at zero); TLC "
                 "replays the per-instruction trace of every real run under budgets 0..5, A-2..A+1, A+7 and unlimited and checks the counter at "
                 "every instruction, 'at most N tracked allocations' and 'limit error after exactly N+1'; monotonicity is checked on the real "
                 "outcomes. TengoSem with MaxStringLen=MaxBytesLen=8 predicts every string/bytes producing operation across the boundary and the "
                 "real run (maxima set to 8 in the child) must agree, with every reachable value measured. Deep recursion must end in the "
                 "stack-overflow error exactly when the frame limit is what runs out."),
        "design_ref": "DESIGN.md 8/C06",
        "note": "Trusted: TLC; the probe's report of VM.allocs; the tracked-site table transcribed from vm.go. format() is covered by C17's limit cases.",
        "technique": "TLA+ trace validation of the allocation counter (every instruction of every run) + reference semantics with small limits + boundary runs",
    },
    "C07": {
        "text": ("TLC checks RunContext.tla (PlusCal model of Compiled.RunContext + VM abort protocol) over all interleavings of "
                 "caller/runner/canceller for every program shape and length <= 8: safety (right return value, <=1 instruction after "
                 "Abort, no goroutine left, lock free) and liveness under fairness. Every cancellation scenario of the model is forced "
                 "in the real process through blocking hooks and the observation must be one the model allows; free-running executions "
                 "are trace-validated by RunContextTrace.tla."),
        "design_ref": "DESIGN.md 5.8, 8/C07",
        "note": ("Trusted: TLC; the gate library of the harness; a 20 s deadline as the observation of 'does not return'. A single long native "
                 "call is outside the bound, as the property says."),
        "technique": "TLA+/PlusCal model checking (TLC) + gate-driven schedule replay + trace validation",
    },
}

# additions made while strengthening the checks against seeded changes (DESIGN.md 15.8, 15.9)
EXTRA_NOTES = {
    "C02": "Functions beyond 64 KiB and constant pools beyond 255 entries (lib/largelib.py) are checked structurally by the harness and by closed-form results: TLC cannot take BytecodeWF through functions of that size in useful time.",
    "C03": "Functions beyond 64 KiB: optimized vs not optimized vs closed form (lib/largelib.py), jump operands decoded independently of parser.ReadOperands.",
    "C04": "Further families: list arities 0..4 for every list slot, openers of multi-character tokens x short tails, floods of scanner errors, loop/function nestings.",
    "C05": "Hostile cells also run through Script.RunContext and a never-cancellable context; repair cells require a failed object to run again after Set.",
    "C06": "The limits family runs with equal and unequal MaxStringLen/MaxBytesLen.",
    "C08": "Race reports are kept per script and keyed with the script (string inputs vs string constants); stateful builtin module and format-storm scripts.",
    "C12": "Special programs: constant pools of 245..520 entries with capturing literals, plain-object importables, a stateful builtin module, second decode of one encoding.",
    "C13": "Every graph is also compiled under path-alias names with module identity checked through the exported values; isolation matrix importer x import position x referent.",
    "C14": "Failing programs also run through Clone+ReplaceBuiltinModule and with host errors of the host's own type wrapping the engine's argument errors.",
    "C16": "The model-depth runs are also validated instruction by instruction against TengoVM.tla; tail loops entered from the last frames are judged by frame arithmetic.",
    "C20": "Grouping is checked in 30 delimiting statement/expression contexts, not only as the right-hand side of a definition.",
}
if "C20" not in CHECKS:
    CHECKS["C20"] = _C20
for _k, _v in EXTRA_NOTES.items():
    CHECKS[_k] = dict(CHECKS[_k])
    CHECKS[_k]["note"] = CHECKS[_k]["note"] + " " + _v
