package main

import (
	"flag"
	"fmt"
)

func init() {
	register("gen", "generate programs in the exchange format: gen -family smoke|random|... -n N", func(args []string) error {
		fs := flag.NewFlagSet("gen", flag.ContinueOnError)
		family := fs.String("family", "smoke", "program family")
		n := fs.Int("n", 100, "number of programs (random families)")
		seed := fs.Int64("seed", int64(envInt("VERIF_SEED", 1)), "seed")
		if err := fs.Parse(args); err != nil {
			return err
		}
		var ps []*Program
		switch *family {
		case "smoke":
			ps = smokePrograms()
		default:
			g, ok := families[*family]
			if !ok {
				return fmt.Errorf("unknown family %q", *family)
			}
			ps = g(*seed, *n)
		}
		defer flushOut()
		for i, p := range ps {
			if p.ID == 0 {
				p.ID = i + 1
			}
			emit(p.Export())
		}
		return nil
	})
}

var families = map[string]func(seed int64, n int) []*Program{}
