"""Per-property metadata: single source of truth for MANIFEST.json."""

HOOK_COMMITS = ["de1cf5f", "8fe0b83"]

NOTES = ("All checks: bin/check <ID> --tier quick|thorough; exit 0 held / 1 VIOLATION / 2 infrastructure. "
         "Scratch under ${VERIF_SCRATCH:-/var/tmp}, removed on exit. known_findings.json lists recorded defects.")

NOT_CLAIMED = {}

CHECKS = {
    "C07": {
        "text": ("TLC checks RunContext.tla (PlusCal model of Compiled.RunContext + VM abort protocol) over all interleavings of "
                 "caller/runner/canceller for every program shape and length <= 8: safety (right return value, <=1 instruction after "
                 "Abort, no goroutine left, lock free) and liveness under fairness. Every cancellation scenario of the model is forced "
                 "in the real process through blocking hooks and the observation must be one the model allows; free-running executions "
                 "are trace-validated by RunContextTrace.tla."),
        "design_ref": "DESIGN.md 5.8, 8/C07",
        "note": ("Trusted: TLC; the gate library of the harness; a 20 s deadline as the observation of 'does not return'. A single long native "
                 "call is outside the bound, as the property says."),
        "technique": "TLA+/PlusCal model checking (TLC) + gate-driven schedule replay + trace validation",
    },
}
