package main

import (
	"encoding/json"
	"fmt"
	"sort"
	"time"

	"github.com/d5/tengo/v2"
	"github.com/d5/tengo/v2/parser"
)

// Bytecode dumps: the compiler's artefacts as data for BytecodeWF.tla (raw bytes)
// and Optimizer.tla (index-addressed abstract instructions).

type fnDump struct {
	Cidx  int     `json:"cidx"` // constant index, -1 for main
	Main  bool    `json:"main"`
	Code  []int   `json:"code"`
	NL    int     `json:"nl"`
	NP    int     `json:"np"`
	VA    bool    `json:"va"`
	SMap  [][]int `json:"smap"`
	Abs   []V     `json:"abs"`   // abstract instructions (Optimizer.tla), nil if undecodable
	AbsOK bool    `json:"absok"` // every jump target is an instruction boundary or the end
}

func opWidths(op byte) ([]int, bool) {
	if int(op) >= len(parser.OpcodeOperands) {
		return nil, false
	}
	return parser.OpcodeOperands[op], true
}

func abstractCode(code []byte, smap map[int]parser.Pos) ([]V, bool) {
	type ins struct {
		off      int
		op       byte
		operands []int
	}
	var list []ins
	idxOf := map[int]int{}
	for i := 0; i < len(code); {
		w, ok := opWidths(code[i])
		if !ok {
			return nil, false
		}
		total := 0
		for _, x := range w {
			total += x
		}
		if i+1+total > len(code) {
			return nil, false
		}
		ops, read := parser.ReadOperands(w, code[i+1:])
		idxOf[i] = len(list) + 1
		list = append(list, ins{i, code[i], ops})
		i += 1 + read
	}
	idxOf[len(code)] = len(list) + 1
	ok := true
	var out []V
	for _, in := range list {
		pos := -1
		if p, has := smap[in.off]; has {
			pos = int(p)
		}
		v := V{"op": "K", "t": 0, "tag": append([]int{int(in.op)}, in.operands...), "pos": pos}
		switch in.op {
		case parser.OpReturn:
			v["op"] = "RET"
		case parser.OpJump, parser.OpJumpFalsy, parser.OpAndJump, parser.OpOrJump:
			v["op"] = map[byte]string{parser.OpJump: "JMP", parser.OpJumpFalsy: "JMPF", parser.OpAndJump: "ANDJMP", parser.OpOrJump: "ORJMP"}[in.op]
			t, has := idxOf[in.operands[0]]
			if !has {
				ok = false
				t = 0
			}
			v["t"] = t
			v["tag"] = []int{int(in.op)}
		}
		out = append(out, v)
	}
	if out == nil {
		out = []V{}
	}
	return out, ok
}

func dumpFn(f *tengo.CompiledFunction, cidx int, main bool) fnDump {
	d := fnDump{Cidx: cidx, Main: main, NL: f.NumLocals, NP: f.NumParameters, VA: f.VarArgs}
	d.Code = make([]int, len(f.Instructions))
	for i, b := range f.Instructions {
		d.Code[i] = int(b)
	}
	offs := make([]int, 0, len(f.SourceMap))
	for o := range f.SourceMap {
		offs = append(offs, o)
	}
	sort.Ints(offs)
	d.SMap = make([][]int, 0, len(offs))
	for _, o := range offs {
		d.SMap = append(d.SMap, []int{o, int(f.SourceMap[o])})
	}
	d.Abs, d.AbsOK = abstractCode(f.Instructions, f.SourceMap)
	return d
}

func dumpBytecode(bc *tengo.Bytecode, nglobals int) V {
	fns := []fnDump{dumpFn(bc.MainFunction, -1, true)}
	consts := make([]V, 0, len(bc.Constants))
	for i, c := range bc.Constants {
		switch c := c.(type) {
		case *tengo.CompiledFunction:
			consts = append(consts, V{"kind": "fn"})
			fns = append(fns, dumpFn(c, i, false))
		case *tengo.Int:
			consts = append(consts, V{"kind": "int", "s": c.String()})
		case *tengo.String:
			consts = append(consts, V{"kind": "string", "s": c.Value})
		case *tengo.Float:
			consts = append(consts, V{"kind": "float", "s": c.String()})
		case *tengo.Char:
			consts = append(consts, V{"kind": "char", "s": fmt.Sprint(int(c.Value))})
		case *tengo.ImmutableMap:
			consts = append(consts, V{"kind": "module"})
		default:
			consts = append(consts, V{"kind": "other", "s": c.TypeName()})
		}
	}
	return V{"fns": fns, "consts": consts, "nglobals": nglobals, "nbuiltins": len(tengo.GetAllBuiltinFunctions())}
}

// optPairs are the optimizer invocations recorded during the last compileForDump
var optPairs []V

func compileForDump(pc *progCase) (c *tengo.Compiled, out V) {
	optPairs = nil
	tengo.VerifSetOptSink(func(p tengo.VerifOptPair) {
		in, ok1 := abstractCode(p.In, p.InMap)
		o, ok2 := abstractCode(p.Out, p.OutMap)
		optPairs = append(optPairs, V{"unopt": in, "opt": o, "absok": ok1 && ok2, "retpos": int(p.NodePos)})
	})
	defer tengo.VerifSetOptSink(nil)
	defer func() {
		if r := recover(); r != nil {
			out = V{"k": "host_down", "how": "compile_panic", "msg": fmt.Sprint(r)}
		}
	}()
	s, _, err := buildScript(pc)
	if err != nil {
		return nil, V{"k": "harness_error", "msg": err.Error()}
	}
	tengo.VerifSetNoDCE(pc.NoDCE)
	defer tengo.VerifSetNoDCE(false)
	c, err = s.Compile()
	if err != nil {
		return nil, V{"k": "compile_error", "kind": classifyCompile(err.Error()), "msg": err.Error()}
	}
	return c, nil
}

func init() {
	register("dump", "compile programs and dump bytecode (raw + abstract), optionally without DCE", func(args []string) error {
		return runCases(30*time.Second, func(raw []byte) map[string]interface{} {
			var pc progCase
			if err := json.Unmarshal(raw, &pc); err != nil {
				return map[string]interface{}{"error": err.Error()}
			}
			c, bad := compileForDump(&pc)
			if bad != nil {
				return map[string]interface{}{"outcome": bad}
			}
			g, _ := c.VerifGlobals()
			pairs := optPairs
			if pairs == nil {
				pairs = []V{}
			}
			return map[string]interface{}{"bc": dumpBytecode(c.VerifBytecode(), len(g)), "optpairs": pairs}
		})
	})
}
