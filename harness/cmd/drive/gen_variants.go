package main

import (
	"fmt"
	"math/rand"
)

// Family "variants" (C11): for each base program the placements of its variables are changed -
// the statements moved into a function body, into a module body, sub-expressions wrapped in
// immediately-invoked function literals (locals become captured variables), all variables renamed.
// Each variant carries Meta {base, variant, names}; the comparison maps its result back.

func cloneNode(n *Node) *Node {
	if n == nil {
		return nil
	}
	c := *n
	c.E, c.L, c.R, c.C, c.A, c.B = cloneNode(n.E), cloneNode(n.L), cloneNode(n.R), cloneNode(n.C), cloneNode(n.A), cloneNode(n.B)
	c.Init, c.Post, c.Body = cloneNode(n.Init), cloneNode(n.Post), cloneNode(n.Body)
	c.List = nil
	for _, x := range n.List {
		c.List = append(c.List, cloneNode(x))
	}
	c.Params = append([]string{}, n.Params...)
	c.Keys = append([][]byte{}, n.Keys...)
	c.SV = append([]byte{}, n.SV...)
	return &c
}

func cloneStmts(st []*Node) []*Node {
	var out []*Node
	for _, s := range st {
		out = append(out, cloneNode(s))
	}
	return out
}

func rootNames(st []*Node) []string {
	var out []string
	seen := map[string]bool{}
	for _, s := range st {
		if s.T == "def" && !seen[s.Name] {
			seen[s.Name] = true
			out = append(out, s.Name)
		}
	}
	return out
}

func namesMap(names []string) *Node {
	var vals []*Node
	for _, n := range names {
		vals = append(vals, Id(n))
	}
	return Map(names, vals)
}

// exprSlots returns pointers to every expression slot that may be wrapped in an IIFE.
func exprSlots(st []*Node) []**Node {
	var slots []**Node
	var walkE func(p **Node)
	var walkS func(s *Node)
	walkE = func(p **Node) {
		n := *p
		if n == nil {
			return
		}
		if !(n.T == "str" && n.BV) {
			slots = append(slots, p)
		}
		switch n.T {
		case "fn":
			for _, s := range n.Body.List {
				walkS(s)
			}
			return
		}
		for _, c := range []**Node{&n.E, &n.L, &n.R, &n.C, &n.A, &n.B} {
			walkE(c)
		}
		for i := range n.List {
			walkE(&n.List[i])
		}
	}
	walkS = func(s *Node) {
		if s == nil {
			return
		}
		switch s.T {
		case "def":
			if s.E != nil && s.E.T == "fn" {
				// keep "f := func" direct (self reference is resolved only in that form); descend into the body
				for _, b := range s.E.Body.List {
					walkS(b)
				}
			} else {
				walkE(&s.E)
			}
		case "set":
			for i := range s.List {
				walkE(&s.List[i])
			}
			if s.Op != "++" && s.Op != "--" {
				walkE(&s.E)
			}
		case "expr", "ret", "exp":
			walkE(&s.E)
		case "if":
			walkS(s.Init)
			walkE(&s.C)
			walkS(s.A)
			walkS(s.B)
		case "for":
			walkS(s.Init)
			walkE(&s.C)
			walkS(s.Post)
			walkS(s.Body)
		case "forin":
			walkE(&s.E)
			walkS(s.Body)
		case "blk":
			for _, b := range s.List {
				walkS(b)
			}
		}
	}
	for _, s := range st {
		walkS(s)
	}
	return slots
}

func wrapIIFE(p **Node) { *p = Call(Fn(nil, false, Ret(*p))) }

func renameAll(st []*Node, inputs []Input) ([]*Node, []Input, map[string]string) {
	decl := map[string]bool{}
	var collect func(n *Node)
	collect = func(n *Node) {
		if n == nil {
			return
		}
		switch n.T {
		case "def":
			decl[n.Name] = true
		case "fn":
			for _, p := range n.Params {
				decl[p] = true
			}
		case "forin":
			if n.KName != "" && n.KName != "_" {
				decl[n.KName] = true
			}
			if n.VName != "_" {
				decl[n.VName] = true
			}
		}
		for _, c := range n.children() {
			collect(c)
		}
	}
	for _, s := range st {
		collect(s)
	}
	for _, in := range inputs {
		decl[in.Name] = true
	}
	m := map[string]string{}
	for n := range decl {
		m[n] = "zq_" + n + "_x"
	}
	var apply func(n *Node)
	apply = func(n *Node) {
		if n == nil {
			return
		}
		switch n.T {
		case "id", "def", "set":
			if r, ok := m[n.Name]; ok {
				n.Name = r
			}
		case "fn":
			for i, p := range n.Params {
				n.Params[i] = m[p]
			}
		case "forin":
			if r, ok := m[n.KName]; ok {
				n.KName = r
			}
			if r, ok := m[n.VName]; ok {
				n.VName = r
			}
		}
		for _, c := range n.children() {
			apply(c)
		}
	}
	out := cloneStmts(st)
	for _, s := range out {
		apply(s)
	}
	var ins []Input
	for _, in := range inputs {
		ins = append(ins, Input{Name: m[in.Name], V: in.V})
	}
	return out, ins, m
}

func variantsOf(r *rand.Rand, base *Program, baseIdx int) []*Program {
	names := rootNames(base.Stmts)
	meta := func(kind string) map[string]interface{} {
		return map[string]interface{}{"base": baseIdx, "variant": kind, "names": names}
	}
	out := []*Program{{Stmts: base.Stmts, Inputs: base.Inputs, Meta: meta("base")}}
	// AsFunctionBody
	body := append(cloneStmts(base.Stmts), Ret(namesMap(names)))
	out = append(out, &Program{Stmts: []*Node{Def("__out", Call(Fn(nil, false, body...)))}, Inputs: base.Inputs, Meta: meta("fn")})
	// AsModule (a module sees builtins only, so only without inputs)
	if len(base.Inputs) == 0 {
		mod := &Program{Stmts: append(cloneStmts(base.Stmts), Export(namesMap(names)))}
		out = append(out, &Program{Stmts: []*Node{Def("__out", Import("vm"))}, Modules: []Module{{Name: "vm", Prog: mod}}, Meta: meta("mod")})
	}
	// WrapIIFE: a few single sub-expressions, and all at once
	for k := 0; k < 3; k++ {
		st := cloneStmts(base.Stmts)
		slots := exprSlots(st)
		if len(slots) == 0 {
			break
		}
		wrapIIFE(slots[r.Intn(len(slots))])
		out = append(out, &Program{Stmts: st, Inputs: base.Inputs, Meta: meta(fmt.Sprintf("iife%d", k))})
	}
	{
		st := cloneStmts(base.Stmts)
		slots := exprSlots(st)
		// wrap innermost-last so that outer slots still point at live nodes
		for i := len(slots) - 1; i >= 0; i-- {
			wrapIIFE(slots[i])
		}
		out = append(out, &Program{Stmts: st, Inputs: base.Inputs, Meta: meta("iife-all")})
	}
	// both: function body with every expression wrapped
	{
		st := cloneStmts(base.Stmts)
		slots := exprSlots(st)
		for i := len(slots) - 1; i >= 0; i-- {
			wrapIIFE(slots[i])
		}
		body := append(st, Ret(namesMap(names)))
		out = append(out, &Program{Stmts: []*Node{Def("__out", Call(Fn(nil, false, body...)))}, Inputs: base.Inputs, Meta: meta("fn+iife")})
	}
	// Rename
	st, ins, m := renameAll(base.Stmts, base.Inputs)
	mm := meta("rename")
	mm["renaming"] = m
	out = append(out, &Program{Stmts: st, Inputs: ins, Meta: mm})
	return out
}

func init() {
	families["variants"] = func(seed int64, n int) []*Program {
		r := rand.New(rand.NewSource(seed))
		var ps []*Program
		// fixed bases: closures over variables of every placement that are called across instances, copied, stored in containers
		mkCounter := func() *Node {
			return Fn(nil, false, Def("c", Int(0)), Ret(Fn(nil, false, Set("c", nil, "+=", Int(1)), Ret(Id("c")))))
		}
		fixed := []*Program{
			{Stmts: []*Node{Def("mk", mkCounter()), Def("f", Call(Id("mk"))), Def("g", Call(Id("copy"), Id("f"))),
				Def("a", Call(Id("f"))), Def("b", Call(Id("g"))), Def("c2", Call(Id("f")))}},
			{Stmts: []*Node{Def("mk", mkCounter()), Def("arr", Arr(Call(Id("mk")))), Def("arr2", Call(Id("copy"), Id("arr"))),
				Def("a", Call(Idx(Id("arr"), Int(0)))), Def("b", Call(Idx(Id("arr2"), Int(0)))), Def("c2", Call(Idx(Id("arr"), Int(0))))}},
			{Stmts: []*Node{Def("mk", mkCounter()), Def("m", Map([]string{"f"}, []*Node{Call(Id("mk"))})), Def("m2", Call(Id("copy"), Id("m"))),
				Def("a", Call(Sel(Id("m"), "f"))), Def("b", Call(Sel(Id("m2"), "f"))), Def("m3", Imm(Id("m"))), Def("c2", Call(Sel(Id("m3"), "f")))}},
			{Stmts: []*Node{Def("cnt", Int(0)), Def("inc", Fn(nil, false, Set("cnt", nil, "+=", Int(1)), Ret(Id("cnt")))), Def("inc2", Call(Id("copy"), Id("inc"))),
				Def("a", Call(Id("inc"))), Def("b", Call(Id("inc2"))), Def("c2", Id("cnt"))}},
		}
		// comparing function values: literals that mention a variable which is a global here and a captured variable elsewhere (one shared
		// constant in one placement, a new closure per evaluation in the other); failing selector assignments through such a variable
		fixed = append(fixed,
			&Program{Stmts: []*Node{Def("g", Int(1)), Def("mk", Fn(nil, false, Ret(Fn(nil, false, Ret(Id("g")))))), Def("eq", Bin("==", Call(Id("mk")), Call(Id("mk")))),
				Def("f", Call(Id("mk"))), Def("eq2", Bin("==", Id("f"), Id("f"))), Def("ne", Bin("!=", Id("f"), Id("f"))), Def("same", Bin("==", Arr(Id("f")), Arr(Id("f"))))}},
			&Program{Stmts: []*Node{Def("g", Int(1)), Def("h", Fn(nil, false, Ret(Id("g")))), Def("k", Id("h")), Def("eq", Bin("==", Id("h"), Id("k"))), Def("ne", Bin("!=", Id("h"), Id("k")))}},
			&Program{Stmts: []*Node{Def("t", Int(5)), Def("w", Fn(nil, false, Set("t", []*Node{DotKey("a")}, "=", Int(1)), Ret(Id("t")))), Def("r", Call(Id("w")))}},
			&Program{Stmts: []*Node{Def("t", Str("s")), Def("w", Fn(nil, false, Set("t", []*Node{Int(0)}, "=", Int(1)), Ret(Id("t")))), Def("r", Call(Id("w")))}},
			&Program{Stmts: []*Node{Def("t", Undef()), Def("w", Fn(nil, false, Set("t", []*Node{DotKey("a"), DotKey("b")}, "=", Int(1)), Ret(Id("t")))), Def("r", Call(Id("w")))}},
			&Program{Stmts: []*Node{Def("t", Imm(Arr(Int(1)))), Def("w", Fn(nil, false, Set("t", []*Node{Int(0)}, "=", Int(1)), Ret(Id("t")))), Def("r", Call(Id("w")))}},
			&Program{Stmts: []*Node{Def("t", Map([]string{"a"}, []*Node{Int(1)})), Def("w", Fn(nil, false, Set("t", []*Node{DotKey("a"), DotKey("b")}, "=", Int(1)), Ret(Id("t")))), Def("r", Call(Id("w")))}},
		)
		for _, d := range []int{1, 2, 3} {
			for _, sp := range tailcallSpecials(d) {
				fixed = append(fixed, &Program{Stmts: sp.Stmts})
			}
		}
		// self tail calls whose parameters are captured by closures that outlive the iteration
		for _, tp := range tailcallPrograms(r, []int{2, 3}, true) {
			if c, _ := tp.Meta["capture"].(bool); c {
				fixed = append(fixed, &Program{Stmts: tp.Stmts})
			}
		}
		for i, base := range fixed {
			ps = append(ps, variantsOf(r, base, 1000000+i)...)
		}
		for i := 0; i < n; i++ {
			var base *Program
			switch i % 4 {
			case 0:
				base = dceProgram(r)
			case 1:
				base = scopesProgram(r)
			default:
				base = randomProgram(r, genOpts{Inputs: i%3 == 0, Errors: 0.004, MaxStmts: 7, Closures: true, NoLoopClosures: true})
			}
			ps = append(ps, variantsOf(r, base, i)...)
		}
		return ps
	}
}
