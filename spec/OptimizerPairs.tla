-------------------------- MODULE OptimizerPairs --------------------------
(* Artefact validation: every invocation of the real optimizer is recorded by a  *)
(* guarded hook (instructions and source map before and after).  TLC checks that *)
(* the output is exactly Optimize(input), positions included, and that the       *)
(* transformation's properties hold on that instance.                            *)
EXTENDS Optimizer, Json

Pairs == ndJsonDeserialize("pairs.ndjson")
VARIABLE pi

SameInstr(a, b) == a.op = b.op /\ a.t = b.t /\ a.tag = b.tag /\ a.pos = b.pos
SameCode(x, y) == Len(x) = Len(y) /\ \A k \in 1..Len(x) : SameInstr(x[k], y[k])

Verdict(p) ==
  LET u == p.unopt
      x == Optimize(u, p.retpos)
      props == AllProps(u, p.retpos)
  IN [id |-> p.id, fn |-> p.fn, well |-> WellTargeted(u), same |-> SameCode(x, p.opt),
      props |-> props, nu |-> Len(u), no |-> Len(p.opt), removed |-> Len(u) - Cardinality(Kept(u))]

PInit == pi = 1 /\ code = <<>>
PNext == pi < Len(Pairs) /\ pi' = pi + 1 /\ UNCHANGED code
PSpec == PInit /\ [][PNext]_<<pi, code>>
Emit == PrintT(<<"PAIR", ToJson(Verdict(Pairs[pi]))>>)
=============================================================================
