package main

import "fmt"

// Family "shapes": systematic enumeration of statement skeletons - every compound
// statement form (including the degenerate ones: empty blocks, '_' loop variables,
// else without then-code, init clauses) around every simple statement, nested up to
// depth 2, compiled both as a function body and at top level.  It exists for the
// properties about *emitted code* (C02, C03, C12): the programs are tiny but cover
// the compiler's emission paths exhaustively.
type shapeAtom struct {
	name   string
	mk     func() []*Node
	inLoop bool // needs an enclosing loop
	inFunc bool // needs an enclosing function
}

type shapeForm struct {
	name string
	mk   func(body []*Node, k int) []*Node // k disambiguates generated names
	loop bool
}

func shapeAtoms() []shapeAtom {
	return []shapeAtom{
		{"assign", func() []*Node { return []*Node{Set("x", nil, "=", Bin("+", Id("x"), Int(1)))} }, false, false},
		{"def", func() []*Node { return []*Node{Def("y", Bin("*", Id("x"), Int(2))), Set("x", nil, "+=", Id("y"))} }, false, false},
		{"expr", func() []*Node { return []*Node{ExprS(Bin("+", Id("x"), Int(1)))} }, false, false},
		{"ternary-stmt", func() []*Node { return []*Node{ExprS(Cond(Bin(">", Id("x"), Int(1)), Id("x"), Int(0)))} }, false, false},
		{"and-stmt", func() []*Node { return []*Node{ExprS(Bin("&&", Id("x"), Call(Id("len"), Id("a"))))} }, false, false},
		{"or-def", func() []*Node { return []*Node{Def("z", Bin("||", Id("x"), Cond(Id("x"), Int(1), Int(2))))} }, false, false},
		{"call-arg-ternary", func() []*Node {
			return []*Node{Set("a", nil, "=", Call(Id("append"), Id("a"), Cond(Id("x"), Int(1), Int(2)), Bin("&&", Id("x"), Int(3))))}
		}, false, false},
		{"selassign", func() []*Node { return []*Node{Set("a", []*Node{Int(0)}, "+=", Id("x"))} }, false, false},
		{"empty", func() []*Node { return nil }, false, false},
		{"break", func() []*Node { return []*Node{Brk()} }, true, false},
		{"continue", func() []*Node { return []*Node{Cont()} }, true, false},
		{"cond-break", func() []*Node { return []*Node{If(nil, Bin(">", Id("x"), Int(2)), Blk(Brk()), nil), Set("x", nil, "+=", Int(1))} }, true, false},
		{"return", func() []*Node { return []*Node{Ret(nil)} }, false, true},
		{"return-x", func() []*Node { return []*Node{Ret(Id("x"))} }, false, true},
		{"return-dead", func() []*Node { return []*Node{Ret(Id("x")), Set("x", nil, "=", Int(9))} }, false, true},
		{"closure", func() []*Node {
			return []*Node{Def("g", Fn(nil, false, Set("x", nil, "+=", Int(1)), Ret(Id("x")))), ExprS(Call(Id("g")))}
		}, false, false},
	}
}

func one(n *Node) []*Node { return []*Node{n} }

func shapeForms() []shapeForm {
	c := func() *Node { return Bin("<", Id("x"), Int(3)) }
	nm := func(p string, k int) string { return fmt.Sprintf("%s%d", p, k) }
	return []shapeForm{
		{"if", func(b []*Node, k int) []*Node { return one(If(nil, c(), Blk(b...), nil)) }, false},
		{"if-else", func(b []*Node, k int) []*Node { return one(If(nil, c(), Blk(b...), Blk(Set("x", nil, "+=", Int(2))))) }, false},
		{"if-empty-else", func(b []*Node, k int) []*Node { return one(If(nil, c(), Blk(), Blk(b...))) }, false},
		{"if-then-emptyelse", func(b []*Node, k int) []*Node { return one(If(nil, c(), Blk(b...), Blk())) }, false},
		{"if-true-empty-else", func(b []*Node, k int) []*Node { return one(If(nil, Bool(true), Blk(), Blk(b...))) }, false},
		{"if-init", func(b []*Node, k int) []*Node { return one(If(Def(nm("t", k), Id("x")), Bin("<", Id(nm("t", k)), Int(3)), Blk(b...), nil)) }, false},
		{"if-elseif", func(b []*Node, k int) []*Node {
			return one(If(nil, Bin("==", Id("x"), Int(0)), Blk(b...), If(nil, Bin("==", Id("x"), Int(1)), Blk(Set("x", nil, "+=", Int(5))), Blk(b...))))
		}, false},
		{"for3", func(b []*Node, k int) []*Node {
			i := nm("i", k)
			return one(For(Def(i, Int(0)), Bin("<", Id(i), Int(2)), IncDec(i, nil, "++"), Blk(b...)))
		}, true},
		{"for-cond", func(b []*Node, k int) []*Node {
			i := nm("j", k)
			return []*Node{Def(i, Int(0)), For(nil, Bin("<", Id(i), Int(2)), nil, Blk(append([]*Node{IncDec(i, nil, "++")}, b...)...))}
		}, true},
		{"for-ever", func(b []*Node, k int) []*Node {
			i := nm("n", k)
			return []*Node{Def(i, Int(0)), For(nil, nil, nil, Blk(append([]*Node{IncDec(i, nil, "++"), If(nil, Bin(">", Id(i), Int(2)), Blk(Brk()), nil)}, b...)...))}
		}, true},
		{"for-nopost", func(b []*Node, k int) []*Node {
			i := nm("m", k)
			return one(For(Def(i, Int(0)), Bin("<", Id(i), Int(2)), nil, Blk(append([]*Node{IncDec(i, nil, "++")}, b...)...)))
		}, true},
		{"forin-kv", func(b []*Node, k int) []*Node { return one(ForIn(nm("k", k), nm("v", k), Id("a"), Blk(b...))) }, true},
		{"forin-v", func(b []*Node, k int) []*Node { return one(ForIn("", nm("v", k), Id("a"), Blk(b...))) }, true},
		{"forin-blank", func(b []*Node, k int) []*Node { return one(ForIn("", "_", Id("a"), Blk(b...))) }, true},
		{"forin-k-blank", func(b []*Node, k int) []*Node { return one(ForIn(nm("k", k), "_", Id("a"), Blk(b...))) }, true},
		{"forin-blank-v", func(b []*Node, k int) []*Node { return one(ForIn("_", nm("v", k), Id("a"), Blk(b...))) }, true},
		{"forin-map", func(b []*Node, k int) []*Node { return one(ForIn(nm("k", k), nm("v", k), Map([]string{"p"}, []*Node{Int(1)}), Blk(b...))) }, true},
		{"forin-str", func(b []*Node, k int) []*Node { return one(ForIn("", nm("c", k), Str("ab"), Blk(b...))) }, true},
		{"forin-undef", func(b []*Node, k int) []*Node { return one(ForIn("", nm("u", k), Undef(), Blk(b...))) }, true},
		{"iife", func(b []*Node, k int) []*Node { return one(ExprS(Call(Fn(nil, false, b...)))) }, false},
		{"iife-ret", func(b []*Node, k int) []*Node {
			return one(Set("x", nil, "+=", Bin("||", Call(Fn([]string{nm("q", k)}, false, append(b, Ret(Id(nm("q", k))))...), Int(1)), Int(0))))
		}, false},
	}
}

func shapePrograms() []*Program {
	var ps []*Program
	atoms := shapeAtoms()
	forms := shapeForms()
	wrapFn := func(meta string, st []*Node) *Program {
		body := append([]*Node{Def("x", Int(0)), Def("a", Arr(Int(1), Int(2)))}, st...)
		body = append(body, Ret(Arr(Id("x"), Id("a"))))
		return &Program{Stmts: []*Node{Def("f", Fn(nil, false, body...)), Def("r", Call(Id("f"))),
			If(nil, Bool(false), Blk(Def("never", Call(Id("f")))), nil)}, Meta: map[string]interface{}{"cell": "fn:" + meta}}
	}
	wrapTop := func(meta string, st []*Node) *Program {
		return &Program{Stmts: append([]*Node{Def("x", Int(0)), Def("a", Arr(Int(1), Int(2)))}, st...), Meta: map[string]interface{}{"cell": "top:" + meta}}
	}
	usable := func(a shapeAtom, inLoop, inFunc bool) bool {
		return (!a.inLoop || inLoop) && (!a.inFunc || inFunc)
	}
	for _, f1 := range forms {
		for _, a := range atoms {
			isFn1 := f1.name == "iife" || f1.name == "iife-ret"
			if usable(a, f1.loop, true) && !(isFn1 && a.inLoop) {
				ps = append(ps, wrapFn(f1.name+"("+a.name+")", append(f1.mk(a.mk(), 1), Set("x", nil, "+=", Int(10)))))
			}
			if usable(a, f1.loop, isFn1) && !(isFn1 && a.inLoop) {
				ps = append(ps, wrapTop(f1.name+"("+a.name+")", append(f1.mk(a.mk(), 1), Set("x", nil, "+=", Int(10)))))
			}
			for _, f2 := range forms {
				isFn2 := f2.name == "iife" || f2.name == "iife-ret"
				inLoop := f2.loop || (f1.loop && !isFn2)
				if isFn2 && a.inLoop && !false {
					inLoop = f2.loop
				}
				inner := func() []*Node {
					b := f2.mk(a.mk(), 2)
					if a.name != "empty" {
						b = append(b, Set("x", nil, "+=", Int(1)))
					}
					return b
				}
				if a.inLoop && isFn2 {
					continue // break/continue directly inside a function literal is a static error
				}
				if usable(a, inLoop, true) {
					ps = append(ps, wrapFn(f1.name+"("+f2.name+"("+a.name+"))", f1.mk(inner(), 1)))
				}
				if usable(a, inLoop, isFn1 || isFn2) {
					ps = append(ps, wrapTop(f1.name+"("+f2.name+"("+a.name+"))", f1.mk(inner(), 1)))
				}
			}
		}
	}
	return ps
}

func init() {
	families["shapes"] = func(seed int64, n int) []*Program {
		ps := shapePrograms()
		if n > 0 && n < len(ps) {
			out := make([]*Program, 0, n)
			step := float64(len(ps)) / float64(n)
			off := float64(int(seed) % 13)
			for i := 0; i < n; i++ {
				out = append(out, ps[int(off+float64(i)*step)%len(ps)])
			}
			return out
		}
		return ps
	}
}
