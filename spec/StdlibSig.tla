------------------------------ MODULE StdlibSig ------------------------------
(***************************************************************************)
(* The signature table of the text, math, base64, hex and times modules (and *)
(* of the Regexp object text.re_compile returns: module "regexp") as          *)
(* documented (docs/stdlib-*.md): parameter kinds, arity range, result     *)
(* kind, whether a Go error is surfaced as an error value - and the        *)
(* documented argument coercion rules as an acceptance matrix              *)
(* (parameter kind x run-time type).  From the table TLC derives the call  *)
(* obligations: for every function, every argument count from 0 to        *)
(* max+1, and for every parameter position every run-time type with the    *)
(* other positions right-typed, the class of outcome the call must have:   *)
(* wrong_num_args, invalid_arg_type, or a value (possibly an error value)  *)
(* that must equal what the documented Go function returns on the coerced  *)
(* arguments.                                                              *)
(*                                                                         *)
(* The enum module is a library of higher-order functions over arrays and  *)
(* maps; its meaning is specified directly (All, Any, Chunk, Filter, Find, *)
(* FindKey, Map, At) and TLC evaluates it on every array over a small      *)
(* domain with a family of predicates; the real (Tengo source) module must *)
(* return the same.                                                        *)
(***************************************************************************)
EXTENDS Integers, Sequences, FiniteSets, TLC, Json, SequencesExt

CONSTANTS Mode

\* parameter kinds: S string, I int, F float, Y bytes, B bool, T time (coerced by the documented rules);
\* Zs/Zb/Zf/Zi: exactly a String/Bool/Float/Int (the strconv wrappers do not coerce their subject);
\* A: an array whose elements are coerced to strings; Sl: a string that is only looked at when padding is needed
\* <<module, name, parameter kinds, min args, max args, result kind, surfaces Go errors>>
Sigs == <<
  <<"text", "re_match", <<"S", "S">>, 2, 2, "B", TRUE>>,
  <<"text", "re_replace", <<"S", "S", "S">>, 3, 3, "S", TRUE>>,
  <<"text", "re_compile", <<"S">>, 1, 1, "O", TRUE>>,
  <<"text", "compare", <<"S", "S">>, 2, 2, "I", FALSE>>,
  <<"text", "contains", <<"S", "S">>, 2, 2, "B", FALSE>>,
  <<"text", "contains_any", <<"S", "S">>, 2, 2, "B", FALSE>>,
  <<"text", "count", <<"S", "S">>, 2, 2, "I", FALSE>>,
  <<"text", "equal_fold", <<"S", "S">>, 2, 2, "B", FALSE>>,
  <<"text", "fields", <<"S">>, 1, 1, "L", FALSE>>,
  <<"text", "has_prefix", <<"S", "S">>, 2, 2, "B", FALSE>>,
  <<"text", "has_suffix", <<"S", "S">>, 2, 2, "B", FALSE>>,
  <<"text", "index", <<"S", "S">>, 2, 2, "I", FALSE>>,
  <<"text", "index_any", <<"S", "S">>, 2, 2, "I", FALSE>>,
  <<"text", "join", <<"A", "S">>, 2, 2, "S", FALSE>>,
  <<"text", "last_index", <<"S", "S">>, 2, 2, "I", FALSE>>,
  <<"text", "last_index_any", <<"S", "S">>, 2, 2, "I", FALSE>>,
  <<"text", "repeat", <<"S", "I">>, 2, 2, "S", FALSE>>,
  <<"text", "replace", <<"S", "S", "S", "I">>, 4, 4, "S", FALSE>>,
  <<"text", "split", <<"S", "S">>, 2, 2, "L", FALSE>>,
  <<"text", "split_after", <<"S", "S">>, 2, 2, "L", FALSE>>,
  <<"text", "split_after_n", <<"S", "S", "I">>, 3, 3, "L", FALSE>>,
  <<"text", "split_n", <<"S", "S", "I">>, 3, 3, "L", FALSE>>,
  <<"text", "title", <<"S">>, 1, 1, "S", FALSE>>,
  <<"text", "to_lower", <<"S">>, 1, 1, "S", FALSE>>,
  <<"text", "to_title", <<"S">>, 1, 1, "S", FALSE>>,
  <<"text", "to_upper", <<"S">>, 1, 1, "S", FALSE>>,
  <<"text", "trim", <<"S", "S">>, 2, 2, "S", FALSE>>,
  <<"text", "trim_left", <<"S", "S">>, 2, 2, "S", FALSE>>,
  <<"text", "trim_prefix", <<"S", "S">>, 2, 2, "S", FALSE>>,
  <<"text", "trim_right", <<"S", "S">>, 2, 2, "S", FALSE>>,
  <<"text", "trim_space", <<"S">>, 1, 1, "S", FALSE>>,
  <<"text", "trim_suffix", <<"S", "S">>, 2, 2, "S", FALSE>>,
  <<"text", "atoi", <<"S">>, 1, 1, "I", TRUE>>,
  <<"text", "format_bool", <<"Zb">>, 1, 1, "S", FALSE>>,
  <<"text", "format_float", <<"Zf", "S", "I", "I">>, 4, 4, "S", FALSE>>,
  <<"text", "format_int", <<"Zi", "I">>, 2, 2, "S", FALSE>>,
  <<"text", "itoa", <<"I">>, 1, 1, "S", FALSE>>,
  <<"text", "parse_bool", <<"Zs">>, 1, 1, "B", TRUE>>,
  <<"text", "parse_float", <<"Zs", "I">>, 2, 2, "F", TRUE>>,
  <<"text", "parse_int", <<"Zs", "I", "I">>, 3, 3, "I", TRUE>>,
  <<"text", "quote", <<"S">>, 1, 1, "S", FALSE>>,
  <<"text", "unquote", <<"S">>, 1, 1, "S", TRUE>>,
  <<"text", "re_find", <<"S", "S", "I">>, 2, 3, "X", TRUE>>,
  <<"text", "re_split", <<"S", "S", "I">>, 2, 3, "L", TRUE>>,
  <<"text", "pad_left", <<"S", "I", "Sl">>, 2, 3, "S", FALSE>>,
  <<"text", "pad_right", <<"S", "I", "Sl">>, 2, 3, "S", FALSE>>,
  <<"text", "substr", <<"S", "I", "I">>, 2, 3, "S", FALSE>>,
  <<"math", "abs", <<"F">>, 1, 1, "F", FALSE>>,
  <<"math", "acos", <<"F">>, 1, 1, "F", FALSE>>,
  <<"math", "acosh", <<"F">>, 1, 1, "F", FALSE>>,
  <<"math", "asin", <<"F">>, 1, 1, "F", FALSE>>,
  <<"math", "asinh", <<"F">>, 1, 1, "F", FALSE>>,
  <<"math", "atan", <<"F">>, 1, 1, "F", FALSE>>,
  <<"math", "atanh", <<"F">>, 1, 1, "F", FALSE>>,
  <<"math", "cbrt", <<"F">>, 1, 1, "F", FALSE>>,
  <<"math", "ceil", <<"F">>, 1, 1, "F", FALSE>>,
  <<"math", "cos", <<"F">>, 1, 1, "F", FALSE>>,
  <<"math", "cosh", <<"F">>, 1, 1, "F", FALSE>>,
  <<"math", "erf", <<"F">>, 1, 1, "F", FALSE>>,
  <<"math", "erfc", <<"F">>, 1, 1, "F", FALSE>>,
  <<"math", "exp", <<"F">>, 1, 1, "F", FALSE>>,
  <<"math", "exp2", <<"F">>, 1, 1, "F", FALSE>>,
  <<"math", "expm1", <<"F">>, 1, 1, "F", FALSE>>,
  <<"math", "floor", <<"F">>, 1, 1, "F", FALSE>>,
  <<"math", "gamma", <<"F">>, 1, 1, "F", FALSE>>,
  <<"math", "j0", <<"F">>, 1, 1, "F", FALSE>>,
  <<"math", "j1", <<"F">>, 1, 1, "F", FALSE>>,
  <<"math", "log", <<"F">>, 1, 1, "F", FALSE>>,
  <<"math", "log10", <<"F">>, 1, 1, "F", FALSE>>,
  <<"math", "log1p", <<"F">>, 1, 1, "F", FALSE>>,
  <<"math", "log2", <<"F">>, 1, 1, "F", FALSE>>,
  <<"math", "logb", <<"F">>, 1, 1, "F", FALSE>>,
  <<"math", "sin", <<"F">>, 1, 1, "F", FALSE>>,
  <<"math", "sinh", <<"F">>, 1, 1, "F", FALSE>>,
  <<"math", "sqrt", <<"F">>, 1, 1, "F", FALSE>>,
  <<"math", "tan", <<"F">>, 1, 1, "F", FALSE>>,
  <<"math", "tanh", <<"F">>, 1, 1, "F", FALSE>>,
  <<"math", "trunc", <<"F">>, 1, 1, "F", FALSE>>,
  <<"math", "y0", <<"F">>, 1, 1, "F", FALSE>>,
  <<"math", "y1", <<"F">>, 1, 1, "F", FALSE>>,
  <<"math", "atan2", <<"F", "F">>, 2, 2, "F", FALSE>>,
  <<"math", "copysign", <<"F", "F">>, 2, 2, "F", FALSE>>,
  <<"math", "dim", <<"F", "F">>, 2, 2, "F", FALSE>>,
  <<"math", "hypot", <<"F", "F">>, 2, 2, "F", FALSE>>,
  <<"math", "max", <<"F", "F">>, 2, 2, "F", FALSE>>,
  <<"math", "min", <<"F", "F">>, 2, 2, "F", FALSE>>,
  <<"math", "mod", <<"F", "F">>, 2, 2, "F", FALSE>>,
  <<"math", "nextafter", <<"F", "F">>, 2, 2, "F", FALSE>>,
  <<"math", "pow", <<"F", "F">>, 2, 2, "F", FALSE>>,
  <<"math", "remainder", <<"F", "F">>, 2, 2, "F", FALSE>>,
  <<"math", "ilogb", <<"F">>, 1, 1, "I", FALSE>>,
  <<"math", "inf", <<"I">>, 1, 1, "F", FALSE>>,
  <<"math", "is_inf", <<"F", "I">>, 2, 2, "B", FALSE>>,
  <<"math", "is_nan", <<"F">>, 1, 1, "B", FALSE>>,
  <<"math", "jn", <<"I", "F">>, 2, 2, "F", FALSE>>,
  <<"math", "ldexp", <<"F", "I">>, 2, 2, "F", FALSE>>,
  <<"math", "nan", <<>>, 0, 0, "F", FALSE>>,
  <<"math", "pow10", <<"I">>, 1, 1, "F", FALSE>>,
  <<"math", "signbit", <<"F">>, 1, 1, "B", FALSE>>,
  <<"math", "yn", <<"I", "F">>, 2, 2, "F", FALSE>>,
  <<"base64", "encode", <<"Y">>, 1, 1, "S", FALSE>>,
  <<"base64", "decode", <<"S">>, 1, 1, "Y", TRUE>>,
  <<"base64", "raw_encode", <<"Y">>, 1, 1, "S", FALSE>>,
  <<"base64", "raw_decode", <<"S">>, 1, 1, "Y", TRUE>>,
  <<"base64", "url_encode", <<"Y">>, 1, 1, "S", FALSE>>,
  <<"base64", "url_decode", <<"S">>, 1, 1, "Y", TRUE>>,
  <<"base64", "raw_url_encode", <<"Y">>, 1, 1, "S", FALSE>>,
  <<"base64", "raw_url_decode", <<"S">>, 1, 1, "Y", TRUE>>,
  <<"hex", "encode", <<"Y">>, 1, 1, "S", FALSE>>,
  <<"hex", "decode", <<"S">>, 1, 1, "Y", TRUE>>,
  <<"times", "parse_duration", <<"S">>, 1, 1, "I", TRUE>>,
  <<"times", "duration_hours", <<"I">>, 1, 1, "F", FALSE>>,
  <<"times", "duration_minutes", <<"I">>, 1, 1, "F", FALSE>>,
  <<"times", "duration_nanoseconds", <<"I">>, 1, 1, "I", FALSE>>,
  <<"times", "duration_seconds", <<"I">>, 1, 1, "F", FALSE>>,
  <<"times", "duration_string", <<"I">>, 1, 1, "S", FALSE>>,
  <<"times", "month_string", <<"I">>, 1, 1, "S", FALSE>>,
  <<"times", "date", <<"I", "I", "I", "I", "I", "I", "I", "S">>, 7, 8, "T", TRUE>>,
  <<"times", "parse", <<"S", "S">>, 2, 2, "T", TRUE>>,
  <<"times", "unix", <<"I", "I">>, 2, 2, "T", FALSE>>,
  <<"times", "add", <<"T", "I">>, 2, 2, "T", FALSE>>,
  <<"times", "add_date", <<"T", "I", "I", "I">>, 4, 4, "T", FALSE>>,
  <<"times", "sub", <<"T", "T">>, 2, 2, "I", FALSE>>,
  <<"times", "after", <<"T", "T">>, 2, 2, "B", FALSE>>,
  <<"times", "before", <<"T", "T">>, 2, 2, "B", FALSE>>,
  <<"times", "time_year", <<"T">>, 1, 1, "I", FALSE>>,
  <<"times", "time_month", <<"T">>, 1, 1, "I", FALSE>>,
  <<"times", "time_day", <<"T">>, 1, 1, "I", FALSE>>,
  <<"times", "time_weekday", <<"T">>, 1, 1, "I", FALSE>>,
  <<"times", "time_hour", <<"T">>, 1, 1, "I", FALSE>>,
  <<"times", "time_minute", <<"T">>, 1, 1, "I", FALSE>>,
  <<"times", "time_second", <<"T">>, 1, 1, "I", FALSE>>,
  <<"times", "time_nanosecond", <<"T">>, 1, 1, "I", FALSE>>,
  <<"times", "time_unix", <<"T">>, 1, 1, "I", FALSE>>,
  <<"times", "time_unix_nano", <<"T">>, 1, 1, "I", FALSE>>,
  <<"times", "time_format", <<"T", "S">>, 2, 2, "S", FALSE>>,
  <<"times", "time_location", <<"T">>, 1, 1, "S", FALSE>>,
  <<"times", "time_string", <<"T">>, 1, 1, "S", FALSE>>,
  <<"times", "is_zero", <<"T">>, 1, 1, "B", FALSE>>,
  <<"times", "to_local", <<"T">>, 1, 1, "T", FALSE>>,
  <<"times", "to_utc", <<"T">>, 1, 1, "T", FALSE>>,
  <<"times", "sleep", <<"I">>, 1, 1, "N", FALSE>>,
  <<"times", "since", <<"T">>, 1, 1, "I", FALSE>>,
  <<"times", "until", <<"T">>, 1, 1, "I", FALSE>>,
  <<"times", "now", <<>>, 0, 0, "T", FALSE>>,
  <<"times", "in_location", <<"T", "S">>, 2, 2, "T", TRUE>>,
  <<"regexp", "match", <<"S">>, 1, 1, "B", FALSE>>,
  <<"regexp", "find", <<"S", "I">>, 1, 2, "X", FALSE>>,
  <<"regexp", "replace", <<"S", "S">>, 2, 2, "S", FALSE>>,
  <<"regexp", "split", <<"S", "I">>, 1, 2, "L", FALSE>> >>

\* run-time types offered in each position
RT == {"int", "float", "numstr", "text", "bool", "char", "bytes", "array", "strarray", "map", "undefined", "time", "error", "func"}

\* the documented coercions (tengo.ToString / ToInt / ToFloat64 / ToByteSlice / ToBool / ToTime)
Accepts(kind, rt) ==
  CASE kind = "S" -> rt # "undefined"
    [] kind = "I" -> rt \in {"int", "float", "char", "bool", "numstr"}
    [] kind = "F" -> rt \in {"int", "float", "numstr"}
    [] kind = "Y" -> rt \in {"bytes", "numstr", "text"}
    [] kind = "B" -> TRUE
    [] kind = "T" -> rt \in {"time", "int"}
    [] kind = "A" -> rt \in {"strarray", "array"}
    [] kind = "Zs" -> rt \in {"text", "numstr"}
    [] kind = "Zb" -> rt = "bool"
    [] kind = "Zf" -> rt = "float"
    [] kind = "Zi" -> rt = "int"
    [] kind = "Sl" -> TRUE
    [] OTHER -> FALSE

\* the canonical right-typed run-time type of a kind
Canon(kind) == CASE kind = "S" -> "text" [] kind = "I" -> "int" [] kind = "F" -> "float" [] kind = "Y" -> "bytes"
                 [] kind = "B" -> "bool" [] kind = "T" -> "time" [] kind = "A" -> "strarray"
                 [] kind \in {"Zs", "Sl"} -> "text" [] kind = "Zb" -> "bool" [] kind = "Zf" -> "float" [] kind = "Zi" -> "int" [] OTHER -> "undefined"

Case(sig, types) ==
  LET n == Len(types)
      bad == {p \in 1..n : p <= Len(sig[3]) /\ ~Accepts(sig[3][p], types[p])}
      expect == IF n < sig[4] \/ n > sig[5] THEN "wrong_num_args"
                ELSE IF bad # {} THEN "invalid_arg_type" ELSE "value"
  IN [mod |-> sig[1], fn |-> sig[2], kinds |-> sig[3], types |-> types, expect |-> expect,
      badpos |-> IF bad = {} THEN 0 ELSE CHOOSE p \in bad : \A q \in bad : p <= q,
      result |-> sig[6], surfaces |-> sig[7]]

CanonArgs(sig, n) == [p \in 1..n |-> IF p <= Len(sig[3]) THEN Canon(sig[3][p]) ELSE "int"]

EmitSigs == (Mode = "sigs") =>
  \A i \in 1..Len(Sigs) :
    LET sig == Sigs[i] IN
    /\ \A n \in 0..(sig[5] + 1) : PrintT(<<"SIG", ToJson(Case(sig, CanonArgs(sig, n)))>>)
    /\ \A n \in sig[4]..sig[5] : \A p \in 1..n : \A rt \in RT :
          PrintT(<<"SIG", ToJson(Case(sig, [CanonArgs(sig, n) EXCEPT ![p] = rt]))>>)

\* the table itself is well formed: arity range within the parameter list, names unique per module
TableSane == /\ \A i \in 1..Len(Sigs) : Sigs[i][4] <= Sigs[i][5] /\ Sigs[i][5] = Len(Sigs[i][3])
             /\ \A i, j \in 1..Len(Sigs) : (Sigs[i][1] = Sigs[j][1] /\ Sigs[i][2] = Sigs[j][2]) => i = j

\* ---- enum -----------------------------------------------------------------------
\* arrays over 0..3 up to length 4; predicates "value > t", "index >= t", "(value + index) % 2 = 0"
Vals == 0..3
Arrays == UNION {[1..n -> Vals] : n \in 0..4}
Preds == {<<"gt", t>> : t \in 0..3} \cup {<<"idxge", t>> : t \in 0..4} \cup {<<"parity", 0>>}
Holds(p, k, v) == CASE p[1] = "gt" -> v > p[2] [] p[1] = "idxge" -> k >= p[2] [] OTHER -> (v + k) % 2 = 0     \* k is the 0-based index

EAll(x, p) == \A i \in 1..Len(x) : Holds(p, i - 1, x[i])
EAny(x, p) == \E i \in 1..Len(x) : Holds(p, i - 1, x[i])
Filter(x, p) == SelectSeq([i \in 1..Len(x) |-> <<i - 1, x[i]>>], LAMBDA e : Holds(p, e[1], e[2]))
Firsts(x, p) == {i \in 1..Len(x) : Holds(p, i - 1, x[i])}
FindIdx(x, p) == IF Firsts(x, p) = {} THEN 0 ELSE CHOOSE i \in Firsts(x, p) : \A j \in Firsts(x, p) : i <= j   \* 1-based, 0 = none
RECURSIVE Chunk(_, _)
Chunk(x, n) == IF Len(x) = 0 THEN <<>> ELSE IF Len(x) <= n THEN <<x>> ELSE <<SubSeq(x, 1, n)>> \o Chunk(SubSeq(x, n + 1, Len(x)), n)
MapF(x) == [i \in 1..Len(x) |-> x[i] * 10 + (i - 1)]                \* fn(k, v) = v * 10 + k

EmitEnum == (Mode = "enum") =>
  /\ \A x \in Arrays : \A p \in Preds :
       PrintT(<<"ENUM", ToJson([x |-> x, pred |-> p[1], t |-> p[2], all |-> EAll(x, p), any |-> EAny(x, p),
                                 filter |-> [i \in 1..Len(Filter(x, p)) |-> Filter(x, p)[i][2]],
                                 find |-> FindIdx(x, p)])>>)
  /\ \A x \in Arrays : \A n \in 1..5 :
       PrintT(<<"ENUMC", ToJson([x |-> x, n |-> n, chunk |-> Chunk(x, n), map |-> MapF(x)])>>)

\* maps (and immutable maps): string keys, iteration order unspecified - all/any are order independent, find/find_key
\* must return one of the satisfying entries, map a permutation of the images, filter/chunk are "not an array": undefined
Keys == {"a", "b", "c"}
Maps == UNION {[ks -> 0..2] : ks \in SUBSET Keys}
EmitEnumMap == (Mode = "enum") =>
  \A mp \in Maps : \A t \in 0..2 :
     LET ks == SetToSeq(DOMAIN mp)
         sat == {k \in DOMAIN mp : mp[k] > t}
     IN PrintT(<<"ENUMM", ToJson([kv |-> [i \in 1..Len(ks) |-> <<ks[i], mp[ks[i]]>>], t |-> t,
                                   all |-> (\A k \in DOMAIN mp : mp[k] > t), any |-> (sat # {}),
                                   sat |-> SetToSeq(sat),
                                   at |-> [i \in 1..3 |-> LET k == SetToSeq(Keys)[i] IN <<k, IF k \in DOMAIN mp THEN mp[k] ELSE -1>>]])>>)

\* laws of the enum specification (checked by TLC over the whole domain)
EnumLaws == (Mode = "enum") =>
  \A x \in Arrays : \A p \in Preds :
     /\ EAll(x, p) <=> Len(Filter(x, p)) = Len(x)
     /\ EAny(x, p) <=> FindIdx(x, p) # 0
     /\ \A n \in 1..5 : LET c == Chunk(x, n) IN
          /\ \A i \in 1..Len(c) : Len(c[i]) <= n /\ (i < Len(c) => Len(c[i]) = n)
          /\ Len(x) = 0 <=> Len(c) = 0

VARIABLE c
Init == c = 0
Next == UNCHANGED c
Spec == Init /\ [][Next]_c
=============================================================================
