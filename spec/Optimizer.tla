----------------------------- MODULE Optimizer -----------------------------
(***************************************************************************)
(* Dead-code elimination of the compiler (compiler.go optimizeFunc),       *)
(* transcribed on index-addressed abstract code.  An instruction is        *)
(*   [op, t, tag, pos]  op in {K, RET, JMP, JMPF, ANDJMP, ORJMP}           *)
(* where K is any non-jump, non-return instruction (its opcode and         *)
(* operands are the tag), t is the jump target as an instruction index     *)
(* (Len+1 = end of function) and pos the source position recorded for the  *)
(* instruction (-1 none).                                                  *)
(*                                                                         *)
(*   pass 1  Dsts      jump destinations (of every jump, dead or not)      *)
(*   pass 2  Kept      a RET that is not a destination starts a dead       *)
(*                     region; a destination ends it                       *)
(*   pass 3  Retarget  jumps of kept instructions follow posMap; a jump to *)
(*                     the old end goes to the new end and forces a RET    *)
(*   pass 4  positions of surviving instructions are carried over          *)
(*   tail    RET 0 appended when the last kept instruction is not a RET or *)
(*           something jumps to the end                                    *)
(***************************************************************************)
EXTENDS Integers, Sequences, FiniteSets, TLC, SequencesExt

JumpOps == {"JMP", "JMPF", "ANDJMP", "ORJMP"}
IsJump(i) == i.op \in JumpOps
RetTag == <<21, 0>>                      \* OpReturn 0

\* ---- transcription ------------------------------------------------------
Dsts(code) == {code[j].t : j \in {i \in 1..Len(code) : IsJump(code[i])}}

RECURSIVE Pass2(_, _, _, _, _)
Pass2(code, dsts, i, dead, kept) ==
  IF i > Len(code) THEN kept
  ELSE IF i \in dsts THEN Pass2(code, dsts, i + 1, FALSE, kept \cup {i})
  ELSE IF code[i].op = "RET" THEN
         (IF dead THEN Pass2(code, dsts, i + 1, dead, kept)
          ELSE Pass2(code, dsts, i + 1, TRUE, kept \cup {i}))
  ELSE IF dead THEN Pass2(code, dsts, i + 1, dead, kept)
  ELSE Pass2(code, dsts, i + 1, dead, kept \cup {i})
Kept(code) == Pass2(code, Dsts(code), 1, FALSE, {})

\* Everything derived from one evaluation of the passes
Opt(code, retpos) ==
  LET kept == Kept(code)
      ks == SetToSortSeq(kept, <)
      n == Len(code)
      nk == Len(ks)
      np == [i \in kept |-> CHOOSE k \in 1..nk : ks[k] = i]         \* posMap
      rt(t) == IF t \in kept THEN np[t] ELSE IF t = n + 1 THEN nk + 1 ELSE -1   \* -1: the panic branch
      body == [k \in 1..nk |-> LET i == code[ks[k]] IN IF IsJump(i) THEN [i EXCEPT !.t = rt(i.t)] ELSE i]
      j2e == \E k \in 1..nk : IsJump(body[k]) /\ body[k].t = nk + 1
      need == j2e \/ nk = 0 \/ body[nk].op # "RET"
      out == IF need THEN Append(body, [op |-> "RET", t |-> 0, tag |-> RetTag, pos |-> retpos]) ELSE body
  IN [kept |-> kept, ks |-> ks, np |-> np, nk |-> nk, body |-> body, need |-> need, out |-> out]

Optimize(code, retpos) == Opt(code, retpos).out

\* ---- control-flow semantics of abstract code ----------------------------
Succ(code, i) ==   \* Len+1 = "fell off the end"
  IF i > Len(code) THEN {}
  ELSE CASE code[i].op = "RET" -> {}
         [] code[i].op = "JMP" -> {code[i].t}
         [] code[i].op \in {"JMPF", "ANDJMP", "ORJMP"} -> {code[i].t, i + 1}
         [] OTHER -> {i + 1}

RECURSIVE ReachFrom(_, _, _)
ReachFrom(code, frontier, seen) ==
  IF frontier = {} THEN seen
  ELSE LET nxt == (UNION {Succ(code, i) : i \in frontier}) \ seen
       IN ReachFrom(code, nxt, seen \cup nxt)
Reach(code) == ReachFrom(code, {1}, {1})

WellTargeted(code) == \A i \in 1..Len(code) : IsJump(code[i]) => code[i].t \in 1..(Len(code) + 1)

\* ---- properties of the transformation -----------------------------------
NoPanic(code, o) == \A k \in 1..o.nk : IsJump(o.body[k]) => o.body[k].t >= 1
RemovedUnreachable(code, o) == \A i \in Reach(code) \cap (1..Len(code)) : i \in o.kept
EndsInRet(code, o) == Len(o.out) > 0 /\ o.out[Len(o.out)].op = "RET"
Simulates(code, o) ==
  LET n == Len(code)
      M(i) == IF i = n + 1 THEN o.nk + 1 ELSE o.np[i]
  IN \A i \in Reach(code) \cap (1..n) :
        /\ o.out[M(i)].op = code[i].op
        /\ o.out[M(i)].tag = code[i].tag
        /\ {M(s) : s \in Succ(code, i)} = Succ(o.out, M(i))
EndOK(code, o) ==
  LET n == Len(code) IN
  (n + 1) \in Reach(code) => (o.nk + 1 <= Len(o.out) /\ o.out[o.nk + 1].op = "RET")
PosPreserved(code, o) == \A k \in 1..o.nk : o.out[k].pos = code[o.ks[k]].pos

AllProps(code, retpos) ==
  LET o == Opt(code, retpos) IN
  [nopanic |-> NoPanic(code, o),
   unreachable_only |-> RemovedUnreachable(code, o),
   ends_in_ret |-> EndsInRet(code, o),
   simulates |-> NoPanic(code, o) => Simulates(code, o),
   end_ok |-> EndOK(code, o),
   pos |-> PosPreserved(code, o)]

Holds(code, retpos) ==
  LET p == AllProps(code, retpos) IN
  p.nopanic /\ p.unreachable_only /\ p.ends_in_ret /\ p.simulates /\ p.end_ok /\ p.pos

\* ---- exhaustive exploration of all small instruction sequences ----------
CONSTANTS MaxLen, Alphabet      \* Alphabet \subseteq JumpOps \cup {"K", "RET"}

VARIABLE code

Instr(pos) == [op : Alphabet \cap {"K"}, t : {0}, tag : {<<0, pos>>}, pos : {pos}]
         \cup [op : Alphabet \cap {"RET"}, t : {0}, tag : {<<21, 1>>}, pos : {pos}]
         \cup [op : Alphabet \cap JumpOps, t : 1..(MaxLen + 1), tag : {<<12>>}, pos : {pos}]

Init == code = <<>>
Next == /\ Len(code) < MaxLen
        /\ \E i \in Instr(Len(code) + 1) : code' = Append(code, i)
Spec == Init /\ [][Next]_code

Inv == WellTargeted(code) => Holds(code, 0)
=============================================================================
