package main

import (
	"encoding/json"
	"fmt"
	"time"

	"github.com/d5/tengo/v2"
)

// vmreuse: one VM object (NewVM with an allocation budget) run several times: the budget is per run.
func init() {
	register("vmreuse", "C06: a VM with an allocation budget, run repeatedly: every run has the whole budget", func(args []string) error {
		return runCases(30*time.Second, func(raw []byte) map[string]interface{} {
			var in struct {
				progCase
				Budget int64 `json:"budget"`
				Runs   int   `json:"runs"`
			}
			if err := json.Unmarshal(raw, &in); err != nil {
				return map[string]interface{}{"error": err.Error()}
			}
			c, bad := compileForDump(&in.progCase)
			if bad != nil {
				return map[string]interface{}{"outcome": bad}
			}
			globals, _ := c.VerifGlobals()
			var ends []string
			func() {
				defer func() {
					if r := recover(); r != nil {
						ends = append(ends, "panic:"+fmt.Sprint(r))
					}
				}()
				vm := tengo.NewVM(c.VerifBytecode(), globals, in.Budget)
				for i := 0; i < in.Runs; i++ {
					if err := vm.Run(); err != nil {
						ends = append(ends, classifyRuntime(err))
					} else {
						ends = append(ends, "ok")
					}
				}
			}()
			return map[string]interface{}{"ends": ends}
		})
	})
}
