"""C17 format() and sprintf agree with Go's fmt for every documented verb.

E: FormatDirective.tla - the directive grammar (flags x index x width x precision x index x verb) and a
   transcription of the reference's argument bookkeeping (argNum / afterIndex / reordered / goodArgNum):
   TLC enumerates every directive of the grammar (and two-directive formats over a reduced alphabet)
   with 0..3 (0..4) arguments and computes the consumption trace: which argument is the width, the
   precision, the value; which error marker results; whether surplus arguments remain.
R: every enumerated case is rendered to concrete format strings (seeded flag order, numbers) and seeded
   argument vectors over the five mapped types (boundary ints, special floats, non-UTF-8 strings, nil/empty
   bytes); '*' positions get ints, sometimes not.  tengo.Format, the builtin format and fmt.sprintf (through
   a compiled script) produce the text.
O: fmt.Sprintf on the corresponding Go values (int, float64, string, bool, []byte; Go type names in bad-verb
   markers renamed to the tengo names); the spec's trace must predict the reference's error markers (this
   binds the spec), the real text must equal the reference's except for the three exclusions of the
   property (decided per directive from the trace).  Arbitrary formats x arbitrary objects: a string or
   ErrStringLimit, never a panic.
"""
import json

import vlib

CFG = 'SPECIFICATION Spec\nCONSTANTS\n  Thorough = %s\n  Mode = "%s"\n  Part = %d\n  NParts = %d\nINVARIANTS Emit1 Emit2 TraceSane\n'


def enumerate_cases(ck, mode, nparts):
    def one(part):
        r = ck.tlc("FormatDirective", CFG % ("FALSE" if ck.quick() else "TRUE", mode, part, nparts), workers=1, name="%s-%d" % (mode, part), timeout=3000, xmx="3g")
        return [c for c in r.tagged("FMT")]
    out = []
    for l in vlib.parallel(one, list(range(nparts)), nproc=min(nparts, 14)):
        out += l
    return out


def run(ck):
    quick = ck.quick()
    cases = enumerate_cases(ck, "quick" if quick else "single", 11 if quick else 22)
    n1 = len(cases)
    cases += enumerate_cases(ck, "double", 8)
    n2 = len(cases) - n1
    B = 400
    batches = [{"id": i, "batch": cases[k:k + B], "seed": ck.seed * 1000003 + i, "vectors": 2 if quick else 8, "script_every": 7}
               for i, k in enumerate(range(0, len(cases), B))]
    # deterministic sweep per verb: flags x widths x precisions (also beyond the formatter's fixed scratch buffers) x every table value
    for v in ["v", "T", "t", "b", "c", "d", "o", "O", "q", "x", "X", "U", "e", "E", "f", "F", "g", "G", "s", "z"]:
        batches.append({"id": len(batches), "sweep": v, "seed": ck.seed})
    res = vlib.run_cases(ck, "format", batches, nproc=14, timeout=3000)
    res = vlib.retry_hangs(ck, "format", batches, res, timeout=3000)
    stats = {}
    keycount, seen = {}, set()
    for b in batches:
        o = res[b["id"]]
        if o.get("died") or o.get("hang") or o.get("panic"):
            ck.violation("fatal:format", "formatting killed, hung or panicked the driver: %s" % json.dumps(o)[:400],
                         {"kind": "batch", "batch": b, "real": o})
            continue
        if "error" in o:
            raise vlib.Infra("format driver: " + o["error"])
        for k, v in o["stats"].items():
            stats[k] = stats.get(k, 0) + v
        for k, v in (o.get("by_key") or {}).items():
            keycount[k] = keycount.get(k, 0) + v
        for m in o.get("mismatches") or []:
            if m["key"] in seen:
                continue
            seen.add(m["key"])
            ck.violation(m["key"], "%s: format %r args %s\n  go:    %r\n  tengo: %r" % (m["what"], m["format"], json.dumps(m["args"])[:300], m["go"], m["tengo"]),
                         {"kind": "one", "format": m["format"], "args": m["args"], "go": m["go"], "tengo": m["tengo"]})
    ck.evaluations += stats.get("compared", 0) + sum(v for k, v in stats.items() if k.startswith("excluded:"))
    ck.traces += stats.get("compared", 0)
    # arbitrary formats and arguments
    fz = [{"id": i, "seed": ck.seed * 7919 + i, "n": 20000 if quick else 400000, "max_str": [0, 64, 1000, 3][i % 4]} for i in range(14)]
    fres = vlib.run_cases(ck, "formatfuzz", fz, nproc=14, timeout=3000)
    fres = vlib.retry_hangs(ck, "formatfuzz", fz, fres, timeout=3000)
    fstats = {}
    for c in fz:
        o = fres[c["id"]]
        if o.get("died") or o.get("hang") or o.get("panic"):
            ck.violation("fatal:formatfuzz", "arbitrary format killed, hung or panicked the driver: %s" % json.dumps(o)[:400], {"kind": "fuzz", "case": c, "real": o})
            continue
        for k, v in o["stats"].items():
            fstats[k] = fstats.get(k, 0) + v
        for b in o.get("bad") or []:
            ck.violation("fuzz:" + b["key"], "arbitrary format %r with args %s: %s" % (b["text"], json.dumps(b["args"])[:300], b["key"]),
                         {"kind": "fuzzone", "format": b["format"], "args": b["args"], "max_str": c["max_str"]})
    ck.evaluations += fstats.get("string", 0) + fstats.get("string_limit", 0)
    ck.traces += fstats.get("string", 0) + fstats.get("string_limit", 0)
    ck.extra.update({"mismatch_instances_by_key": keycount, "single_directive_cases": n1, "two_directive_cases": n2, "comparison_stats": stats, "fuzz_stats": fstats})
    for k in stats:
        ck.note_distinct(k)
    for c in cases[::211]:
        ck.note_distinct(json.dumps(c["dirs"]))
    ck.add_sample({"case": cases[len(cases) // 3]})
    ck.rule = ("every directive of the grammar enumerated by TLC x 0..3 arguments x seeded argument vectors; non-trivial counted conservatively as "
               "distinct outcome/exclusion classes plus every 211th directive shape")
    ck.assumptions = ["the Go value corresponding to Int is int, Float float64, String string, Bool bool, Bytes []byte; Go type names inside bad-verb markers are renamed to tengo's",
                      "%T is documented as tengo's type name and compared after the same renaming",
                      "literal widths 1..12 and precisions 0..8; '*' values from a boundary table (incl. > 1e6)"]


def replay(ck, path):
    rep = json.load(open(path))["replay"]
    if rep["kind"] == "one":
        print(json.dumps(vlib.run_cases(ck, "format", [{"id": 0, "format": rep["format"], "args": rep["args"]}], nproc=1)[0], indent=1)[:3000])
    elif rep["kind"] == "fuzzone":
        print(json.dumps(vlib.run_cases(ck, "formatfuzz", [{"id": 0, "format": rep["format"], "args": rep["args"], "max_str": rep["max_str"]}], nproc=1)[0], indent=1)[:3000])
    else:
        print(json.dumps(rep)[:3000])
    return 0
