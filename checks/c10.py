"""C10 Value equality, ordering, truthiness, copy and conversion obey their laws.

E: Laws.tla - the equality/ordering/truthiness/copy/conversion tables over abstract
   descriptors (types x relation), with the property's laws (symmetry, negation, converse,
   trichotomy, <= is < or ==, int/char ordered never equal, NaN unordered) checked by TLC as
   invariants over every descriptor; the tables are emitted.
R: a concrete universe with boundary numerics (min/max int, 2^53+1, +-0, NaN, +-Inf), non-ASCII
   strings, nested/shared containers, immutable variants, errors, times, functions - plus
   seeded random values.  For every ordered pair the harness computes the abstract descriptor
   with Go's own operators and evaluates the real runtime both through the Object API and
   through compiled scripts; singles are checked for truthiness, copy (type, equality, no
   shared mutable state at any depth) and every conversion builtin with and without default.
"""
import json

import vlib

CFG = "SPECIFICATION Spec\nINVARIANTS LawsHold EmitPair EmitSingles\n"
KEYS = ("lt", "le", "gt", "ge")


def run(ck):
    quick = ck.quick()
    r = ck.tlc("Laws", CFG, workers=1, name="laws", timeout=300)
    if r.violated:
        raise vlib.Infra("Laws.tla: the tables violate %s:\n%s" % (r.violated, r.stdout[-3000:]))
    table = {}
    for p in r.tagged("PAIR"):
        table[(p["ta"], p["tb"], p["rel"])] = p
    types = {t["t"]: t for t in r.tagged("TYPE")}
    ck.log("Laws.tla: %d pair descriptors, %d types; laws hold on the tables" % (len(table), len(types)))
    nrand = 60 if quick else 500
    out = ck.drive(["laws", "-random", str(nrand)], timeout=3000)
    npairs = nsingles = 0
    used = set()
    for line in out.stdout.splitlines():
        if not line.startswith("{"):
            continue
        o = json.loads(line)
        if "single" in o:
            nsingles += 1
            check_single(ck, o, types)
            continue
        npairs += 1
        key = (o["ta"], o["tb"], o["rel"])
        exp = table.get(key)
        if exp is None:
            raise vlib.Infra("descriptor %s not in the model's tables (harness/model mismatch)" % (key,))
        used.add(key)
        bad = []
        for route in ("api", "script"):
            got = o[route]
            if got["eq"] is not exp["eq"]:
                bad.append("%s: == gives %s, expected %s" % (route, got["eq"], exp["eq"]))
            if route == "script" and got["ne"] is not (not exp["eq"]):
                bad.append("script: != gives %s, expected %s" % (got["ne"], not exp["eq"]))
            for k in KEYS:
                if got[k] != exp[k] or type(got[k]) != type(exp[k]):
                    bad.append("%s: %s gives %s, expected %s" % (route, k, got[k], exp[k]))
        if bad:
            ck.violation("pair:%s/%s/%s" % key, "%s vs %s (%s): %s" % (o["a"], o["b"], o["rel"], "; ".join(bad[:4])), {"pair": o, "expected": exp})
        else:
            ck.traces += 1
            if len(ck.samples) < 3 and o["ta"] != o["tb"] and exp["lt"] != "err":
                ck.add_sample({"a": o["a"], "b": o["b"], "descriptor": key, "real": o["api"]})
    ck.evaluations = npairs + nsingles
    for k in used:
        ck.note_distinct("/".join(k))
    ck.extra.update({"pairs": npairs, "singles": nsingles, "descriptors_exercised": len(used), "descriptors_in_model": len(table)})
    missing = sorted(set(table) - used)
    ck.extra["descriptors_not_exercised"] = ["/".join(m) for m in missing][:40]
    ck.rule = "all ordered pairs of the concrete universe (+ seeded random values); non-trivial = distinct abstract descriptors exercised"
    ck.assumptions = ["the abstract descriptor of a pair is computed with Go's own comparison operators (the int converted to float64 for int/float)",
                      "conversion values are compared with strconv / Go conversions, as the documentation names them"]


def check_single(ck, o, types):
    t = types.get(o["t"])
    name = o["single"]
    if t is None:
        raise vlib.Infra("type %s not in the model" % o["t"])
    bad = []  # (class, text)
    exp_f = t["falsy"][o["flag"]]
    if o["falsy_api"] is not exp_f:
        bad.append(("truthiness", "IsFalsy gives %s, expected %s" % (o["falsy_api"], exp_f)))
    if o["falsy_script"] is not exp_f:
        bad.append(("truthiness", "!x gives %s, expected %s" % (o["falsy_script"], exp_f)))
    # x == x: whatever == answers for two values of this kind that are "the same" (NaN and functions are never equal, not even to themselves),
    # and != is its negation, whether the two sides are one object or two
    if "self_eq" in o:
        reflexive = not ("nan" in name or o["t"] in ("function", "builtin"))
        if o["self_eq"] is not reflexive or o["self_ne"] is not (not reflexive) or o["alias_eq"] is not reflexive or o["self_api"] is not reflexive:
            bad.append(("self-equality", "x == x gives %s, x != x gives %s, [x][0] == x gives %s, x.Equals(x) gives %s; expected %s / %s" % (
                o["self_eq"], o["self_ne"], o["alias_eq"], o["self_api"], reflexive, not reflexive)))
    c = o["copy"]
    if c.get("nil"):
        bad.append(("copy-nil", "Copy() returned nil"))
    else:
        if c["type"] != t["copytype"]:
            bad.append(("copy-type", "copy has type %s, expected %s" % (c["type"], t["copytype"])))
        nan_inside = "nan" in name
        if t["copyequal"] and not nan_inside:
            if not c["equal_api"] or o["copy_script_equal"] is not True:
                bad.append(("copy-not-equal", "copy is not equal to the original (Equals: %s, copy(x) == x: %s)" % (c["equal_api"], o["copy_script_equal"])))
        if not c["same_snapshot"] and t["copytype"] == o["t"]:
            bad.append(("copy-differs", "copy differs structurally from the original"))
        if not c["original_unchanged"]:
            bad.append(("copy-shares-state", "mutating the copy changed the original (shared mutable state)"))
    orc = o["oracle"]
    order_dependent = o["t"] in ("map", "immutable-map")    # String() of a map depends on Go map order
    for dst, res in o["conv"].items():
        rule = t["conv"][dst]
        plain, dflt = res["plain"], res["dflt"]
        converts = rule == "ok" or (rule == "parse" and orc.get(dst + "_parses"))
        if "err" in plain or "compile" in plain:
            bad.append(("conv-" + dst, "%s(x) failed: %s" % (dst, plain)))
            continue
        if converts:
            if plain["t"] != dst:
                bad.append(("conv-" + dst, "%s(x) gives %s, expected a %s" % (dst, plain["t"], dst)))
            else:
                bad += [("conv-" + dst, m) for m in check_value(dst, plain, orc)]
            if dst == "bool":
                if "err" not in dflt:
                    bad.append(("conv-bool", "bool(x, default) did not fail with wrong number of arguments"))
            elif dflt.get("t") != plain["t"] or (dflt.get("v") != plain["v"] and not (order_dependent and dst == "string")):
                bad.append(("conv-" + dst, "%s(x, default) differs from %s(x) although x converts" % (dst, dst)))
        else:
            if plain["t"] != "undefined":
                bad.append(("conv-" + dst, "%s(x) gives %s, expected undefined (no conversion)" % (dst, plain["t"])))
            if dflt.get("s") != "DFLT":
                bad.append(("conv-" + dst, "%s(x, default) gives %s, expected the default" % (dst, dflt)))
    if not bad:
        ck.traces += 1
    for cls in sorted({c for c, _ in bad}):
        ck.violation("single:%s:%s" % (o["t"], cls), "%s: %s" % (name, "; ".join(m for c, m in bad if c == cls)[:600]), {"single": o, "model": t})


def check_value(dst, plain, orc):
    bad = []
    if dst == "string" and "string" in orc and plain.get("s") != orc["string"]:
        bad.append("string(x) = %r, Go gives %r" % (plain.get("s"), orc["string"]))
    if dst == "int" and "int" in orc and str(plain["v"].get("n")) != orc["int"]:
        bad.append("int(x) = %s, Go gives %s" % (plain["v"].get("n"), orc["int"]))
    if dst == "float" and "float_bits" in orc and plain.get("fbits") != orc["float_bits"]:
        bad.append("float(x) bits %s, Go gives %s" % (plain.get("fbits"), orc["float_bits"]))
    if dst == "char" and "char" in orc and str(plain["v"].get("c")) != orc["char"]:
        bad.append("char(x) = %s, Go gives %s" % (plain["v"].get("c"), orc["char"]))
    if dst == "bytes" and "bytes" in orc and plain["v"].get("b") != orc["bytes"]:
        bad.append("bytes(x) = %s, Go gives %s" % (plain["v"].get("b"), orc["bytes"]))
    if dst == "bytes" and "bytes_len" in orc and plain["v"].get("b") != [0] * orc["bytes_len"]:
        bad.append("bytes(N) is not N zero bytes")
    if dst == "time" and "time_unixnano" in orc and plain.get("unixnano") != orc["time_unixnano"]:
        bad.append("time(x) = %s ns, Go gives %s" % (plain.get("unixnano"), orc["time_unixnano"]))
    return bad


def replay(ck, path):
    print(json.dumps(json.load(open(path))["replay"], indent=1)[:3000])
    return 0
