"""C02 Emitted bytecode is structurally sound and stack-balanced.

E: BytecodeWF.tla - an abstract interpreter over the raw instruction bytes of every
   function of every compiled program (all paths, executed or not): boundaries, jump
   targets, operand validity, stack heights equal along all paths and never negative,
   every path ends in RET/SUSPEND.
R: the real compiler's bytecode (after RemoveDuplicates) is the artefact TLC checks; the
   heights H computed by TLC are then a prediction the real VM must meet at every
   dispatched instruction: sp = basePointer + NumLocals + H[fn][ip] (probe hook), and a
   run that ends without error leaves sp = 0.
"""
import json

import largelib
import vmabortlib
import semlib
import vlib

CFG = "SPECIFICATION Spec\nINVARIANT TypeOK\n"


def wf_batch(ck, dumps, njobs=12, tag="wf"):
    """dumps: {id: bc}.  Returns ({(id, cidx): verdict})."""
    items = []
    for pid, bc in dumps.items():
        fns = [{"cidx": f["cidx"], "main": f["main"], "code": f["code"], "nl": f["nl"], "np": f["np"]} for f in bc["fns"]]
        items.append({"id": pid, "fns": fns, "consts": [{"kind": c["kind"]} for c in bc["consts"]],
                      "nglobals": bc["nglobals"], "nbuiltins": bc["nbuiltins"]})
    njobs = max(1, min(njobs, (len(items) + 9) // 10))
    batches = [items[i::njobs] for i in range(njobs) if items[i::njobs]]

    def job(ib):
        i, b = ib
        return ck.tlc("BytecodeWF", CFG, files={"bytecode.ndjson": vlib.ndjson(b)}, workers=1, name="%s%d" % (tag, i),
                      timeout=1800, xmx="3g", xss="512m")
    out = {}
    for r in vlib.parallel(job, list(enumerate(batches)), nproc=len(batches)):
        if r.violated:
            raise vlib.Infra("BytecodeWF invariant %s violated:\n%s" % (r.violated, r.stdout[-2000:]))
        for v in r.tagged("FN"):
            out[(v["id"], v["cidx"])] = v
    want = sum(len(bc["fns"]) for bc in dumps.values())
    if len(out) != want:
        raise vlib.Infra("BytecodeWF judged %d of %d functions" % (len(out), want))
    return out


def run(ck):
    quick = ck.quick()
    n = 300 if quick else 8000
    progs = []
    for fam, k in (("random", n), ("dce", n // 2), ("alias", n // 6), ("smoke", 0), ("shapes", 4000 if quick else 0),
                   ("modules", n // 6), ("m-closure", 0), ("m-assign", 0), ("m-call", 0)):
        ps = semlib.generate(ck, fam, k)
        for p in ps:
            p["id"] = len(progs) + 1
            p["family"] = fam
            progs.append(p)
    byid = {p["id"]: p for p in progs}
    cases = [{"id": p["id"], "src": p["src"], "inputs": p.get("inputs", []), "mods": p.get("mods", [])} for p in progs]
    d = vlib.run_cases(ck, "dump", cases, nproc=8)
    dumps = {}
    for p in progs:
        r = d[p["id"]]
        if "bc" in r:
            dumps[p["id"]] = r["bc"]
        elif r.get("outcome", {}).get("k") == "host_down":
            ck.violation("compile-panic", "compiler panicked:\n" + p["src"], {"program": p, "result": r})
    verdicts = wf_batch(ck, dumps)
    nfn = 0
    for (pid, cidx), v in sorted(verdicts.items()):
        nfn += 1
        if not v["ok"]:
            ck.violation("wf:" + v["why"], "function const %d is ill-formed at offset %d: %s\n%s" % (cidx, v["at"], v["why"], byid[pid]["src"]),
                         {"program": byid[pid], "cidx": cidx, "verdict": {k: v[k] for k in ("why", "at")}})
        else:
            ck.note_distinct(json.dumps(dumps[pid]["fns"][[f["cidx"] for f in dumps[pid]["fns"]].index(cidx)]["code"]))
    ck.log("%d programs, %d functions checked by BytecodeWF" % (len(dumps), nfn))
    # ---- probe: the real VM against the predicted heights
    pcases = []
    for p in progs:
        if p["id"] not in dumps:
            continue
        hs = [{"cidx": cidx, "h": v["h"]} for (pid, cidx), v in verdicts.items() if pid == p["id"] and v["ok"]]
        pcases.append({"id": p["id"], "src": p["src"], "inputs": p.get("inputs", []), "mods": p.get("mods", []), "heights": hs})
    pr = vlib.run_cases(ck, "probe", pcases, nproc=8)
    steps = 0
    fam = {}
    for c in pcases:
        r = pr[c["id"]]
        p = byid[c["id"]]
        if r.get("hang") or r.get("died") or r.get("panic"):
            ck.violation("probe-host-down", "run did not return:\n" + p["src"], {"program": p, "result": r})
            continue
        if "steps" not in r:
            continue
        steps += r["steps"]
        for k, v in (r.get("fam") or {}).items():
            fam[k] = fam.get(k, 0) + v
        if r.get("mismatches"):
            m = r["mismatches"][0]
            ck.violation("height:" + m["why"], "real VM disagrees with the static stack height: %s\n%s" % (json.dumps(m), p["src"]),
                         {"program": p, "mismatches": r["mismatches"]})
        elif r.get("kind") == "other" and any(s in r.get("err", "") for s in ("unknown opcode", "not function")):
            ck.violation("internal-fault", "internal fault at run time: %s\n%s" % (r["err"], p["src"]), {"program": p, "result": r})
        else:
            ck.traces += 1
    ck.evaluations = nfn + len(pcases)
    # ---- function values that went through copy() (a second CompiledFunction object describing the same code), and programs the
    # compiler must reject (were they accepted, their bytecode would have no sound shape: RET without a caller frame, ...)
    extra = []
    for body in ("a := 1; b := 2; c := [a, b, p]; return c", "t := 0; for x in [1, 2, 3] { t += x }; return t + p", "for k, v in {a: 1} { p += v }; q := p * 2; return q",
                 "g := func(y) { z := y + p; return z }; return g(1)", "x := p; if x > 0 { y := x; x = y + 1 }; return x"):
        extra.append({"src": "f := func(p) { %s }\nh := copy(f)\nr := [f(1), h(1), copy(h)(2)]\nm := copy({k: f})\nr2 := m.k(3)\n" % body, "tag": "copied-function", "valid": True})
    for src in ("if true { return 1 }", "for { return }", "for x in [1] { if x { return x } }", "x := 1\nif x { return }\nx = 2", "if true { break }", "if true { continue }",
                "f := func() { for { g := func() { break } } }", "for { f := func() { continue }; break }",
                # more values than targets / more targets than values: every surplus value would stay on the operand stack
                "a := 1, 2", "x := 0\nx = 1, 2", "x := 0\nfor i := 0; i < 3; i++ { x = i, i + 1 }", "a, b := 1, 2", "a, b := 1", "x := 0\ny := 0\nx, y = 1, 2",
                "f := func() { a := 1, 2, 3; return a }", "x := [0]\nx[0] = 1, 2", "x := 0\nx += 1, 2"):
        extra.append({"src": src + "\n", "tag": "must-not-compile", "valid": False})
    # the same builtin module imported more than once, after constants that are merged (constant references are renumbered)
    for src in ("a := 7\nb := 7\nm1 := import(\"math\")\nm2 := import(\"math\")\nr := m1.abs(-a) + m2.abs(-b)",
                "s1 := \"k\"\ns2 := \"k\"\nt1 := import(\"text\")\nf := func() { return import(\"text\") }\nt2 := f()\nr := t1.trim_space(s1 + s2) + t2.trim_space(\" x \")",
                "x := 1.5\ny := 1.5\nm := import(\"math\")\ne := import(\"enum\")\nm2 := import(\"math\")\ne2 := import(\"enum\")\nr := [m.pi == m2.pi, len(e.map([x, y], func(k, v) { return v })), len(e2.map([y], func(k, v) { return v }))]",
                "c := 'a'\nd := 'a'\nq := [1, 1, 2, 2]\nfor i := 0; i < 2; i++ { t := import(\"times\"); u := import(\"times\"); q[i] = t.second == u.second }\nm := import(\"math\")\nr := m.abs(-3)"):
        extra.append({"src": src + "\n", "tag": "builtin-module-twice", "valid": True, "stdlib": True})
    # operand-stack corners of single instructions: spreading an empty array (alone, after fixed arguments, into fixed parameters),
    # slices that select the whole value or nothing of every sliceable type, compound assignment with every operator
    for src in ("f := func(...a) { return len(a) }\nxs := []\nr := [f(xs...), f(1, xs...), 5]\nys := [1]\ns := [f(ys...), 6]",
                "g := func(a, ...b) { return [a, b] }\nxs := []\nr := [7, g(1, xs...), 8]\nh := func(a, b) { return a + b }\nzs := [1, 2]\ns := [h(zs...), 9]",
                "f := func(...a) { return a }\nr := [1, f([]...), 2, f(immutable([])...), 3]",
                "b := bytes(\"abc\")\nr := [1, b[:], 2, b[0:], 3, b[:3], 4, b[-3:99], 5, b[1:], 6, b[3:], 7, b[:0], 8]",
                "t := \"abc\"\nr := [1, t[:], 2, t[0:], 3, t[:3], 4, t[-3:99], 5, t[3:], 6, t[:0], 7]\na := [1, 2, 3]\nq := [1, a[:], 2, a[0:], 3, a[:3], 4, a[3:], 5, immutable(a)[:], 6]",
                "a := 17\na %= 5\nb := 6\nb &= 3\nc := 6\nc |= 1\nd := 6\nd ^= 3\ne := 6\ne &^= 2\ng := 1\ng <<= 3\nh := 64\nh >>= 2\ni := 2\ni *= 3\nj := 9\nj /= 2\nk := 1\nk -= 4\nr := [a, b, c, d, e, g, h, i, j, k]",
                "f := func(m) { m.x %= 4; m.y[0] <<= 2; for i := 0; i < 3; i++ { m.x %= 3 }; return m }\nr := f({x: 11, y: [1]})"):
        extra.append({"src": src + "\n", "tag": "instruction-corner", "valid": True})
    for i, e in enumerate(extra):
        e.update({"id": i + 1, "inputs": [], "mods": []})
    ed = vlib.run_cases(ck, "dump", extra, nproc=4)
    edumps = {}
    for e in extra:
        r = ed[e["id"]]
        ck.evaluations += 1
        if e["valid"] and "bc" in r:
            edumps[e["id"]] = r["bc"]
        elif not e["valid"] and "bc" in r:
            ck.violation("accepted-invalid:" + e["src"].split("\n")[0][:24], "the compiler emitted bytecode for a program it must reject:\n%s" % e["src"], {"program": e})
        elif r.get("outcome", {}).get("k") == "host_down":
            ck.violation("compile-panic", "compiler panicked:\n" + e["src"], {"program": e, "result": r})
    ev = wf_batch(ck, edumps, njobs=2, tag="wfx")
    for (pid, cidx), v in ev.items():
        if not v["ok"]:
            ck.violation("wf:" + v["why"], "function const %d is ill-formed at offset %d: %s\n%s" % (cidx, v["at"], v["why"], extra[pid - 1]["src"]), {"program": extra[pid - 1]})
    ep = vlib.run_cases(ck, "probe", [{"id": e["id"], "src": e["src"], "inputs": [], "mods": [], "stdlib": e.get("stdlib", False),
                                        "heights": [{"cidx": c, "h": v["h"]} for (pid, c), v in ev.items() if pid == e["id"] and v["ok"]]} for e in extra if e["id"] in edumps], nproc=4)
    for e in extra:
        r = ep.get(e["id"])
        if r is None:
            continue
        if r.get("mismatches") or r.get("hang") or r.get("died") or r.get("panic") or r.get("err"):
            ck.violation("height:" + e["tag"], "a program of the extra set (%s) does not run on the stack shape of its code: %s\n%s" % (e["tag"],
                json.dumps(r.get("mismatches") or r.get("err") or r)[:300], e["src"]), {"program": e, "real": r})
        else:
            ck.traces += 1
    # a VM aborted inside calls / with operands pending and run again starts on a clean machine
    vmabortlib.judge(ck)
    # functions beyond 64 KiB and pools beyond 255 constants: structure checked by the harness, behaviour by a closed form
    largelib.judge(ck, quick)
    ck.extra.update({"programs": len(progs), "functions": nfn, "vm_steps_checked": steps, "variable_instruction_families": fam})
    if pcases:
        c = pcases[len(pcases) // 3]
        ck.add_sample({"src": c["src"], "heights": c["heights"][:2]})
    ck.rule = ("every function (main, literals, closures) of generated programs after RemoveDuplicates; non-trivial = distinct "
               "instruction streams accepted; each program is then executed with the probe")
    ck.assumptions = ["the harness dumps CompiledFunction.Instructions verbatim", "probe hook reports (fn, ip, sp, bp) of the real VM"]


def replay(ck, path):
    rep = json.load(open(path))["replay"]
    print(rep["program"]["src"])
    print(json.dumps({k: v for k, v in rep.items() if k != "program"})[:3000])
    return 0
