package main

import (
	"context"
	"encoding/base64"
	"encoding/hex"
	"encoding/json"
	"errors"
	"fmt"
	"math"
	"math/rand"
	"reflect"
	"regexp"
	"sort"
	"strconv"
	"strings"
	"time"

	"github.com/d5/tengo/v2"
	"github.com/d5/tengo/v2/stdlib"
)

// C19: the standard-library wrappers against the documented Go functions.
//
// refTable maps "module.function" to the Go function the module documentation names.  A plain Go
// function is called through refCall, which coerces the arguments by the documented rules
// (tengo.ToString/ToInt/...) according to the Go function's own parameter types - so that the
// reference never looks at the adapter the real table entry uses.  Hand-written wrappers have a
// small reference closure written from the documentation.

type refFn func(args []tengo.Object) (tengo.Object, bool) // ok=false: outside the domain, do not compare

// mustFail: the reference's way of saying "this call is a run-time error, not a value"
var mustFail = &tengo.Error{Value: &tengo.String{Value: "__the call must fail with a run-time error__"}}

func reErr(err error) tengo.Object { return &tengo.Error{Value: &tengo.String{Value: err.Error()}} }

func strs(l []string) tengo.Object {
	a := &tengo.Array{Value: []tengo.Object{}}
	for _, s := range l {
		a.Value = append(a.Value, &tengo.String{Value: s})
	}
	return a
}

func findResult(s string, ms [][]int) tengo.Object {
	if ms == nil {
		return tengo.UndefinedValue
	}
	arr := &tengo.Array{}
	for _, m := range ms {
		sub := &tengo.Array{}
		for i := 0; i < len(m); i += 2 {
			if m[i] >= 0 && m[i+1] >= 0 {
				sub.Value = append(sub.Value, &tengo.ImmutableMap{Value: map[string]tengo.Object{
					"text": &tengo.String{Value: s[m[i]:m[i+1]]}, "begin": &tengo.Int{Value: int64(m[i])}, "end": &tengo.Int{Value: int64(m[i+1])}}})
			}
		}
		arr.Value = append(arr.Value, sub)
	}
	return arr
}

func argS(a tengo.Object) string  { s, _ := tengo.ToString(a); return s }
func argI(a tengo.Object) int     { i, _ := tengo.ToInt(a); return i }
func argI64(a tengo.Object) int64 { i, _ := tengo.ToInt64(a); return i }
func argT(a tengo.Object) time.Time {
	t, _ := tengo.ToTime(a)
	return t
}

func pad(left bool) refFn {
	return func(a []tengo.Object) (tengo.Object, bool) {
		s, n, p := argS(a[0]), argI(a[1]), " "
		if n > 100000 {
			return nil, false
		}
		if len(s) >= n {
			return &tengo.String{Value: s}, true
		}
		if len(a) > 2 {
			var ok bool
			if p, ok = tengo.ToString(a[2]); !ok {
				return nil, false
			}
		}
		if p == "" {
			return nil, false // padding with the empty string is not documented
		}
		fill := strings.Repeat(p, (n-len(s))/len(p)+1)
		if left {
			t := fill + s
			return &tengo.String{Value: t[len(t)-n:]}, true
		}
		return &tengo.String{Value: (s + fill)[:n]}, true
	}
}

var refTable = map[string]interface{}{
	// ---- text
	"text.re_match": func(p, s string) (bool, error) { return regexp.MatchString(p, s) },
	"text.re_replace": refFn(func(a []tengo.Object) (tengo.Object, bool) {
		re, err := regexp.Compile(argS(a[0]))
		if err != nil {
			return reErr(err), true
		}
		return &tengo.String{Value: re.ReplaceAllString(argS(a[1]), argS(a[2]))}, true
	}),
	"text.re_find": refFn(func(a []tengo.Object) (tengo.Object, bool) {
		re, err := regexp.Compile(argS(a[0]))
		if err != nil {
			return reErr(err), true
		}
		s := argS(a[1])
		if len(a) < 3 {
			m := re.FindStringSubmatchIndex(s)
			if m == nil {
				return tengo.UndefinedValue, true
			}
			return findResult(s, [][]int{m}), true
		}
		return findResult(s, re.FindAllStringSubmatchIndex(s, argI(a[2]))), true
	}),
	"text.re_split": refFn(func(a []tengo.Object) (tengo.Object, bool) {
		re, err := regexp.Compile(argS(a[0]))
		if err != nil {
			return reErr(err), true
		}
		n := -1
		if len(a) > 2 {
			n = argI(a[2])
		}
		return strs(re.Split(argS(a[1]), n)), true
	}),
	// the Regexp object of text.re_compile: args[0] of the reference is the pattern the object was compiled from
	"regexp.match": refFn(func(a []tengo.Object) (tengo.Object, bool) {
		return mkBool(regexp.MustCompile(argS(a[0])).MatchString(argS(a[1]))).Obj, true
	}),
	"regexp.find": refFn(func(a []tengo.Object) (tengo.Object, bool) {
		re, s := regexp.MustCompile(argS(a[0])), argS(a[1])
		if len(a) < 3 {
			m := re.FindStringSubmatchIndex(s)
			if m == nil {
				return tengo.UndefinedValue, true
			}
			return findResult(s, [][]int{m}), true
		}
		return findResult(s, re.FindAllStringSubmatchIndex(s, argI(a[2]))), true
	}),
	"regexp.replace": refFn(func(a []tengo.Object) (tengo.Object, bool) {
		return &tengo.String{Value: regexp.MustCompile(argS(a[0])).ReplaceAllString(argS(a[1]), argS(a[2]))}, true
	}),
	"regexp.split": refFn(func(a []tengo.Object) (tengo.Object, bool) {
		n := -1
		if len(a) > 2 {
			n = argI(a[2])
		}
		return strs(regexp.MustCompile(argS(a[0])).Split(argS(a[1]), n)), true
	}),
	"text.compare": strings.Compare, "text.contains": strings.Contains, "text.contains_any": strings.ContainsAny, "text.count": strings.Count,
	"text.equal_fold": strings.EqualFold, "text.fields": strings.Fields, "text.has_prefix": strings.HasPrefix, "text.has_suffix": strings.HasSuffix,
	"text.index": strings.Index, "text.index_any": strings.IndexAny, "text.last_index": strings.LastIndex, "text.last_index_any": strings.LastIndexAny,
	"text.join": refFn(func(a []tengo.Object) (tengo.Object, bool) {
		var l []string
		switch x := a[0].(type) {
		case *tengo.Array:
			for _, e := range x.Value {
				l = append(l, argS(e))
			}
		default:
			return nil, false
		}
		return &tengo.String{Value: strings.Join(l, argS(a[1]))}, true
	}),
	"text.repeat": refFn(func(a []tengo.Object) (tengo.Object, bool) {
		n := argI(a[1])
		if n < 0 || n > 1000 {
			return nil, false
		}
		return &tengo.String{Value: strings.Repeat(argS(a[0]), n)}, true
	}),
	"text.replace": strings.Replace,
	"text.substr": refFn(func(a []tengo.Object) (tengo.Object, bool) {
		s, lo := argS(a[0]), argI(a[1])
		hi := len(s)
		if len(a) > 2 {
			hi = argI(a[2])
		}
		if lo > hi {
			return mustFail, true // lower beyond upper (also an omitted upper = len(s)) is rejected with a run-time error
		}
		// out-of-range bounds are clamped to the string
		clamp := func(n int) int {
			if n < 0 {
				return 0
			}
			if n > len(s) {
				return len(s)
			}
			return n
		}
		return &tengo.String{Value: s[clamp(lo):clamp(hi)]}, true
	}),
	"text.split": strings.Split, "text.split_after": strings.SplitAfter, "text.split_after_n": strings.SplitAfterN, "text.split_n": strings.SplitN,
	"text.title": strings.Title, "text.to_lower": strings.ToLower, "text.to_title": strings.ToTitle, "text.to_upper": strings.ToUpper,
	"text.pad_left": pad(true), "text.pad_right": pad(false),
	"text.trim": strings.Trim, "text.trim_left": strings.TrimLeft, "text.trim_prefix": strings.TrimPrefix, "text.trim_right": strings.TrimRight,
	"text.trim_space": strings.TrimSpace, "text.trim_suffix": strings.TrimSuffix,
	"text.atoi": strconv.Atoi, "text.format_bool": strconv.FormatBool,
	"text.format_float": refFn(func(a []tengo.Object) (tengo.Object, bool) {
		f, _ := tengo.ToFloat64(a[0])
		fs := argS(a[1])
		bits := argI(a[3])
		if len(fs) != 1 || !strings.Contains("beEfgGxX", fs) || (bits != 32 && bits != 64) {
			return nil, false
		}
		return &tengo.String{Value: strconv.FormatFloat(f, fs[0], argI(a[2]), bits)}, true
	}),
	"text.format_int": refFn(func(a []tengo.Object) (tengo.Object, bool) {
		base := argI(a[1])
		if base < 2 || base > 36 {
			return nil, false
		}
		return &tengo.String{Value: strconv.FormatInt(argI64(a[0]), base)}, true
	}),
	"text.itoa":       strconv.Itoa,
	"text.parse_bool": strconv.ParseBool, "text.parse_float": strconv.ParseFloat, "text.parse_int": strconv.ParseInt,
	"text.quote": strconv.Quote, "text.unquote": strconv.Unquote,
	// ---- math
	"math.abs": math.Abs, "math.acos": math.Acos, "math.acosh": math.Acosh, "math.asin": math.Asin, "math.asinh": math.Asinh, "math.atan": math.Atan,
	"math.atan2": math.Atan2, "math.atanh": math.Atanh, "math.cbrt": math.Cbrt, "math.ceil": math.Ceil, "math.copysign": math.Copysign, "math.cos": math.Cos,
	"math.cosh": math.Cosh, "math.dim": math.Dim, "math.erf": math.Erf, "math.erfc": math.Erfc, "math.exp": math.Exp, "math.exp2": math.Exp2,
	"math.expm1": math.Expm1, "math.floor": math.Floor, "math.gamma": math.Gamma, "math.hypot": math.Hypot, "math.ilogb": math.Ilogb, "math.inf": math.Inf,
	"math.is_inf": math.IsInf, "math.is_nan": math.IsNaN, "math.j0": math.J0, "math.j1": math.J1, "math.jn": math.Jn, "math.ldexp": math.Ldexp, "math.log": math.Log,
	"math.log10": math.Log10, "math.log1p": math.Log1p, "math.log2": math.Log2, "math.logb": math.Logb, "math.max": math.Max, "math.min": math.Min,
	"math.mod": math.Mod, "math.nan": math.NaN, "math.nextafter": math.Nextafter, "math.pow": math.Pow, "math.pow10": math.Pow10, "math.remainder": math.Remainder,
	"math.signbit": math.Signbit, "math.sin": math.Sin, "math.sinh": math.Sinh, "math.sqrt": math.Sqrt, "math.tan": math.Tan, "math.tanh": math.Tanh,
	"math.trunc": math.Trunc, "math.y0": math.Y0, "math.y1": math.Y1, "math.yn": math.Yn,
	// ---- base64, hex
	"base64.encode": base64.StdEncoding.EncodeToString, "base64.decode": base64.StdEncoding.DecodeString,
	"base64.raw_encode": base64.RawStdEncoding.EncodeToString, "base64.raw_decode": base64.RawStdEncoding.DecodeString,
	"base64.url_encode": base64.URLEncoding.EncodeToString, "base64.url_decode": base64.URLEncoding.DecodeString,
	"base64.raw_url_encode": base64.RawURLEncoding.EncodeToString, "base64.raw_url_decode": base64.RawURLEncoding.DecodeString,
	"hex.encode": hex.EncodeToString, "hex.decode": hex.DecodeString,
	// ---- times (clock independent)
	"times.parse_duration":       func(s string) (int64, error) { d, err := time.ParseDuration(s); return int64(d), err },
	"times.duration_hours":       func(d int64) float64 { return time.Duration(d).Hours() },
	"times.duration_minutes":     func(d int64) float64 { return time.Duration(d).Minutes() },
	"times.duration_nanoseconds": func(d int64) int64 { return time.Duration(d).Nanoseconds() },
	"times.duration_seconds":     func(d int64) float64 { return time.Duration(d).Seconds() },
	"times.duration_string":      func(d int64) string { return time.Duration(d).String() },
	"times.month_string":         func(m int64) string { return time.Month(m).String() },
	"times.date": refFn(func(a []tengo.Object) (tengo.Object, bool) {
		loc := time.Now().Location()
		if len(a) == 8 {
			l, err := time.LoadLocation(argS(a[7]))
			if err != nil {
				return reErr(err), true
			}
			loc = l
		}
		return &tengo.Time{Value: time.Date(argI(a[0]), time.Month(argI(a[1])), argI(a[2]), argI(a[3]), argI(a[4]), argI(a[5]), argI(a[6]), loc)}, true
	}),
	"times.parse":    func(f, s string) (time.Time, error) { return time.Parse(f, s) },
	"times.unix":     func(s, ns int64) time.Time { return time.Unix(s, ns) },
	"times.add":      func(t time.Time, d int64) time.Time { return t.Add(time.Duration(d)) },
	"times.add_date": func(t time.Time, y, m, d int) time.Time { return t.AddDate(y, m, d) },
	"times.sub":      func(t, u time.Time) int64 { return int64(t.Sub(u)) },
	"times.after":    func(t, u time.Time) bool { return t.After(u) },
	"times.before":   func(t, u time.Time) bool { return t.Before(u) },
	"times.time_year": func(t time.Time) int { return t.Year() }, "times.time_month": func(t time.Time) int { return int(t.Month()) },
	"times.time_day": func(t time.Time) int { return t.Day() }, "times.time_weekday": func(t time.Time) int { return int(t.Weekday()) },
	"times.time_hour": func(t time.Time) int { return t.Hour() }, "times.time_minute": func(t time.Time) int { return t.Minute() },
	"times.time_second": func(t time.Time) int { return t.Second() }, "times.time_nanosecond": func(t time.Time) int { return t.Nanosecond() },
	"times.time_unix": func(t time.Time) int64 { return t.Unix() }, "times.time_unix_nano": func(t time.Time) int64 { return t.UnixNano() },
	"times.time_format":   func(t time.Time, f string) string { return t.Format(f) },
	"times.time_location": func(t time.Time) string { return t.Location().String() },
	"times.time_string":   func(t time.Time) string { return t.String() },
	"times.is_zero":       func(t time.Time) bool { return t.IsZero() },
	"times.to_local":      func(t time.Time) time.Time { return t.Local() },
	"times.to_utc":        func(t time.Time) time.Time { return t.UTC() },
	"times.in_location": func(t time.Time, name string) (time.Time, error) {
		loc, err := time.LoadLocation(name)
		if err != nil {
			return time.Time{}, err
		}
		return t.In(loc), nil
	},
}

var clockDependent = map[string]bool{"times.now": true, "times.since": true, "times.until": true, "times.sleep": true, "text.re_compile": true}

var errType = reflect.TypeOf((*error)(nil)).Elem()

func toGoArg(a tengo.Object, t reflect.Type) (reflect.Value, bool) {
	switch t.Kind() {
	case reflect.String:
		s, ok := tengo.ToString(a)
		return reflect.ValueOf(s), ok
	case reflect.Int:
		i, ok := tengo.ToInt(a)
		return reflect.ValueOf(i), ok
	case reflect.Int64:
		i, ok := tengo.ToInt64(a)
		return reflect.ValueOf(i), ok
	case reflect.Float64:
		f, ok := tengo.ToFloat64(a)
		return reflect.ValueOf(f), ok
	case reflect.Bool:
		b, ok := tengo.ToBool(a)
		return reflect.ValueOf(b), ok
	case reflect.Slice:
		if t.Elem().Kind() == reflect.Uint8 {
			b, ok := tengo.ToByteSlice(a)
			return reflect.ValueOf(b), ok
		}
	case reflect.Struct:
		tt, ok := tengo.ToTime(a)
		return reflect.ValueOf(tt), ok
	}
	return reflect.Value{}, false
}

func fromGo(v reflect.Value) tengo.Object {
	switch x := v.Interface().(type) {
	case string:
		return &tengo.String{Value: x}
	case int:
		return &tengo.Int{Value: int64(x)}
	case int64:
		return &tengo.Int{Value: x}
	case float64:
		return &tengo.Float{Value: x}
	case bool:
		if x {
			return tengo.TrueValue
		}
		return tengo.FalseValue
	case []byte:
		return &tengo.Bytes{Value: x}
	case []string:
		return strs(x)
	case time.Time:
		return &tengo.Time{Value: x}
	}
	return tengo.UndefinedValue
}

func refCall(fn interface{}, args []tengo.Object) (res tengo.Object, ok bool) {
	if f, isRef := fn.(refFn); isRef {
		return f(args)
	}
	defer func() {
		if r := recover(); r != nil {
			res, ok = nil, false // outside the domain of the Go function (it panics)
		}
	}()
	v := reflect.ValueOf(fn)
	t := v.Type()
	if t.NumIn() != len(args) {
		return nil, false
	}
	in := make([]reflect.Value, len(args))
	for i := range args {
		x, good := toGoArg(args[i], t.In(i))
		if !good {
			return nil, false
		}
		in[i] = x
	}
	out := v.Call(in)
	if n := len(out); n > 0 && out[n-1].Type().Implements(errType) {
		if !out[n-1].IsNil() {
			return reErr(out[n-1].Interface().(error)), true
		}
		out = out[:n-1]
	}
	if len(out) == 0 {
		return tengo.TrueValue, true
	}
	return fromGo(out[0]), true
}

func sameObj(a, b tengo.Object) bool {
	switch x := a.(type) {
	case *tengo.Float:
		y, ok := b.(*tengo.Float)
		return ok && (math.Float64bits(x.Value) == math.Float64bits(y.Value) || (math.IsNaN(x.Value) && math.IsNaN(y.Value)))
	case *tengo.Time:
		y, ok := b.(*tengo.Time)
		return ok && x.Value.Equal(y.Value) && x.Value.Location().String() == y.Value.Location().String()
	case *tengo.Error:
		y, ok := b.(*tengo.Error)
		return ok && sameObj(x.Value, y.Value)
	case *tengo.Array:
		y, ok := b.(*tengo.Array)
		if !ok || len(x.Value) != len(y.Value) {
			return false
		}
		for i := range x.Value {
			if !sameObj(x.Value[i], y.Value[i]) {
				return false
			}
		}
		return true
	case *tengo.ImmutableMap:
		y, ok := b.(*tengo.ImmutableMap)
		if !ok || len(x.Value) != len(y.Value) {
			return false
		}
		for k, v := range x.Value {
			if w, ok := y.Value[k]; !ok || !sameObj(v, w) {
				return false
			}
		}
		return true
	}
	return a.TypeName() == b.TypeName() && a.Equals(b)
}

// ---- argument pools ----------------------------------------------------------------

var sPool = []string{"", "a", "abc", "Hello, World", "héllo wörld", "  padded\t\n", "a,b,,c", "aXbXc", "ǅungla ǆ", "\xff\xfe", "日本語テキスト", "12", "-7", "3.5", "true", "1e3", "0x1F", "%d", "[a-c]+", "(a)(b)?", "a|", "<$0>", "${0}x", "$$", "$1-$2", "$name", "[0-9]+", "\"quoted\\n\"", "`raw`", "'c'", "SGVsbG8=", "SGVsbG8", "48656c6c6f", "zz", "1h30m", "-1.5s", "2006-01-02", "2021-03-04", "UTC", "America/New_York", "Nowhere/Land", time.RFC3339, "2021-03-04T05:06:07Z", "b", "e", "g", "é"}
var iPool = []int64{0, 1, -1, 2, 3, 7, 10, 16, 36, 37, 32, 64, 100, -100, 12, 24, 60, 5, 8}
var iBigPool = []int64{1 << 31, math.MaxInt64, math.MinInt64, 1e9, 1500000000, 3600e9, -1e12, 1 << 53}

// functions whose int parameters are values, not sizes/counts/precisions: boundary ints are in their domain
var bigIntOK = map[string]bool{"text.format_int": true, "text.itoa": true, "times.duration_hours": true, "times.duration_minutes": true, "times.duration_nanoseconds": true,
	"times.duration_seconds": true, "times.duration_string": true, "times.unix": true, "times.add": true, "math.inf": true, "math.is_inf": true, "math.pow10": true,
	"math.ldexp": true, "times.month_string": true, "math.abs": true, "math.floor": true, "math.sqrt": true}

func isNumericText(s string) bool {
	if _, err := strconv.ParseFloat(s, 64); err == nil {
		return true
	}
	_, err := strconv.ParseInt(s, 10, 64)
	return err == nil
}

var canonical = map[string]tengo.Object{"text": &tengo.String{Value: "abc"}, "int": &tengo.Int{Value: 7}, "float": &tengo.Float{Value: 2.5}, "bytes": &tengo.Bytes{Value: []byte("Hello")},
	"bool": tengo.TrueValue, "time": &tengo.Time{Value: time.Unix(1500000000, 123456789)},
	"strarray": &tengo.Array{Value: []tengo.Object{&tengo.String{Value: "a"}, &tengo.String{Value: "b"}}}}

var fPool = []float64{0, math.Copysign(0, -1), 1, -1, 0.5, 2.5, -2.5, 10, 100, 1e-9, 1e300, -1e300, math.Pi, math.E, math.NaN(), math.Inf(1), math.Inf(-1), 0.1, 3, 1e15, 123.456}
var tPool = []time.Time{time.Time{}.In(time.FixedZone("Z1", 3600)), time.Time{}.In(time.FixedZone("Z2", -7200)), time.Unix(0, 0), time.Unix(1500000000, 123456789), time.Date(2020, 2, 29, 23, 59, 59, 999999999, time.UTC), {}, time.Date(1969, 12, 31, 0, 0, 0, 0, time.FixedZone("X", -3600)), time.Unix(-1, 0)}

// domainHints: parameters whose meaningful domain is a handful of values (a format letter, a bit size, a base, a layout) or needs a
// particular kind of value (an instant in a zone with daylight saving): drawn from here three times out of four, so that the wrapped
// function is compared inside its domain and not only at its edge
func hs(v ...string) []tengo.Object {
	var o []tengo.Object
	for _, x := range v {
		o = append(o, &tengo.String{Value: x})
	}
	return o
}
func hi(v ...int64) []tengo.Object {
	var o []tengo.Object
	for _, x := range v {
		o = append(o, &tengo.Int{Value: x})
	}
	return o
}
func hf(v ...float64) []tengo.Object {
	var o []tengo.Object
	for _, x := range v {
		o = append(o, &tengo.Float{Value: x})
	}
	return o
}
func dstTimes() []tengo.Object {
	var o []tengo.Object
	for _, z := range []string{"America/New_York", "Europe/Berlin", "Australia/Lord_Howe"} {
		loc, err := time.LoadLocation(z)
		if err != nil {
			continue
		}
		for _, t := range []time.Time{time.Date(2021, 3, 13, 12, 0, 0, 0, loc), time.Date(2021, 3, 14, 1, 30, 0, 0, loc), time.Date(2021, 11, 6, 12, 0, 0, 0, loc),
			time.Date(2021, 3, 27, 2, 30, 0, 0, loc), time.Date(2021, 10, 30, 23, 59, 59, 0, loc), time.Date(2021, 1, 31, 12, 0, 0, 0, loc)} {
			o = append(o, &tengo.Time{Value: t})
		}
	}
	return o
}

var domainHints = map[string]map[int][]tengo.Object{
	"text.format_float": {0: hf(1.0/3, 16777217, 1e-40, 0.1, 123.456, 3.4e38, 1e39, 2.5), 1: hs("b", "e", "E", "f", "g", "G", "x", "X"), 2: hi(-1, 0, 1, 3, 8, 17, 30), 3: hi(32, 64)},
	"text.parse_float":  {0: hs("0.1", "16777217", "1e-40", "3.4e39", "1e400", "0x1p-2", "inf", "NaN", "1_000.5", " 1"), 1: hi(32, 64)},
	"text.parse_int":    {0: hs("127", "128", "-129", "0x7f", "0b101", "0o17", "017", "32768", "2147483648", "9223372036854775808", "zz", "1_000", "+5"), 1: hi(0, 2, 8, 10, 16, 36), 2: hi(0, 8, 16, 32, 64)},
	"text.format_int":   {1: hi(2, 8, 10, 16, 36)},
	"times.add_date":    {0: dstTimes(), 1: hi(0, 0, 1, -1), 2: hi(0, 0, 1, -1, 12, 13), 3: hi(1, -1, 0, 30, 31, 365, 106752, -106752)},
	"times.add":         {0: dstTimes()},
	"times.sub":         {0: dstTimes(), 1: dstTimes()},
	"times.time_hour":   {0: dstTimes()}, "times.time_year_day": {0: dstTimes()}, "times.time_string": {0: dstTimes()}, "times.time_format": {0: dstTimes()},
	"times.to_utc":      {0: dstTimes()}, "times.to_local": {0: dstTimes()}, "times.time_location": {0: dstTimes()}, "times.time_unix": {0: dstTimes()},
	"times.time_weekday": {0: dstTimes()}, "times.time_day": {0: dstTimes()}, "times.after": {0: dstTimes(), 1: dstTimes()}, "times.before": {0: dstTimes(), 1: dstTimes()},
	"times.date":        {0: hi(2021, 2020, 1970, 1), 1: hi(1, 2, 3, 11, 12, 13, 0), 2: hi(1, 13, 14, 28, 29, 30, 31, 32, 0), 3: hi(0, 1, 2, 12, 23, 24, 25), 4: hi(0, 30, 59, 60), 5: hi(0, 59, 60), 6: hi(0, 999999999, 1000000000)},
	"times.parse_duration": {0: hs("1h30m", "-1.5s", "1us", "1µs", "2562047h47m16.854775807s", "2562047h47m16.854775808s", ".5m", "1d", "")},
	"times.month_string": {0: hi(1, 2, 12, 13, 0)},
}

func hintOK(rt string, o tengo.Object) bool {
	switch o.(type) {
	case *tengo.String:
		return rt == "text" || rt == "numstr"
	case *tengo.Int:
		return rt == "int"
	case *tengo.Float:
		return rt == "float"
	case *tengo.Time:
		return rt == "time"
	}
	return false
}

func drawRT(rt string, rng *rand.Rand, fn string, stringPos bool) tengo.Object {
	switch rt {
	case "int":
		if bigIntOK[fn] && rng.Intn(3) == 0 {
			return &tengo.Int{Value: iBigPool[rng.Intn(len(iBigPool))]}
		}
		return &tengo.Int{Value: iPool[rng.Intn(len(iPool))]}
	case "float":
		return &tengo.Float{Value: fPool[rng.Intn(len(fPool))]}
	case "numstr":
		return &tengo.String{Value: []string{"12", "-7", "0", "3"}[rng.Intn(4)]}
	case "text":
		for {
			v := sPool[rng.Intn(len(sPool))]
			if stringPos || !isNumericText(v) { // in a non-string position "text" means: not convertible to a number
				return &tengo.String{Value: v}
			}
		}
	case "bool":
		return mkBool(rng.Intn(2) == 0).Obj
	case "char":
		return &tengo.Char{Value: []rune{'x', '0', 'é', 0}[rng.Intn(4)]}
	case "bytes":
		return &tengo.Bytes{Value: [][]byte{{}, []byte("Hello"), {0, 255, 16}, []byte("héllo")}[rng.Intn(4)]}
	case "array":
		return &tengo.Array{Value: []tengo.Object{&tengo.Int{Value: 1}, &tengo.String{Value: "a"}}}
	case "strarray":
		n := rng.Intn(4)
		a := &tengo.Array{Value: []tengo.Object{}}
		for i := 0; i < n; i++ {
			a.Value = append(a.Value, &tengo.String{Value: sPool[rng.Intn(len(sPool))]})
		}
		return a
	case "map":
		return &tengo.Map{Value: map[string]tengo.Object{"a": &tengo.Int{Value: 1}}}
	case "undefined":
		return tengo.UndefinedValue
	case "time":
		return &tengo.Time{Value: tPool[rng.Intn(len(tPool))]}
	case "error":
		return &tengo.Error{Value: &tengo.String{Value: "e"}}
	case "func":
		return hostFunction("hostid")
	}
	return tengo.UndefinedValue
}

type sigCase struct {
	Mod      string   `json:"mod"`
	Fn       string   `json:"fn"`
	Kinds    []string `json:"kinds"`
	Types    []string `json:"types"`
	Expect   string   `json:"expect"`
	BadPos   int      `json:"badpos"`
	Result   string   `json:"result"`
	Surfaces bool     `json:"surfaces"`
}

type libMismatch struct {
	Key  string        `json:"key"`
	What string        `json:"what"`
	Fn   string        `json:"fn"`
	Args []interface{} `json:"args"`
}

func classifyCall(ret tengo.Object, err error) string {
	var iat tengo.ErrInvalidArgumentType
	switch {
	case err == nil:
		return "value"
	case errors.Is(err, tengo.ErrWrongNumArguments):
		return "wrong_num_args"
	case errors.As(err, &iat):
		return "invalid_arg_type"
	}
	return "error:" + firstWords(err.Error())
}

var rePatterns = []string{"[a-c]+", "(a)(b)?", "a|", "[0-9]+", "é", "^$", "l+", "(?i)h(.)", "\\s+", ","}
var curPattern string

func callModule(mods *tengo.ModuleMap, mod, fn string, args []tengo.Object) (ret tengo.Object, err error, pan interface{}) {
	defer func() { pan = recover() }()
	if mod == "regexp" {
		obj, e := mods.GetBuiltinModule("text").Attrs["re_compile"].Call(&tengo.String{Value: curPattern})
		if e != nil {
			return nil, e, nil
		}
		m, e := obj.IndexGet(&tengo.String{Value: fn})
		if e != nil || m == nil || !m.CanCall() {
			return nil, fmt.Errorf("the Regexp object has no method %s", fn), nil
		}
		ret, err = m.Call(args...)
		return
	}
	bm := mods.GetBuiltinModule(mod)
	if bm == nil {
		return nil, fmt.Errorf("no module %s", mod), nil
	}
	f, ok := bm.Attrs[fn]
	if !ok {
		return nil, fmt.Errorf("no function %s.%s", mod, fn), nil
	}
	ret, err = f.Call(args...)
	return
}

func encArgs(args []tengo.Object) []interface{} {
	out := make([]interface{}, len(args))
	for i, a := range args {
		out[i] = encodeValue(a)
	}
	return out
}

func showArgs(args []tengo.Object) string {
	var l []string
	for _, a := range args {
		l = append(l, clip(a.TypeName()+":"+a.String()))
	}
	return "(" + strings.Join(l, ", ") + ")"
}

func resultKindOK(kind string, o tengo.Object, surfaces bool) bool {
	if _, isErr := o.(*tengo.Error); isErr {
		return surfaces
	}
	switch kind {
	case "S":
		_, ok := o.(*tengo.String)
		return ok
	case "I":
		_, ok := o.(*tengo.Int)
		return ok
	case "F":
		_, ok := o.(*tengo.Float)
		return ok
	case "B":
		_, ok := o.(*tengo.Bool)
		return ok
	case "Y":
		_, ok := o.(*tengo.Bytes)
		return ok
	case "T":
		_, ok := o.(*tengo.Time)
		return ok
	case "L":
		_, ok := o.(*tengo.Array)
		return ok
	}
	return true
}

func init() {
	register("stdlibsig", "C19: spec-derived call obligations of text/math/base64/hex/times against the documented Go functions", func(args []string) error {
		mods := stdlib.GetModuleMap("text", "math", "base64", "hex", "times")
		return runCases(300*time.Second, func(raw []byte) map[string]interface{} {
			var in struct {
				Batch   []sigCase `json:"batch"`
				Seed    int64     `json:"seed"`
				Vectors int       `json:"vectors"`
				// replay
				Fn   string        `json:"fn"`
				Args []interface{} `json:"args"`
			}
			if err := json.Unmarshal(raw, &in); err != nil {
				return map[string]interface{}{"error": err.Error()}
			}
			rng := rand.New(rand.NewSource(in.Seed))
			stats := map[string]int{}
			var mism []libMismatch
			byKey := map[string]int{}
			add := func(m libMismatch) {
				byKey[m.Key]++
				if byKey[m.Key] <= 2 {
					mism = append(mism, m)
				}
			}
			one := func(c *sigCase, a []tengo.Object) {
				name := c.Mod + "." + c.Fn
				curPattern = rePatterns[rng.Intn(len(rePatterns))]
				ret, err, pan := callModule(mods, c.Mod, c.Fn, a)
				got := classifyCall(ret, err)
				limit := err != nil && (errors.Is(err, tengo.ErrStringLimit) || errors.Is(err, tengo.ErrBytesLimit))
				var want tengo.Object
				inDomain, haveRef := false, false
				if c.Expect == "value" || c.Expect == "" {
					if ref, known := refTable[name]; known {
						haveRef = true
						ra := a
						if c.Mod == "regexp" {
							ra = append([]tengo.Object{&tengo.String{Value: curPattern}}, a...)
						}
						want, inDomain = refCall(ref, ra)
					} else if !clockDependent[name] {
						stats["no_reference:"+name]++
					}
				}
				if pan != nil {
					if haveRef && !inDomain {
						stats["outside_domain"]++ // the documented Go function is not defined here either (it panics / is not documented)
						return
					}
					add(libMismatch{Key: "panic:" + name, What: fmt.Sprintf("%s%s panicked: %v", name, showArgs(a), pan), Fn: name, Args: encArgs(a)})
					return
				}
				if c.Expect == "value" && got != "value" && haveRef && !inDomain {
					stats["outside_domain"]++
					return
				}
				if haveRef && inDomain && want == tengo.Object(mustFail) {
					if strings.HasPrefix(got, "error:") {
						stats["class:must-fail"]++
					} else {
						add(libMismatch{Key: "accepted:" + name, What: fmt.Sprintf("%s%s returned %v where the call must be rejected with a run-time error", name, showArgs(a), ret), Fn: name, Args: encArgs(a)})
					}
					return
				}
				if c.Expect == "value" && limit && haveRef && inDomain {
					if sv, isS := want.(*tengo.String); isS && len(sv.Value) > tengo.MaxStringLen {
						stats["class:limit"]++
						return
					}
				}
				if c.Expect != "" && got != c.Expect {
					add(libMismatch{Key: "class:" + name + ":" + c.Expect, What: fmt.Sprintf("%s%s: expected %s (signature %v), got %s %v", name, showArgs(a), c.Expect, c.Kinds, got, err), Fn: name, Args: encArgs(a)})
					return
				}
				stats["class:"+got]++
				if got != "value" {
					return
				}
				if ret == nil {
					ret = tengo.UndefinedValue
				}
				if c.Result != "" && !resultKindOK(c.Result, ret, c.Surfaces) {
					add(libMismatch{Key: "result-kind:" + name, What: fmt.Sprintf("%s%s returned %s %s, documented result kind %s", name, showArgs(a), ret.TypeName(), clip(ret.String()), c.Result), Fn: name, Args: encArgs(a)})
					return
				}
				if clockDependent[name] {
					stats["clock_dependent_not_compared"]++
					return
				}
				if !haveRef {
					return
				}
				if !inDomain {
					stats["outside_domain"]++
					return
				}
				stats["compared"]++
				if !sameObj(want, ret) {
					add(libMismatch{Key: "value:" + name, What: fmt.Sprintf("%s%s = %s %s, the documented Go function gives %s %s", name, showArgs(a), ret.TypeName(), clip(ret.String()), want.TypeName(), clip(want.String())), Fn: name, Args: encArgs(a)})
				}
			}
			if in.Fn != "" {
				var a []tengo.Object
				for _, x := range in.Args {
					o, err := decodeValue(x)
					if err != nil {
						return map[string]interface{}{"error": err.Error()}
					}
					a = append(a, o)
				}
				parts := strings.SplitN(in.Fn, ".", 2)
				one(&sigCase{Mod: parts[0], Fn: parts[1]}, a)
				ret, err, _ := callModule(mods, parts[0], parts[1], a)
				return map[string]interface{}{"stats": stats, "mismatches": mism, "by_key": byKey, "ret": fmt.Sprint(ret), "err": fmt.Sprint(err)}
			}
			if in.Vectors == 0 {
				in.Vectors = 6
			}
			for ci := range in.Batch {
				c := &in.Batch[ci]
				nv := in.Vectors
				if c.Expect != "value" {
					nv = 2
				}
				for v := 0; v < nv; v++ {
					a := make([]tengo.Object, len(c.Types))
					for i, rt := range c.Types {
						kind := ""
						if i < len(c.Kinds) {
							kind = c.Kinds[i]
						}
						if cv, ok := canonical[rt]; ok && c.Expect != "value" {
							a[i] = cv // arity and type obligations: benign co-arguments, so that the check in question is reached
						} else {
							a[i] = drawRT(rt, rng, c.Mod+"."+c.Fn, kind == "S" || kind == "Zs" || kind == "Sl" || kind == "Y")
							if h := domainHints[c.Mod+"."+c.Fn][i]; len(h) > 0 && rng.Intn(4) > 0 {
								if hv := h[rng.Intn(len(h))]; hintOK(rt, hv) {
									a[i] = hv
								}
							}
						}
					}
					switch c.Mod + "." + c.Fn {
					case "math.jn", "math.yn": // the order is a loop count
						if len(a) == 0 {
							break
						}
						if n, ok := tengo.ToInt(a[0]); ok && (n > 50 || n < -50) {
							a[0] = &tengo.Int{Value: int64(n % 50)}
						}
					}
					if c.Mod == "text" && c.Fn == "format_float" && len(a) == 4 { // the precision is a size: strconv itself panics on absurd ones
						if n, ok := tengo.ToInt64(a[2]); ok && (n > 2000 || n < -2000) {
							a[2] = &tengo.Int{Value: 17}
						}
					}
					if c.Mod == "times" && c.Fn == "sleep" && len(a) == 1 {
						if _, isInt := a[0].(*tengo.Int); isInt {
							a[0] = &tengo.Int{Value: 1}
						} else if _, isF := a[0].(*tengo.Float); isF {
							a[0] = &tengo.Float{Value: 1}
						}
					}
					one(c, a)
				}
			}
			return map[string]interface{}{"stats": stats, "mismatches": mism, "by_key": byKey}
		})
	})

	register("enumspec", "C19: the enum module against StdlibSig.tla's definitions", func(args []string) error {
		s := tengo.NewScript([]byte(`enum := import("enum")
pred := func(k, v) {
  if p == "gt" { return v > t }
  if p == "idxge" { return k >= t }
  return (v + k) % 2 == 0
}
r_all := enum.all(x, pred)
r_any := enum.any(x, pred)
r_filter := enum.filter(x, pred)
r_find := enum.find(x, pred)
r_find_key := enum.find_key(x, pred)
r_chunk := enum.chunk(x, n)
r_map := enum.map(x, func(k, v) { return v * 10 + k })
r_at := enum.at(x, n - 1)
sum := 0
r_each := enum.each(x, func(k, v) { sum += v * 10 + k })
r_key := enum.key(n, t)
r_value := enum.value(n, t)
`))
		s.SetImports(stdlib.GetModuleMap("enum"))
		_ = s.Add("x", []interface{}{})
		_ = s.Add("p", "gt")
		_ = s.Add("t", 0)
		_ = s.Add("n", 1)
		comp, err := s.Compile()
		if err != nil {
			return err
		}
		ms := tengo.NewScript([]byte(`enum := import("enum")
pred := func(k, v) { return v > t }
r_all := enum.all(x, pred)
r_any := enum.any(x, pred)
r_filter := enum.filter(x, pred)
r_find := enum.find(x, pred)
r_find_key := enum.find_key(x, pred)
r_chunk := enum.chunk(x, 2)
r_map := enum.map(x, func(k, v) { return k + ":" + v })
r_at := [enum.at(x, "a"), enum.at(x, "b"), enum.at(x, "c"), enum.at(x, 0), enum.at(x, undefined)]
cnt := 0
r_each := enum.each(x, func(k, v) { cnt += v + 1 })
r_other := [enum.all(5, pred), enum.any("s", pred), enum.map(undefined, pred), enum.at(5, 0), enum.each(1.5, pred), enum.find(true, pred), enum.find_key('c', pred), enum.filter({}, pred), enum.chunk([1], 0)]
`))
		ms.SetImports(stdlib.GetModuleMap("enum"))
		_ = ms.Add("x", map[string]interface{}{})
		_ = ms.Add("t", 0)
		mcomp, err := ms.Compile()
		if err != nil {
			return err
		}
		return runCases(300*time.Second, func(raw []byte) map[string]interface{} {
			var in struct {
				Maps []struct {
					KV  [][]interface{} `json:"kv"`
					T   int64           `json:"t"`
					All bool            `json:"all"`
					Any bool            `json:"any"`
					Sat []string        `json:"sat"`
					At  [][]interface{} `json:"at"`
				} `json:"maps"`
				Batch []struct {
					X      []int64   `json:"x"`
					Pred   string    `json:"pred"`
					T      int64     `json:"t"`
					All    *bool     `json:"all"`
					Any    *bool     `json:"any"`
					Filter []int64   `json:"filter"`
					Find   int       `json:"find"`
					N      int64     `json:"n"`
					Chunk  [][]int64 `json:"chunk"`
					Map    []int64   `json:"map"`
					Form   string    `json:"form"`
				} `json:"batch"`
			}
			if err := json.Unmarshal(raw, &in); err != nil {
				return map[string]interface{}{"error": err.Error()}
			}
			stats := map[string]int{}
			var mism []libMismatch
			byKey := map[string]int{}
			ints := func(l []int64) tengo.Object {
				a := &tengo.Array{Value: []tengo.Object{}}
				for _, v := range l {
					a.Value = append(a.Value, &tengo.Int{Value: v})
				}
				return a
			}
			for _, c := range in.Maps {
				for _, form := range []string{"map", "immutable-map"} {
					kv := map[string]tengo.Object{}
					for _, p := range c.KV {
						kv[p[0].(string)] = &tengo.Int{Value: toInt64(p[1])}
					}
					var x tengo.Object = &tengo.Map{Value: kv}
					if form == "immutable-map" {
						x = &tengo.ImmutableMap{Value: kv}
					}
					cl := mcomp.Clone()
					_ = cl.Set("x", x)
					_ = cl.Set("t", c.T)
					ctx, cancel := context.WithTimeout(context.Background(), 10*time.Second)
					err := cl.RunContext(ctx)
					cancel()
					bad := func(fn, what string) {
						k := "enum:" + fn + ":" + form
						byKey[k]++
						if byKey[k] <= 2 {
							mism = append(mism, libMismatch{Key: k, What: fmt.Sprintf("enum.%s on %s %v (pred value > %d): %s", fn, form, c.KV, c.T, what), Fn: "enum." + fn})
						}
					}
					if err != nil {
						bad("run", err.Error())
						continue
					}
					get := func(name string) tengo.Object { return cl.Get(name).Object() }
					chk := func(fn string, want tengo.Object) {
						stats["compared"]++
						if got := get("r_" + fn); !sameObj(want, got) {
							bad(fn, fmt.Sprintf("returned %s %s, the specification gives %s %s", got.TypeName(), got.String(), want.TypeName(), want.String()))
						}
					}
					chk("all", mkBool(c.All).Obj)
					chk("any", mkBool(c.Any).Obj)
					chk("filter", tengo.UndefinedValue)
					chk("chunk", tengo.UndefinedValue)
					sat := map[string]bool{}
					for _, k := range c.Sat {
						sat[k] = true
					}
					stats["compared"] += 2
					fk, fv := get("r_find_key"), get("r_find")
					if len(sat) == 0 {
						if fk != tengo.UndefinedValue || fv != tengo.UndefinedValue {
							bad("find", fmt.Sprintf("no entry satisfies the predicate, find gave %s, find_key %s", fv.String(), fk.String()))
						}
					} else {
						ks, ok := fk.(*tengo.String)
						if !ok || !sat[ks.Value] {
							bad("find_key", fmt.Sprintf("returned %s, the satisfying keys are %v", fk.String(), c.Sat))
						}
						okv := false
						for k := range sat {
							if sameObj(kv[k], fv) {
								okv = true
							}
						}
						if !okv {
							bad("find", fmt.Sprintf("returned %s, not the value of a satisfying key %v", fv.String(), c.Sat))
						}
					}
					// map: a permutation of the images
					var want []string
					for k, v := range kv {
						want = append(want, k+":"+v.String())
					}
					sort.Strings(want)
					var gotl []string
					if a, ok := get("r_map").(*tengo.Array); ok {
						for _, e := range a.Value {
							gotl = append(gotl, argS(e))
						}
					}
					sort.Strings(gotl)
					stats["compared"]++
					if strings.Join(want, ",") != strings.Join(gotl, ",") {
						bad("map", fmt.Sprintf("returned %s, the images are %v", get("r_map").String(), want))
					}
					at := &tengo.Array{Value: []tengo.Object{}}
					for _, key := range []string{"a", "b", "c"} {
						var e tengo.Object = tengo.UndefinedValue
						for _, p := range c.At {
							if p[0].(string) == key && toInt64(p[1]) >= 0 {
								e = &tengo.Int{Value: toInt64(p[1])}
							}
						}
						at.Value = append(at.Value, e)
					}
					at.Value = append(at.Value, tengo.UndefinedValue, tengo.UndefinedValue)
					chk("at", at)
					var cnt int64
					for _, v := range kv {
						cnt += v.(*tengo.Int).Value + 1
					}
					stats["compared"]++
					if got := get("cnt"); !sameObj(&tengo.Int{Value: cnt}, got) {
						bad("each", fmt.Sprintf("visited values sum to %s, the specification gives %d", got.String(), cnt))
					}
					other := &tengo.Array{Value: []tengo.Object{}}
					for i := 0; i < 9; i++ {
						other.Value = append(other.Value, tengo.UndefinedValue)
					}
					chk("other", other)
				}
			}
			for _, c := range in.Batch {
				for _, form := range []string{"array", "immutable"} {
					cl := comp.Clone()
					var x tengo.Object = ints(c.X)
					if form == "immutable" {
						x = &tengo.ImmutableArray{Value: x.(*tengo.Array).Value}
					}
					_ = cl.Set("x", x)
					if c.Pred != "" {
						_ = cl.Set("p", c.Pred)
					}
					_ = cl.Set("t", c.T)
					n := c.N
					if n == 0 {
						n = 1
					}
					_ = cl.Set("n", n)
					ctx, cancel := context.WithTimeout(context.Background(), 10*time.Second)
					err := cl.RunContext(ctx)
					cancel()
					bad := func(fn, what string) {
						k := "enum:" + fn
						byKey[k]++
						if byKey[k] <= 2 {
							mism = append(mism, libMismatch{Key: k, What: fmt.Sprintf("enum.%s on %s %v (pred %s %d, n %d): %s", fn, form, c.X, c.Pred, c.T, n, what), Fn: "enum." + fn})
						}
					}
					if err != nil {
						bad("run", err.Error())
						continue
					}
					get := func(name string) tengo.Object { return cl.Get(name).Object() }
					expectObj := func(fn string, want tengo.Object) {
						got := get("r_" + fn)
						stats["compared"]++
						if !sameObj(want, got) {
							bad(fn, fmt.Sprintf("returned %s %s, the specification gives %s %s", got.TypeName(), got.String(), want.TypeName(), want.String()))
						}
					}
					if c.All != nil {
						expectObj("all", mkBool(*c.All).Obj)
						expectObj("any", mkBool(*c.Any).Obj)
						expectObj("filter", ints(c.Filter))
						if c.Find == 0 {
							expectObj("find", tengo.UndefinedValue)
							expectObj("find_key", tengo.UndefinedValue)
						} else {
							expectObj("find", &tengo.Int{Value: c.X[c.Find-1]})
							expectObj("find_key", &tengo.Int{Value: int64(c.Find - 1)})
						}
					} else {
						ch := &tengo.Array{Value: []tengo.Object{}}
						for _, g := range c.Chunk {
							ch.Value = append(ch.Value, ints(g))
						}
						expectObj("chunk", ch)
						expectObj("map", ints(c.Map))
						var sum int64
						for _, v := range c.Map {
							sum += v
						}
						stats["compared"]++
						if got := get("sum"); !sameObj(&tengo.Int{Value: sum}, got) {
							bad("each", fmt.Sprintf("visited elements sum to %s, the specification gives %d", got.String(), sum))
						}
						if int(n-1) < len(c.X) {
							expectObj("at", &tengo.Int{Value: c.X[n-1]})
						}
						expectObj("key", &tengo.Int{Value: n})
						expectObj("value", &tengo.Int{Value: c.T})
					}
				}
			}
			keys := make([]string, 0, len(byKey))
			for k := range byKey {
				keys = append(keys, k)
			}
			sort.Strings(keys)
			return map[string]interface{}{"stats": stats, "mismatches": mism, "by_key": byKey}
		})
	})
}
