module verifharness

go 1.13

require github.com/d5/tengo/v2 v2.0.0

replace github.com/d5/tengo/v2 => /repo
