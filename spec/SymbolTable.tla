---------------------------- MODULE SymbolTable ----------------------------
(***************************************************************************)
(* The compiler's symbol table (symbol_table.go) as a state machine: the   *)
(* component that decides WHERE a variable lives (global slot, frame slot,  *)
(* closure cell, builtin) - the subject of property C11.                    *)
(*                                                                         *)
(* The compiler uses the table under a stack discipline: Fork(block) on     *)
(* entering a block / function literal, Parent on leaving, Define/Resolve   *)
(* only on the innermost table.  tabs is that stack (tabs[1] is the root);  *)
(* symbols have identity (sid) because the code shares *Symbol pointers:    *)
(* a closure's free list points at the enclosing function's symbols and     *)
(* LocalAssigned is written through the pointer.                            *)
(*                                                                         *)
(* One action per public call, written the way the code computes it         *)
(* (recursive Resolve with its defineFree side effect, nextIndex and        *)
(* updateMaxDefs walking the block chain, the root-level accounting of      *)
(* globals defined inside top-level blocks).  Independent of that           *)
(* transcription, the invariants state what the rest of the system relies   *)
(* on: lexical resolution, no two live variables in one slot, frames large  *)
(* enough, global slots never reused, free lists that the enclosing         *)
(* function can actually serve.                                             *)
(*                                                                         *)
(* hist is the call history with the return value of every call; VIEW      *)
(* hides it (and renumbers symbol identities canonically), and the          *)
(* ACTION_CONSTRAINT prints one shortest witness history per (state, call)  *)
(* edge; the harness replays each on a real tengo.SymbolTable.              *)
(***************************************************************************)
EXTENDS Integers, Sequences, FiniteSets, TLC, Json

CONSTANTS Names,      \* identifiers, a sequence (fixed order)
          MaxDepth,   \* bound on the nesting of tables
          MaxLen      \* bound on the history length

VARIABLES tabs, syms, hist
vars == <<tabs, syms, hist>>

MCNames2 == <<"a", "b">>
MCNames3 == <<"a", "b", "c">>
NameSet == {Names[i] : i \in 1..Len(Names)}
BuiltinIndex == 7

\* (TLCEval: a concrete function value, not a lazily evaluated one - TLC cannot spill the latter to its disk queue)
NewTab(block) == [block |-> block, store |-> TLCEval([n \in NameSet |-> 0]), numDef |-> 0, maxDef |-> 0, free |-> <<>>]

Init == /\ tabs = <<NewTab(FALSE)>>
        /\ syms = <<>>
        /\ hist = <<>>

Cur == Len(tabs)

(* Parent(skipBlock = TRUE) of table t: 0 if t belongs to the main function *)
RECURSIVE FuncOf(_, _)
FuncOf(T, t) == IF T[t].block THEN FuncOf(T, t - 1) ELSE t      \* the function table t belongs to
IsGlobalLevel(T, t) == FuncOf(T, t) = 1

RECURSIVE NextIndex(_, _)
NextIndex(T, t) == IF T[t].block THEN NextIndex(T, t - 1) + T[t].numDef ELSE T[t].numDef

RECURSIVE UpdateMax(_, _, _)
UpdateMax(T, t, n) ==
  LET T1 == IF n > T[t].maxDef THEN [T EXCEPT ![t].maxDef = n] ELSE T
  IN IF T[t].block THEN UpdateMax(T1, t - 1, n) ELSE T1

(* Define on the innermost table *)
DefineR(T, S, name) ==
  LET t == Len(T)
      idx == NextIndex(T, t)
      glob == IsGlobalLevel(T, t)
      sid == Len(S) + 1
      sym == [name |-> name, scope |-> IF glob THEN "GLOBAL" ELSE "LOCAL", index |-> idx, assigned |-> FALSE, tab |-> t]
      \* a global defined inside a top-level block is counted at the root
      T1 == IF glob /\ t > 1 THEN [T EXCEPT ![1].numDef = @ + 1] ELSE [T EXCEPT ![t].numDef = @ + 1]
      T2 == [T1 EXCEPT ![t].store[name] = sid]
  IN [T |-> UpdateMax(T2, t, idx + 1), S |-> Append(S, sym), sid |-> sid]

(* Resolve(name, recur) on table t, with the free-variable side effect *)
RECURSIVE ResolveR(_, _, _, _, _)
ResolveR(T, S, t, name, recur) ==
  LET sid == T[t].store[name] IN
  IF sid # 0 /\ (S[sid].scope # "LOCAL" \/ S[sid].assigned \/ recur)
  THEN [ok |-> TRUE, sid |-> sid, depth |-> 0, T |-> T, S |-> S]
  ELSE IF t = 1 THEN [ok |-> FALSE, sid |-> 0, depth |-> 0, T |-> T, S |-> S]
  ELSE LET r == ResolveR(T, S, t - 1, name, TRUE) IN
       IF ~r.ok THEN r
       ELSE IF ~T[t].block /\ r.S[r.sid].scope \notin {"GLOBAL", "BUILTIN"}
            THEN LET nsid == Len(r.S) + 1
                     fsym == [name |-> name, scope |-> "FREE", index |-> Len(r.T[t].free), assigned |-> FALSE, tab |-> t]
                 IN [ok |-> TRUE, sid |-> nsid, depth |-> r.depth + 1,
                     T |-> [r.T EXCEPT ![t].free = Append(@, r.sid), ![t].store[name] = nsid],
                     S |-> Append(r.S, fsym)]
            ELSE [r EXCEPT !.depth = @ + 1]

(* what a caller can see of a symbol *)
Obs(S, sid) == [name |-> S[sid].name, scope |-> S[sid].scope, index |-> S[sid].index, assigned |-> S[sid].assigned]
FreeObs(T, S, t) == TLCEval([i \in 1..Len(T[t].free) |-> Obs(S, T[t].free[i])])
TabObs(T, S) == [max |-> T[Len(T)].maxDef, free |-> FreeObs(T, S, Len(T)), global |-> IsGlobalLevel(T, Len(T))]

Call(op, args, ret, T, S) ==
  /\ hist' = Append(hist, [op |-> op, args |-> args, ret |-> ret, tab |-> TabObs(T, S)])
  /\ tabs' = T
  /\ syms' = S

DefineBuiltin(n) ==
  /\ hist = <<>>
  /\ LET sid == Len(syms) + 1
         sym == [name |-> n, scope |-> "BUILTIN", index |-> BuiltinIndex, assigned |-> FALSE, tab |-> 1]
     IN Call("DefineBuiltin", <<n>>, Obs(<<sym>>, 1), [tabs EXCEPT ![1].store[n] = sid], Append(syms, sym))

Define(n) ==
  LET d == DefineR(tabs, syms, n) IN Call("Define", <<n>>, Obs(d.S, d.sid), d.T, d.S)

ResolveRet(r) == IF r.ok THEN [ok |-> TRUE, depth |-> r.depth, sym |-> Obs(r.S, r.sid)] ELSE [ok |-> FALSE]

Resolve(n) ==
  LET r == ResolveR(tabs, syms, Cur, n, FALSE) IN Call("Resolve", <<n>>, ResolveRet(r), r.T, r.S)

(* what compileAssign does with the symbol it resolved: mark a local as assigned *)
Assign(n) ==
  LET r == ResolveR(tabs, syms, Cur, n, FALSE)
      S1 == IF r.ok /\ r.S[r.sid].scope = "LOCAL" THEN [r.S EXCEPT ![r.sid].assigned = TRUE] ELSE r.S
  IN Call("Assign", <<n>>, ResolveRet(r), r.T, S1)

Fork(block) ==
  /\ Len(tabs) < MaxDepth
  /\ Call("Fork", <<block>>, "ok", Append(tabs, NewTab(block)), syms)

(* Leaving a scope: the compiler reads MaxSymbols and FreeSymbols of the table it leaves *)
Leave ==
  /\ Len(tabs) > 1
  /\ Call("Leave", <<>>, TabObs(tabs, syms), SubSeq(tabs, 1, Len(tabs) - 1), syms)

Next == \/ \E n \in NameSet : DefineBuiltin(n) \/ Define(n) \/ Resolve(n) \/ Assign(n)
        \/ \E b \in BOOLEAN : Fork(b)
        \/ Leave

Spec == Init /\ [][Next]_vars

Bounded == Len(hist) < MaxLen

---------------------------------------------------------------------------
(* Canonical view: identities renumbered in order of first reference *)
RECURSIVE Concat(_, _)
Concat(f, n) == IF n = 0 THEN <<>> ELSE Concat(f, n - 1) \o f[n]
StoreRefs(t) == LET f == [i \in 1..Len(Names) |-> IF tabs[t].store[Names[i]] = 0 THEN <<>> ELSE <<tabs[t].store[Names[i]]>>]
                IN Concat(f, Len(Names))
TabRefs(t) == StoreRefs(t) \o tabs[t].free
RefSeq == Concat([t \in 1..Len(tabs) |-> TabRefs(t)], Len(tabs))
Pos(sid) == IF sid = 0 THEN 0 ELSE CHOOSE i \in 1..Len(RefSeq) : RefSeq[i] = sid /\ \A j \in 1..(i - 1) : RefSeq[j] # sid
View == <<[t \in 1..Len(tabs) |-> [block |-> tabs[t].block, numDef |-> tabs[t].numDef, maxDef |-> tabs[t].maxDef,
                                   store |-> [n \in NameSet |-> Pos(tabs[t].store[n])],
                                   free |-> [i \in 1..Len(tabs[t].free) |-> Pos(tabs[t].free[i])]]],
          [i \in 1..Len(RefSeq) |-> syms[RefSeq[i]]]>>

EmitEdge == PrintT(<<"CASE", ToJson([calls |-> hist'])>>)

---------------------------------------------------------------------------
(* What the rest of the system relies on. *)

(* the tables of the function that table t belongs to, up to t *)
Segment(t) == FuncOf(tabs, t)..t
FuncTabs == {t \in 1..Len(tabs) : ~tabs[t].block}
(* the innermost table of the segment that starts at function table f *)
SegEnd(f) == CHOOSE e \in f..Len(tabs) : FuncOf(tabs, e) = f /\ (e = Len(tabs) \/ ~tabs[e + 1].block)
Stored(t) == {tabs[t].store[n] : n \in NameSet} \ {0}
LiveIn(f) == UNION {Stored(t) : t \in f..SegEnd(f)}

(* no two live variables of one function share a frame slot; a frame is large enough *)
LiveLocalsDisjoint ==
  \A f \in FuncTabs : \A a, b \in LiveIn(f) :
     (a # b /\ syms[a].scope = "LOCAL" /\ syms[b].scope = "LOCAL") => syms[a].index # syms[b].index
FrameCovers ==
  \A f \in FuncTabs : \A a \in LiveIn(f) :
     syms[a].scope \in {"LOCAL", "GLOBAL"} /\ syms[a].tab >= f => syms[a].index < tabs[f].maxDef

(* a global slot is never handed out twice, in or out of blocks, live or not *)
GlobalsUnique ==
  \A a, b \in 1..Len(syms) : (a # b /\ syms[a].scope = "GLOBAL" /\ syms[b].scope = "GLOBAL") => syms[a].index # syms[b].index
GlobalsCounted == \A a \in 1..Len(syms) : syms[a].scope = "GLOBAL" => syms[a].index < tabs[1].numDef

(* a closure's free list can be served by the enclosing function: every original is a frame slot
   of that function or one of its own free variables *)
FreeServed ==
  \A f \in FuncTabs \ {1} : \A i \in 1..Len(tabs[f].free) :
     LET o == syms[tabs[f].free[i]]
         g == FuncOf(tabs, f - 1)
     IN /\ o.scope \in {"LOCAL", "FREE"}
        /\ FuncOf(tabs, o.tab) = g
        /\ o.scope = "LOCAL" => o.index < tabs[g].maxDef
        /\ o.scope = "FREE" => o.index < Len(tabs[g].free)
(* free symbols index their own table's free list, and only function tables have one *)
FreeIndexed ==
  /\ \A t \in 1..Len(tabs) : tabs[t].block \/ t = 1 => tabs[t].free = <<>>
  /\ \A t \in 1..Len(tabs) : \A a \in Stored(t) : syms[a].scope = "FREE" => (a \in Stored(t) /\ syms[a].tab = t /\ syms[a].index < Len(tabs[t].free))

(* Lexical resolution, stated without the recursion: the variable a name denotes is the one
   defined in the innermost enclosing table that has it (an unassigned local of the innermost
   table itself does not count - "f := func() { f() }" aside, a variable is not visible in its
   own initialiser), whatever function boundaries lie in between. *)
RECURSIVE Ultimate(_, _, _)
Ultimate(T, S, sid) == IF S[sid].scope = "FREE" THEN Ultimate(T, S, T[S[sid].tab].free[S[sid].index + 1]) ELSE sid
Visible(t, n) == tabs[t].store[n] # 0 /\ (t < Cur \/ syms[tabs[t].store[n]].scope # "LOCAL" \/ syms[tabs[t].store[n]].assigned)
Denotes(n) == IF \E t \in 1..Cur : Visible(t, n)
              THEN Ultimate(tabs, syms, tabs[CHOOSE t \in 1..Cur : Visible(t, n) /\ \A u \in (t + 1)..Cur : ~Visible(u, n)].store[n])
              ELSE 0
LexicalOn(N) ==
  \A n \in N :
     LET r == ResolveR(tabs, syms, Cur, n, FALSE) IN
       /\ r.ok = (Denotes(n) # 0)
       /\ r.ok => Ultimate(r.T, r.S, r.sid) = Denotes(n)
(* and how it is reached: directly when no function boundary lies between, through a closure cell otherwise *)
ReachOn(N) ==
  \A n \in N :
     LET r == ResolveR(tabs, syms, Cur, n, FALSE) IN
       r.ok => LET u == r.S[Ultimate(r.T, r.S, r.sid)] IN
               IF u.scope \in {"GLOBAL", "BUILTIN"} \/ FuncOf(tabs, u.tab) = FuncOf(tabs, Cur)
               THEN r.S[r.sid].scope = u.scope /\ r.S[r.sid].index = u.index
               ELSE r.S[r.sid].scope = "FREE" /\ r.S[r.sid].tab = FuncOf(tabs, Cur)   \* a cell of the function being compiled, not of an outer one

(* resolving is idempotent: the second lookup of a name finds the same symbol and changes nothing more *)
ResolveStableOn(N) ==
  \A n \in N :
     LET r == ResolveR(tabs, syms, Cur, n, FALSE) IN
       r.ok => LET q == ResolveR(r.T, r.S, Cur, n, FALSE) IN q.sid = r.sid /\ q.T = r.T /\ q.S = r.S

Lexical == LexicalOn(NameSet)
Reach == ReachOn(NameSet)
ResolveStable == ResolveStableOn(NameSet)

=============================================================================
