package main

import (
	"context"
	"encoding/json"
	"time"

	"github.com/d5/tengo/v2"
	"github.com/d5/tengo/v2/parser"
)

type parserPos = parser.Pos

// errpos: the location a run-time error reports must be the source position of the instruction that failed - the nearest
// source-map entry at or before the offset of the last dispatched instruction (step hook) - whatever kind of error it is
// (also the allocation-limit error, which can strike in any allocating instruction).
func init() {
	register("errpos", "C14: reported location = source position of the last dispatched instruction", func(args []string) error {
		return runCases(30*time.Second, func(raw []byte) map[string]interface{} {
			var in struct {
				progCase
				Budget *int64 `json:"budget"`
			}
			if err := json.Unmarshal(raw, &in); err != nil {
				return map[string]interface{}{"error": err.Error()}
			}
			pc := in.progCase
			pc.MaxAllocs = in.Budget
			s, files, err := buildScript(&pc)
			if err != nil {
				return map[string]interface{}{"error": err.Error()}
			}
			c, err := s.Compile()
			if err != nil {
				return map[string]interface{}{"outcome": V{"k": "compile_error"}}
			}
			var lastFn *tengo.CompiledFunction
			lastIP := -1
			steps := 0
			tengo.VerifSetStep(func(v *tengo.VM) {
				st := v.VerifState()
				lastFn, lastIP = st.Fn, st.IP
				steps++
			})
			defer tengo.VerifSetStep(nil)
			ctx, cancel := context.WithTimeout(context.Background(), 10*time.Second)
			defer cancel()
			err = c.RunContext(ctx)
			if err == nil {
				return map[string]interface{}{"outcome": V{"k": "ok"}, "steps": steps}
			}
			kind := classifyRuntime(err)
			pos := parsePositions(err.Error(), files)
			out := map[string]interface{}{"outcome": V{"k": "runtime_error", "kind": kind, "msg": err.Error()}, "steps": steps}
			if lastFn == nil || len(pos) == 0 || kind == "host_panic" || kind == "go_index_panic" {
				return out
			}
			// independent walk over the function's source map.  The VM resolves the byte before its instruction pointer, which stands
			// behind the operands of the failing instruction: an instruction with operands is located by its own entry, one without
			// operands by the entry of the instruction before it (its last operand) - uniformly, for every opcode.
			width := 0
			if w, ok := opWidths(lastFn.Instructions[lastIP]); ok {
				for _, x := range w {
					width += x
				}
			}
			want := 0
			for ip := lastIP + width - 1; ip >= 0; ip-- {
				if p, ok := lastFn.SourceMap[ip]; ok {
					want = int(p)
					break
				}
			}
			wp := c.VerifBytecode().FileSet.Position(tengoPos(want))
			out["reported"] = V{"file": pos[0].File, "line": pos[0].Line, "col": pos[0].Col}
			wf := wp.Filename
			out["expected"] = V{"file": wf, "line": wp.Line, "col": wp.Column, "ip": lastIP}
			out["match"] = pos[0].Line == wp.Line && pos[0].Col == wp.Column && (pos[0].File == wf || (pos[0].File == "" && wf == "(main)"))
			return out
		})
	})
}

func tengoPos(n int) parserPos { return parserPos(n) }
