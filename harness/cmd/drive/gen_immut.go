package main

import (
	"fmt"
	"math/rand"
)

// Family "immut": every way a value becomes immutable x every operation sequence (length <= 3)
// that derives values from it x writes through every derived value at depth 0 and 1.  The reference
// semantics predicts all final globals, in particular that the immutable value is unchanged unless a
// mutable alias of its storage existed before (that case is generated too, on purpose).
type immGen struct {
	r    *rand.Rand
	n    int
	vars []string // derived variables (arrays or maps, unknown which)
}

func (g *immGen) nm() string { g.n++; return fmt.Sprintf("d%d", g.n) }

func immOrigins() []struct {
	name string
	mk   func() ([]*Node, []Module)
} {
	arr := func() *Node { return Arr(Int(1), Arr(Int(2), Int(3)), Map([]string{"k"}, []*Node{Int(4)})) }
	mp := func() *Node { return Map([]string{"a", "b", "c"}, []*Node{Int(1), Arr(Int(2), Int(3)), Map([]string{"k"}, []*Node{Int(4)})}) }
	base := []struct {
		name string
		mk   func() ([]*Node, []Module)
	}{
		{"immutable-array", func() ([]*Node, []Module) { return []*Node{Def("v", Imm(arr()))}, nil }},
		{"immutable-map", func() ([]*Node, []Module) { return []*Node{Def("v", Imm(mp()))}, nil }},
		{"freeze-array", func() ([]*Node, []Module) { return []*Node{Def("src", arr()), Def("v", Call(Id("freeze"), Id("src")))}, nil }},
		{"freeze-map", func() ([]*Node, []Module) { return []*Node{Def("src", mp()), Def("v", Call(Id("freeze"), Id("src")))}, nil }},
		{"freeze-shared", func() ([]*Node, []Module) {
			return []*Node{Def("sh", Arr(Int(7), Int(8))), Def("src", Arr(Id("sh"), Id("sh"), Map([]string{"s"}, []*Node{Id("sh")}))),
				Def("v", Call(Id("freeze"), Id("src")))}, nil
		}},
		{"freeze-immutable", func() ([]*Node, []Module) {
			return []*Node{Def("v", Call(Id("freeze"), Imm(Arr(Int(1), Arr(Int(2), Int(3))))))}, nil
		}},
		{"export-array", func() ([]*Node, []Module) {
			return []*Node{Def("v", Import("m"))}, []Module{{Name: "m", Prog: &Program{Stmts: []*Node{Def("x", arr()), Export(Id("x"))}}}}
		}},
		{"export-map", func() ([]*Node, []Module) {
			return []*Node{Def("v", Import("m"))}, []Module{{Name: "m", Prog: &Program{Stmts: []*Node{Export(mp())}}}}
		}},
		{"freeze-immutable-shared-twice", func() ([]*Node, []Module) {
			// an already-immutable container holding a mutable child, reachable twice from the argument
			return []*Node{Def("s", Imm(Arr(Arr(Int(1), Int(2))))), Def("src", Arr(Id("s"), Id("s"), Map([]string{"k"}, []*Node{Id("s")}))),
				Def("v", Call(Id("freeze"), Id("src")))}, nil
		}},
		{"freeze-immutable-map-shared-twice", func() ([]*Node, []Module) {
			return []*Node{Def("s", Imm(Map([]string{"k"}, []*Node{Arr(Int(1), Int(2))}))), Def("src", Arr(Map([]string{"a"}, []*Node{Id("s")}), Id("s"))),
				Def("v", Call(Id("freeze"), Id("src")))}, nil
		}},
		{"freeze-then-grow-source", func() ([]*Node, []Module) {
			// the argument of freeze stays the caller's own value: what happens to it afterwards must not reach the frozen copy
			return []*Node{Def("src", Map([]string{"opts", "list", "n", "deep"}, []*Node{Map(nil, nil), Arr(), Int(1), Arr(Map(nil, nil), Arr())})),
				Def("v", Call(Id("freeze"), Id("src"))),
				Set("src", []*Node{DotKey("opts"), DotKey("debug")}, "=", Bool(true)),
				Set("src", []*Node{DotKey("list")}, "=", Call(Id("append"), Sel(Id("src"), "list"), Int(1))),
				Set("src", []*Node{DotKey("deep"), Int(0), DotKey("k")}, "=", Int(7)),
				Set("src", []*Node{DotKey("n")}, "=", Int(2))}, nil
		}},
		{"freeze-empty-array-then-append", func() ([]*Node, []Module) {
			return []*Node{Def("src", Arr(Arr(), Map(nil, nil), Int(3))), Def("v", Call(Id("freeze"), Id("src"))),
				Set("src", []*Node{Int(1), DotKey("late")}, "=", Int(1)), Set("src", []*Node{Int(2)}, "=", Int(4))}, nil
		}},
		{"aliased-before", func() ([]*Node, []Module) { return []*Node{Def("src", arr()), Def("v", Imm(Id("src")))}, nil }},
		{"immutable-of-slice", func() ([]*Node, []Module) {
			return []*Node{Def("src", Arr(Int(1), Int(2), Int(3), Int(4))), Def("v", Imm(Slice(Id("src"), Int(1), Int(3))))}, nil
		}},
	}
	// immutable(x) where the code of x ends in every small byte value (the slot number of a global or local, the length of an
	// array literal), and where x itself contains immutable(...) on one path only: nothing about the operand's code may
	// decide whether the value is made immutable
	zeros := func(n int, pre string) []*Node {
		var st []*Node
		for i := 0; i < n; i++ {
			st = append(st, Def(fmt.Sprintf("%s%d", pre, i), Int(0)))
		}
		return st
	}
	for k := 0; k <= 40; k++ {
		k := k
		base = append(base, struct {
			name string
			mk   func() ([]*Node, []Module)
		}{fmt.Sprintf("immutable-of-global-slot-%d", k), func() ([]*Node, []Module) {
			return append(zeros(k, "z"), Def("src", arr()), Def("v", Imm(Id("src")))), nil
		}})
		if k >= 1 {
			base = append(base, struct {
				name string
				mk   func() ([]*Node, []Module)
			}{fmt.Sprintf("immutable-of-array-literal-%d", k), func() ([]*Node, []Module) {
				el := []*Node{Int(1), Arr(Int(2), Int(3))}
				for len(el) < k {
					el = append(el, Int(int64(len(el))))
				}
				return []*Node{Def("v", Imm(Arr(el[:k]...)))}, nil
			}})
		}
		if k >= 12 && k <= 24 {
			base = append(base, struct {
				name string
				mk   func() ([]*Node, []Module)
			}{fmt.Sprintf("immutable-of-local-slot-%d", k), func() ([]*Node, []Module) {
				body := append(zeros(k, "l"), Def("src", arr()), Ret(Imm(Id("src"))))
				return []*Node{Def("mk", Fn(nil, false, body...)), Def("v", Call(Id("mk")))}, nil
			}})
		}
	}
	base = append(base, struct {
		name string
		mk   func() ([]*Node, []Module)
	}{"immutable-of-cond-with-immutable-branch", func() ([]*Node, []Module) {
		return []*Node{Def("c", Bool(true)), Def("v", Imm(Cond(Id("c"), arr(), Imm(Arr()))))}, nil
	}}, struct {
		name string
		mk   func() ([]*Node, []Module)
	}{"immutable-of-or-with-immutable-branch", func() ([]*Node, []Module) {
		return []*Node{Def("v", Imm(Bin("||", mp(), Imm(Map(nil, nil)))))}, nil
	}}, struct {
		name string
		mk   func() ([]*Node, []Module)
	}{"immutable-of-and-with-immutable-branch", func() ([]*Node, []Module) {
		return []*Node{Def("c", Bool(false)), Def("v", Imm(Bin("||", Bin("&&", Id("c"), Imm(Arr())), arr())))}, nil
	}})
	return base
}

func (g *immGen) op(src string) []*Node {
	d := g.nm()
	s := Id(src)
	var st []*Node
	switch g.r.Intn(24) {
	case 0:
		st = []*Node{Def(d, Slice(s, Int(int64(g.r.Intn(2))), nil))}
	case 1:
		st = []*Node{Def(d, Slice(s, nil, Int(int64(1+g.r.Intn(3)))))}
	case 2:
		st = []*Node{Def(d, Call(Id("append"), s, Int(9)))}
	case 3:
		st = []*Node{Def(d, Bin("+", s, s))}
	case 4:
		st = []*Node{Def(d, Call(Id("copy"), s))}
	case 5:
		st = []*Node{Def(d, Idx(s, Int(1)))}
	case 6:
		st = []*Node{Def(d, Sel(s, "b"))}
	case 7:
		st = []*Node{Def(d, s)}
	case 8:
		st = []*Node{Def(d, Arr(s, Int(0)))}
	case 9:
		st = []*Node{Def(d, Map([]string{"in"}, []*Node{s}))}
	case 10:
		st = []*Node{Def(d, Call(Fn([]string{"p"}, false, Ret(Id("p"))), s))}
	case 11:
		st = []*Node{Def(d, Call(Id("freeze"), s))}
	case 12:
		st = []*Node{Def(d, Imm(s))}
	case 13:
		st = []*Node{Def(d, Arr()), ForIn("", "e", s, Blk(Set(d, nil, "=", Call(Id("append"), Id(d), Id("e")))))}
	case 14:
		st = []*Node{Def(d, Call(Fn([]string{"p"}, true, Ret(Id("p"))), s))} // variadic roll-up
	case 15:
		st = []*Node{Def(d, Cond(Bool(true), s, Int(0)))}
	case 16:
		st = []*Node{Def(d, CallSpread(Fn([]string{"p"}, true, Ret(Id("p"))), s))} // spread into a variadic parameter: the callee's array is its own
	case 17:
		st = []*Node{Def(d, CallSpread(Fn([]string{"q", "p"}, true, Ret(Id("p"))), Int(0), s))}
	case 18:
		st = []*Node{Def(d, CallSpread(Fn([]string{"p"}, true, Set("p", []*Node{Int(0)}, "=", Int(77)), Ret(Id("p"))), s))} // the callee writes its varargs
	case 19:
		st = []*Node{Def(d, Bin("+", s, Imm(Arr())))} // concatenation with an empty operand must not hand out the operand's storage
	case 20:
		st = []*Node{Def(d, Bin("+", Imm(Arr()), s))}
	case 21:
		st = []*Node{Def(d, CallSpread(Id("append"), s, Arr()))} // append with an empty spread: no items at all
	case 22:
		st = []*Node{Def(d, CallSpread(Id("append"), s, Imm(Arr())))}
	case 23:
		st = []*Node{Def(d, Call(Id("append"), Call(Id("append"), s, Int(5)), Int(6)))}
	}
	g.vars = append(g.vars, d)
	return st
}

func (g *immGen) write(dst string) *Node {
	var sels []*Node
	switch g.r.Intn(14) {
	case 9:
		sels = []*Node{Int(1), Int(0), Int(0)}
	case 10:
		sels = []*Node{Int(0), Int(0), Int(1)}
	case 11:
		sels = []*Node{Int(1), DotKey("k"), Int(0)}
	case 12:
		sels = []*Node{Int(2), DotKey("k"), Int(0)}
	case 13:
		sels = []*Node{Int(0), DotKey("a"), DotKey("k")}
	case 0:
		sels = []*Node{Int(0)}
	case 1:
		sels = []*Node{Int(1)}
	case 2:
		sels = []*Node{DotKey("a")}
	case 3:
		sels = []*Node{DotKey("b"), Int(0)}
	case 4:
		sels = []*Node{Int(1), Int(0)}
	case 5:
		sels = []*Node{Int(2), DotKey("k")}
	case 6:
		sels = []*Node{DotKey("c"), DotKey("k")}
	case 7:
		sels = []*Node{Int(0), Int(0)}
	case 8:
		sels = []*Node{DotKey("in"), Int(0)}
	}
	if g.r.Intn(5) == 0 {
		return ExprS(Call(Id("delete"), Id(dst), Str("a")))
	}
	op := "="
	if g.r.Intn(4) == 0 {
		op = "+="
	}
	return Set(dst, sels, op, Int(int64(90+g.r.Intn(9))))
}

func immutPrograms(r *rand.Rand, n int) []*Program {
	var ps []*Program
	origins := immOrigins()
	for i := 0; i < n; i++ {
		o := origins[i%len(origins)]
		g := &immGen{r: r}
		st, mods := o.mk()
		g.vars = []string{"v"}
		st = append(st, Def("snap", Call(Id("copy"), Id("v"))))
		k := 1 + r.Intn(3)
		for j := 0; j < k; j++ {
			st = append(st, g.op(g.vars[r.Intn(len(g.vars))])...)
		}
		// writes: each wrapped so that an error does not hide the others is not possible in Tengo
		// (no try); so one program = one write after the derivations (the error is the expected outcome)
		if r.Intn(6) > 0 {
			st = append(st, g.write(g.vars[r.Intn(len(g.vars))]))
		}
		if o.name == "aliased-before" || o.name == "immutable-of-slice" {
			if r.Intn(2) == 0 {
				st = append(st, Set("src", []*Node{Int(1)}, "=", Int(77)))
			}
		}
		st = append(st, Def("same", Bin("==", Id("snap"), Id("v"))))
		ps = append(ps, &Program{Stmts: st, Modules: mods, Meta: map[string]interface{}{"cell": o.name}})
	}
	// one fixed program per "immutable-of-..." origin: the direct write that must fail
	for _, o := range origins {
		if len(o.name) < 13 || o.name[:13] != "immutable-of-" {
			continue
		}
		st, mods := o.mk()
		sel := []*Node{Int(0)}
		if o.name == "immutable-of-or-with-immutable-branch" {
			sel = []*Node{DotKey("a")}
		}
		st = append(st, Def("snap", Call(Id("copy"), Id("v"))), Def("imm", Call(Id("is_immutable_array"), Id("v"))), Set("v", sel, "=", Int(99)))
		ps = append(ps, &Program{Stmts: st, Modules: mods, Meta: map[string]interface{}{"cell": o.name + "/write"}})
	}
	return ps
}

func init() {
	families["immut"] = func(seed int64, n int) []*Program {
		return immutPrograms(rand.New(rand.NewSource(seed)), n)
	}
}
