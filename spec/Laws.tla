-------------------------------- MODULE Laws --------------------------------
(***************************************************************************)
(* Equality, ordering, truthiness, copy and conversion tables of the Tengo *)
(* runtime types (docs/operators.md, docs/runtime-types.md), over abstract *)
(* descriptors, so that boundary numerics (min/max int, +-0, NaN, +-Inf,   *)
(* 2^53+1) are covered without arithmetic:                                 *)
(*                                                                         *)
(*   pair descriptor [ta, tb, rel]: the two types and how the values       *)
(*   relate - "lt" | "eq" | "gt" for ordered comparisons (an int is taken  *)
(*   as a float against a float; a char as its code point against an int), *)
(*   "un" unordered (a NaN is involved), "same"/"other" identity for       *)
(*   errors, "seq"/"sne" structural (in)equality for containers.           *)
(*   The harness computes the descriptor of concrete values with Go's own  *)
(*   operators; the tables below say what every Tengo operator must yield. *)
(*                                                                         *)
(* TLC enumerates every descriptor (Init), checks the laws of the property *)
(* on the tables (invariants) and prints the tables for the conformance    *)
(* run.                                                                    *)
(***************************************************************************)
EXTENDS Integers, Sequences, FiniteSets, TLC, Json

Types == {"int", "float", "char", "string", "bytes", "bool", "undefined", "time", "error",
          "array", "immutable-array", "map", "immutable-map", "function", "builtin"}
Numeric == {"int", "float"}
Arrays == {"array", "immutable-array"}
Maps == {"map", "immutable-map"}
CmpOps == {"<", "<=", ">", ">="}
Rels == {"lt", "eq", "gt", "un", "same", "other", "seq", "sne", "none"}

\* which relation descriptors make sense for a pair of types
RelsOf(ta, tb) ==
  IF ta \in Numeric /\ tb \in Numeric THEN (IF "float" \in {ta, tb} THEN {"lt", "eq", "gt", "un"} ELSE {"lt", "eq", "gt"})
  ELSE IF {ta, tb} \subseteq {"int", "char"} THEN {"lt", "eq", "gt"}
  ELSE IF ta = tb /\ ta \in {"string", "time", "bytes", "bool"} THEN
         (IF ta \in {"bytes", "bool"} THEN {"eq", "lt"} ELSE {"lt", "eq", "gt"})   \* bytes/bool: only eq vs not eq matters
  ELSE IF ta = "undefined" /\ tb = "undefined" THEN {"eq"}
  ELSE IF ta = "error" /\ tb = "error" THEN {"same", "other"}
  ELSE IF (ta \in Arrays /\ tb \in Arrays) \/ (ta \in Maps /\ tb \in Maps) THEN {"seq", "sne"}
  ELSE {"none"}

Ordered(ta, tb) ==   \* pairs for which < <= > >= are defined
  \/ ta \in Numeric /\ tb \in Numeric
  \/ {ta, tb} \subseteq {"int", "char"}
  \/ ta = tb /\ ta \in {"string", "time"}

\* ---- the tables -----------------------------------------------------------
Eq(ta, tb, rel) ==
  CASE ta \in Numeric /\ tb \in Numeric -> rel = "eq"
    [] ta = tb /\ ta \in {"char", "string", "bytes", "bool", "time"} -> rel = "eq"
    [] ta = "undefined" /\ tb = "undefined" -> TRUE
    [] ta = "error" /\ tb = "error" -> rel = "same"                   \* identity
    [] ta \in Arrays /\ tb \in Arrays -> rel = "seq"                  \* (im)mutability is ignored
    [] ta \in Maps /\ tb \in Maps -> rel = "seq"
    [] OTHER -> FALSE                                                 \* different types; functions never equal

Cmp(op, ta, tb, rel) ==   \* TRUE | FALSE | "err" (invalid operation)
  IF ~Ordered(ta, tb) THEN "err"
  ELSE IF rel = "un" THEN FALSE
  ELSE CASE op = "<" -> rel = "lt"
         [] op = ">" -> rel = "gt"
         [] op = "<=" -> rel \in {"lt", "eq"}
         [] op = ">=" -> rel \in {"gt", "eq"}

\* truthiness: [type, flag] where flag says zero/empty/NaN/zero-time
Flags(t) == CASE t \in {"int", "char"} -> {"zero", "nonzero"}
              [] t = "float" -> {"zero", "nonzero", "nan"}
              [] t \in {"string", "bytes"} \cup Arrays \cup Maps -> {"empty", "nonempty"}
              [] t = "bool" -> {"true", "false"}
              [] t = "time" -> {"zero", "nonzero"}
              [] OTHER -> {"any"}
Falsy(t, flag) ==
  CASE t \in {"int", "char"} -> flag = "zero"
    [] t = "float" -> flag = "nan"                                    \* 0.0 is truthy, NaN is falsy
    [] t \in {"string", "bytes"} \cup Arrays \cup Maps -> flag = "empty"
    [] t = "bool" -> flag = "false"
    [] t = "time" -> flag = "zero"
    [] t \in {"error", "undefined"} -> TRUE
    [] OTHER -> FALSE

\* copy(x): result type, whether it must compare equal, whether it may share mutable state
CopyType(t) == CASE t = "immutable-array" -> "array" [] t = "immutable-map" -> "map" [] OTHER -> t
CopyEqual(t) == t \notin {"function", "builtin"}     \* x == x is already false for functions (and for NaN)
\* conversion builtins: "ok" (always converts), "parse" (string must parse, else no conversion), "no"
Conv(dst, t) ==
  CASE dst = "string" -> IF t = "undefined" THEN "no" ELSE "ok"
    [] dst = "int" -> IF t \in {"int", "float", "char", "bool"} THEN "ok" ELSE IF t = "string" THEN "parse" ELSE "no"
    [] dst = "float" -> IF t \in {"int", "float"} THEN "ok" ELSE IF t = "string" THEN "parse" ELSE "no"
    [] dst = "bool" -> "ok"
    [] dst = "char" -> IF t \in {"int", "char"} THEN "ok" ELSE "no"
    [] dst = "bytes" -> IF t \in {"bytes", "string", "int"} THEN "ok" ELSE "no"     \* bytes(N): N zero bytes
    [] dst = "time" -> IF t \in {"time", "int"} THEN "ok" ELSE "no"
Dsts == {"string", "int", "float", "bool", "char", "bytes", "time"}

\* ---- enumeration ------------------------------------------------------------
VARIABLES ta, tb, rel
Init == ta \in Types /\ tb \in Types /\ rel \in RelsOf(ta, tb)
Next == UNCHANGED <<ta, tb, rel>>
Spec == Init /\ [][Next]_<<ta, tb, rel>>

Flip(r) == CASE r = "lt" -> "gt" [] r = "gt" -> "lt" [] OTHER -> r

\* ---- the laws of the property, checked on the tables ----------------------
EqSymmetric == Eq(ta, tb, rel) = Eq(tb, ta, Flip(rel))
Converse == /\ Cmp("<", ta, tb, rel) = Cmp(">", tb, ta, Flip(rel))
            /\ Cmp("<=", ta, tb, rel) = Cmp(">=", tb, ta, Flip(rel))
SameOrdered == \/ (ta = tb /\ ta \in {"int", "char", "string", "time", "float"})
               \/ {ta, tb} = {"int", "float"}
Trichotomy == (SameOrdered /\ rel # "un") =>
                 /\ Cardinality({x \in {"lt", "eq", "gt"} :
                       \/ (x = "lt" /\ Cmp("<", ta, tb, rel) = TRUE)
                       \/ (x = "eq" /\ Eq(ta, tb, rel))
                       \/ (x = "gt" /\ Cmp(">", ta, tb, rel) = TRUE)}) = 1
                 /\ Cmp("<=", ta, tb, rel) = ((Cmp("<", ta, tb, rel) = TRUE) \/ Eq(ta, tb, rel))
                 /\ Cmp(">=", ta, tb, rel) = ((Cmp(">", ta, tb, rel) = TRUE) \/ Eq(ta, tb, rel))
IntCharOrderedNeverEqual == ({ta, tb} = {"int", "char"}) =>
                 /\ ~Eq(ta, tb, rel)
                 /\ (rel = "lt" => Cmp("<", ta, tb, rel) = TRUE /\ Cmp(">", ta, tb, rel) = FALSE)
                 /\ (rel = "gt" => Cmp(">", ta, tb, rel) = TRUE /\ Cmp("<", ta, tb, rel) = FALSE)
NaNUnordered == rel = "un" => (~Eq(ta, tb, rel) /\ \A op \in CmpOps : Cmp(op, ta, tb, rel) = FALSE)
LawsHold == EqSymmetric /\ Converse /\ Trichotomy /\ IntCharOrderedNeverEqual /\ NaNUnordered

\* ---- emission ---------------------------------------------------------------
EmitPair == PrintT(<<"PAIR", ToJson([ta |-> ta, tb |-> tb, rel |-> rel, eq |-> Eq(ta, tb, rel),
                                     lt |-> Cmp("<", ta, tb, rel), le |-> Cmp("<=", ta, tb, rel),
                                     gt |-> Cmp(">", ta, tb, rel), ge |-> Cmp(">=", ta, tb, rel)])>>)
EmitSingles == (ta = tb /\ rel = CHOOSE r \in RelsOf(ta, tb) : TRUE) =>
   PrintT(<<"TYPE", ToJson([t |-> ta,
                            falsy |-> [f \in Flags(ta) |-> Falsy(ta, f)],
                            copytype |-> CopyType(ta), copyequal |-> CopyEqual(ta),
                            conv |-> [d \in Dsts |-> Conv(d, ta)]])>>)
=============================================================================
