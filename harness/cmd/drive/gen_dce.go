package main

import (
	"fmt"
	"math/rand"
)

// Family "dce": functions whose control flow is rich in the layouts the dead-code
// optimizer has to get right: code after return, return in both arms, return directly
// before a loop head, jumps to the function end, break/continue next to return,
// short-circuit operators and ternaries around calls, nested function literals.
type dceGen struct {
	r     *rand.Rand
	n     int
	loops int
	depth int
}

func (g *dceGen) name(p string) string { g.n++; return fmt.Sprintf("%s%d", p, g.n) }

func (g *dceGen) cond(vars []string) *Node {
	v := Id(vars[g.r.Intn(len(vars))])
	switch g.r.Intn(5) {
	case 0:
		return Bin("<", v, Int(int64(g.r.Intn(4))))
	case 1:
		return Bin("==", Bin("%", v, Int(2)), Int(int64(g.r.Intn(2))))
	case 2:
		return Bin("&&", Bin(">", v, Int(0)), Bin("<", v, Int(int64(2+g.r.Intn(4)))))
	case 3:
		return Bin("||", Bin("==", v, Int(1)), Bin(">", v, Int(3)))
	}
	return Bin(">=", v, Int(int64(g.r.Intn(3))))
}

func (g *dceGen) val(vars []string) *Node {
	v := Id(vars[g.r.Intn(len(vars))])
	switch g.r.Intn(6) {
	case 0:
		return Bin("+", v, Int(int64(g.r.Intn(5))))
	case 1:
		return Cond(g.cond(vars), v, Int(int64(g.r.Intn(9))))
	case 2:
		return Bin("*", v, Int(2))
	case 3:
		return Int(int64(g.r.Intn(9)))
	case 4:
		return Bin("||", Bin("&&", g.cond(vars), v), Int(7))
	}
	return v
}

func (g *dceGen) stmts(vars []string, n int) []*Node {
	var out []*Node
	g.depth++
	defer func() { g.depth-- }()
	for i := 0; i < n; i++ {
		c := g.r.Intn(14)
		if g.depth > 3 && c >= 4 && c <= 9 {
			c = 0
		}
		switch c {
		case 0, 1:
			nm := g.name("x")
			out = append(out, Def(nm, g.val(vars)))
			vars = append(vars, nm)
		case 2:
			out = append(out, Set(vars[g.r.Intn(len(vars))], nil, "+=", Int(int64(1+g.r.Intn(3)))))
		case 3:
			out = append(out, Ret(g.val(vars)))
			if g.r.Intn(2) == 0 { // dead code after return
				out = append(out, g.stmts(vars, 1+g.r.Intn(2))...)
			}
		case 4:
			out = append(out, If(nil, g.cond(vars), Blk(g.stmts(vars, 1+g.r.Intn(2))...), nil))
		case 5:
			out = append(out, If(nil, g.cond(vars), Blk(append(g.stmts(vars, g.r.Intn(2)), Ret(g.val(vars)))...),
				Blk(append(g.stmts(vars, g.r.Intn(2)), Ret(g.val(vars)))...)))
			if g.r.Intn(2) == 0 {
				out = append(out, g.stmts(vars, 1)...)
			}
		case 6, 7:
			if g.loops >= 2 {
				continue
			}
			g.loops++
			i := g.name("i")
			body := g.stmts(append(append([]string{}, vars...), i), 1+g.r.Intn(3))
			if g.r.Intn(2) == 0 {
				body = append([]*Node{If(nil, g.cond([]string{i}), Blk([]*Node{Brk(), Cont(), Ret(g.val(vars))}[g.r.Intn(3)]), nil)}, body...)
			}
			if g.r.Intn(3) == 0 {
				body = append(body, []*Node{Brk(), Cont(), Ret(Id(i))}[g.r.Intn(3)])
			}
			g.loops--
			out = append(out, For(Def(i, Int(0)), Bin("<", Id(i), Int(int64(1+g.r.Intn(3)))), IncDec(i, nil, "++"), Blk(body...)))
		case 8:
			if g.loops >= 2 {
				continue
			}
			g.loops++
			e := g.name("e")
			body := g.stmts(append(append([]string{}, vars...), e), 1+g.r.Intn(2))
			if g.r.Intn(2) == 0 {
				body = append(body, If(nil, g.cond([]string{e}), Blk([]*Node{Brk(), Cont(), Ret(Id(e))}[g.r.Intn(3)]), nil))
			}
			g.loops--
			out = append(out, ForIn("", e, Arr(Int(1), Int(2), Int(3)), Blk(body...)))
		case 9:
			// infinite-looking loop left by break or return
			if g.loops >= 2 {
				continue
			}
			g.loops++
			k := g.name("k")
			exit := []*Node{Brk(), Ret(Id(k))}[g.r.Intn(2)]
			body := []*Node{IncDec(k, nil, "++"), If(nil, Bin(">", Id(k), Int(int64(1+g.r.Intn(3)))), Blk(exit), nil)}
			body = append(body, g.stmts(append(append([]string{}, vars...), k), g.r.Intn(2))...)
			g.loops--
			out = append(out, Def(k, Int(0)), For(nil, nil, nil, Blk(body...)))
			vars = append(vars, k)
		case 10:
			// nested function literal with its own returns, called immediately or later
			h := g.name("h")
			p := g.name("q")
			saved := g.loops
			g.loops = 0
			body := g.stmts([]string{p, vars[0]}, 1+g.r.Intn(3))
			g.loops = saved
			out = append(out, Def(h, Fn([]string{p}, false, body...)))
			nm := g.name("x")
			out = append(out, Def(nm, Bin("||", Call(Id(h), g.val(vars)), Int(0))))
			vars = append(vars, nm)
		case 11:
			out = append(out, If(nil, g.cond(vars), Blk(Ret(nil)), nil))
		case 12:
			nm := g.name("x")
			out = append(out, Def(nm, Bin("&&", g.cond(vars), g.val(vars))))
			vars = append(vars, nm)
		case 13:
			out = append(out, If(Def(g.name("t"), g.val(vars)), g.cond(vars), Blk(g.stmts(vars, 1)...), If(nil, g.cond(vars), Blk(Ret(g.val(vars))), Blk(g.stmts(vars, 1)...))))
		}
	}
	return out
}

func dceProgram(r *rand.Rand) *Program {
	g := &dceGen{r: r}
	p := &Program{}
	nf := 1 + r.Intn(2)
	for f := 0; f < nf; f++ {
		fn := g.name("f")
		prm := g.name("p")
		body := g.stmts([]string{prm}, 2+r.Intn(4))
		p.Stmts = append(p.Stmts, Def(fn, Fn([]string{prm}, false, body...)))
		for _, a := range []int64{0, 1, 2, 5} {
			if r.Intn(4) > 0 {
				p.Stmts = append(p.Stmts, Def(g.name("r"), Call(Id(fn), Int(a))))
			}
		}
	}
	// top-level control flow too (main function is optimized only when compiled as a module, but its
	// jumps are still emitted by the same code)
	g.loops = 0
	return p
}

func init() {
	families["dce"] = func(seed int64, n int) []*Program {
		r := rand.New(rand.NewSource(seed))
		var ps []*Program
		for i := 0; i < n; i++ {
			ps = append(ps, dceProgram(r))
		}
		return ps
	}
}
