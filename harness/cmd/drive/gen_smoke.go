package main

// Hand-written smoke programs exercising every construct of the reference
// semantics once (used while developing the specification and kept as a
// regression family).

func smokePrograms() []*Program {
	var ps []*Program
	add := func(st ...*Node) { ps = append(ps, &Program{Stmts: st}) }
	add(Def("a", Int(1)), Def("b", Bin("+", Id("a"), Int(2))))
	add(Def("a", Arr(Int(1), Int(2), Int(3))), Def("b", Idx(Id("a"), Int(1))), Set("a", []*Node{Int(0)}, "=", Int(9)),
		Def("c", Slice(Id("a"), Int(1), nil)), Def("d", Call(Id("len"), Id("a"))))
	add(Def("m", Map([]string{"x", "y"}, []*Node{Int(1), Str("s")})), Def("v", Sel(Id("m"), "x")),
		Set("m", []*Node{DotKey("z")}, "=", Bool(true)), Def("n", Call(Id("len"), Id("m"))))
	add(Def("s", Int(0)), For(Def("i", Int(0)), Bin("<", Id("i"), Int(4)), IncDec("i", nil, "++"),
		Blk(If(nil, Bin("==", Id("i"), Int(2)), Blk(Cont()), nil), Set("s", nil, "+=", Id("i")))))
	add(Def("f", Fn([]string{"x", "y"}, false, Ret(Bin("*", Id("x"), Id("y"))))), Def("r", Call(Id("f"), Int(3), Int(4))))
	add(Def("mk", Fn(nil, false, Def("c", Int(0)), Ret(Fn(nil, false, IncDec("c", nil, "++"), Ret(Id("c")))))),
		Def("g", Call(Id("mk"))), Def("a", Call(Id("g"))), Def("b", Call(Id("g"))))
	add(Def("t", Int(0)), ForIn("k", "v", Map([]string{"a", "b", "c"}, []*Node{Int(1), Int(2), Int(3)}),
		Blk(Set("t", nil, "+=", Id("v")))), Def("last", Str("")),
		ForIn("k", "v", Map([]string{"a", "b"}, []*Node{Int(1), Int(2)}), Blk(Set("last", nil, "=", Id("k")))))
	add(Def("fib", Fn([]string{"n"}, false, If(nil, Bin("<", Id("n"), Int(2)), Blk(Ret(Id("n"))), nil),
		Ret(Bin("+", Call(Id("fib"), Bin("-", Id("n"), Int(1))), Call(Id("fib"), Bin("-", Id("n"), Int(2))))))),
		Def("x", Call(Id("fib"), Int(7))))
	add(Def("a", Bin("+", Int(1), Str("x"))))
	add(Def("a", Arr(Int(1), Int(2))), Def("b", Call(Id("append"), Id("a"), Int(3))), Def("c", Call(Id("copy"), Id("b"))),
		Set("c", []*Node{Int(0)}, "=", Int(7)), Def("e", Bin("==", Id("b"), Id("c"))))
	add(Def("v", Fn([]string{"a", "rest"}, true, Ret(Call(Id("len"), Id("rest"))))), Def("x", Call(Id("v"), Int(1), Int(2), Int(3))),
		Def("y", CallSpread(Id("v"), Arr(Int(1), Int(2)))), Def("z", Call(Id("v"))))
	add(Def("s", Str("héllo")), Def("c", Idx(Id("s"), Int(1))), Def("n", Call(Id("len"), Id("s"))),
		Def("t", Slice(Id("s"), Int(0), Int(1))), Def("u", Bin("+", Id("s"), Int(5))), Def("w", Bin("+", Str("a"), Arr(Int(1), Str("b")))))
	add(Def("x", Cond(Bin("&&", Int(1), Str("")), Int(1), Int(2))), Def("y", Bin("||", Int(0), Str("d"))),
		Def("z", Un("!", Undef())), Def("e", ErrE(Str("boom"))), Def("ev", Sel(Id("e"), "value")), Def("i", Imm(Arr(Int(1)))),
		Def("q", Un("-", Float16(24))), Def("w", Bin("+", Int(1), Float16(8))), Def("ch", Bin("+", Char('a'), Int(1))))
	add(Def("i", Imm(Arr(Int(1), Int(2)))), Set("i", []*Node{Int(0)}, "=", Int(5)))
	add(Def("a", Int(7)), Def("b", Bin("/", Id("a"), Int(0))))
	add(Def("fs", Arr()), For(Def("i", Int(0)), Bin("<", Id("i"), Int(3)), IncDec("i", nil, "++"),
		Blk(Def("j", Id("i")), Set("fs", nil, "=", Call(Id("append"), Id("fs"), Fn(nil, false, Ret(Bin("+", Id("i"), Id("j")))))))),
		Def("r", Arr(Call(Idx(Id("fs"), Int(0))), Call(Idx(Id("fs"), Int(2))))))
	add(Def("run", Fn(nil, false, Def("fs", Arr()), For(Def("i", Int(0)), Bin("<", Id("i"), Int(3)), IncDec("i", nil, "++"),
		Blk(Def("j", Id("i")), Set("fs", nil, "=", Call(Id("append"), Id("fs"), Fn(nil, false, Ret(Bin("+", Id("i"), Id("j")))))))),
		Ret(Arr(Call(Idx(Id("fs"), Int(0))), Call(Idx(Id("fs"), Int(2))))))), Def("r", Call(Id("run"))))
	for i, p := range ps {
		p.ID = i + 1
	}
	return ps
}
