package main

import (
	"bytes"
	"context"
	gojson "encoding/json"
	"fmt"
	"math"
	"math/rand"
	"sort"
	"strconv"
	"strings"
	"time"
	"unicode/utf8"

	"github.com/d5/tengo/v2"
	"github.com/d5/tengo/v2/stdlib"
	tjson "github.com/d5/tengo/v2/stdlib/json"
)

// C18: json.decode / json.encode against JsonGrammar.tla and encoding/json.

// ---- rendering of spec symbols ---------------------------------------------------

var sbDecoded = "b\néé/"

func renderSym(sym string, rng *rand.Rand) string {
	switch sym {
	case "SA":
		return `"a"`
	case "SB":
		return `"b\n\u00e9` + "\u00e9" + `\/"`
	case "Q":
		return `"`
	case "1":
		return string(rune('1' + rng.Intn(9)))
	case "e":
		if rng.Intn(2) == 0 {
			return "E"
		}
		return "e"
	case "T":
		return "true"
	case "F":
		return "false"
	case "N":
		return "null"
	case "W":
		return []string{"nul", "True", "NaN", "fa1se", "undefined", "nil"}[rng.Intn(6)]
	case "NL":
		return []string{"\n", "\t", "\r", "\r\n"}[rng.Intn(4)]
	case "C":
		return []string{"\x01", "\x00", "\x0b", "\x0c", "\x7f", "\xa0"}[rng.Intn(6)]
	case "U":
		return []string{"é", "\ufeff", "\u2028", "\xff"}[rng.Intn(4)]
	}
	return sym
}

func renderSyms(s []string, rng *rand.Rand) string {
	var sb strings.Builder
	for _, x := range s {
		sb.WriteString(renderSym(x, rng))
	}
	return sb.String()
}

var tokBytes = map[string]string{
	"a": "a", "e9": "é", "euro": "€", "smile": "\U0001F600", "slash": "/", "apos": "'", "del": "\x7f", "ls": "\u2028",
	`\q`: `\"`, `\\`: `\\`, `\/`: `\/`, `\b`: `\b`, `\f`: `\f`, `\n`: `\n`, `\r`: `\r`, `\t`: `\t`,
	`\u0041`: `\u0041`, `\u00e9`: `\u00e9`, `\u20AC`: `\u20AC`, `\u0000`: `\u0000`, `\uFFFF`: `\uFFFF`,
	`\ud83d`: `\ud83d`, `\ude00`: `\ude00`, `\uDBFF`: `\uDBFF`, `\uDFFF`: `\uDFFF`,
	`\x`: `\x`, `\'`: `\'`, `\u1G34`: `\u1G34`, `\U0041`: `\U0041`, "ctl01": "\x01", "tab": "\t", "nl": "\n", "quote": `"`,
	"xff": "\xff", "xc3": "\xc3", "xc080": "\xc0\x80", "xeda080": "\xed\xa0\x80", "xf4908080": "\xf4\x90\x80\x80",
}

// ---- reference decoding -----------------------------------------------------------

func goDecode(data []byte) (interface{}, error) {
	dec := gojson.NewDecoder(bytes.NewReader(data))
	dec.UseNumber()
	var v interface{}
	if err := dec.Decode(&v); err != nil {
		return nil, err
	}
	return v, nil
}

type cmpState struct {
	excluded string
}

// cmpGo: "" if the tengo object is the data encoding/json read, else a path and a reason.
func cmpGo(g interface{}, o tengo.Object, path string, st *cmpState) string {
	switch g := g.(type) {
	case nil:
		if o != tengo.UndefinedValue {
			return fmt.Sprintf("%s: null decoded as %s", path, o.TypeName())
		}
	case bool:
		b, ok := o.(*tengo.Bool)
		if !ok || b.IsFalsy() == g {
			return fmt.Sprintf("%s: %v decoded as %s %s", path, g, o.TypeName(), o.String())
		}
	case string:
		s, ok := o.(*tengo.String)
		if !ok || s.Value != g {
			return fmt.Sprintf("%s: string %q decoded as %s %s", path, g, o.TypeName(), o.String())
		}
	case gojson.Number:
		text := string(g)
		if strings.ContainsAny(text, ".eE") {
			f, err := strconv.ParseFloat(text, 64)
			if err != nil {
				st.excluded = "float-out-of-range"
				return ""
			}
			x, ok := o.(*tengo.Float)
			if !ok {
				return fmt.Sprintf("%s: number %s (fraction/exponent) decoded as %s %s", path, text, o.TypeName(), o.String())
			}
			if math.Float64bits(x.Value) != math.Float64bits(f) {
				return fmt.Sprintf("%s: number %s decoded as float %v", path, text, x.Value)
			}
		} else {
			n, err := strconv.ParseInt(text, 10, 64)
			if err != nil {
				st.excluded = "int-out-of-range"
				return ""
			}
			x, ok := o.(*tengo.Int)
			if !ok {
				return fmt.Sprintf("%s: number %s (no fraction/exponent) decoded as %s %s", path, text, o.TypeName(), o.String())
			}
			if x.Value != n {
				return fmt.Sprintf("%s: number %s decoded as int %d", path, text, x.Value)
			}
		}
	case []interface{}:
		a, ok := o.(*tengo.Array)
		if !ok || len(a.Value) != len(g) {
			return fmt.Sprintf("%s: array of %d decoded as %s %s", path, len(g), o.TypeName(), clip(o.String()))
		}
		for i := range g {
			if d := cmpGo(g[i], a.Value[i], fmt.Sprintf("%s[%d]", path, i), st); d != "" {
				return d
			}
		}
	case map[string]interface{}:
		m, ok := o.(*tengo.Map)
		if !ok || len(m.Value) != len(g) {
			return fmt.Sprintf("%s: object of %d decoded as %s %s", path, len(g), o.TypeName(), clip(o.String()))
		}
		for k, v := range g {
			x, ok := m.Value[k]
			if !ok {
				return fmt.Sprintf("%s: key %q missing", path, k)
			}
			if d := cmpGo(v, x, path+"."+k, st); d != "" {
				return d
			}
		}
	}
	return ""
}

func clip(s string) string {
	if len(s) > 200 {
		return s[:200] + "..."
	}
	return s
}

// specTree -> the same shape as goDecode's result (numbers as gojson.Number of the rendered lexeme)
type specVal struct {
	K     string          `json:"k"`
	B     bool            `json:"b"`
	S     string          `json:"s"`
	Lex   []string        `json:"lex"`
	Float bool            `json:"float"`
	E     []specVal       `json:"e"`
	M     [][]interface{} `json:"m"`
}

type jsonMismatch struct {
	Key  string `json:"key"`
	What string `json:"what"`
	Text []int  `json:"text"`
	Show string `json:"show"`
}

func decodeReal(data []byte) (o tengo.Object, err error, pan interface{}) {
	defer func() { pan = recover() }()
	o, err = tjson.Decode(data)
	return
}

// twoWay: validity and data of the real decoder against encoding/json on arbitrary bytes
func twoWay(data []byte, stats map[string]int) (out []jsonMismatch, real tengo.Object, valid bool) {
	mk := func(key, what string) jsonMismatch {
		return jsonMismatch{Key: key, What: what, Text: bytesV(data), Show: clip(strconv.Quote(string(data)))}
	}
	o, err, pan := decodeReal(data)
	if pan != nil {
		return []jsonMismatch{mk("decode-panic", fmt.Sprintf("json.Decode panicked: %v", pan))}, nil, false
	}
	gv := gojson.Valid(data)
	if gv != (err == nil) {
		if gv {
			return []jsonMismatch{mk("rejects-valid", fmt.Sprintf("encoding/json considers the text valid, json.Decode fails: %v", err))}, nil, gv
		}
		return []jsonMismatch{mk("accepts-invalid", fmt.Sprintf("encoding/json considers the text invalid, json.Decode returns %s", clip(o.String())))}, nil, gv
	}
	if !gv {
		stats["invalid_agreed"]++
		return nil, nil, false
	}
	g, gerr := goDecode(data)
	if gerr != nil {
		stats["excluded:reference-decode-error"]++
		return nil, o, true
	}
	st := &cmpState{}
	d := cmpGo(g, o, "$", st)
	if st.excluded != "" {
		stats["excluded:"+st.excluded]++
		return nil, o, true
	}
	if d != "" {
		return []jsonMismatch{mk("data:"+classOfDiff(d), "decoded data differs from encoding/json: "+d)}, o, true
	}
	stats["valid_agreed"]++
	return nil, o, true
}

func classOfDiff(d string) string {
	switch {
	case strings.Contains(d, "number"):
		return "number"
	case strings.Contains(d, "string"):
		return "string"
	case strings.Contains(d, "key"):
		return "key"
	}
	return "shape"
}

// specToGo converts the spec's value to the reference representation, given the rendering of number lexemes
func specMatches(v specVal, o tengo.Object, path string) string {
	switch v.K {
	case "null":
		if o != tengo.UndefinedValue {
			return path + ": spec null, real " + o.TypeName()
		}
	case "bool":
		b, ok := o.(*tengo.Bool)
		if !ok || b.IsFalsy() == v.B {
			return path + ": spec bool, real " + o.TypeName() + " " + o.String()
		}
	case "str":
		want := "a"
		if v.S == "SB" {
			want = sbDecoded
		}
		s, ok := o.(*tengo.String)
		if !ok || s.Value != want {
			return fmt.Sprintf("%s: spec string %q, real %s %s", path, want, o.TypeName(), o.String())
		}
	case "num":
		if v.Float {
			if _, ok := o.(*tengo.Float); !ok {
				return fmt.Sprintf("%s: spec types %v as float, real %s", path, v.Lex, o.TypeName())
			}
		} else if _, ok := o.(*tengo.Int); !ok {
			return fmt.Sprintf("%s: spec types %v as int, real %s", path, v.Lex, o.TypeName())
		}
	case "arr":
		a, ok := o.(*tengo.Array)
		if !ok || len(a.Value) != len(v.E) {
			return fmt.Sprintf("%s: spec array of %d, real %s %s", path, len(v.E), o.TypeName(), clip(o.String()))
		}
		for i := range v.E {
			if d := specMatches(v.E[i], a.Value[i], fmt.Sprintf("%s[%d]", path, i)); d != "" {
				return d
			}
		}
	case "obj":
		m, ok := o.(*tengo.Map)
		if !ok {
			return path + ": spec object, real " + o.TypeName()
		}
		last := map[string]specVal{}
		for _, p := range v.M {
			if len(p) != 2 {
				return path + ": malformed spec member"
			}
			k, _ := p[0].(string)
			key := "a"
			if k == "SB" {
				key = sbDecoded
			}
			raw, _ := gojson.Marshal(p[1])
			var sv specVal
			_ = gojson.Unmarshal(raw, &sv)
			last[key] = sv
		}
		if len(last) != len(m.Value) {
			return fmt.Sprintf("%s: spec object of %d keys, real %d", path, len(last), len(m.Value))
		}
		for k, sv := range last {
			x, ok := m.Value[k]
			if !ok {
				return fmt.Sprintf("%s: key %q missing", path, k)
			}
			if d := specMatches(sv, x, path+"."+k); d != "" {
				return d
			}
		}
	}
	return ""
}

// ---- encode side --------------------------------------------------------------------

var jsonStrPool = []string{"", "a", "k", "x y", "é", "€\U0001F600", "q\"uote", "back\\slash", "sl/ash", "\n\t\r", "\x00\x01\x1f", "\x7f", "  ", "<>&", "'", "\b\f",
	"日本語", "\ufeff", "\ufffd", "\U0010FFFF", "à", "long long long long long long long long long long string"}
var jsonIntPool = []int64{0, 1, -1, 42, 255, -256, 1 << 31, -(1 << 31), 1 << 53, (1 << 53) + 1, math.MaxInt64, math.MinInt64, 1e15, 1e18}
var jsonFloatPool = []float64{0.5, -2.25, 0.1, 1e21, 1e20, 9.999999999999999e20, 1e-6, 1e-7, 9.99e-7, 123456789.125, math.MaxFloat64, math.SmallestNonzeroFloat64, -1e100, 3.141592653589793,
	1.7976931348623157e308, 2.2250738585072014e-308, 5e-324, 1e22, 1.5e300, 100.5, 1e-10}
var jsonWholeFloats = []float64{0, math.Copysign(0, -1), 1, -3, 1e15, 123456, 1e20}

var jsonCharPool = []string{"a", "Z", "0", " ", "\"", "\\", "/", "\n", "\t", "\r", "\b", "\f", "\x00", "\x1f", "\x7f", "é", "ß", "€", "日", "\u2028", "\u2029", "\ufeff", "\ufffd",
	"\U0001F600", "\U00010000", "\U0010FFFF", "<", ">", "&", "'", "%", "\u00a0", "\u0080", "\u07ff", "\u0800", "\uffff"}

func randJSONString(rng *rand.Rand) string {
	var sb strings.Builder
	for i, n := 0, rng.Intn(7); i < n; i++ {
		sb.WriteString(jsonCharPool[rng.Intn(len(jsonCharPool))])
	}
	return sb.String()
}

func scalarOf(class string, rng *rand.Rand) tengo.Object {
	if (class == "str" || class == "escstr") && rng.Intn(2) == 0 {
		return &tengo.String{Value: randJSONString(rng)}
	}
	switch class {
	case "null":
		return tengo.UndefinedValue
	case "true":
		return tengo.TrueValue
	case "false":
		return tengo.FalseValue
	case "int":
		return &tengo.Int{Value: jsonIntPool[rng.Intn(len(jsonIntPool))]}
	case "float":
		return &tengo.Float{Value: jsonFloatPool[rng.Intn(len(jsonFloatPool))]}
	case "wholefloat":
		return &tengo.Float{Value: jsonWholeFloats[rng.Intn(len(jsonWholeFloats))]}
	case "bigfloat":
		return &tengo.Float{Value: []float64{1e21, 1.5e21, 1e300, -1e21}[rng.Intn(4)]}
	case "smallfloat":
		return &tengo.Float{Value: []float64{1e-7, 9.9e-7, 5e-324, -1e-9, 1.25e-10}[rng.Intn(5)]}
	case "str":
		return &tengo.String{Value: jsonStrPool[rng.Intn(len(jsonStrPool))]}
	case "escstr":
		return &tengo.String{Value: []string{"q\"uote", "back\\slash", "\n\t\r", "\x00\x01\x1f", "\b\f", "\u2028"}[rng.Intn(6)]}
	case "emptystr":
		return &tengo.String{Value: ""}
	case "emptyarr":
		return &tengo.Array{Value: []tengo.Object{}}
	case "emptyobj":
		return &tengo.Map{Value: map[string]tengo.Object{}}
	case "arr":
		return &tengo.Array{Value: []tengo.Object{scalarOf("int", rng), scalarOf("str", rng), scalarOf("float", rng)}}
	case "obj":
		return &tengo.Map{Value: map[string]tengo.Object{"k": scalarOf("int", rng), jsonStrPool[rng.Intn(len(jsonStrPool))]: scalarOf("null", rng)}}
	}
	return tengo.UndefinedValue
}

func keyOf(class string, rng *rand.Rand) string {
	switch class {
	case "esc":
		if rng.Intn(2) == 0 {
			return randJSONString(rng)
		}
		return []string{"q\"", "\\", "\n", "\x01", "é"}[rng.Intn(5)]
	case "empty":
		return ""
	}
	return []string{"k", "key", "a b"}[rng.Intn(3)]
}

func randValue(rng *rand.Rand, depth int) tengo.Object {
	classes := []string{"null", "true", "false", "int", "float", "wholefloat", "bigfloat", "smallfloat", "str", "escstr", "emptystr"}
	if depth > 0 && rng.Intn(3) > 0 {
		if rng.Intn(2) == 0 {
			a := &tengo.Array{Value: []tengo.Object{}}
			for i, n := 0, rng.Intn(4); i < n; i++ {
				a.Value = append(a.Value, randValue(rng, depth-1))
			}
			if rng.Intn(6) == 0 {
				return &tengo.ImmutableArray{Value: a.Value}
			}
			return a
		}
		m := &tengo.Map{Value: map[string]tengo.Object{}}
		for i, n := 0, rng.Intn(4); i < n; i++ {
			k := jsonStrPool[rng.Intn(len(jsonStrPool))]
			if rng.Intn(2) == 0 {
				k = randJSONString(rng)
			}
			m.Value[k] = randValue(rng, depth-1)
		}
		if rng.Intn(6) == 0 {
			return &tengo.ImmutableMap{Value: m.Value}
		}
		return m
	}
	if rng.Intn(8) == 0 {
		return &tengo.Float{Value: math.Float64frombits(rng.Uint64())}
	}
	if rng.Intn(8) == 0 {
		return &tengo.Int{Value: int64(rng.Uint64())}
	}
	return scalarOf(classes[rng.Intn(len(classes))], rng)
}

func jsonRepresentable(o tengo.Object) bool {
	switch o := o.(type) {
	case *tengo.Float:
		return !math.IsNaN(o.Value) && !math.IsInf(o.Value, 0)
	case *tengo.String:
		return utf8.ValidString(o.Value)
	case *tengo.Array:
		for _, e := range o.Value {
			if !jsonRepresentable(e) {
				return false
			}
		}
	case *tengo.ImmutableArray:
		for _, e := range o.Value {
			if !jsonRepresentable(e) {
				return false
			}
		}
	case *tengo.Map:
		for k, e := range o.Value {
			if !utf8.ValidString(k) || !jsonRepresentable(e) {
				return false
			}
		}
	case *tengo.ImmutableMap:
		for k, e := range o.Value {
			if !utf8.ValidString(k) || !jsonRepresentable(e) {
				return false
			}
		}
	}
	return true
}

// toGoData: the data a value denotes, in encoding/json's representation (numbers as float64/int64 wrapped)
func sameData(o tengo.Object, g interface{}, path string) string {
	switch o := o.(type) {
	case *tengo.Undefined:
		if g != nil {
			return path + ": undefined read back as " + fmt.Sprint(g)
		}
	case *tengo.Bool:
		b, ok := g.(bool)
		if !ok || b == o.IsFalsy() {
			return path + ": bool read back as " + fmt.Sprint(g)
		}
	case *tengo.Int:
		n, ok := g.(gojson.Number)
		if !ok || string(n) != strconv.FormatInt(o.Value, 10) {
			return fmt.Sprintf("%s: int %d read back as %v", path, o.Value, g)
		}
	case *tengo.Float:
		n, ok := g.(gojson.Number)
		if !ok {
			return fmt.Sprintf("%s: float %v read back as %v", path, o.Value, g)
		}
		f, err := strconv.ParseFloat(string(n), 64)
		if err != nil || f != o.Value {
			return fmt.Sprintf("%s: float %v read back as %s", path, o.Value, n)
		}
	case *tengo.String:
		s, ok := g.(string)
		if !ok || s != o.Value {
			return fmt.Sprintf("%s: string %q read back as %v", path, o.Value, g)
		}
	case *tengo.Array:
		return sameList(o.Value, g, path)
	case *tengo.ImmutableArray:
		return sameList(o.Value, g, path)
	case *tengo.Map:
		return sameMap(o.Value, g, path)
	case *tengo.ImmutableMap:
		return sameMap(o.Value, g, path)
	}
	return ""
}

func sameList(l []tengo.Object, g interface{}, path string) string {
	a, ok := g.([]interface{})
	if !ok || len(a) != len(l) {
		return fmt.Sprintf("%s: array of %d read back as %v", path, len(l), clip(fmt.Sprint(g)))
	}
	for i := range l {
		if d := sameData(l[i], a[i], fmt.Sprintf("%s[%d]", path, i)); d != "" {
			return d
		}
	}
	return ""
}

func sameMap(m map[string]tengo.Object, g interface{}, path string) string {
	gm, ok := g.(map[string]interface{})
	if !ok || len(gm) != len(m) {
		return fmt.Sprintf("%s: map of %d read back as %v", path, len(m), clip(fmt.Sprint(g)))
	}
	for k, v := range m {
		x, ok := gm[k]
		if !ok {
			return fmt.Sprintf("%s: key %q lost", path, k)
		}
		if d := sameData(v, x, path+"."+k); d != "" {
			return d
		}
	}
	return ""
}

// mutable copy for Equals comparison (decode returns mutable containers)
func thaw(o tengo.Object) tengo.Object {
	switch o := o.(type) {
	case *tengo.ImmutableArray:
		return thaw(&tengo.Array{Value: o.Value})
	case *tengo.ImmutableMap:
		return thaw(&tengo.Map{Value: o.Value})
	case *tengo.Array:
		a := &tengo.Array{Value: make([]tengo.Object, len(o.Value))}
		for i, e := range o.Value {
			a.Value[i] = thaw(e)
		}
		return a
	case *tengo.Map:
		m := &tengo.Map{Value: map[string]tengo.Object{}}
		for k, e := range o.Value {
			m.Value[k] = thaw(e)
		}
		return m
	}
	return o
}

func checkValue(v tengo.Object, stats map[string]int) []jsonMismatch {
	mk := func(key, what string, enc []byte) jsonMismatch {
		return jsonMismatch{Key: key, What: what + " (value " + clip(v.String()) + ")", Text: bytesV(enc), Show: clip(strconv.Quote(string(enc)))}
	}
	var enc []byte
	var err error
	var pan interface{}
	func() {
		defer func() { pan = recover() }()
		enc, err = tjson.Encode(v)
	}()
	if pan != nil {
		return []jsonMismatch{mk("encode-panic", fmt.Sprintf("json.Encode panicked: %v", pan), nil)}
	}
	if !jsonRepresentable(v) {
		stats["excluded:not-json-representable"]++
		return nil
	}
	if err != nil {
		return []jsonMismatch{mk("encode-error", "json.Encode failed on a representable value: "+err.Error(), nil)}
	}
	if !gojson.Valid(enc) {
		return []jsonMismatch{mk("encode-invalid", "the encoding is not valid JSON", enc)}
	}
	g, gerr := goDecode(enc)
	if gerr != nil {
		return []jsonMismatch{mk("encode-unreadable", "encoding/json cannot read the encoding: "+gerr.Error(), enc)}
	}
	if d := sameData(v, g, "$"); d != "" {
		return []jsonMismatch{mk("encode-data:"+classOfDiff(d), "encoding/json reads the encoding as different data: "+d, enc)}
	}
	back, derr, dpan := decodeReal(enc)
	if dpan != nil || derr != nil {
		return []jsonMismatch{mk("roundtrip-decode", fmt.Sprintf("decoding the encoding fails: %v %v", derr, dpan), enc)}
	}
	if !thaw(v).Equals(back) {
		return []jsonMismatch{mk("roundtrip-unequal", "decoding the encoding gives "+clip(back.String()), enc)}
	}
	stats["values_roundtripped"]++
	return nil
}

// ---- the json module as scripts see it ----------------------------------------------

type jsonScript struct{ c *tengo.Compiled }

func newJSONScript() (*jsonScript, error) {
	s := tengo.NewScript([]byte(`json := import("json")
enc := json.encode(v)
back := is_error(enc) ? enc : json.decode(enc)
eq := back == v
dec := json.decode(t)
bad := is_error(dec)
`))
	s.SetImports(stdlib.GetModuleMap("json"))
	_ = s.Add("v", 0)
	_ = s.Add("t", "")
	c, err := s.Compile()
	if err != nil {
		return nil, err
	}
	return &jsonScript{c}, nil
}

func (j *jsonScript) run(v tengo.Object, text []byte) (enc []byte, eq bool, dec tengo.Object, bad bool, err error) {
	c := j.c.Clone()
	_ = c.Set("v", v)
	_ = c.Set("t", &tengo.Bytes{Value: text})
	ctx, cancel := context.WithTimeout(context.Background(), 10*time.Second)
	defer cancel()
	if err = c.RunContext(ctx); err != nil {
		return
	}
	if b, ok := c.Get("enc").Object().(*tengo.Bytes); ok {
		enc = b.Value
	}
	eq = !c.Get("eq").Object().IsFalsy()
	dec = c.Get("dec").Object()
	bad = !c.Get("bad").Object().IsFalsy()
	return
}

func init() {
	register("json", "C18: spec-enumerated JSON texts, numbers, string bodies and value shapes against the real codec and encoding/json", func(args []string) error {
		js, err := newJSONScript()
		if err != nil {
			return err
		}
		return runCases(300*time.Second, func(raw []byte) map[string]interface{} {
			var in struct {
				Kind  string                       `json:"kind"`
				Batch []map[string]gojson.RawMessage `json:"batch"`
				Seed  int64                        `json:"seed"`
				N     int                          `json:"n"`
				Text  []int                        `json:"text"` // replay
			}
			if err := gojson.Unmarshal(raw, &in); err != nil {
				return map[string]interface{}{"error": err.Error()}
			}
			rng := rand.New(rand.NewSource(in.Seed))
			stats := map[string]int{}
			var mism []jsonMismatch
			byKey := map[string]int{}
			add := func(ms []jsonMismatch) {
				for _, m := range ms {
					byKey[m.Key]++
					if byKey[m.Key] <= 2 {
						mism = append(mism, m)
					}
				}
			}
			viaScript := func(data []byte, valid bool, real tengo.Object) {
				_, _, dec, bad, err := js.run(tengo.UndefinedValue, data)
				stats["via_script"]++
				if err != nil {
					add([]jsonMismatch{{Key: "script-error", What: "the json module failed in a script: " + err.Error(), Text: bytesV(data), Show: clip(strconv.Quote(string(data)))}})
					return
				}
				if bad == valid || (valid && real != nil && !real.Equals(dec)) {
					add([]jsonMismatch{{Key: "script-differs", What: fmt.Sprintf("json.decode in a script gives %s, json.Decode %v", clip(dec.String()), real), Text: bytesV(data), Show: clip(strconv.Quote(string(data)))}})
				}
			}
			if in.Text != nil {
				data := make([]byte, len(in.Text))
				for i, x := range in.Text {
					data[i] = byte(x)
				}
				ms, real, valid := twoWay(data, stats)
				add(ms)
				viaScript(data, valid, real)
				return map[string]interface{}{"stats": stats, "mismatches": mism, "by_key": byKey, "real": fmt.Sprint(real)}
			}
			n := 0
			for _, c := range in.Batch {
				n++
				switch in.Kind {
				case "text":
					var syms []string
					var r struct {
						Valid bool    `json:"valid"`
						V     specVal `json:"v"`
					}
					_ = gojson.Unmarshal(c["s"], &syms)
					_ = gojson.Unmarshal(c["r"], &r)
					data := []byte(renderSyms(syms, rng))
					ms, real, valid := twoWay(data, stats)
					add(ms)
					hasQ := false
					for _, s := range syms {
						if s == "Q" {
							hasQ = true
						}
					}
					if hasQ {
						stats["spec_silent:lone-quote"]++
					} else if len(ms) == 0 {
						stats["three_way"]++
						if r.Valid != valid {
							add([]jsonMismatch{{Key: "spec-validity", What: fmt.Sprintf("JsonGrammar says valid=%v for %v, encoding/json and the decoder say %v", r.Valid, syms, valid), Text: bytesV(data), Show: clip(strconv.Quote(string(data)))}})
						} else if valid {
							if d := specMatches(r.V, real, "$"); d != "" {
								add([]jsonMismatch{{Key: "spec-value", What: "JsonGrammar's value differs: " + d, Text: bytesV(data), Show: clip(strconv.Quote(string(data)))}})
							}
						}
					}
					if n%9 == 0 {
						viaScript(data, valid, real)
					}
				case "num":
					var syms []string
					var valid, isFloat bool
					_ = gojson.Unmarshal(c["s"], &syms)
					_ = gojson.Unmarshal(c["valid"], &valid)
					_ = gojson.Unmarshal(c["float"], &isFloat)
					lex := renderSyms(syms, rng)
					if lex == "" {
						continue
					}
					for _, wrap := range []string{"%s", "[%s]", " %s\n", `{"n":%s}`, "[0,%s ,1]"} {
						data := []byte(fmt.Sprintf(wrap, lex))
						ms, real, gvalid := twoWay(data, stats)
						add(ms)
						if len(ms) > 0 {
							continue
						}
						stats["three_way"]++
						if gvalid != valid {
							add([]jsonMismatch{{Key: "spec-number-validity", What: fmt.Sprintf("JsonGrammar says valid=%v for number %q", valid, lex), Text: bytesV(data), Show: string(data)}})
						} else if valid && wrap == "%s" {
							_, isF := real.(*tengo.Float)
							_, isI := real.(*tengo.Int)
							if isF != isFloat || isI == isFloat {
								add([]jsonMismatch{{Key: "number-typing", What: fmt.Sprintf("number %q is typed %s; written %s fraction or exponent", lex, real.TypeName(), map[bool]string{true: "with", false: "without"}[isFloat]), Text: bytesV(data), Show: string(data)}})
							}
						}
					}
				case "str":
					var toks []string
					var valid bool
					var cps []int
					_ = gojson.Unmarshal(c["t"], &toks)
					_ = gojson.Unmarshal(c["valid"], &valid)
					_ = gojson.Unmarshal(c["cps"], &cps)
					var body strings.Builder
					for _, t := range toks {
						body.WriteString(tokBytes[t])
					}
					want := make([]rune, len(cps))
					for i, cp := range cps {
						want[i] = rune(cp)
					}
					for _, wrap := range []string{`"%s"`, `["%s"]`, `{"%s":1}`, `{"k":"%s","z":"%s"}`} {
						data := []byte(strings.ReplaceAll(wrap, "%s", body.String()))
						ms, real, gvalid := twoWay(data, stats)
						add(ms)
						if len(ms) > 0 {
							continue
						}
						stats["three_way"]++
						if gvalid != valid {
							add([]jsonMismatch{{Key: "spec-string-validity", What: fmt.Sprintf("JsonGrammar says valid=%v for string body %v", valid, toks), Text: bytesV(data), Show: clip(strconv.Quote(string(data)))}})
						} else if valid && wrap == `"%s"` {
							s, ok := real.(*tengo.String)
							if !ok || s.Value != string(want) {
								add([]jsonMismatch{{Key: "string-decoding", What: fmt.Sprintf("string body %v decodes to %q, the decoding rules give %q", toks, real, string(want)), Text: bytesV(data), Show: clip(strconv.Quote(string(data)))}})
							}
						}
					}
				case "val":
					var k string
					_ = gojson.Unmarshal(c["k"], &k)
					var v tengo.Object
					switch k {
					case "arr", "nest":
						var e []string
						_ = gojson.Unmarshal(c["e"], &e)
						a := &tengo.Array{Value: []tengo.Object{}}
						for _, cl := range e {
							a.Value = append(a.Value, scalarOf(cl, rng))
						}
						v = a
					case "obj":
						var ks, vs []string
						_ = gojson.Unmarshal(c["keys"], &ks)
						_ = gojson.Unmarshal(c["vals"], &vs)
						m := &tengo.Map{Value: map[string]tengo.Object{}}
						for i := range ks {
							if i < len(vs) {
								m.Value[keyOf(ks[i], rng)] = scalarOf(vs[i], rng)
							}
						}
						v = m
					}
					if v == nil {
						continue
					}
					add(checkValue(v, stats))
					if a, ok := v.(*tengo.Array); ok && len(a.Value) == 1 {
						add(checkValue(a.Value[0], stats)) // the scalar on its own, as a top-level document
					}
					if n%5 == 0 {
						enc, eq, _, _, err := js.run(v, []byte("0"))
						stats["via_script"]++
						direct, _ := tjson.Encode(v)
						if err != nil || !eq || (len(v.String()) < 1000 && !sameJSON(enc, direct)) {
							add([]jsonMismatch{{Key: "script-roundtrip", What: fmt.Sprintf("json.decode(json.encode(v)) == v is %v in a script (err %v) for v = %s", eq, err, clip(v.String())), Text: bytesV(enc), Show: clip(string(enc))}})
						}
					}
				}
			}
			if in.Kind == "deep" {
				// nesting depth in.N: arrays, objects, alternating
				for _, form := range []string{"arr", "obj", "mix"} {
					var sb strings.Builder
					for i := 0; i < in.N; i++ {
						if form == "arr" || (form == "mix" && i%2 == 0) {
							sb.WriteString("[")
						} else {
							sb.WriteString(`{"k":`)
						}
					}
					sb.WriteString("1")
					for i := in.N - 1; i >= 0; i-- {
						if form == "arr" || (form == "mix" && i%2 == 0) {
							sb.WriteString("]")
						} else {
							sb.WriteString("}")
						}
					}
					data := []byte(sb.String())
					ms, o, valid := twoWay(data, stats)
					for i := range ms {
						ms[i].Key = "deep:" + ms[i].Key
						ms[i].What = fmt.Sprintf("nesting depth %d (%s): %s", in.N, form, ms[i].What)
						ms[i].Text, ms[i].Show = nil, form
					}
					add(ms)
					if valid && o != nil && in.N <= 2000 {
						enc, eerr := tjson.Encode(o)
						if eerr != nil || !bytes.Equal(enc, data) {
							add([]jsonMismatch{{Key: "deep-reencode:" + form, What: fmt.Sprintf("nesting depth %d does not re-encode to itself: %v", in.N, eerr), Show: form}})
						}
					}
				}
				return map[string]interface{}{"stats": stats, "mismatches": mism, "by_key": byKey}
			}
			// random family (a prefix of the seeded sequence if the machine is too slow for all of it: the verdict never depends on load)
			began := time.Now()
			for i := 0; i < in.N; i++ {
				if i%512 == 0 && time.Since(began) > 180*time.Second {
					stats["stopped_early"] = i
					break
				}
				switch in.Kind {
				case "fuzzvalue":
					add(checkValue(randValue(rng, 4), stats))
				case "fuzztext":
					v := randValue(rng, 3)
					enc, err := tjson.Encode(v)
					if err != nil || len(enc) == 0 {
						enc = []byte(`{"a":[1,2.5e3,"xé😀",true,null,{"b":-0.0}]}`)
					}
					data := mutateBytes(enc, rng)
					ms, real, valid := twoWay(data, stats)
					add(ms)
					if i%20 == 0 && len(ms) == 0 {
						viaScript(data, valid, real)
					}
				}
			}
			keys := make([]string, 0, len(byKey))
			for k := range byKey {
				keys = append(keys, k)
			}
			sort.Strings(keys)
			return map[string]interface{}{"stats": stats, "mismatches": mism, "by_key": byKey}
		})
	})
}

// sameJSON: equal up to member order
func sameJSON(a, b []byte) bool {
	ga, ea := goDecode(a)
	gb, eb := goDecode(b)
	if ea != nil || eb != nil {
		return bytes.Equal(a, b)
	}
	ja, _ := gojson.Marshal(ga)
	jb, _ := gojson.Marshal(gb)
	return bytes.Equal(ja, jb)
}

var jsonBytePool = []string{"{", "}", "[", "]", ":", ",", "\"", "\\", "/", "-", "+", ".", "e", "E", "0", "1", "9", " ", "\n", "\t", "\x00", "\x01", "\x1f", "\x7f", "\x80", "\xc3", "\xff", "\xed\xa0\x80",
	"\\u", "\\ud83d", "\\ude00", "\\u0000", "\\n", "\\x", "true", "false", "null", "nul", "u", "a", "é", "\ufeff", "\u2028", "'", "//", "/*", "NaN", "Infinity", "0x1", "1e999", "-0", "00", "1.", ".5", "12345678901234567890"}

func mutateBytes(b []byte, rng *rand.Rand) []byte {
	out := append([]byte(nil), b...)
	for k, n := 0, rng.Intn(3); k <= n; k++ {
		pos := 0
		if len(out) > 0 {
			pos = rng.Intn(len(out) + 1)
		}
		ins := jsonBytePool[rng.Intn(len(jsonBytePool))]
		switch rng.Intn(4) {
		case 0: // delete
			if pos < len(out) {
				out = append(out[:pos:pos], out[pos+1:]...)
			}
		case 1: // insert
			out = append(out[:pos:pos], append([]byte(ins), out[pos:]...)...)
		case 2: // replace
			if pos < len(out) {
				out = append(out[:pos:pos], append([]byte(ins), out[pos+1:]...)...)
			}
		case 3: // truncate or duplicate a span
			if pos < len(out) && rng.Intn(2) == 0 {
				out = out[:pos]
			} else if pos < len(out) {
				end := pos + rng.Intn(len(out)-pos)
				out = append(out[:end:end], out[pos:]...)
			}
		}
	}
	return out
}
