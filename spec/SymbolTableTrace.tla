------------------------- MODULE SymbolTableTrace -------------------------
(***************************************************************************)
(* Trace validation of the compiler's USE of its symbol table against      *)
(* SymbolTable.tla.  The hooks (build tag verif) report every Define,      *)
(* DefineBuiltin, Resolve made by the compiler, every write of             *)
(* LocalAssigned ("Mark") and what the compiler reads when it leaves a     *)
(* function literal (FreeSymbols, MaxSymbols: "FuncEnd").  The recorder    *)
(* numbers tables and symbols by pointer identity and announces a table    *)
(* the first time it is used ("Fork", with its parent and kind); leaving a *)
(* scope is not reported - it is inferred: an event on a table deeper in    *)
(* the stack than the current one means the tables above it were left      *)
(* (silent steps, bounded by the stack).  One compilation unit (the main   *)
(* script or one source module: each has a root table of its own) is one   *)
(* trace.                                                                  *)
(*                                                                         *)
(* Every event is replayed with the operators of SymbolTable.tla           *)
(* (DefineR, ResolveR, ...) on the state variables of that module, so its  *)
(* invariants are evaluated in every state a real compilation reaches;     *)
(* the logged results (scope, index, depth, assigned flag, identity of the *)
(* returned symbol, free lists, frame sizes) must be the ones the spec     *)
(* computes.                                                               *)
(***************************************************************************)
EXTENDS SymbolTable

Traces == ndJsonDeserialize("symtraces.ndjson")
TraceNames == ndJsonDeserialize("symnames.ndjson")[1]     \* every identifier of the batch (cfg: Names <- TraceNames)

VARIABLES ti, l, tstack, smap, verdict
tvars == <<tabs, syms, hist, ti, l, tstack, smap, verdict>>

TR == Traces[ti]
Start(k) == /\ ti' = k /\ l' = 1 /\ tabs' = <<NewTab(FALSE)>> /\ syms' = <<>> /\ tstack' = <<1>> /\ smap' = <<>>
            /\ verdict' = [ok |-> TRUE] /\ hist' = <<>>
TInit == /\ ti = 1 /\ l = 1 /\ tabs = <<NewTab(FALSE)>> /\ syms = <<>> /\ tstack = <<1>> /\ smap = <<>>
         /\ verdict = [ok |-> TRUE] /\ hist = <<>>

Bad(why) == /\ verdict' = [ok |-> FALSE, why |-> why, at |-> l] /\ UNCHANGED <<tabs, syms, hist, ti, l, tstack, smap>>

PosOf(tab) == IF \E k \in 1..Len(tstack) : tstack[k] = tab THEN CHOOSE k \in 1..Len(tstack) : tstack[k] = tab ELSE 0
SymKnown(n) == \E i \in 1..Len(smap) : smap[i][1] = n
SidOf(n) == smap[CHOOSE i \in 1..Len(smap) : smap[i][1] = n][2]
SameObs(o, e) == o.scope = e.scope /\ o.index = e.index /\ o.name = e.name

Step ==
  /\ verdict.ok /\ l <= Len(TR.ev)
  /\ hist' = hist
  /\ LET e == TR.ev[l] IN
     IF e.e = "Fork" THEN
        LET k == PosOf(e.parent) IN
        IF k = 0 THEN Bad("a table is created under a table that is not on the stack")
        ELSE /\ tabs' = Append(SubSeq(tabs, 1, k), NewTab(e.block)) /\ tstack' = Append(SubSeq(tstack, 1, k), e.tab)
             /\ l' = l + 1 /\ UNCHANGED <<syms, ti, smap, verdict>>
     ELSE IF e.e = "Mark" THEN
        IF ~SymKnown(e.sym) THEN Bad("a symbol is marked assigned that no Define or Resolve returned")
        ELSE /\ syms' = [syms EXCEPT ![SidOf(e.sym)].assigned = TRUE]
             /\ l' = l + 1 /\ UNCHANGED <<tabs, ti, tstack, smap, verdict>>
     ELSE
        LET k == PosOf(e.tab) IN
        IF k = 0 THEN Bad("a call on a table that is not on the stack")
        ELSE
          LET T0 == SubSeq(tabs, 1, k)          \* the scopes above were left
              ts0 == SubSeq(tstack, 1, k)
          IN
          IF e.e = "Define" THEN
             LET d == DefineR(T0, syms, e.name) IN
             IF ~SameObs(Obs(d.S, d.sid), e) THEN Bad("Define returns another scope/index than SymbolTable.tla")
             ELSE /\ tabs' = d.T /\ syms' = d.S /\ tstack' = ts0 /\ smap' = Append(smap, <<e.sym, d.sid>>)
                  /\ l' = l + 1 /\ UNCHANGED <<ti, verdict>>
          ELSE IF e.e = "DefineBuiltin" THEN
             LET sid == Len(syms) + 1
                 sym == [name |-> e.name, scope |-> "BUILTIN", index |-> e.index, assigned |-> FALSE, tab |-> 1]
             IN /\ tabs' = [T0 EXCEPT ![1].store[e.name] = sid] /\ syms' = Append(syms, sym) /\ tstack' = ts0
                /\ smap' = Append(smap, <<e.sym, sid>>) /\ l' = l + 1 /\ UNCHANGED <<ti, verdict>>
          ELSE IF e.e = "Resolve" THEN
             LET r == ResolveR(T0, syms, k, e.name, FALSE) IN
             IF r.ok # e.ok THEN Bad("Resolve succeeds/fails against SymbolTable.tla")
             ELSE IF ~r.ok THEN /\ tabs' = r.T /\ syms' = r.S /\ tstack' = ts0 /\ l' = l + 1 /\ UNCHANGED <<ti, smap, verdict>>
             ELSE IF ~SameObs(Obs(r.S, r.sid), e) \/ r.S[r.sid].assigned # e.assigned THEN Bad("Resolve returns another symbol (scope/index/assigned) than SymbolTable.tla")
             ELSE IF e.depth >= 0 /\ e.depth # r.depth THEN Bad("Resolve reports another depth than SymbolTable.tla")
             ELSE IF SymKnown(e.sym) /\ SidOf(e.sym) # r.sid THEN Bad("Resolve returns a symbol object that is another symbol in SymbolTable.tla")
             ELSE /\ tabs' = r.T /\ syms' = r.S /\ tstack' = ts0
                  /\ smap' = IF SymKnown(e.sym) THEN smap ELSE Append(smap, <<e.sym, r.sid>>)
                  /\ l' = l + 1 /\ UNCHANGED <<ti, verdict>>
          ELSE IF e.e = "FuncEnd" THEN
             LET fo == FreeObs(T0, syms, k) IN
             IF T0[k].block THEN Bad("a function literal ends on a block table")
             ELSE IF T0[k].maxDef # e.max THEN Bad("MaxSymbols of the function differs from SymbolTable.tla")
             ELSE IF Len(fo) # Len(e.free) THEN Bad("FreeSymbols has another length than in SymbolTable.tla")
             ELSE IF \E i \in 1..Len(fo) : ~SameObs(fo[i], e.free[i]) \/ fo[i].assigned # e.free[i].assigned
                        \/ (SymKnown(e.free[i].sym) /\ SidOf(e.free[i].sym) # T0[k].free[i])
                  THEN Bad("FreeSymbols lists other symbols than SymbolTable.tla")
             ELSE \* originals the compiler never held before (cells of an outer function made inside Resolve) become known here
                  LET new == SelectSeq([i \in 1..Len(fo) |-> <<e.free[i].sym, T0[k].free[i]>>], LAMBDA p : ~SymKnown(p[1])) IN
                  /\ tabs' = T0 /\ tstack' = ts0 /\ smap' = smap \o new /\ l' = l + 1 /\ UNCHANGED <<syms, ti, verdict>>
          ELSE Bad("unknown event")

Finish ==
  /\ (~verdict.ok \/ l > Len(TR.ev))
  /\ PrintT(<<"SYMTRACE", ToJson([id |-> TR.id, unit |-> TR.unit, verdict |-> verdict, n |-> Len(TR.ev), consumed |-> l - 1])>>)
  /\ IF ti < Len(Traces) THEN Start(ti + 1)
     ELSE /\ ti' = ti /\ l' = 0 /\ verdict' = [ok |-> TRUE, done |-> TRUE] /\ UNCHANGED <<tabs, syms, hist, tstack, smap>>

\* the name-quantified invariants over the identifiers of the unit being replayed (the builtins it never mentions cannot matter)
TRNames == {TR.names[i] : i \in 1..Len(TR.names)}
TLexical == l > 0 => LexicalOn(TRNames)
TReach == l > 0 => ReachOn(TRNames)
TResolveStable == l > 0 => ResolveStableOn(TRNames)

TNext == (l > 0 /\ Step) \/ (l > 0 /\ Finish)
TSpec == TInit /\ [][TNext]_tvars
=============================================================================
