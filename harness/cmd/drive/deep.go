package main

import (
	"context"
	"encoding/json"
	"sort"
	"time"

	"github.com/d5/tengo/v2"
)

// deep: run a (deeply recursive) program with a sparse probe: at every function entry (ip == 0 of a
// non-main function) the frame index and sp - bp are recorded per function.
func deepHandle(raw []byte) map[string]interface{} {
	var pc progCase
	if err := json.Unmarshal(raw, &pc); err != nil {
		return map[string]interface{}{"error": err.Error()}
	}
	if pc.MaxStr > 0 {
		old := tengo.MaxStringLen
		tengo.MaxStringLen = pc.MaxStr
		defer func() { tengo.MaxStringLen = old }()
	}
	c, bad := compileForDump(&pc)
	if bad != nil {
		return map[string]interface{}{"outcome": bad}
	}
	bc := c.VerifBytecode()
	mainKey := codeKey(bc.MainFunction)
	type stat struct {
		entries int
		fis     map[int]bool
		spbp    map[int]bool
	}
	stats := map[uintptr]*stat{}
	maxFI, maxSP, steps := 0, 0, 0
	tengo.VerifSetStep(func(v *tengo.VM) {
		s := v.VerifState()
		steps++
		if s.FI > maxFI {
			maxFI = s.FI
		}
		if s.SP > maxSP {
			maxSP = s.SP
		}
		if s.IP != 0 {
			return
		}
		k := codeKey(s.Fn)
		if k == mainKey {
			return
		}
		st := stats[k]
		if st == nil {
			st = &stat{fis: map[int]bool{}, spbp: map[int]bool{}}
			stats[k] = st
		}
		st.entries++
		if len(st.fis) < 64 {
			st.fis[s.FI] = true
		}
		if len(st.spbp) < 64 {
			st.spbp[s.SP-s.BP] = true
		}
	})
	defer tengo.VerifSetStep(nil)
	to := time.Duration(pc.TimeoutMs) * time.Millisecond
	if to == 0 {
		to = 60 * time.Second
	}
	ctx, cancel := context.WithTimeout(context.Background(), to)
	defer cancel()
	err := c.RunContext(ctx)
	res := map[string]interface{}{"steps": steps, "max_fi": maxFI, "max_sp": maxSP}
	var fns []V
	for _, st := range stats {
		fis := make([]int, 0)
		for f := range st.fis {
			fis = append(fis, f)
		}
		sort.Ints(fis)
		sb := make([]int, 0)
		for f := range st.spbp {
			sb = append(sb, f)
		}
		sort.Ints(sb)
		fns = append(fns, V{"entries": st.entries, "fis": fis, "spbp": sb})
	}
	sort.Slice(fns, func(i, j int) bool { return fns[i]["entries"].(int) > fns[j]["entries"].(int) })
	res["fns"] = fns
	if err != nil {
		res["outcome"] = V{"k": "runtime_error", "kind": classifyRuntime(err), "msg": err.Error(), "sentinels": sentinels(err)}
		if len(err.Error()) > 400 {
			res["outcome"].(V)["msg"] = err.Error()[:400]
		}
	} else {
		v := c.Get("r")
		res["outcome"] = V{"k": "ok", "r": encodeValue(v.Object())}
	}
	return res
}

func init() {
	register("deep", "run deeply recursive programs with a sparse frame probe", func(args []string) error {
		return runCases(120*time.Second, deepHandle)
	})
}
