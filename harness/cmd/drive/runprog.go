package main

import (
	"context"
	"encoding/json"
	"errors"
	"fmt"
	"regexp"
	"sort"
	"strconv"
	"strings"
	"time"

	"github.com/d5/tengo/v2"
	"github.com/d5/tengo/v2/stdlib"
)

// progCase is a program in the exchange format (see ast.go Export).
type progCase struct {
	ID     json.Number     `json:"id"`
	Src    string          `json:"src"`
	Inputs [][]interface{} `json:"inputs"`
	Mods   []struct {
		Name string `json:"name"`
		Src  string `json:"src"`
	} `json:"mods"`
	MaxAllocs *int64 `json:"max_allocs"`
	MaxStr    int    `json:"max_str"`
	MaxBytes  int    `json:"max_bytes"`
	Stdlib    bool   `json:"stdlib"`
	NoDCE     bool   `json:"nodce"`
	TimeoutMs int    `json:"timeout_ms"`
	HostErr   string `json:"hosterr"` // shape of the error returned by the host function "hostfail" (see hostErrMode)
	Via       string `json:"via"`     // "" | "clone-replace": run a Clone() whose bytecode was detached by ReplaceBuiltinModule
	Path      string          `json:"path"`   // hostile: "" Compiled.RunContext(timeout ctx) | "compiled-bg" | "script-bg" | "script-timeout"
	Repair    [][]interface{} `json:"repair"` // hostile: variables to Set after the first run; the re-run must then succeed
	Weird     string `json:"weird"`    // module "weird": a custom Importable returning this kind of plain object
	StateMod  bool   `json:"statemod"` // builtin module "st" with mutable container attributes
}

type objImportable struct{ o tengo.Object }

func (i objImportable) Import(string) (interface{}, error) { return i.o, nil }

// addSpecialModules: embedder-supplied modules beyond source modules and stdlib
func addSpecialModules(mm *tengo.ModuleMap, pc *progCase) {
	if pc.Weird == "two-unnamed" {
		// two different modules handed out by custom importables as plain immutable maps without a module name
		mm.Add("cfgA", objImportable{&tengo.ImmutableMap{Value: map[string]tengo.Object{"id": &tengo.String{Value: "A"}, "n": &tengo.Int{Value: 1}}}})
		mm.Add("cfgB", objImportable{&tengo.ImmutableMap{Value: map[string]tengo.Object{"id": &tengo.String{Value: "B"}, "n": &tengo.Int{Value: 2}}}})
		mm.Add("cfgC", objImportable{&tengo.ImmutableMap{Value: map[string]tengo.Object{"id": &tengo.String{Value: "A"}, "n": &tengo.Int{Value: 1}}}}) // equal to cfgA, still its own module
	} else if pc.Weird != "" {
		mm.Add("weird", weirdImportable{pc.Weird})
	}
	if pc.StateMod {
		mm.AddBuiltinModule("st", map[string]tengo.Object{
			"counter": &tengo.Map{Value: map[string]tengo.Object{"n": &tengo.Int{Value: 0}}},
			"log":     &tengo.Array{Value: []tengo.Object{}},
			"flags":   &tengo.Array{Value: []tengo.Object{tengo.TrueValue, tengo.FalseValue, tengo.UndefinedValue}},
			"step":    &tengo.Int{Value: 1},
		})
	}
}

var atRe = regexp.MustCompile(`(?m)^\tat (?:(.*):)?(\d+):(\d+)`)

type srcPos struct {
	File string `json:"file"`
	Line int    `json:"line"`
	Col  int    `json:"col"`
	Off  int    `json:"off"` // byte offset in that file's text, -1 if unknown
}

func offsetOf(src string, line, col int) int {
	// line, col are 1-based; col counts bytes
	l := 1
	for i := 0; i <= len(src); i++ {
		if l == line {
			off := i + col - 1
			if off > len(src) {
				return -1
			}
			return off
		}
		if i < len(src) && src[i] == '\n' {
			l++
		}
	}
	return -1
}

func parsePositions(msg string, files map[string]string) []srcPos {
	var out []srcPos
	for _, m := range atRe.FindAllStringSubmatch(msg, -1) {
		line, _ := strconv.Atoi(m[2])
		col, _ := strconv.Atoi(m[3])
		p := srcPos{File: m[1], Line: line, Col: col, Off: -1}
		if src, ok := files[m[1]]; ok {
			p.Off = offsetOf(src, line, col)
		}
		out = append(out, p)
	}
	return out
}

// classifyRuntime maps an error text to the classes of DESIGN.md appendix D.
// sentinels: for each engine sentinel (and the host error) whether the error text names it and
// whether errors.Is still recognises it - the two must agree (C14).
func sentinels(err error) V {
	msg := err.Error()
	out := V{}
	for name, e := range map[string]error{
		"alloc_limit": tengo.ErrObjectAllocLimit, "stack_overflow": tengo.ErrStackOverflow,
		"index_out_of_bounds": tengo.ErrIndexOutOfBounds, "string_limit": tengo.ErrStringLimit,
		"bytes_limit": tengo.ErrBytesLimit, "host_error": ErrHost,
	} {
		text := strings.Contains(msg, e.Error())
		is := errors.Is(err, e)
		if text || is {
			out[name] = V{"text": text, "is": is}
		}
	}
	return out
}

func classifyRuntime(err error) string {
	msg := err.Error()
	msg = strings.TrimPrefix(msg, "Runtime Error: ")
	if i := strings.Index(msg, "\n\tat "); i >= 0 {
		msg = msg[:i]
	}
	switch {
	case errors.Is(err, ErrHost) || strings.HasPrefix(msg, ErrHost.Error()):
		return "host_error"
	case strings.Contains(msg, "host function panicked"):
		return "host_panic"
	case errors.Is(err, tengo.ErrObjectAllocLimit) || strings.HasPrefix(msg, tengo.ErrObjectAllocLimit.Error()):
		return "alloc_limit"
	case errors.Is(err, tengo.ErrStackOverflow) || strings.HasPrefix(msg, tengo.ErrStackOverflow.Error()):
		return "stack_overflow"
	case errors.Is(err, tengo.ErrStringLimit) || strings.HasPrefix(msg, tengo.ErrStringLimit.Error()):
		return "string_limit"
	case errors.Is(err, tengo.ErrBytesLimit) || strings.HasPrefix(msg, tengo.ErrBytesLimit.Error()):
		return "bytes_limit"
	case errors.Is(err, tengo.ErrIndexOutOfBounds) || strings.HasPrefix(msg, tengo.ErrIndexOutOfBounds.Error()):
		return "index_out_of_bounds"
	case errors.Is(err, tengo.ErrInvalidIndexOnError):
		return "invalid_index_on_error"
	case errors.Is(err, tengo.ErrInvalidRangeStep):
		return "range_step"
	case errors.Is(err, tengo.ErrInvalidIndexType):
		return "invalid_index_type"
	case errors.Is(err, tengo.ErrInvalidIndexValueType):
		return "invalid_index_value"
	case errors.Is(err, tengo.ErrNotIndexable):
		return "not_indexable"
	case errors.Is(err, tengo.ErrNotIndexAssignable):
		return "not_index_assignable"
	case errors.Is(err, tengo.ErrInvalidOperator):
		return "invalid_operation"
	case errors.Is(err, tengo.ErrWrongNumArguments):
		return "wrong_num_args"
	case strings.HasPrefix(msg, "invalid operation:"):
		return "invalid_operation"
	case strings.HasPrefix(msg, "not indexable:"):
		return "not_indexable"
	case strings.HasPrefix(msg, "invalid index type:"):
		return "invalid_index_type"
	case strings.HasPrefix(msg, "invalid slice index type:"):
		return "invalid_slice_index"
	case strings.HasPrefix(msg, "invalid slice index:"):
		return "invalid_slice_index"
	case strings.HasPrefix(msg, "not index-assignable:"):
		return "not_index_assignable"
	case strings.HasPrefix(msg, "invaid index value type:"), strings.HasPrefix(msg, "invalid index value type:"):
		return "invalid_index_value"
	case strings.HasPrefix(msg, "not callable:"):
		return "not_callable"
	case strings.HasPrefix(msg, "not iterable:"):
		return "not_iterable"
	case strings.HasPrefix(msg, "wrong number of arguments"):
		return "wrong_num_args"
	case strings.HasPrefix(msg, "invalid type for argument"):
		return "invalid_arg_type"
	case strings.HasPrefix(msg, "not an array:"):
		return "not_an_array"
	case strings.Contains(msg, "integer divide by zero"), strings.HasPrefix(msg, "division by zero"):
		return "div_by_zero"
	case strings.Contains(msg, "index out of range") && strings.Contains(msg, "runtime error"):
		return "go_index_panic" // operand stack exhausted, bytes(-1), ...
	case strings.Contains(msg, "makeslice"):
		return "go_makeslice_panic"
	case strings.HasPrefix(msg, "runtime error:"):
		return "go_runtime_panic"
	}
	return "other"
}

func classifyCompile(msg string) string {
	m := strings.TrimPrefix(msg, "Compile Error: ")
	switch {
	case strings.HasPrefix(msg, "Parse Error:"):
		return "parse_error"
	case strings.HasPrefix(m, "unresolved reference"):
		return "unresolved_reference"
	case strings.Contains(m, "redeclared in this block"):
		return "redeclared"
	case strings.HasPrefix(m, "operator ':=' not allowed with selector"):
		return "define_with_selector"
	case strings.HasPrefix(m, "tuple assignment not allowed"):
		return "tuple_assignment"
	case strings.Contains(m, "not allowed outside loop"):
		return "branch_outside_loop"
	case strings.HasPrefix(m, "return not allowed outside function"):
		return "return_outside_function"
	case strings.HasPrefix(m, "export not allowed inside function"):
		return "export_inside_function"
	case strings.Contains(m, "not found"):
		return "module_not_found"
	case strings.HasPrefix(m, "cyclic module import"):
		return "cyclic_import"
	case strings.Contains(m, "exceeding string size limit"):
		return "string_limit"
	case strings.HasPrefix(m, "empty module name"):
		return "empty_module_name"
	case strings.Contains(m, "exceeding constant objects limit"):
		return "const_limit"
	}
	return "other"
}

type progResult struct {
	Outcome  V
	Compiled *tengo.Compiled
}

func buildScript(pc *progCase) (*tengo.Script, map[string]string, error) {
	s := tengo.NewScript([]byte(pc.Src))
	files := map[string]string{"(main)": pc.Src}
	for _, in := range pc.Inputs {
		if len(in) != 2 {
			return nil, nil, fmt.Errorf("bad input")
		}
		name, _ := in[0].(string)
		o, err := decodeValue(in[1])
		if err != nil {
			return nil, nil, err
		}
		if err := s.Add(name, o); err != nil {
			return nil, nil, err
		}
	}
	var mm *tengo.ModuleMap
	if pc.Stdlib {
		mm = stdlib.GetModuleMap(stdlib.AllModuleNames()...)
	} else {
		mm = tengo.NewModuleMap()
	}
	for _, m := range pc.Mods {
		mm.AddSourceModule(m.Name, []byte(m.Src))
		files[m.Name] = m.Src
	}
	addSpecialModules(mm, pc)
	s.SetImports(mm)
	if pc.MaxAllocs != nil {
		s.SetMaxAllocs(*pc.MaxAllocs)
	}
	return s, files, nil
}

// runProgram compiles and runs one program through the public API and encodes
// what happened in the model's outcome format.  Go panics escaping the API are
// reported as host_down (never swallowed).
func runProgram(pc *progCase) (res progResult) {
	defer func() {
		if r := recover(); r != nil {
			res.Outcome = V{"k": "host_down", "how": "panic", "msg": fmt.Sprint(r)}
		}
	}()
	s, files, err := buildScript(pc)
	if err != nil {
		return progResult{Outcome: V{"k": "harness_error", "msg": err.Error()}}
	}
	if pc.MaxStr > 0 {
		tengo.MaxStringLen = pc.MaxStr
	}
	if pc.MaxBytes > 0 {
		tengo.MaxBytesLen = pc.MaxBytes
	}
	tengo.VerifSetNoDCE(pc.NoDCE)
	var c *tengo.Compiled
	func() {
		defer func() {
			if r := recover(); r != nil {
				res.Outcome = V{"k": "host_down", "how": "compile_panic", "msg": fmt.Sprint(r)}
			}
		}()
		c, err = s.Compile()
	}()
	tengo.VerifSetNoDCE(false)
	if res.Outcome != nil {
		return
	}
	if err != nil {
		msg := err.Error()
		return progResult{Outcome: V{"k": "compile_error", "kind": classifyCompile(msg), "msg": msg,
			"positions": parsePositions(msg, files)}}
	}
	to := time.Duration(pc.TimeoutMs) * time.Millisecond
	if to == 0 {
		to = 10 * time.Second
	}
	ctx, cancel := context.WithTimeout(context.Background(), to)
	defer cancel()
	if pc.Via == "clone-replace" {
		c = c.Clone()
		c.ReplaceBuiltinModule("no-such-module", map[string]tengo.Object{}) // detaches (copies) the bytecode of the clone
	}
	hostErrMode = pc.HostErr
	err = c.RunContext(ctx)
	hostErrMode = ""
	res.Compiled = c
	if err != nil {
		if errors.Is(err, context.DeadlineExceeded) {
			res.Outcome = V{"k": "timeout"}
			return
		}
		msg := err.Error()
		res.Outcome = V{"k": "runtime_error", "kind": classifyRuntime(err), "msg": msg,
			"positions": parsePositions(msg, files), "g": encodeGlobals(c), "sentinels": sentinels(err)}
		return
	}
	res.Outcome = V{"k": "ok", "g": encodeGlobals(c)}
	return
}

func encodeGlobals(c *tengo.Compiled) []interface{} {
	vars := c.GetAll()
	sort.Slice(vars, func(i, j int) bool { return vars[i].Name() < vars[j].Name() })
	out := make([]interface{}, 0, len(vars))
	for _, v := range vars {
		out = append(out, []interface{}{v.Name(), encodeValue(v.Object())})
	}
	return out
}

func init() {
	register("run", "compile+run programs (exchange format on stdin), outcome per program", func(args []string) error {
		return runCases(30*time.Second, func(raw []byte) map[string]interface{} {
			var pc progCase
			if err := json.Unmarshal(raw, &pc); err != nil {
				return map[string]interface{}{"error": err.Error()}
			}
			r := runProgram(&pc)
			return map[string]interface{}{"outcome": r.Outcome}
		})
	})
}
