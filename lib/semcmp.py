"""Comparison of TengoSem outcomes with outcomes of the real compiler+VM."""
import json


def canon(v):
    """Canonical form of a value in the exchange format (maps key-sorted)."""
    if isinstance(v, dict):
        k = v.get("k")
        if k == "map":
            kv = [(tuple(p[0]), canon(p[1])) for p in v.get("kv", [])]
            kv.sort(key=lambda p: p[0])
            return ("map", bool(v.get("imm")), tuple(kv))
        if k == "array":
            return ("array", bool(v.get("imm")), tuple(canon(e) for e in v.get("e", [])))
        if k == "error":
            return ("error", canon(v.get("v")))
        if k == "int":
            return ("int", v["n"])
        if k == "float":
            return ("float", v.get("q"), v.get("s"))
        if k == "bool":
            return ("bool", bool(v["b"]))
        if k == "char":
            return ("char", v["c"])
        if k in ("string", "bytes"):
            return (k, tuple(v.get("b", [])))
        if k in ("undef", "func", "cycle"):
            return (k,)
        if k == "builtin":
            return ("builtin", v.get("name"))
        if k == "userfunc":
            return ("userfunc", v.get("name"))
        return ("other", json.dumps(v, sort_keys=True))
    return ("raw", json.dumps(v, sort_keys=True))


def canon_globals(g):
    return tuple(sorted((p[0], canon(p[1])) for p in g))


def has_unrep(v):
    if isinstance(v, dict):
        if v.get("k") in ("unrep", "cycle", "other", "nil"):
            return True
        return any(has_unrep(x) for x in v.values())
    if isinstance(v, list):
        return any(has_unrep(x) for x in v)
    return False


def show(c):
    """Readable rendering of a canonical value."""
    t = c[0]
    if t == "int":
        return str(c[1])
    if t == "float":
        return c[2] if c[2] else ("%g" % (c[1] / 16.0)) + "f"
    if t == "bool":
        return "true" if c[1] else "false"
    if t == "char":
        return "'%s'" % chr(c[1]) if 0 <= c[1] < 0x110000 else "char(%d)" % c[1]
    if t == "string":
        return json.dumps(bytes(c[1]).decode("utf-8", "replace"))
    if t == "bytes":
        return "bytes(%r)" % bytes(c[1])
    if t == "array":
        return ("immutable" if c[1] else "") + "[" + ", ".join(show(e) for e in c[2]) + "]"
    if t == "map":
        return ("immutable" if c[1] else "") + "{" + ", ".join("%s: %s" % (bytes(k).decode("utf-8", "replace"), show(v)) for k, v in c[2]) + "}"
    if t == "error":
        return "error(" + show(c[1]) + ")"
    return "<" + " ".join(str(x) for x in c) + ">"


def show_globals(cg):
    return "; ".join("%s=%s" % (n, show(v)) for n, v in cg)


def compare(model_outs, real):
    """model_outs: list of outcomes TengoSem allows for the program; real: outcome of the real run.

    Returns (verdict, detail): verdict in
      'agree'      real outcome is one of the allowed ones
      'excluded'   some allowed behaviour is 'excluded' (result depends on unspecified behaviour / model range)
      'unrep'      real value outside the model's universe
      'disagree'   real outcome is not allowed by the reference semantics
      'host_down'  real run panicked / timed out (always reported by the caller)
    """
    if real["k"] in ("host_down", "timeout"):
        return "host_down", real
    if any(o["k"] == "excluded" for o in model_outs):
        return "excluded", sorted({o.get("why", "?") for o in model_outs if o["k"] == "excluded"})
    if real["k"] == "ok":
        if has_unrep(real["g"]):
            return "unrep", None
        rg = canon_globals(real["g"])
        for o in model_outs:
            if o["k"] == "ok" and canon_globals(o["g"]) == rg:
                return "agree", None
        exp = [show_globals(canon_globals(o["g"])) if o["k"] == "ok" else "%s:%s" % (o["k"], o.get("kind")) for o in model_outs]
        return "disagree", {"expected": exp[:4], "got": show_globals(rg)}
    if real["k"] == "runtime_error":
        for o in model_outs:
            if o["k"] == "runtime_error" and o["kind"] == real["kind"]:
                return "agree", None
        exp = [show_globals(canon_globals(o["g"])) if o["k"] == "ok" else "%s:%s" % (o["k"], o.get("kind")) for o in model_outs]
        return "disagree", {"expected": exp[:4], "got": "runtime_error:%s (%s)" % (real["kind"], real["msg"].split("\n")[0])}
    if real["k"] == "compile_error":
        for o in model_outs:
            if o["k"] == "compile_error" and o["kind"] == real["kind"]:
                return "agree", None
        exp = [show_globals(canon_globals(o["g"])) if o["k"] == "ok" else "%s:%s" % (o["k"], o.get("kind")) for o in model_outs]
        return "disagree", {"expected": exp[:4], "got": "compile_error:%s (%s)" % (real["kind"], real["msg"].split("\n")[0])}
    return "disagree", {"expected": "?", "got": real}
