"""C09 Immutable values cannot be changed by any sequence of operations.

E: TengoSem with the ghost set `imms`: whenever a container becomes immutable (immutable
   expression, freeze, module export) from storage that no mutable value points to, its contents
   are recorded; the TLC invariant ImmStable requires them unchanged in every reachable state of
   every program.  The 'immut' family applies every derivation (slice, append, +, copy, index,
   selector, alias, store into a container, pass through functions, variadic roll-up, freeze,
   immutable, iteration, ternary) in sequences up to length 3 to every origin of immutability and
   then writes through a derived value at depth 0 or 1.
R: the same programs through the real compiler and VM; all final globals (the immutable value,
   every derived value, and `snap == v` against a copy taken at the start) must be among the
   outcomes TengoSem allows.  freeze must return a value equal to its argument and leave the
   argument unchanged (part of the predicted globals).
"""
import json

import semcmp
import semlib
import vlib


def run(ck):
    quick = ck.quick()
    progs = []
    for fam, k in (("immut", 1500 if quick else 40000), ("m-index", 0), ("alias", 300 if quick else 5000), ("modules", 60 if quick else 1500)):
        for p in semlib.generate(ck, fam, k):
            p["id"] = len(progs) + 1
            p["family"] = fam
            progs.append(p)
    outs = semlib.tlc_outcomes(ck, progs, njobs=14)
    real = semlib.real_outcomes(ck, progs, nproc=8)
    stats, cells = {}, {}
    for p in progs:
        v, det = semcmp.compare(outs[p["id"]], real[p["id"]])
        stats[v] = stats.get(v, 0) + 1
        ck.evaluations += 1
        if v == "agree":
            ck.traces += 1
            if p["family"] == "immut":
                cells[p.get("cell")] = cells.get(p.get("cell"), 0) + 1
                ck.note_distinct(p["src"])
                if len(ck.samples) < 3 and real[p["id"]]["k"] == "ok":
                    ck.add_sample({"origin": p.get("cell"), "src": p["src"]})
        elif v == "disagree":
            ck.violation("sem:" + str(p.get("cell", p["family"])), "immutability program disagrees with TengoSem: expected %s, got %s\n%s" % (
                det["expected"], det["got"], p["src"]), {"program": p, "model": outs[p["id"]], "real": real[p["id"]]})
        elif v == "host_down":
            ck.violation("host-down", "run did not return: %s\n%s" % (real[p["id"]], p["src"]), {"program": p})
    ck.extra["verdicts"] = stats
    ck.extra["agreeing_programs_per_origin"] = cells
    ck.rule = ("origin of immutability x derivation sequence (<= 3) x write through a derived value; non-trivial = distinct immut-family "
               "programs whose real outcome is one TengoSem allows (with ImmStable holding in every model state)")
    ck.assumptions = ["builtin-module tables are not modelled by TengoSem (covered only through the export/immutable/freeze origins)"]


def replay(ck, path):
    import c01
    return c01.replay(ck, path)
