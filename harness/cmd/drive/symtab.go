package main

// Replay of SymbolTable.tla call histories on a real tengo.SymbolTable: the harness keeps the stack
// of tables the way the compiler does (Fork on entering, Parent on leaving) and compares what every
// call returns, plus MaxSymbols/FreeSymbols of the innermost table after every call.

import (
	"bytes"
	"encoding/json"
	"fmt"
	"time"

	"github.com/d5/tengo/v2"
)

type symObs struct {
	Name     string `json:"name"`
	Scope    string `json:"scope"`
	Index    int    `json:"index"`
	Assigned bool   `json:"assigned"`
}

type symTabObs struct {
	Max    int             `json:"max"`
	Free   json.RawMessage `json:"free"`
	Global bool            `json:"global"`
}

type symCall struct {
	Op   string            `json:"op"`
	Args []json.RawMessage `json:"args"`
	Ret  json.RawMessage   `json:"ret"`
	Tab  symTabObs         `json:"tab"`
}

type symCase struct {
	Calls []symCall `json:"calls"`
}

func obsOf(s *tengo.Symbol) symObs {
	return symObs{Name: s.Name, Scope: string(s.Scope), Index: s.Index, Assigned: s.LocalAssigned}
}

// TLC prints an empty sequence as [] or {} depending on how it was built
func symList(raw json.RawMessage) []symObs {
	var l []symObs
	if err := json.Unmarshal(raw, &l); err != nil {
		return nil
	}
	return l
}

func tabObsOf(t *tengo.SymbolTable) (int, []symObs, bool) {
	var free []symObs
	for _, s := range t.FreeSymbols() {
		free = append(free, obsOf(s))
	}
	return t.MaxSymbols(), free, t.Parent(true) == nil
}

func sameSyms(a, b []symObs) bool {
	if len(a) != len(b) {
		return false
	}
	for i := range a {
		if a[i] != b[i] {
			return false
		}
	}
	return true
}

func symtabHandle(raw []byte) map[string]interface{} {
	var c symCase
	dec := json.NewDecoder(bytes.NewReader(raw))
	if err := dec.Decode(&c); err != nil {
		return map[string]interface{}{"error": err.Error()}
	}
	cur := tengo.NewSymbolTable()
	str := func(r json.RawMessage) string { var x string; _ = json.Unmarshal(r, &x); return x }
	fail := func(k int, got, want interface{}) map[string]interface{} {
		return map[string]interface{}{"ok": false, "at": k, "got": got, "want": want}
	}
	for k, call := range c.Calls {
		switch call.Op {
		case "DefineBuiltin", "Define":
			var s *tengo.Symbol
			if call.Op == "Define" {
				s = cur.Define(str(call.Args[0]))
			} else {
				s = cur.DefineBuiltin(7, str(call.Args[0]))
			}
			var want symObs
			_ = json.Unmarshal(call.Ret, &want)
			if obsOf(s) != want {
				return fail(k, obsOf(s), want)
			}
		case "Resolve", "Assign":
			s, depth, ok := cur.Resolve(str(call.Args[0]), false)
			var want struct {
				Ok    bool   `json:"ok"`
				Depth int    `json:"depth"`
				Sym   symObs `json:"sym"`
			}
			_ = json.Unmarshal(call.Ret, &want)
			if ok != want.Ok {
				return fail(k, map[string]interface{}{"ok": ok}, want)
			}
			if ok {
				if depth != want.Depth || obsOf(s) != want.Sym {
					return fail(k, map[string]interface{}{"ok": ok, "depth": depth, "sym": obsOf(s)}, want)
				}
				if call.Op == "Assign" && s.Scope == tengo.ScopeLocal {
					s.LocalAssigned = true
				}
			}
		case "Fork":
			var b bool
			_ = json.Unmarshal(call.Args[0], &b)
			cur = cur.Fork(b)
		case "Leave":
			var want symTabObs
			_ = json.Unmarshal(call.Ret, &want)
			max, free, glob := tabObsOf(cur)
			if max != want.Max || glob != want.Global || !sameSyms(free, symList(want.Free)) {
				return fail(k, map[string]interface{}{"max": max, "free": free, "global": glob}, want)
			}
			// the compiler leaves a block with Parent(false) and a function with Parent(true); under the
			// stack discipline both are the table below
			p := cur.Parent(false)
			if p == nil {
				return fail(k, "no parent", "a parent")
			}
			cur = p
		default:
			return map[string]interface{}{"error": fmt.Sprintf("unknown op %q", call.Op)}
		}
		max, free, glob := tabObsOf(cur)
		if max != call.Tab.Max || glob != call.Tab.Global || !sameSyms(free, symList(call.Tab.Free)) {
			return fail(k, map[string]interface{}{"after": true, "max": max, "free": free, "global": glob}, call.Tab)
		}
	}
	return map[string]interface{}{"ok": true}
}

func init() {
	register("symtab", "replay SymbolTable.tla call histories (cases on stdin)", func(args []string) error {
		return runCases(20*time.Second, symtabHandle)
	})
}
