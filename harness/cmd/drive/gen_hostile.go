package main

import (
	"fmt"
	"math/rand"
	"strings"
)

// Family "hostile": programs that attack the VM rather than compute something - runaway recursion,
// operand-stack exhaustion, mutation of containers while they are iterated, cyclic containers fed to
// every traversal, misused builtins with extreme arguments, host functions that fail or panic.
// They are given as raw source (Program.Src preset; the node table is a stub the model skips).
func rawProgram(src string, meta string, inputs ...Input) *Program {
	return &Program{Src: src, Stmts: nil, Inputs: inputs, Meta: map[string]interface{}{"cell": meta, "raw": true}}
}

func hostilePrograms(r *rand.Rand) []*Program {
	var ps []*Program
	add := func(meta, src string) {
		ps = append(ps, rawProgram(src+"\n", meta, Input{Name: "hostfail", V: V{"k": "hostfn", "name": "hostfail"}},
			Input{Name: "hostpanic", V: V{"k": "hostfn", "name": "hostpanic"}}))
	}
	// runaway programs: only the context (3 s in the check) stops them
	add("runaway-loop", "for {}")
	add("runaway-tailcall", "f := func(n) { return f(n + 1) }\nr := f(0)")
	add("runaway-tailcall-discard", "f := func(n) { f(n + 1) }\nf(0)")
	add("runaway-tailcall-variadic", "f := func(...a) { return f(a...) }\nr := f(1, 2)")
	add("runaway-forin", "a := [1]\nfor { for x in a { } }")
	add("recursion-frames", "f := func(n) { return 1 + f(n + 1) }\nr := f(0)")
	add("recursion-noargs", "f := func() { return f() + 1 }\nr := f()")
	add("recursion-mutual", "g := undefined\nf := func(n) { return g(n) + 1 }\ng = func(n) { return f(n) + 1 }\nr := f(0)")
	add("recursion-closure", "mk := func() { h := func(n) { return [n, h(n + 1)] }; return h }\nr := mk()(0)")
	add("operand-stack-literal", "r := ["+strings.Repeat("[", 1500)+strings.Repeat("]", 1500)+"]")
	add("operand-stack-expr", "a := 1\nr := "+strings.Repeat("a + (", 2500)+"a"+strings.Repeat(")", 2500))
	add("operand-stack-args", "f := func(...a) { return len(a) }\nr := f("+strings.TrimSuffix(strings.Repeat("1, ", 300), ", ")+")")
	add("many-args-260", "f := func(...a) { return len(a) }\nr := f("+strings.TrimSuffix(strings.Repeat("1, ", 260), ", ")+")")
	add("spread-huge", "a := []\nfor i := 0; i < 5000; i++ { a = append(a, i) }\nf := func(...x) { return len(x) }\nr := f(a...)")
	// containers mutated while iterated
	add("map-delete-others", "m := {a: 1, b: 2, c: 3, d: 4}\nseen := []\nfor k, v in m { for k2 in [\"a\", \"b\", \"c\", \"d\"] { if k2 != k { delete(m, k2) } }; seen = append(seen, [k, v]) }\ns := string(seen)")
	add("map-delete-self", "m := {a: 1, b: 2, c: 3}\nout := []\nfor k, v in m { delete(m, k); out = append(out, v) }\nt := out")
	add("map-delete-then-use", "m := {a: [1], b: [2], c: [3]}\ntotal := 0\nfor k, v in m { delete(m, \"a\"); delete(m, \"b\"); delete(m, \"c\"); total += len(v) }")
	add("map-delete-typename", "m := {a: 1, b: 2, c: 3}\nts := []\nfor k, v in m { delete(m, \"a\"); delete(m, \"b\"); delete(m, \"c\"); ts = append(ts, type_name(v)) }")
	add("map-grow", "m := {a: 1}\nn := 0\nfor k, v in m { m[k + \"x\"] = v; n++; if n > 100 { break } }")
	add("array-shrink", "a := [1, 2, 3, 4, 5, 6]\nout := []\nfor i, v in a { splice(a, 0, 1); out = append(out, v) }")
	add("array-splice-all", "a := [1, 2, 3, 4]\nout := []\nfor v in a { splice(a, 0); out = append(out, v) }")
	add("array-grow", "a := [1]\nn := 0\nfor v in a { a = append(a, v); n++ }")
	// closures that capture themselves (a recursive local function, mutual recursion): a cycle through captured variables that every
	// traversal and copy has to survive - these are ordinary programs
	for _, use := range []string{"r := copy(a)", "r := string(a)", "r := a == a", "r := format(\"%v\", a)", "b := [a]; r := copy(b)", "m := {k: a}; r := copy(m)",
		"r := immutable([a])", "r := freeze([a, {k: a}])", "r := copy(a)(3)", "r := copy(copy(a))(2)", "r := type_name(copy(a))"} {
		add("selfref-closure: "+use, "mk := func() { f := func(n) { return n == 0 ? 0 : f(n - 1) }; return f }\na := mk()\n"+use)
		add("mutualref-closure: "+use, "mk := func() { g := undefined; f := func(n) { return n == 0 ? 0 : g(n - 1) }; g = func(n) { return f(n) }; return f }\na := mk()\n"+use)
	}
	// cyclic containers
	for _, use := range []string{"r := string(a)", "r := a == a", "r := copy(a)", "r := format(\"%v\", a)", "r := a + a", "r := freeze(a)",
		"r := len(a)", "r := type_name(a)", "b := [a]; r := b == b", "r := a != [a]", "r := immutable(a)", "for x in a { }", "r := a[0][0][0]", "e := error(a); r := string(e)"} {
		add("cyclic-array: "+use, "a := [1]\na[0] = a\n"+use)
		add("cyclic-map: "+use, "a := {x: 1}\na.x = a\n"+strings.ReplaceAll(strings.ReplaceAll(use, "a[0][0][0]", "a.x.x.x"), "a + a", "a.x == a"))
	}
	// the shape in which generated programs meet the defect: the self-containing value sits in a block variable that no statement
	// traverses - the host's own calls after the run (GetAll, Clone) do
	add("cyclic-random-shape", "if true {\n  v12 := {b: 2, k1: 0}\n  v12.a = v12\n}\nr := 1")
	add("cyclic-mutual", "a := [0]\nb := {k: a}\na[0] = b\nr := string(b)")
	// builtins with extreme arguments
	for _, e := range []string{"bytes(-1)", "bytes(1 << 40)", "range(0, 10, 0)", "range(0, 10, -1)", "splice([1], -1)",
		"splice([1, 2], 1, -1)", "splice([1], 5)", "format(\"%d\")", "format(\"%[5]d\", 1)", "format(\"%*d\", 1 << 40, 1)", "format(\"%.*f\", 1 << 30, 1.5)",
		"format(\"%\")", "format(1)", "char(1 << 40)", "string(1 << 62)", "time(1 << 62)", "time(-1 << 62)", "int(\"9223372036854775808\")",
		"float(\"1e999\")", "1 << 70", "1 << -1", "-9223372036854775807 - 1 - 1", "(-9223372036854775807 - 1) / -1", "(-9223372036854775807 - 1) % -1",
		"[1, 2, 3][1 << 62]", "[1, 2, 3][:1 << 62]", "\"abc\"[-9223372036854775807:]", "append()", "append(1)", "delete({}, 1)", "len()", "copy()",
		"string(string)", "is_callable(undefined)(1)", "hostfail(1)", "hostpanic(1)", "[hostpanic][0]()", "error(error(error(1))).value.value.value.value",
		"{a: 1}.a.b.c.d", "undefined.a.b[3].c", "(func() { return func() { return hostpanic() } })()()", "int(1.0e300)", "char(-1)", "format(\"%c\", -1)",
		"format(\"%s\", bytes(1 << 20))", "format(\"%x\", \"\\xff\\xfe\")", "format(\"%q\", 1 << 40)", "format(\"%U\", -1)", "format(\"%v %v\", [1, [2, [3]]], {a: {b: {c: 1}}})"} {
		add("builtin: "+e, "r := "+e)
	}
	add("iterator-bogus", "f := func(x) { for a, b in x { return [a, b] } }\nr := [f(1.5), f(true)]")
	add("index-assign-chain", "a := {b: [1, {c: 2}]}\na.b[1].c.d.e = 5")
	add("closure-escape-frames", "fs := []\nf := func(n) { if n == 0 { return 0 }; x := n; fs = append(fs, func() { return x }); return f(n - 1) + 1 }\nr := f(900)\ns := fs[0]() + fs[899]()")
	add("deep-then-error", "f := func(n) { if n == 0 { return 1 / 0 }; return f(n - 1) + 1 }\nr := f(800)")
	add("error-in-module-less-import", "m := import(\"nope\")")
	add("stack-exhaust-in-loop", "f := func(n) { return n == 0 ? [] : [f(n - 1), f(n - 1)] }\nfor i := 0; i < 3; i++ { r := f(12) }")
	for i, p := range ps {
		p.ID = i + 1
	}
	return ps
}

func init() {
	families["hostile"] = func(seed int64, n int) []*Program {
		return hostilePrograms(rand.New(rand.NewSource(seed)))
	}
	families["random-hostile"] = func(seed int64, n int) []*Program {
		r := rand.New(rand.NewSource(seed))
		var ps []*Program
		for i := 0; i < n; i++ {
			ps = append(ps, randomProgram(r, genOpts{Inputs: true, Errors: 0.2 + 0.2*float64(i%3), MaxStmts: 8, Closures: true}))
		}
		return ps
	}
}

var _ = fmt.Sprint
