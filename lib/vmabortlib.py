"""A VM object aborted in the middle of a run and run again (drive vmabort): used by C02 (the machine a run starts on) and C07."""
import vlib

SCENARIOS = ["main-loop", "one-call", "nested-calls", "pending-operands", "closure", "for-in", "deep", "method-on-map"]


def judge(ck, key="vm-reuse-after-abort"):
    cases = []
    for sc in SCENARIOS:
        for mf in (1, 2, 3, 4, 20):
            cases.append({"id": len(cases) + 1, "scenario": sc, "min_frame": mf})
    res = vlib.run_cases(ck, "vmabort", cases, nproc=8, timeout=600)
    n = 0
    bad = 0
    for c in cases:
        o = res[c["id"]]
        ck.evaluations += 1
        if o.get("hang") or o.get("died") or o.get("panic"):
            ck.violation(key + ":" + c["scenario"], "aborting and re-running a VM took the driver down: %s" % str(o)[:300], {"vmabort": c, "real": o})
            continue
        if o.get("error"):
            if "deep enough" in o["error"] or "before it could be aborted" in o["error"]:
                continue      # the scenario has no frame that deep
            raise vlib.Infra("vmabort driver: %s" % o["error"])
        if not o["ok"]:
            bad += 1
            ck.violation(key + ":" + c["scenario"], "VM aborted at frame depth >= %d of scenario %s, then run again: %s" % (c["min_frame"], c["scenario"], o["what"][:600]),
                         {"vmabort": c, "real": o})
            continue
        n += 1
        ck.traces += 1
        ck.note_distinct("vmabort/%s/%d" % (c["scenario"], c["min_frame"]))
    ck.extra["vm_abort_rerun_cases"] = n
    if n + bad < 12:
        raise vlib.Infra("vmabort: only %d scenarios could be aborted and re-run" % n)
