"""C08 Clones of a compiled script run concurrently without interference.

E: CompiledConc.tla - original and clones with their RW locks, private globals and the regions they
   share (constants, index map, the lazily written rune cache and last-file cache); goroutines issue
   Run/Get/GetAll/IsDefined/Set/Clone/ReplaceBuiltinModule.  TLC explores all interleavings of every
   plan (K goroutines x <= MaxOps calls): NoRace, Isolation, lock sanity.  The faithful configuration
   (caches included) is rejected by TLC - that is the model-level statement of the two known findings;
   the contract configuration (caches declared benign) holds and its plans are the histories replayed.
R: every plan is executed on real objects (original + 2 clones, goroutines released from a barrier,
   several repetitions) in a harness built with Go's race detector, for scripts that touch each shared
   region.  A race report whose stacks contain tengo frames is a violation (the two cache races are
   matched against the known findings by their top tengo frames); objects nobody wrote to must be
   unchanged; afterwards every object must compute alone what a fresh object computes.
"""
import glob
import json
import os
import re

import vlib

CFG = """SPECIFICATION Spec
CONSTANTS
  Objs = {%s}
  Gs = {%s}
  MaxOps = %d
  Caches = %s
  OpKinds = {%s}
INVARIANTS NoRace LocksSane Isolation EmitPlan
"""


def parse_races(text):
    """-> list of (key, report) for each DATA RACE block; key = the top tengo frames of both accesses"""
    out = []
    for blk in text.split("WARNING: DATA RACE")[1:]:
        blk = blk.split("==================")[0]
        tops = []
        for part in re.split(r"\n(?=(?:Write|Read|Previous write|Previous read) at )", blk):
            m = re.search(r"\n\s+(github\.com/d5/tengo/v2\S*?)\(\)\n", part)
            if re.match(r"(Write|Read|Previous write|Previous read) at", part.strip()) and m:
                tops.append(m.group(1).replace("github.com/d5/tengo/v2", "tengo"))
        if not tops:
            continue  # no tengo frame: a race inside the harness itself would be an infrastructure problem
        out.append(("race:" + "|".join(sorted(set(tops))), blk.strip()[:1800]))
    return out


def run(ck):
    quick = ck.quick()
    kinds = '"Run", "Get", "Set", "Clone", "Replace", "IsDefined"' if quick else '"Run", "Get", "GetAll", "IsDefined", "Set", "Clone", "Replace"'
    objs, gs, maxops = ('"orig", "c1"', "1, 2", 2) if quick else ('"orig", "c1", "c2"', "1, 2", 2)
    f = ck.tlc("CompiledConc", CFG % (objs, gs, maxops, '{"runeCache", "lastFile"}', kinds), workers=8, name="faithful", timeout=1800,
               expect_violation=True, count=False, xmx="8g")
    if f.violated != "NoRace":
        raise vlib.Infra("the faithful CompiledConc configuration should violate NoRace (the known cache races), got %s" % f.violated)
    r = ck.tlc("CompiledConc", CFG % (objs, gs, maxops, "{}", kinds), workers=12, name="contract", timeout=3000, xmx="12g")
    if r.violated:
        raise vlib.Infra("CompiledConc (contract) violates %s:\n%s" % (r.violated, r.stdout[-2000:]))
    plans = []
    seen = set()
    for p in r.tagged("PLAN"):
        pl = p["plan"]
        if isinstance(pl, list):        # a function over 1..n is printed as a sequence
            pl = {str(i + 1): ops for i, ops in enumerate(pl)}
        k = json.dumps(pl, sort_keys=True)
        if k not in seen:
            seen.add(k)
            plans.append(pl)
    ck.log("CompiledConc: %d states; %d distinct plans" % (r.distinct, len(plans)))
    # interesting plans only: at least two goroutines with a call each
    plans = [p for p in plans if sum(1 for g in p.values() if g) >= 2]
    # ReplaceBuiltinModule is documented for clones ("remember to call Clone()"): the original's bytecode is the
    # one all clones share, so replacing a module on the original while clones run is outside the property
    plans = [p for p in plans if not any(op["kind"] == "Replace" and op["obj"] == "orig" for g in p.values() for op in g)]

    def replace_and_clone_same(p):   # the same contract one level down: an object that is cloned is a new "original"
        ops = [op for g in p.values() for op in g]
        return any(a["kind"] == "Replace" and b["kind"] == "Clone" and a["obj"] == b["obj"] for a in ops for b in ops)
    plans = [p for p in plans if not replace_and_clone_same(p)]
    import random
    rnd = random.Random(ck.seed)
    rnd.shuffle(plans)
    nplans = 400 if quick else 6000
    plans = plans[:nplans]
    cases = []
    SCRIPTS = ["plain", "modules", "strindex", "fails", "fails2", "strinput", "stmod", "fmtlimit", "randmod", "moditer", "constreset", "stown", "modules"]
    for i, p in enumerate(plans):
        script = SCRIPTS[i % len(SCRIPTS)]
        cases.append({"id": i + 1, "plan": {str(g): ops for g, ops in p.items()}, "script": script, "reps": 3 if quick else 10})
    # one race log per script: a report is attributed to the script whose shared regions it can concern (the key carries the script,
    # so a race on a string *input* is not mistaken for the recorded race on string *constants*)
    res = {}
    racedirs = {}
    for script in sorted(set(SCRIPTS)):
        sub = [c for c in cases if c["script"] == script]
        racedirs[script] = ck.path("race-" + script)
        os.makedirs(racedirs[script], exist_ok=True)
        res.update(vlib.run_cases(ck, "conc", sub, nproc=8, race=True, timeout=3000,
                                  env={"GORACE": "log_path=%s/r halt_on_error=0 exitcode=0 history_size=2" % racedirs[script]}))
    for c in cases:
        o = res[c["id"]]
        ck.evaluations += 1
        rep = {"case": c, "real": o}
        if o.get("hang") or o.get("died") or o.get("panic"):
            ck.violation("conc-host-down:" + c["script"], "concurrent history did not complete: %s" % json.dumps(c["plan"]), rep)
            continue
        if o.get("error"):
            raise vlib.Infra("conc driver: %s" % o["error"])
        if o["problems"]:
            ck.violation("interference:" + c["script"], "%s\nplan: %s" % (o["problems"][0][:600], json.dumps(c["plan"])), rep)
            continue
        ck.traces += 1
        ck.note_distinct(c["script"] + json.dumps(c["plan"], sort_keys=True))
    nrace = 0
    for script, racedir in racedirs.items():
        for fn in glob.glob(racedir + "/r*"):
            for key, report in parse_races(open(fn, errors="replace").read()):
                nrace += 1
                ck.violation(key + "@" + script, "Go's race detector: unsynchronised access in d5/tengo code (script %s)\n" % script + report, {"report": report, "script": script})
    ck.extra["race_reports"] = nrace
    ck.extra["plans_executed"] = len(cases)
    if cases:
        ck.add_sample(cases[len(cases) // 2])
    ck.rule = ("plans (goroutine -> calls on orig/clones) enumerated by TLC, shuffled by seed, each executed several times under -race for scripts "
               "touching each shared region; non-trivial = distinct (script, plan) executed without interference")
    ck.assumptions = ["Go's race detector observes the real memory accesses; the model decides which regions may be written under which lock",
                      "a race report is attributed to the whole run, not to one plan"]


def replay(ck, path):
    print(json.dumps(json.load(open(path))["replay"], indent=1)[:4000])
    return 0
