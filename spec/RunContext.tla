--------------------------- MODULE RunContext ---------------------------
(***************************************************************************)
(* Compiled.RunContext (script.go) and the VM run loop's abort protocol    *)
(* (vm.go Run/run/Abort), as three processes:                              *)
(*   caller  - the goroutine that calls RunContext (two rounds: the second *)
(*             round models "the object can be run again afterwards")      *)
(*   runner  - the goroutine RunContext spawns, executing v.Run()          *)
(*   env     - whoever cancels the context of round 1, at any time         *)
(* One dispatched VM instruction is one r_step.  The load of the abort     *)
(* flag (r_check) and the dispatch (r_step) are separate steps, because    *)
(* the code performs them separately; this is what makes "at most one      *)
(* instruction after Abort" a real invariant rather than an assumption.    *)
(*                                                                         *)
(* Shape of the program being run:                                         *)
(*   "finite": instruction NSteps is SUSPEND (run returns nil)             *)
(*   "error" : instruction NSteps sets v.err                               *)
(*   "panic" : instruction NSteps panics in Go (recovered by the deferred  *)
(*             function of the spawned goroutine)                          *)
(*   "loop"  : never ends by itself (for {} or unbounded self tail call)   *)
(* Knobs that are TRUE/FALSE in the faithful model and flipped only by the *)
(* mutation configs (documenting what the properties exclude):             *)
(*   ResetOnEntry - clear the abort flag when Run starts instead of when   *)
(*                  run() returned                                         *)
(*   Drain        - the ctx branch waits for the runner's result           *)
(***************************************************************************)
EXTENDS Naturals, Sequences, TLC

CONSTANTS Shapes, MaxSteps, ResetOnEntry, Drain

ASSUME Shapes \subseteq {"finite", "error", "panic", "loop"}

Rounds == 2

Sat(n) == IF n < MaxSteps THEN n + 1 ELSE MaxSteps   \* saturating step counter

(* --algorithm rc {
  variables
    Shape \in Shapes,       \* the program being run (never changes)
    NSteps \in 1..MaxSteps,
    lock = FALSE,           \* Compiled.lock (write side)
    aborting = 0,           \* VM.aborting of the VM of the current round
    ch = <<>>,              \* chan error, capacity 1
    ctxDone = FALSE,        \* context of round 1 (round 2 uses a live context)
    round = 1,
    spawned = 0,            \* number of runner goroutines started
    sent = 0,               \* number of runner goroutines that have sent
    results = <<>>,         \* what RunContext returned, per round
    steps = 0,              \* instructions dispatched in this round (saturating)
    aborted = FALSE,        \* Abort() was called in this round
    stepsAtAbort = 0,
    afterAbort = 0,         \* instructions dispatched after Abort() returned
    cancelAt = "never",     \* ghost: runner progress when the context fired
    leaked = FALSE;         \* ghost: caller returned while its runner had not sent

  define {
    ProgramEnds == Shape # "loop" /\ steps = NSteps
    OwnResult == CASE Shape = "error" -> "runErr"
                   [] Shape = "panic" -> "panicErr"
                   [] OTHER -> "nil"
  }

  fair process (caller = "caller")
    variable res = "none";
  {
    c_loop: while (round <= Rounds) {
      c_lock:   await ~lock; lock := TRUE;
      c_spawn:  aborting := 0; steps := 0; aborted := FALSE; afterAbort := 0;   \* NewVM; go func()
                spawned := spawned + 1;
      c_sel:    either { await round = 1 /\ ctxDone; goto c_abort }
                or     { await Len(ch) > 0; res := Head(ch); ch := Tail(ch); goto c_unlock };
      c_abort:  aborting := 1; aborted := TRUE; stepsAtAbort := steps;
      c_drain:  if (Drain) { await Len(ch) > 0; ch := Tail(ch) };
                res := "ctxErr";
      c_unlock: lock := FALSE;
                results := Append(results, res);
                leaked := leaked \/ (sent < spawned);
      c_ret:    round := round + 1;
    }
  }

  fair process (runner = "runner")
    variables r = "none", mine = 0;
  {
    r_loop: while (TRUE) {
      r_wait:  await spawned > mine; mine := mine + 1;
      r_entry: if (ResetOnEntry) { aborting := 0 };        \* VM.Run resets sp, frames, ip, allocs
      r_check: if (aborting = 0 /\ ~ProgramEnds) { goto r_step } else { goto r_exit };
      r_step:  with (ns = Sat(steps)) {
                 steps := ns;
                 if (aborted) { afterAbort := afterAbort + 1 };
                 if (Shape = "panic" /\ ns = NSteps) { r := "panicErr"; goto r_send }
                 else { goto r_check };
               };
      r_exit:  if (~ResetOnEntry) { aborting := 0 };
               r := IF ProgramEnds /\ Shape = "error" THEN "runErr" ELSE "nil";
      r_send:  await Len(ch) < 1;
               ch := Append(ch, r);
               sent := sent + 1;
    }
  }

  process (env = "env")
  {
    e_cancel: either {
                ctxDone := TRUE;
                cancelAt := IF round > 1 \/ pc["caller"] \in {"c_unlock", "c_ret"} THEN "returned"
                            ELSE IF spawned = 0 \/ pc["runner"] \in {"r_loop", "r_wait", "r_entry"} THEN "pre"
                            ELSE IF sent >= 1 THEN "sent"
                            ELSE IF pc["runner"] = "r_send" \/ pc["runner"] = "r_exit" THEN "finished"
                            ELSE "running";
              } or { skip }
  }
} *)
\* BEGIN TRANSLATION
VARIABLES pc, Shape, NSteps, lock, aborting, ch, ctxDone, round, spawned, 
          sent, results, steps, aborted, stepsAtAbort, afterAbort, cancelAt, 
          leaked

(* define statement *)
ProgramEnds == Shape # "loop" /\ steps = NSteps
OwnResult == CASE Shape = "error" -> "runErr"
               [] Shape = "panic" -> "panicErr"
               [] OTHER -> "nil"

VARIABLES res, r, mine

vars == << pc, Shape, NSteps, lock, aborting, ch, ctxDone, round, spawned, 
           sent, results, steps, aborted, stepsAtAbort, afterAbort, cancelAt, 
           leaked, res, r, mine >>

ProcSet == {"caller"} \cup {"runner"} \cup {"env"}

Init == (* Global variables *)
        /\ Shape \in Shapes
        /\ NSteps \in 1..MaxSteps
        /\ lock = FALSE
        /\ aborting = 0
        /\ ch = <<>>
        /\ ctxDone = FALSE
        /\ round = 1
        /\ spawned = 0
        /\ sent = 0
        /\ results = <<>>
        /\ steps = 0
        /\ aborted = FALSE
        /\ stepsAtAbort = 0
        /\ afterAbort = 0
        /\ cancelAt = "never"
        /\ leaked = FALSE
        (* Process caller *)
        /\ res = "none"
        (* Process runner *)
        /\ r = "none"
        /\ mine = 0
        /\ pc = [self \in ProcSet |-> CASE self = "caller" -> "c_loop"
                                        [] self = "runner" -> "r_loop"
                                        [] self = "env" -> "e_cancel"]

c_loop == /\ pc["caller"] = "c_loop"
          /\ IF round <= Rounds
                THEN /\ pc' = [pc EXCEPT !["caller"] = "c_lock"]
                ELSE /\ pc' = [pc EXCEPT !["caller"] = "Done"]
          /\ UNCHANGED << Shape, NSteps, lock, aborting, ch, ctxDone, round, 
                          spawned, sent, results, steps, aborted, stepsAtAbort, 
                          afterAbort, cancelAt, leaked, res, r, mine >>

c_lock == /\ pc["caller"] = "c_lock"
          /\ ~lock
          /\ lock' = TRUE
          /\ pc' = [pc EXCEPT !["caller"] = "c_spawn"]
          /\ UNCHANGED << Shape, NSteps, aborting, ch, ctxDone, round, spawned, 
                          sent, results, steps, aborted, stepsAtAbort, 
                          afterAbort, cancelAt, leaked, res, r, mine >>

c_spawn == /\ pc["caller"] = "c_spawn"
           /\ aborting' = 0
           /\ steps' = 0
           /\ aborted' = FALSE
           /\ afterAbort' = 0
           /\ spawned' = spawned + 1
           /\ pc' = [pc EXCEPT !["caller"] = "c_sel"]
           /\ UNCHANGED << Shape, NSteps, lock, ch, ctxDone, round, sent, 
                           results, stepsAtAbort, cancelAt, leaked, res, r, 
                           mine >>

c_sel == /\ pc["caller"] = "c_sel"
         /\ \/ /\ round = 1 /\ ctxDone
               /\ pc' = [pc EXCEPT !["caller"] = "c_abort"]
               /\ UNCHANGED <<ch, res>>
            \/ /\ Len(ch) > 0
               /\ res' = Head(ch)
               /\ ch' = Tail(ch)
               /\ pc' = [pc EXCEPT !["caller"] = "c_unlock"]
         /\ UNCHANGED << Shape, NSteps, lock, aborting, ctxDone, round, 
                         spawned, sent, results, steps, aborted, stepsAtAbort, 
                         afterAbort, cancelAt, leaked, r, mine >>

c_abort == /\ pc["caller"] = "c_abort"
           /\ aborting' = 1
           /\ aborted' = TRUE
           /\ stepsAtAbort' = steps
           /\ pc' = [pc EXCEPT !["caller"] = "c_drain"]
           /\ UNCHANGED << Shape, NSteps, lock, ch, ctxDone, round, spawned, 
                           sent, results, steps, afterAbort, cancelAt, leaked, 
                           res, r, mine >>

c_drain == /\ pc["caller"] = "c_drain"
           /\ IF Drain
                 THEN /\ Len(ch) > 0
                      /\ ch' = Tail(ch)
                 ELSE /\ TRUE
                      /\ ch' = ch
           /\ res' = "ctxErr"
           /\ pc' = [pc EXCEPT !["caller"] = "c_unlock"]
           /\ UNCHANGED << Shape, NSteps, lock, aborting, ctxDone, round, 
                           spawned, sent, results, steps, aborted, 
                           stepsAtAbort, afterAbort, cancelAt, leaked, r, mine >>

c_unlock == /\ pc["caller"] = "c_unlock"
            /\ lock' = FALSE
            /\ results' = Append(results, res)
            /\ leaked' = (leaked \/ (sent < spawned))
            /\ pc' = [pc EXCEPT !["caller"] = "c_ret"]
            /\ UNCHANGED << Shape, NSteps, aborting, ch, ctxDone, round, 
                            spawned, sent, steps, aborted, stepsAtAbort, 
                            afterAbort, cancelAt, res, r, mine >>

c_ret == /\ pc["caller"] = "c_ret"
         /\ round' = round + 1
         /\ pc' = [pc EXCEPT !["caller"] = "c_loop"]
         /\ UNCHANGED << Shape, NSteps, lock, aborting, ch, ctxDone, spawned, 
                         sent, results, steps, aborted, stepsAtAbort, 
                         afterAbort, cancelAt, leaked, res, r, mine >>

caller == c_loop \/ c_lock \/ c_spawn \/ c_sel \/ c_abort \/ c_drain
             \/ c_unlock \/ c_ret

r_loop == /\ pc["runner"] = "r_loop"
          /\ pc' = [pc EXCEPT !["runner"] = "r_wait"]
          /\ UNCHANGED << Shape, NSteps, lock, aborting, ch, ctxDone, round, 
                          spawned, sent, results, steps, aborted, stepsAtAbort, 
                          afterAbort, cancelAt, leaked, res, r, mine >>

r_wait == /\ pc["runner"] = "r_wait"
          /\ spawned > mine
          /\ mine' = mine + 1
          /\ pc' = [pc EXCEPT !["runner"] = "r_entry"]
          /\ UNCHANGED << Shape, NSteps, lock, aborting, ch, ctxDone, round, 
                          spawned, sent, results, steps, aborted, stepsAtAbort, 
                          afterAbort, cancelAt, leaked, res, r >>

r_entry == /\ pc["runner"] = "r_entry"
           /\ IF ResetOnEntry
                 THEN /\ aborting' = 0
                 ELSE /\ TRUE
                      /\ UNCHANGED aborting
           /\ pc' = [pc EXCEPT !["runner"] = "r_check"]
           /\ UNCHANGED << Shape, NSteps, lock, ch, ctxDone, round, spawned, 
                           sent, results, steps, aborted, stepsAtAbort, 
                           afterAbort, cancelAt, leaked, res, r, mine >>

r_check == /\ pc["runner"] = "r_check"
           /\ IF aborting = 0 /\ ~ProgramEnds
                 THEN /\ pc' = [pc EXCEPT !["runner"] = "r_step"]
                 ELSE /\ pc' = [pc EXCEPT !["runner"] = "r_exit"]
           /\ UNCHANGED << Shape, NSteps, lock, aborting, ch, ctxDone, round, 
                           spawned, sent, results, steps, aborted, 
                           stepsAtAbort, afterAbort, cancelAt, leaked, res, r, 
                           mine >>

r_step == /\ pc["runner"] = "r_step"
          /\ LET ns == Sat(steps) IN
               /\ steps' = ns
               /\ IF aborted
                     THEN /\ afterAbort' = afterAbort + 1
                     ELSE /\ TRUE
                          /\ UNCHANGED afterAbort
               /\ IF Shape = "panic" /\ ns = NSteps
                     THEN /\ r' = "panicErr"
                          /\ pc' = [pc EXCEPT !["runner"] = "r_send"]
                     ELSE /\ pc' = [pc EXCEPT !["runner"] = "r_check"]
                          /\ r' = r
          /\ UNCHANGED << Shape, NSteps, lock, aborting, ch, ctxDone, round, 
                          spawned, sent, results, aborted, stepsAtAbort, 
                          cancelAt, leaked, res, mine >>

r_exit == /\ pc["runner"] = "r_exit"
          /\ IF ~ResetOnEntry
                THEN /\ aborting' = 0
                ELSE /\ TRUE
                     /\ UNCHANGED aborting
          /\ r' = (IF ProgramEnds /\ Shape = "error" THEN "runErr" ELSE "nil")
          /\ pc' = [pc EXCEPT !["runner"] = "r_send"]
          /\ UNCHANGED << Shape, NSteps, lock, ch, ctxDone, round, spawned, 
                          sent, results, steps, aborted, stepsAtAbort, 
                          afterAbort, cancelAt, leaked, res, mine >>

r_send == /\ pc["runner"] = "r_send"
          /\ Len(ch) < 1
          /\ ch' = Append(ch, r)
          /\ sent' = sent + 1
          /\ pc' = [pc EXCEPT !["runner"] = "r_loop"]
          /\ UNCHANGED << Shape, NSteps, lock, aborting, ctxDone, round, 
                          spawned, results, steps, aborted, stepsAtAbort, 
                          afterAbort, cancelAt, leaked, res, r, mine >>

runner == r_loop \/ r_wait \/ r_entry \/ r_check \/ r_step \/ r_exit
             \/ r_send

e_cancel == /\ pc["env"] = "e_cancel"
            /\ \/ /\ ctxDone' = TRUE
                  /\ cancelAt' = (IF round > 1 \/ pc["caller"] \in {"c_unlock", "c_ret"} THEN "returned"
                                  ELSE IF spawned = 0 \/ pc["runner"] \in {"r_loop", "r_wait", "r_entry"} THEN "pre"
                                  ELSE IF sent >= 1 THEN "sent"
                                  ELSE IF pc["runner"] = "r_send" \/ pc["runner"] = "r_exit" THEN "finished"
                                  ELSE "running")
               \/ /\ TRUE
                  /\ UNCHANGED <<ctxDone, cancelAt>>
            /\ pc' = [pc EXCEPT !["env"] = "Done"]
            /\ UNCHANGED << Shape, NSteps, lock, aborting, ch, round, spawned, 
                            sent, results, steps, aborted, stepsAtAbort, 
                            afterAbort, leaked, res, r, mine >>

env == e_cancel

Next == caller \/ runner \/ env

Spec == /\ Init /\ [][Next]_vars
        /\ WF_vars(caller)
        /\ WF_vars(runner)

\* END TRANSLATION

-----------------------------------------------------------------------------
CallerDone == pc["caller"] = "Done"

(* Safety of the design. *)
TypeOK == /\ Len(ch) <= 1
          /\ aborting \in {0, 1}
          /\ afterAbort <= 1                 \* bounded delay: at most one instruction after Abort

ReturnsRight ==
  \A i \in 1..Len(results) :
     /\ (results[i] = "ctxErr" => (i = 1 /\ ctxDone))               \* the context's error only if it fired
     /\ (results[i] # "ctxErr" => results[i] = OwnResult)           \* otherwise the run's own result
     /\ (i = 2 => results[i] = OwnResult)                           \* re-run is unaffected by round 1

NoLeak == ~leaked                                                  \* the goroutine has sent before the call returns
LockFree == CallerDone => (~lock /\ sent = spawned /\ Len(ch) = 0)

Safety == TypeOK /\ ReturnsRight /\ NoLeak /\ LockFree

(* Liveness: under fairness of caller and runner the call returns whenever   *)
(* the program is finite or the context is eventually cancelled.  Round 2 of *)
(* a looping program never returns (nobody cancels it), so for "loop" the    *)
(* claim is about round 1.                                                   *)
Round1Returns == <>(Len(results) >= 1)
AllReturn == <>CallerDone
Live == /\ (Shape # "loop" => AllReturn)
        /\ (Shape = "loop" => (<>ctxDone => Round1Returns))

(* Observation emitted for conformance: one record per way round 1 can end. *)
Obs == [shape |-> Shape, n |-> NSteps, cancelAt |-> cancelAt, res |-> results[1],
        steps |-> steps, aborted |-> aborted,
        atAbort |-> IF aborted THEN stepsAtAbort ELSE 0,
        after |-> afterAbort]
=============================================================================
