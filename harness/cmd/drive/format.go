package main

import (
	"context"
	"encoding/json"
	"errors"
	"fmt"
	"math"
	"math/rand"
	"regexp"
	"sort"
	"strconv"
	"strings"
	"time"
	"unicode/utf8"

	"github.com/d5/tengo/v2"
	"github.com/d5/tengo/v2/stdlib"
)

// C17: format()/sprintf against Go's fmt.
//
// A case is a batch of directive sequences enumerated by FormatDirective.tla
// together with the consumption trace the spec computed.  Each is rendered to
// a concrete format string; argument vectors are drawn (seeded) from the value
// tables below, the positions consumed by '*' being ints (and sometimes not, to
// reach BADWIDTH/BADPREC); tengo.Format, the builtin format and fmt.sprintf
// must produce the text of fmt.Sprintf on the corresponding Go values.

type fmtDir struct {
	Flags []string `json:"flags"`
	I1    int      `json:"i1"`
	W     string   `json:"w"`
	I2    int      `json:"i2"`
	P     string   `json:"p"`
	I3    int      `json:"i3"`
	Verb  string   `json:"verb"`
	WNum  int      `json:"wnum"` // explicit width / precision numbers (sweep); 0 = draw
	PNum  int      `json:"pnum"` // -1 = explicit zero
}

type fmtEntry struct {
	Out      string `json:"out"`
	Arg      int    `json:"arg"`
	Warg     int    `json:"warg"`
	Parg     int    `json:"parg"`
	BadWidth bool   `json:"badwidth"`
	BadPrec  bool   `json:"badprec"`
	OddIndex bool   `json:"oddindex"`
}

type fmtCase struct {
	Dirs  []fmtDir `json:"dirs"`
	Nargs int      `json:"nargs"`
	T     struct {
		Trace []fmtEntry `json:"trace"`
		Extra bool       `json:"extra"`
	} `json:"t"`
}

func idxText(i int) string {
	switch {
	case i == 0:
		return ""
	case i < 0:
		return "[x]"
	}
	return "[" + strconv.Itoa(i) + "]"
}

// renderFormat: literal text around the directives makes misplaced output visible.  The second
// result is the format given to the reference: identical, except that a %T that renders a value
// becomes %s (the reference then gets tengo's type name as the operand: %T is documented as the
// tengo type name and both implementations print it through the string formatter).
func renderFormat(c *fmtCase, rng *rand.Rand) (string, string, []int) {
	var sb, gb strings.Builder
	var targs []int
	w := func(s string) { sb.WriteString(s); gb.WriteString(s) }
	w("a")
	for k, d := range c.Dirs {
		if k > 0 {
			w("|")
		}
		w("%")
		fl := append([]string(nil), d.Flags...)
		rng.Shuffle(len(fl), func(i, j int) { fl[i], fl[j] = fl[j], fl[i] })
		for _, f := range fl {
			w(f)
		}
		w(idxText(d.I1))
		switch d.W {
		case "num":
			if d.WNum > 0 {
				w(strconv.Itoa(d.WNum))
			} else if rng.Intn(6) == 0 {
				w(strconv.Itoa([]int{20, 33, 64, 100, 300}[rng.Intn(5)])) // beyond the formatter's fixed scratch buffers
			} else {
				w(strconv.Itoa(1 + rng.Intn(12)))
			}
		case "star":
			w("*")
		}
		if d.P != "none" {
			w(".")
			w(idxText(d.I2))
			switch d.P {
			case "num":
				if d.PNum != 0 {
					if d.PNum < 0 {
						w("0")
					} else {
						w(strconv.Itoa(d.PNum))
					}
				} else if rng.Intn(6) == 0 {
					w(strconv.Itoa([]int{20, 33, 60, 64, 68, 100, 300}[rng.Intn(7)]))
				} else {
					w(strconv.Itoa(rng.Intn(9)))
				}
			case "star":
				w("*")
			}
		}
		w(idxText(d.I3))
		if d.Verb == "none" {
			return sb.String(), gb.String(), targs // the format ends inside the directive
		}
		if d.Verb == "T" && k < len(c.T.Trace) && c.T.Trace[k].Out == "value" && !c.T.Trace[k].OddIndex {
			sb.WriteString("T")
			gb.WriteString("s")
			targs = append(targs, c.T.Trace[k].Arg)
			continue
		}
		w(d.Verb)
	}
	w("z")
	return sb.String(), gb.String(), targs
}

// ---- value tables ----------------------------------------------------------------

type fmtArg struct {
	Kind string // int float string bool bytes
	Go   interface{}
	Obj  tengo.Object
}

func mkInt(n int64) fmtArg { return fmtArg{"int", int(n), &tengo.Int{Value: n}} }
func mkFloat(f float64) fmtArg {
	return fmtArg{"float", f, &tengo.Float{Value: f}}
}
func mkStr(s string) fmtArg { return fmtArg{"string", s, &tengo.String{Value: s}} }
func mkBool(b bool) fmtArg {
	if b {
		return fmtArg{"bool", true, tengo.TrueValue}
	}
	return fmtArg{"bool", false, tengo.FalseValue}
}
func mkBytes(b []byte) fmtArg { return fmtArg{"bytes", b, &tengo.Bytes{Value: b}} }

var fmtInts = []int64{0, 1, -1, 7, 42, -255, 65, 0x7f, 0x80, 0xe9, 0x1F600, 0x10FFFF, 0x110000, 0xD800, -5,
	math.MaxInt64, math.MinInt64, math.MaxInt32, 1000000, 1000001, -1000001, 1 << 40}
var fmtFloats = []float64{0, math.Copysign(0, -1), 1, 1.5, -2.25, 0.1, 1e21, 1e20, 1e-7, 123456789.125, 100000, 1e6, 1e-5,
	math.NaN(), math.Inf(1), math.Inf(-1), math.MaxFloat64, math.SmallestNonzeroFloat64, -1e100, 3.141592653589793, 0.000123, 255}
var fmtStrings = []string{"", "hi", "héllo", "\xff\xfe", "a\tb\n", "日本語", "q\"'`\\", "x\x00y", "  \U0001F600", "a\xc3", "%d", "long string with spaces"}
var fmtBytesVals = [][]byte{{}, {1, 2, 255}, []byte("hi"), []byte("h\xffé"), {0}, nil}
var fmtRunes = []int64{65, 0xe9, 0x20AC, 0x1F600, 0x10000, 0x1F4A9, 0x10FFFF, 0xD800, 0x110000, 0, 0x7f, 0x80, 0x2028}
var fmtWidths = []int64{0, 1, 5, -4, 12, 3, 20, -1, 2, 60, 64, 70, 130, -70}

func randArg(rng *rand.Rand, kinds string) fmtArg {
	k := kinds[rng.Intn(len(kinds))]
	switch k {
	case 'i':
		return mkInt(fmtInts[rng.Intn(len(fmtInts))])
	case 'f':
		return mkFloat(fmtFloats[rng.Intn(len(fmtFloats))])
	case 's':
		return mkStr(fmtStrings[rng.Intn(len(fmtStrings))])
	case 'b':
		return mkBool(rng.Intn(2) == 0)
	}
	return mkBytes(fmtBytesVals[rng.Intn(len(fmtBytesVals))])
}

// kinds to prefer for a verb (right-typed most of the time, any type otherwise)
func kindsForVerb(v string) string {
	switch v {
	case "t":
		return "bbbifsy"
	case "b", "x", "X":
		return "iiiffssyyb"
	case "c", "d", "o", "O", "U":
		return "iiiifsby"
	case "q":
		return "iisssyyfb"
	case "e", "E", "f", "F", "g", "G":
		return "ffffisby"
	case "s":
		return "sssyyifb"
	}
	return "ifsby"
}


// ---- the recorded deviations as a model ---------------------------------------------
// devArg wraps a reference-side operand so that fmt renders it the way the pinned tree is known
// to (known_findings.json): %v through Object.String(), the value inside a bad-verb marker
// likewise, a bad verb on bytes silently dropped.  A mismatch that this model explains is reported
// under the key of the deviation that fired (a known finding); any other mismatch is a violation.
type devArg struct {
	a fmtArg
}

// devInt keeps the reflect kind Int, so that the reference still accepts it as a '*' operand
type devInt int

var devFired []string

func validVerb(kind string, verb rune) bool {
	switch kind {
	case "float":
		return strings.ContainsRune("bgGxXfFeE", verb)
	case "string":
		return strings.ContainsRune("sxXq", verb)
	case "bytes":
		return strings.ContainsRune("dsxXq", verb)
	case "bool":
		return verb == 't'
	case "int":
		return strings.ContainsRune("bcdoOqxXU", verb)
	}
	return true
}

func devFormat(a fmtArg, f fmt.State, verb rune) {
	switch {
	case verb == 'v':
		devFired = append(devFired, "v-uses-String:"+a.Kind)
		fmt.Fprintf(f, fmt.FormatString(f, 's'), a.Obj.String())
	case !validVerb(a.Kind, verb) && a.Kind == "bytes":
		devFired = append(devFired, "badverb-dropped:bytes")
	case !validVerb(a.Kind, verb):
		devFired = append(devFired, "badverb-value-uses-String:"+a.Kind)
		fmt.Fprintf(f, "%%!%c(%s=", verb, a.Obj.TypeName())
		fmt.Fprintf(f, fmt.FormatString(f, 's'), a.Obj.String())
		fmt.Fprint(f, ")")
	default:
		fmt.Fprintf(f, fmt.FormatString(f, verb), a.Go)
	}
}

func (d devArg) Format(f fmt.State, verb rune) { devFormat(d.a, f, verb) }
func (d devInt) Format(f fmt.State, verb rune) { devFormat(mkInt(int64(d)), f, verb) }

// ---- comparison ------------------------------------------------------------------

var goTypeRe = regexp.MustCompile(`\((int|float64|string|bool|\[\]uint8|uint8)=`)

func normGoTypes(s string) string {
	return goTypeRe.ReplaceAllStringFunc(s, func(m string) string {
		switch m {
		case "(float64=":
			return "(float="
		case "([]uint8=":
			return "(bytes="
		}
		return m
	})
}

type fmtMismatch struct {
	Key    string        `json:"key"`
	Format string        `json:"format"`
	Args   []interface{} `json:"args"`
	Go     string        `json:"go"`
	Tengo  string        `json:"tengo"`
	Entry  string        `json:"entry"`
	What   string        `json:"what"`
}

func argsJSON(a []fmtArg) []interface{} {
	out := make([]interface{}, len(a))
	for i, x := range a {
		out[i] = encodeValue(x.Obj)
	}
	return out
}

func decodeArgs(l []interface{}) ([]fmtArg, error) {
	out := make([]fmtArg, len(l))
	for i, x := range l {
		o, err := decodeValue(x)
		if err != nil {
			return nil, err
		}
		switch o := o.(type) {
		case *tengo.Int:
			out[i] = mkInt(o.Value)
		case *tengo.Float:
			out[i] = mkFloat(o.Value)
		case *tengo.String:
			out[i] = mkStr(o.Value)
		case *tengo.Bool:
			out[i] = mkBool(!o.IsFalsy())
		case *tengo.Bytes:
			out[i] = mkBytes(o.Value)
		default:
			return nil, fmt.Errorf("unsupported replay arg %T", o)
		}
	}
	return out, nil
}

// excludedByProperty: the three exclusions the property states, decided per directive.
func excludedDirective(d fmtDir, a *fmtArg) string {
	if a == nil {
		return ""
	}
	hasSharp := false
	for _, f := range d.Flags {
		if f == "#" {
			hasSharp = true
		}
	}
	switch {
	case d.Verb == "q" && a.Kind == "int" && !utf8.ValidRune(rune(a.Go.(int))) || (d.Verb == "q" && a.Kind == "int" && int64(a.Go.(int)) != int64(rune(a.Go.(int)))):
		return "q-non-codepoint"
	case (d.Verb == "x" || d.Verb == "X") && hasSharp && a.Kind == "float":
		return "sharp-x-float"
	}
	return ""
}

type fmtScriptRunner struct {
	c *tengo.Compiled
}

func newFmtScriptRunner() (*fmtScriptRunner, error) {
	s := tengo.NewScript([]byte(`fmt := import("fmt")
out1 := format(f, a...)
out2 := fmt.sprintf(f, a...)
`))
	s.SetImports(stdlib.GetModuleMap("fmt"))
	_ = s.Add("f", "")
	_ = s.Add("a", []interface{}{})
	c, err := s.Compile()
	if err != nil {
		return nil, err
	}
	return &fmtScriptRunner{c}, nil
}

func (r *fmtScriptRunner) run(format string, args []fmtArg) (string, string, error) {
	c := r.c.Clone()
	_ = c.Set("f", format)
	arr := &tengo.Array{}
	for _, a := range args {
		arr.Value = append(arr.Value, a.Obj)
	}
	_ = c.Set("a", arr)
	ctx, cancel := context.WithTimeout(context.Background(), 10*time.Second)
	defer cancel()
	if err := c.RunContext(ctx); err != nil {
		return "", "", err
	}
	o1, _ := c.Get("out1").Object().(*tengo.String)
	o2, _ := c.Get("out2").Object().(*tengo.String)
	if o1 == nil || o2 == nil {
		return "", "", fmt.Errorf("script outputs are not strings: %v %v", c.Get("out1").Object(), c.Get("out2").Object())
	}
	return o1.Value, o2.Value, nil
}

func markerCounts(s string) map[string]int {
	out := map[string]int{}
	for _, m := range []string{"(BADINDEX)", "(MISSING)", "%!(NOVERB)", "%!(BADWIDTH)", "%!(BADPREC)", "%!(EXTRA "} {
		if n := strings.Count(s, m); n > 0 {
			out[m] = n
		}
	}
	return out
}

func specMarkers(c *fmtCase) map[string]int {
	out := map[string]int{}
	for _, e := range c.T.Trace {
		switch e.Out {
		case "BADINDEX":
			out["(BADINDEX)"]++
		case "MISSING":
			out["(MISSING)"]++
		case "NOVERB":
			out["%!(NOVERB)"]++
		}
		if e.BadWidth {
			out["%!(BADWIDTH)"]++
		}
		if e.BadPrec {
			out["%!(BADPREC)"]++
		}
	}
	if c.T.Extra {
		out["%!(EXTRA "]++
	}
	return out
}

func sameCounts(a, b map[string]int) bool {
	if len(a) != len(b) {
		return false
	}
	for k, v := range a {
		if b[k] != v {
			return false
		}
	}
	return true
}

// checkOne compares the three entry points with Go for one rendered format and argument vector.
func checkOne(c *fmtCase, format, goFormat string, targs []int, args []fmtArg, runner *fmtScriptRunner, viaScript bool, stats map[string]int) []fmtMismatch {
	goArgs := make([]interface{}, len(args))
	objs := make([]tengo.Object, len(args))
	for i, a := range args {
		goArgs[i] = a.Go
		objs[i] = a.Obj
	}
	for _, t := range targs {
		if t >= 0 && t < len(args) {
			goArgs[t] = args[t].Obj.TypeName()
		}
	}
	want := normGoTypes(fmt.Sprintf(goFormat, goArgs...))
	got, err := tengo.Format(format, objs...)
	var out []fmtMismatch
	// classification for keys: first value directive's verb and argument kind
	verb, kind, excl := "-", "-", ""
	entry := "-"
	if c != nil {
		for k, e := range c.T.Trace {
			if k >= len(c.Dirs) {
				break
			}
			d := c.Dirs[k]
			var a *fmtArg
			if e.Arg >= 0 && e.Arg < len(args) {
				a = &args[e.Arg]
			}
			if x := excludedDirective(d, a); x != "" {
				excl = x
			}
			if verb == "-" || e.Out == "value" {
				verb, entry = d.Verb, e.Out
				if a != nil {
					kind = a.Kind
				}
				if e.OddIndex {
					verb = "["
				}
			}
		}
		// binding of the spec: its consumption trace predicts the error markers of the reference.
		// (arguments at '*' positions that are not ints make BADWIDTH/BADPREC data dependent: recompute)
		sm := specMarkers(c)
		for _, e := range c.T.Trace {
			if e.Warg >= 0 && e.Warg < len(args) && !goodStar(args[e.Warg]) {
				sm["%!(BADWIDTH)"]++
			}
			if e.Parg >= 0 && e.Parg < len(args) && !goodPrecStar(args[e.Parg]) {
				sm["%!(BADPREC)"]++
			}
		}
		strayPercent := false // "%[1][2]%": the second bracket is the verb and the '%' after it starts a directive the case does not describe
		for k, e := range c.T.Trace {
			if k < len(c.Dirs) && e.OddIndex && c.Dirs[k].Verb == "%" {
				strayPercent = true
			}
		}
		if strayPercent {
			stats["marker_skipped:stray-percent"]++
		} else if !literalMarkers(args) {
			stats["marker_checked"]++
			if gm := markerCounts(want); !sameCounts(gm, sm) {
				out = append(out, fmtMismatch{Key: "spec-vs-go-markers", Format: format, Args: argsJSON(args), Go: want, Tengo: fmt.Sprint(sm), Entry: entry,
					What: "the spec's consumption trace does not predict the reference's error markers"})
			}
		}
	}
	if excl != "" {
		stats["excluded:"+excl]++
		// still: no panic, some string
		return out
	}
	cmpWant, cmpGot := want, got
	if c != nil && c.T.Extra || (c == nil && strings.Contains(want, "%!(EXTRA ")) {
		// the rendering of surplus arguments is outside the claim: compare up to the marker, and require the marker
		i, j := strings.Index(want, "%!(EXTRA "), strings.Index(got, "%!(EXTRA ")
		if i >= 0 && j >= 0 {
			cmpWant, cmpGot = want[:i], got[:j]
		}
		stats["extra_prefix_only"]++
	}
	if err != nil {
		out = append(out, fmtMismatch{Key: "error:" + verb + ":" + kind, Format: format, Args: argsJSON(args), Go: want, Tengo: err.Error(), Entry: entry, What: "Format returned an error"})
		return out
	}
	stats["compared"]++
	if cmpWant != cmpGot && c != nil {
		// does the model of the recorded deviations explain the text?
		devFired = nil
		devArgs := append([]interface{}(nil), goArgs...)
		for i := range args {
			if _, isT := devArgs[i].(string); isT && args[i].Kind != "string" {
				continue // replaced by its type name for %T
			}
			if args[i].Kind == "int" {
				devArgs[i] = devInt(args[i].Go.(int))
			} else {
				devArgs[i] = devArg{args[i]}
			}
		}
		for _, t := range targs {
			if t >= 0 && t < len(args) {
				devArgs[t] = args[t].Obj.TypeName()
			}
		}
		dw := normGoTypes(fmt.Sprintf(goFormat, devArgs...))
		if i := strings.Index(dw, "%!(EXTRA "); i >= 0 && cmpWant != want {
			dw = dw[:i]
		}
		if dw == cmpGot && len(devFired) > 0 {
			seen := map[string]bool{}
			for _, f := range devFired {
				if !seen[f] {
					seen[f] = true
					out = append(out, fmtMismatch{Key: "deviation:" + f, Format: format, Args: argsJSON(args), Go: want, Tengo: got, Entry: entry, What: "tengo.Format differs from fmt.Sprintf in the recorded way"})
				}
			}
			cmpWant = cmpGot
		}
	}
	if cmpWant != cmpGot {
		out = append(out, fmtMismatch{Key: "text:" + entry + ":" + verb + ":" + kind, Format: format, Args: argsJSON(args), Go: want, Tengo: got, Entry: entry, What: "tengo.Format differs from fmt.Sprintf"})
	}
	if viaScript && runner != nil {
		o1, o2, err := runner.run(format, args)
		stats["via_script"]++
		if err != nil {
			out = append(out, fmtMismatch{Key: "script-error:" + verb + ":" + kind, Format: format, Args: argsJSON(args), Go: got, Tengo: err.Error(), Entry: entry, What: "builtin format / fmt.sprintf failed where tengo.Format succeeded"})
		} else if o1 != got || o2 != got {
			out = append(out, fmtMismatch{Key: "entrypoints:" + verb + ":" + kind, Format: format, Args: argsJSON(args), Go: got, Tengo: o1 + " / " + o2, Entry: entry, What: "builtin format / fmt.sprintf differ from tengo.Format"})
		}
	}
	return out
}

// sharedT: an operand rendered by %T that another directive also uses cannot be replaced on the reference side
func sharedT(c *fmtCase, targs []int) bool {
	for _, t := range targs {
		n := 0
		for _, e := range c.T.Trace {
			for _, p := range []int{e.Arg, e.Warg, e.Parg} {
				if p == t {
					n++
				}
			}
		}
		if n > 1 {
			return true
		}
	}
	return false
}

func goodStar(a fmtArg) bool {
	if a.Kind != "int" {
		return false
	}
	n := a.Go.(int)
	return n <= 1000000 && n >= -1000000
}

func goodPrecStar(a fmtArg) bool { return goodStar(a) && a.Go.(int) >= 0 }

// string arguments that themselves contain marker text would confuse the marker count
func literalMarkers(args []fmtArg) bool {
	for _, a := range args {
		if a.Kind == "string" && strings.Contains(a.Go.(string), "%") {
			return true
		}
	}
	return false
}

func drawArgs(c *fmtCase, rng *rand.Rand) []fmtArg {
	args := make([]fmtArg, c.Nargs)
	for i := range args {
		args[i] = randArg(rng, "ifsby")
	}
	for k, e := range c.T.Trace {
		if k < len(c.Dirs) && e.Arg >= 0 && e.Arg < len(args) {
			args[e.Arg] = randArg(rng, kindsForVerb(c.Dirs[k].Verb))
			// the verbs that read an int as a code point get code points of every UTF-8 length (and non-code-points) more often
			if v := c.Dirs[k].Verb; (v == "U" || v == "c" || v == "q") && args[e.Arg].Kind == "int" && rng.Intn(2) == 0 {
				args[e.Arg] = mkInt(fmtRunes[rng.Intn(len(fmtRunes))])
			}
		}
	}
	for _, e := range c.T.Trace {
		for _, p := range []int{e.Warg, e.Parg} {
			if p >= 0 && p < len(args) {
				if rng.Intn(8) == 0 {
					args[p] = randArg(rng, "ifsby") // BADWIDTH / BADPREC, or a huge int
				} else {
					args[p] = mkInt(fmtWidths[rng.Intn(len(fmtWidths))])
				}
			}
		}
	}
	return args
}

func init() {
	register("format", "C17: batches of spec-enumerated directive cases against fmt.Sprintf", func(args []string) error {
		runner, err := newFmtScriptRunner()
		if err != nil {
			return err
		}
		return runCases(120*time.Second, func(raw []byte) map[string]interface{} {
			var in struct {
				Batch   []fmtCase `json:"batch"`
				Seed    int64     `json:"seed"`
				Vectors int       `json:"vectors"`
				Script  int       `json:"script_every"`
				Sweep   string    `json:"sweep"` // a verb: deterministic flags x width x precision x value sweep
				// replay of one concrete instance
				Format string        `json:"format"`
				Args   []interface{} `json:"args"`
			}
			if err := json.Unmarshal(raw, &in); err != nil {
				return map[string]interface{}{"error": err.Error()}
			}
			stats := map[string]int{}
			var mism []fmtMismatch
			byKey := map[string]int{}
			add := func(ms []fmtMismatch) {
				for _, m := range ms {
					byKey[m.Key]++
					if byKey[m.Key] <= 3 {
						mism = append(mism, m)
					}
				}
			}
			if in.Format != "" {
				a, err := decodeArgs(in.Args)
				if err != nil {
					return map[string]interface{}{"error": err.Error()}
				}
				add(checkOne(nil, in.Format, in.Format, nil, a, runner, true, stats))
				return map[string]interface{}{"stats": stats, "mismatches": mism, "by_key": byKey}
			}
			rng := rand.New(rand.NewSource(in.Seed))
			if in.Sweep != "" {
				// deterministic sweep for one verb: flags x width x precision (incl. sizes beyond the formatter's scratch buffers) x every table value
				flagSets := [][]string{{}, {"#"}, {"-"}, {"0"}, {"+"}, {" "}, {"#", " "}, {"#", "+"}, {"-", "0"}, {"#", "0"}}
				widths := []int{0, 1, 7, 20, 64, 70, 130}
				precs := []int{0, -1, 1, 5, 20, 60, 64, 68, 130}
				var vals []fmtArg
				for _, n := range fmtInts {
					vals = append(vals, mkInt(n))
				}
				for _, n := range fmtRunes {
					vals = append(vals, mkInt(n))
				}
				for _, f := range fmtFloats {
					vals = append(vals, mkFloat(f))
				}
				for _, x := range fmtStrings {
					vals = append(vals, mkStr(x))
				}
				for _, b := range fmtBytesVals {
					vals = append(vals, mkBytes(b))
				}
				vals = append(vals, mkBool(true), mkBool(false))
				n := 0
				for _, fl := range flagSets {
					for _, wn := range widths {
						for _, pn := range precs {
							d := fmtDir{Flags: fl, W: "none", P: "none", Verb: in.Sweep, WNum: wn, PNum: pn}
							if wn > 0 {
								d.W = "num"
							}
							if pn != 0 {
								d.P = "num"
							}
							c := &fmtCase{Dirs: []fmtDir{d}, Nargs: 1}
							c.T.Trace = []fmtEntry{{Out: "value", Arg: 0, Warg: -1, Parg: -1}}
							for _, v := range vals {
								format, goFormat, targs := renderFormat(c, rng)
								n++
								add(checkOne(c, format, goFormat, targs, []fmtArg{v}, runner, n%97 == 0, stats))
							}
						}
					}
				}
				return map[string]interface{}{"stats": stats, "mismatches": mism, "by_key": byKey}
			}
			if in.Vectors == 0 {
				in.Vectors = 4
			}
			if in.Script == 0 {
				in.Script = 5
			}
			n := 0
			for ci := range in.Batch {
				c := &in.Batch[ci]
				for v := 0; v < in.Vectors; v++ {
					format, goFormat, targs := renderFormat(c, rng)
					a := drawArgs(c, rng)
					n++
					if sharedT(c, targs) {
						stats["skipped:T-operand-shared"]++
						continue
					}
					add(checkOne(c, format, goFormat, targs, a, runner, n%in.Script == 0, stats))
					for _, e := range c.T.Trace {
						stats["out:"+e.Out]++
					}
				}
			}
			keys := make([]string, 0, len(byKey))
			for k := range byKey {
				keys = append(keys, k)
			}
			sort.Strings(keys)
			return map[string]interface{}{"stats": stats, "mismatches": mism, "by_key": byKey}
		})
	})

	// arbitrary formats and arguments: a string or ErrStringLimit, never a panic, always terminating
	register("formatfuzz", "C17: arbitrary format strings and arguments terminate with a string or the limit error", func(args []string) error {
		return runCases(120*time.Second, func(raw []byte) map[string]interface{} {
			var in struct {
				Seed   int64 `json:"seed"`
				N      int   `json:"n"`
				MaxStr int   `json:"max_str"`
				// replay
				Format []int         `json:"format"`
				Args   []interface{} `json:"args"`
			}
			if err := json.Unmarshal(raw, &in); err != nil {
				return map[string]interface{}{"error": err.Error()}
			}
			old := tengo.MaxStringLen
			defer func() { tengo.MaxStringLen = old }()
			if in.MaxStr > 0 {
				tengo.MaxStringLen = in.MaxStr
			}
			stats := map[string]int{}
			var bad []map[string]interface{}
			try := func(format string, objs []tengo.Object, enc []interface{}) {
				var s string
				var err error
				var pan interface{}
				func() {
					defer func() { pan = recover() }()
					s, err = tengo.Format(format, objs...)
				}()
				key := ""
				switch {
				case pan != nil:
					key = "panic:" + firstWords(fmt.Sprint(pan))
				case err != nil && !errors.Is(err, tengo.ErrStringLimit):
					key = "error:" + firstWords(err.Error())
				case err == nil && len(s) > tengo.MaxStringLen && false:
					// the limit applies to the buffer growth steps; a result above the limit is judged below
				}
				if err != nil && errors.Is(err, tengo.ErrStringLimit) {
					stats["string_limit"]++
				} else if pan == nil && err == nil {
					stats["string"]++
				}
				if key != "" {
					stats["bad"]++
					if len(bad) < 5 {
						bad = append(bad, map[string]interface{}{"key": key, "format": bytesV([]byte(format)), "args": enc, "text": format})
					}
				}
			}
			if in.Format != nil {
				b := make([]byte, len(in.Format))
				for i, x := range in.Format {
					b[i] = byte(x)
				}
				var objs []tengo.Object
				for _, x := range in.Args {
					o, err := decodeValue(x)
					if err != nil {
						return map[string]interface{}{"error": err.Error()}
					}
					objs = append(objs, o)
				}
				try(string(b), objs, in.Args)
				return map[string]interface{}{"stats": stats, "bad": bad}
			}
			rng := rand.New(rand.NewSource(in.Seed))
			alphabet := []string{"%", "%", "%", "[", "]", "*", ".", "0", "1", "2", "9", "+", "-", "#", " ", "v", "T", "t", "b", "c", "d", "o", "O", "q", "x", "X", "U",
				"e", "E", "f", "F", "g", "G", "s", "z", "p", "w", "\xff", "é", "\x00", "a", "[1]", "[2]", "[0]", "[-1]", "[99999999999999999999]", "1000000", "999999", "1000001", "99999999999999999999", "%!"}
			began := time.Now()
			for i := 0; i < in.N; i++ {
				if i%512 == 0 && time.Since(began) > 70*time.Second {
					stats["stopped_early"] = i // a prefix of the seeded sequence: the verdict never depends on the machine's load
					break
				}
				var sb strings.Builder
				for k, n := 0, 1+rng.Intn(14); k < n; k++ {
					sb.WriteString(alphabet[rng.Intn(len(alphabet))])
				}
				na := rng.Intn(5)
				objs := make([]tengo.Object, na)
				enc := make([]interface{}, na)
				for j := range objs {
					objs[j] = fuzzObject(rng, 0)
					enc[j] = encodeValue(objs[j])
				}
				try(sb.String(), objs, enc)
			}
			return map[string]interface{}{"stats": stats, "bad": bad}
		})
	})
}

func firstWords(s string) string {
	if len(s) > 60 {
		s = s[:60]
	}
	return s
}

func fuzzObject(rng *rand.Rand, depth int) tengo.Object {
	switch k := rng.Intn(14); {
	case k < 3:
		return &tengo.Int{Value: append(fmtInts, fmtWidths...)[rng.Intn(len(fmtInts)+len(fmtWidths))]}
	case k == 3:
		return &tengo.Float{Value: fmtFloats[rng.Intn(len(fmtFloats))]}
	case k == 4:
		return &tengo.String{Value: fmtStrings[rng.Intn(len(fmtStrings))]}
	case k == 5:
		return mkBool(rng.Intn(2) == 0).Obj
	case k == 6:
		return &tengo.Bytes{Value: fmtBytesVals[rng.Intn(len(fmtBytesVals))]}
	case k == 7:
		return tengo.UndefinedValue
	case k == 8:
		return &tengo.Char{Value: rune(fmtInts[rng.Intn(len(fmtInts))])}
	case k == 9 && depth < 2:
		a := &tengo.Array{}
		for i, n := 0, rng.Intn(3); i < n; i++ {
			a.Value = append(a.Value, fuzzObject(rng, depth+1))
		}
		return a
	case k == 10 && depth < 2:
		m := &tengo.Map{Value: map[string]tengo.Object{}}
		for i, n := 0, rng.Intn(3); i < n; i++ {
			m.Value[fmtStrings[rng.Intn(len(fmtStrings))]] = fuzzObject(rng, depth+1)
		}
		return m
	case k == 11:
		return &tengo.Error{Value: &tengo.String{Value: "e"}}
	case k == 12:
		return &tengo.Time{Value: time.Unix(1700000000, 5)}
	case k == 13:
		return &tengo.ImmutableArray{Value: []tengo.Object{&tengo.Int{Value: 1}}}
	}
	return &tengo.Int{Value: 3}
}
