package main

import (
	"fmt"
	"math/rand"
)

// Family "modules": source modules and their importers.  Covers what an import
// expression yields (the export made immutable, undefined without export), that a
// module body sees only its own variables and the builtins, that every evaluation of
// import runs the body afresh, diamonds, top-level return in a module, export inside
// a function, and attempts to change an exported value.
func modulesPrograms(r *rand.Rand, n int) []*Program {
	var ps []*Program
	mod := func(name string, st ...*Node) Module { return Module{Name: name, Prog: &Program{Stmts: st}} }
	add := func(meta string, mods []Module, st ...*Node) {
		ps = append(ps, &Program{Stmts: st, Modules: mods, Meta: map[string]interface{}{"cell": meta}})
	}
	exports := []func() *Node{
		func() *Node { return Int(int64(r.Intn(9))) },
		func() *Node { return Str("s") },
		func() *Node { return Arr(Int(1), Arr(Int(2), Int(3))) },
		func() *Node { return Map([]string{"a", "b"}, []*Node{Int(1), Arr(Int(2))}) },
		func() *Node { return Fn([]string{"x"}, false, Ret(Bin("+", Id("x"), Int(1)))) },
		func() *Node { return Undef() },
		func() *Node { return ErrE(Str("e")) },
		func() *Node { return Imm(Arr(Int(1))) },
		// every expression form that can yield a container
		func() *Node { return Bin("+", Arr(Int(1), Int(2)), Arr(Int(3))) },
		func() *Node { return Bin("||", Undef(), Map([]string{"a", "b"}, []*Node{Int(1), Arr(Int(2))})) },
		func() *Node { return Bin("&&", Bool(true), Arr(Int(1), Arr(Int(2)))) },
		func() *Node { return Cond(Bool(true), Arr(Int(1), Int(2)), Int(0)) },
		func() *Node { return Call(Fn(nil, false, Ret(Map([]string{"a", "b"}, []*Node{Int(1), Arr(Int(2))})))) },
		func() *Node { return Idx(Arr(Arr(Int(5), Int(6)), Int(1)), Int(0)) },
		func() *Node { return Slice(Arr(Int(1), Int(2), Int(3)), Int(1), nil) },
		func() *Node { return Call(Id("copy"), Arr(Int(1), Arr(Int(2)))) },
		func() *Node { return Call(Id("append"), Arr(Int(1)), Arr(Int(2))) },
		func() *Node { return Sel(Map([]string{"a"}, []*Node{Arr(Int(1), Int(2))}), "a") },
	}
	for i, e := range exports {
		// plain import of every export kind; type and immutability observed
		add(fmt.Sprintf("export-kind-%d", i), []Module{mod("m", Def("v", e()), Export(Id("v")))},
			Def("x", Import("m")), Def("t", Call(Id("type_name"), Id("x"))),
			Def("ia", Call(Id("is_immutable_array"), Id("x"))), Def("im", Call(Id("is_immutable_map"), Id("x"))))
		// attempts to change the exported value (top level and one level down)
		add(fmt.Sprintf("export-mutate-%d", i), []Module{mod("m", Export(e()))},
			Def("x", Import("m")), Set("x", []*Node{Int(0)}, "=", Int(99)))
		add(fmt.Sprintf("export-mutate-sel-%d", i), []Module{mod("m", Export(e()))},
			Def("x", Import("m")), Set("x", []*Node{DotKey("a")}, "=", Int(99)))
		add(fmt.Sprintf("export-mutate-deep-%d", i), []Module{mod("m", Export(e()))},
			Def("x", Import("m")), Def("y", Idx(Id("x"), Int(1))), Set("y", []*Node{Int(0)}, "=", Int(99)), Def("z", Import("m")))
		add(fmt.Sprintf("export-mutate-deep-map-%d", i), []Module{mod("m", Export(e()))},
			Def("x", Import("m")), Def("y", Sel(Id("x"), "b")), Set("y", []*Node{Int(0)}, "=", Int(99)), Def("z", Import("m")))
	}
	add("no-export", []Module{mod("m", Def("a", Int(1)))}, Def("x", Import("m")))
	add("empty-module", []Module{mod("m")}, Def("x", Import("m")))
	add("top-level-return", []Module{mod("m", Def("a", Int(1)), If(nil, Bin("==", Id("a"), Int(1)), Blk(Ret(Int(5))), nil), Export(Int(6)))},
		Def("x", Import("m")))
	add("export-in-func", []Module{mod("m", Def("f", Fn(nil, false, Export(Int(1)))), Export(Call(Id("f"))))}, Def("x", Import("m")))
	add("export-in-block", []Module{mod("m", If(nil, Bool(true), Blk(Export(Int(7))), nil), Export(Int(8)))}, Def("x", Import("m")))
	add("export-in-main", nil, Def("a", Int(1)), Export(Bin("+", Int(1), Str("x"))), Def("b", Int(2)))
	// isolation: the module must not see (or change) the importer's variables
	add("isolation-read", []Module{mod("m", Export(Id("secret")))}, Def("secret", Int(42)), Def("x", Import("m")))
	add("isolation-write", []Module{mod("m", Set("counter", nil, "=", Int(1)), Export(Int(0)))}, Def("counter", Int(5)), Def("x", Import("m")))
	add("isolation-same-name", []Module{mod("m", Def("a", Int(100)), Set("a", nil, "+=", Int(1)), Export(Id("a")))},
		Def("a", Int(1)), Def("x", Import("m")), Def("y", Id("a")))
	add("isolation-func-scope", []Module{mod("m", Export(Fn(nil, false, Ret(Id("hidden")))))},
		Def("hidden", Int(1)), Def("f", Import("m")), Def("x", Call(Id("f"))))
	add("builtins-visible", []Module{mod("m", Export(Call(Id("len"), Arr(Int(1), Int(2)))))}, Def("x", Import("m")))
	add("shadowed-builtin-not-inherited", []Module{mod("m", Export(Call(Id("len"), Arr(Int(1), Int(2)))))},
		Def("len", Fn([]string{"x"}, false, Ret(Int(-1)))), Def("x", Import("m")), Def("y", Call(Id("len"), Arr())))
	// each evaluation of import runs the body afresh
	counter := func() Module {
		return mod("cnt", Def("n", Int(0)), Export(Map([]string{"inc", "get"}, []*Node{
			Fn(nil, false, Set("n", nil, "+=", Int(1)), Ret(Id("n"))), Fn(nil, false, Ret(Id("n")))})))
	}
	add("fresh-each-import", []Module{counter()},
		Def("a", Import("cnt")), Def("b", Import("cnt")), Def("r1", Call(Sel(Id("a"), "inc"))), Def("r2", Call(Sel(Id("a"), "inc"))),
		Def("r3", Call(Sel(Id("b"), "inc"))), Def("r4", Call(Sel(Id("a"), "get"))))
	add("fresh-in-loop", []Module{counter()},
		Def("out", Arr()), For(Def("i", Int(0)), Bin("<", Id("i"), Int(3)), IncDec("i", nil, "++"),
			Blk(Def("c", Import("cnt")), ExprS(Call(Sel(Id("c"), "inc"))), Set("out", nil, "=", Call(Id("append"), Id("out"), Call(Sel(Id("c"), "inc")))))))
	add("fresh-in-func", []Module{counter()},
		Def("mk", Fn(nil, false, Ret(Import("cnt")))), Def("a", Call(Id("mk"))), Def("b", Call(Id("mk"))),
		ExprS(Call(Sel(Id("a"), "inc"))), Def("r", Arr(Call(Sel(Id("a"), "get")), Call(Sel(Id("b"), "get")))))
	// a module whose top-level function calls itself and keeps per-instance state: each import is a new instance even when the
	// instances are created at the same stack depth, one after the other (what a previous activation left in the frame must not matter)
	walker := func() Module {
		return mod("wk", Def("n", Int(0)),
			Def("walk", Fn([]string{"k"}, false, Set("n", nil, "+=", Int(1)), If(nil, Bin(">", Id("k"), Int(0)), Blk(ExprS(Call(Id("walk"), Bin("-", Id("k"), Int(1))))), nil), Ret(Id("n")))),
			Export(Map([]string{"walk", "count"}, []*Node{Id("walk"), Fn(nil, false, Ret(Id("n")))})))
	}
	add("fresh-recursive-instances", []Module{walker()},
		Def("a", Import("wk")), Def("b", Import("wk")), Def("r1", Call(Sel(Id("a"), "walk"), Int(3))), Def("r2", Call(Sel(Id("a"), "count"))), Def("r3", Call(Sel(Id("b"), "count"))),
		Def("r4", Call(Sel(Id("b"), "walk"), Int(1))), Def("r5", Call(Sel(Id("a"), "count"))))
	add("fresh-recursive-instances-in-func", []Module{walker()},
		Def("mk", Fn(nil, false, Ret(Import("wk")))), Def("a", Call(Id("mk"))), Def("r1", Call(Sel(Id("a"), "walk"), Int(2))), Def("b", Call(Id("mk"))),
		Def("r2", Arr(Call(Sel(Id("a"), "count")), Call(Sel(Id("b"), "count")), Call(Sel(Id("b"), "walk"), Int(0)), Call(Sel(Id("a"), "count")))))
	add("fresh-recursive-instances-in-loop", []Module{walker()},
		Def("out", Arr()), For(Def("i", Int(0)), Bin("<", Id("i"), Int(3)), IncDec("i", nil, "++"),
			Blk(Def("c", Import("wk")), Set("out", nil, "=", Call(Id("append"), Id("out"), Call(Sel(Id("c"), "walk"), Id("i")), Call(Sel(Id("c"), "count")))))))
	// values derived from an exported container by every operator and builtin that yields a container, then written: the export is
	// untouched (what the importer holds after the write is compared with a second import - the body runs afresh - and with the first)
	derive := []struct {
		name string
		mk   func(x *Node) *Node
	}{
		{"+[]", func(x *Node) *Node { return Bin("+", x, Arr()) }}, {"+imm[]", func(x *Node) *Node { return Bin("+", x, Imm(Arr())) }},
		{"+import(none)", func(x *Node) *Node { return Bin("+", x, Import("none")) }}, {"+[9]", func(x *Node) *Node { return Bin("+", x, Arr(Int(9))) }},
		{"[]+", func(x *Node) *Node { return Bin("+", Arr(), x) }}, {"imm[]+", func(x *Node) *Node { return Bin("+", Imm(Arr()), x) }},
		{"[:]", func(x *Node) *Node { return Slice(x, nil, nil) }}, {"[0:]", func(x *Node) *Node { return Slice(x, Int(0), nil) }},
		{"append()", func(x *Node) *Node { return Call(Id("append"), x, Int(9)) }}, {"append(spread [])", func(x *Node) *Node { return CallSpread(Id("append"), x, Arr()) }},
		{"copy", func(x *Node) *Node { return Call(Id("copy"), x) }}, {"||", func(x *Node) *Node { return Bin("||", x, Arr()) }},
		{"?:", func(x *Node) *Node { return Cond(Bool(true), x, Arr()) }}, {"splice-copy", func(x *Node) *Node { return Call(Id("splice"), Call(Id("copy"), x), Int(0), Int(0)) }},
	}
	for _, d := range derive {
		add("export-derive-write "+d.name, []Module{mod("m", Export(Arr(Int(1), Arr(Int(2), Int(3)), Int(4)))), mod("none", Export(Arr()))},
			Def("d", Import("m")), Def("s", d.mk(Id("d"))), Def("t", Call(Id("type_name"), Id("s"))),
			If(nil, Call(Id("is_array"), Id("s")), Blk(Set("s", []*Node{Int(0)}, "=", Int(99))), nil),
			Def("r", Arr(Idx(Id("d"), Int(0)), Idx(Import("m"), Int(0)), Idx(Idx(Id("d"), Int(1)), Int(0)))))
	}
	// diamond and chain
	add("diamond", []Module{
		mod("base", Export(Map([]string{"v"}, []*Node{Int(7)}))),
		mod("left", Def("b", Import("base")), Export(Bin("+", Sel(Id("b"), "v"), Int(1)))),
		mod("right", Def("b", Import("base")), Export(Bin("*", Sel(Id("b"), "v"), Int(2)))),
	}, Def("l", Import("left")), Def("rr", Import("right")), Def("s", Bin("+", Id("l"), Id("rr"))))
	add("chain", []Module{
		mod("c3", Export(Int(3))), mod("c2", Export(Bin("+", Import("c3"), Int(10)))), mod("c1", Export(Bin("+", Import("c2"), Int(100)))),
	}, Def("x", Import("c1")))
	add("module-error", []Module{mod("m", Def("a", Int(1)), Def("b", Bin("+", Id("a"), Str("x"))), Export(Id("b")))},
		Def("before", Int(1)), Def("x", Import("m")), Def("after", Int(2)))
	add("module-error-in-func", []Module{mod("m", Export(Fn([]string{"q"}, false, Def("t", Int(1)), Ret(Bin("/", Id("q"), Int(0))))))},
		Def("f", Import("m")), Def("g", Fn([]string{"z"}, false, Ret(Bin("+", Call(Id("f"), Id("z")), Int(1))))), Def("x", Call(Id("g"), Int(4))))
	add("unknown-module", nil, Def("x", Import("nope")))
	add("import-in-expression", []Module{mod("m", Export(Arr(Int(1), Int(2), Int(3))))},
		Def("x", Idx(Import("m"), Int(1))), Def("y", Call(Id("len"), Import("m"))))
	// random module bodies built by the random generator, exporting a map of their variables
	for i := 0; i < n; i++ {
		g := &gen{r: r, o: genOpts{Errors: 0.005, MaxStmts: 5, Closures: true}, fuel: 50 + r.Intn(60)}
		g.push()
		var st []*Node
		for k, m := 0, 2+r.Intn(4); k < m; k++ {
			st = append(st, g.stmt()...)
		}
		var keys []string
		var vals []*Node
		for _, v := range g.scopes[0] {
			if v.kind != kFn {
				keys = append(keys, v.name)
				vals = append(vals, Id(v.name))
			}
		}
		st = append(st, Export(Map(keys, vals)))
		g2 := &gen{r: r, o: genOpts{Errors: 0.005, MaxStmts: 4, Closures: true}, fuel: 40 + r.Intn(40), nameN: 500}
		g2.push()
		main := []*Node{Def("md", Import("rm"))}
		for k, m := 0, 1+r.Intn(3); k < m; k++ {
			main = append(main, g2.stmt()...)
		}
		if len(keys) > 0 {
			main = append(main, Def("got", Sel(Id("md"), keys[r.Intn(len(keys))])))
		}
		ps = append(ps, &Program{Stmts: main, Modules: []Module{{Name: "rm", Prog: &Program{Stmts: st}}}, Meta: map[string]interface{}{"cell": "random-module"}})
	}
	return ps
}

func init() {
	families["modules"] = func(seed int64, n int) []*Program {
		return modulesPrograms(rand.New(rand.NewSource(seed)), n)
	}
}
