--------------------------- MODULE FormatDirective ---------------------------
(***************************************************************************)
(* The directive grammar of format()/sprintf (docs/formatting.md, "derived *)
(* from Go's") and the argument bookkeeping of Go's fmt, which the         *)
(* property names as the reference: for a format made of directives        *)
(*    % flags [index] (width or star) [. [index] (prec or star)] [index] verb *)
(* the spec computes the *consumption trace*: which argument supplies the  *)
(* width, the precision and the value of every directive, and which error  *)
(* marker (BADINDEX, MISSING, BADWIDTH, BADPREC, NOVERB, EXTRA) results.   *)
(* It is a transcription of doPrintf's argNum / afterIndex / reordered /   *)
(* goodArgNum logic on the abstract directive structure.                   *)
(*                                                                         *)
(* TLC enumerates every single directive of the grammar (all flag subsets, *)
(* width/precision forms, index placements valid / out of range / malformed*)
(* and verbs) and two-directive formats over a reduced alphabet, with the  *)
(* number of arguments set to under-, exactly- and over-supply.  Each case *)
(* is rendered to a concrete format string and argument list by the        *)
(* harness (argument types chosen from the trace: ints where '*' consumes) *)
(* and the real formatter's text must equal Go's fmt.Sprintf - except the  *)
(* rendering of surplus arguments, which the property excludes and the     *)
(* trace identifies.                                                       *)
(***************************************************************************)
EXTENDS Integers, Sequences, FiniteSets, TLC, Json

\* an index is NoIdx (absent), BadIdx (malformed: "[x]") or a 1-based number
NoIdx == 0
BadIdx == -1
Wids == {"none", "num", "star"}
Precs == {"none", "dot", "num", "star"}     \* "dot": a period with no number

Dir(f, i1, w, i2, p, i3, v) == [flags |-> f, i1 |-> i1, w |-> w, i2 |-> i2, p |-> p, i3 |-> i3, verb |-> v]

\* argNumber(): explicit index at this point?  returns [argNum, after, good, reordered]
ArgNumber(argNum, idx, nargs, good, reord) ==
  IF idx = NoIdx THEN [a |-> argNum, after |-> FALSE, good |-> good, reord |-> reord]
  ELSE IF idx = BadIdx THEN [a |-> argNum, after |-> FALSE, good |-> FALSE, reord |-> TRUE]
  ELSE IF idx - 1 < 0 \/ idx - 1 >= nargs THEN [a |-> argNum, after |-> TRUE, good |-> FALSE, reord |-> TRUE]   \* well formed but out of range: still "an index"
  ELSE [a |-> idx - 1, after |-> TRUE, good |-> good, reord |-> TRUE]

\* one directive: state [a (argNum), reord]; returns the trace entry and the new state
\* A period is a precision only if something follows it: a format ending in "%5." has the verb '.'
TrailingDot(d) == d.p = "dot" /\ d.i2 = NoIdx /\ d.i3 = NoIdx /\ d.verb = "none"
Step(d0, st, nargs, intArgs) ==   \* intArgs: set of 0-based argument positions holding ints
  LET d == IF TrailingDot(d0) THEN [d0 EXCEPT !.p = "none", !.verb = "."] ELSE d0
      n1 == ArgNumber(st.a, d.i1, nargs, TRUE, st.reord)
      \* width
      wStar == d.w = "star"
      wArg == IF wStar /\ n1.a < nargs THEN n1.a ELSE -1
      badWidth == wStar /\ (n1.a >= nargs \/ n1.a \notin intArgs)
      aAfterW == IF wStar /\ n1.a < nargs THEN n1.a + 1 ELSE n1.a
      afterW == IF wStar THEN FALSE ELSE n1.after
      goodW == IF ~wStar /\ n1.after /\ d.w = "num" THEN FALSE ELSE n1.good        \* "%[3]2d"
      \* precision
      hasDot == d.p # "none"
      goodDot == IF hasDot /\ afterW THEN FALSE ELSE goodW                           \* "%[3].2d"
      n2 == IF hasDot THEN ArgNumber(aAfterW, d.i2, nargs, goodDot, n1.reord)
            ELSE [a |-> aAfterW, after |-> afterW, good |-> goodDot, reord |-> n1.reord]
      pStar == d.p = "star"
      pArg == IF pStar /\ n2.a < nargs THEN n2.a ELSE -1
      badPrec == pStar /\ (n2.a >= nargs \/ n2.a \notin intArgs)
      aAfterP == IF pStar /\ n2.a < nargs THEN n2.a + 1 ELSE n2.a
      afterP == IF pStar THEN FALSE ELSE n2.after
      \* index before the verb (only if none is pending)
      n3 == IF ~afterP THEN ArgNumber(aAfterP, d.i3, nargs, n2.good, n2.reord)
            ELSE [a |-> aAfterP, after |-> afterP, good |-> n2.good, reord |-> n2.reord]
      ignoredI3 == afterP /\ d.i3 # NoIdx      \* "%[1][2]d": the second bracket is then read as the verb '['
      verb == IF ignoredI3 THEN "[" ELSE d.verb
      outcome == IF verb = "none" THEN "NOVERB"
                 ELSE IF verb = "%" THEN "percent"
                 ELSE IF ~n3.good THEN "BADINDEX"
                 ELSE IF n3.a >= nargs THEN "MISSING"
                 ELSE "value"
      consumed == outcome = "value"
  IN [entry |-> [out |-> outcome, arg |-> IF consumed THEN n3.a ELSE -1, warg |-> wArg, parg |-> pArg,
                 badwidth |-> badWidth, badprec |-> badPrec, oddindex |-> ignoredI3],
      st |-> [a |-> IF consumed THEN n3.a + 1 ELSE n3.a, reord |-> n3.reord]]

RECURSIVE Run(_, _, _, _, _)
Run(dirs, i, st, nargs, intArgs) ==
  IF i > Len(dirs) THEN [trace |-> <<>>, st |-> st]
  ELSE LET s == Step(dirs[i], st, nargs, intArgs)
           rest == IF dirs[i].verb = "none" THEN [trace |-> <<>>, st |-> s.st]      \* the format ends inside this directive
                   ELSE Run(dirs, i + 1, s.st, nargs, intArgs)
       IN [trace |-> <<s.entry>> \o rest.trace, st |-> rest.st]

Trace(dirs, nargs, intArgs) ==
  LET r == Run(dirs, 1, [a |-> 0, reord |-> FALSE], nargs, intArgs)
  IN [trace |-> r.trace, extra |-> ~r.st.reord /\ r.st.a < nargs]

\* ---- enumeration -------------------------------------------------------------
CONSTANTS Thorough,
          Mode,        \* "single" (every directive) | "quick" (reduced flag/index alphabet) | "double"
          Part, NParts \* the enumeration is split by verb over NParts TLC processes
AllFlags == {"+", "-", "#", " ", "0"}
FlagSets == IF Mode = "single" THEN SUBSET AllFlags
            ELSE {{}, {"-"}, {"+"}, {"#"}, {"0"}, {" "}, {"-", "0"}, {"+", "#", " "}}
VerbSeq == <<"v", "T", "t", "b", "c", "d", "o", "O", "q", "x", "X", "U", "e", "E", "f", "F", "g", "G", "s", "z", "%", "none">>
PartIdx == {j \in 1..Len(VerbSeq) : j % NParts = Part}
Verbs == {VerbSeq[j] : j \in PartIdx}
ReducedVerbSeq == <<"d", "s", "v", "%", "none", "x", "q", "g">>
ReducedVerbs1 == {ReducedVerbSeq[j] : j \in {k \in 1..Len(ReducedVerbSeq) : k % NParts = Part}}
ReducedVerbs == {ReducedVerbSeq[j] : j \in 1..5}

I1s == IF Mode = "single" THEN {NoIdx, BadIdx, 1, 2, 9} ELSE {NoIdx, BadIdx, 2}
I2s == IF Mode = "single" THEN {NoIdx, 1, 9} ELSE {NoIdx, 1}
I3s == IF Mode = "single" THEN {NoIdx, BadIdx, 1, 3, 9} ELSE {NoIdx, BadIdx, 1, 9}
WellFormedDir(d) == (d.p = "none" => d.i2 = NoIdx)          \* an index after the period needs the period
Singles == {d \in {Dir(f, i1, w, i2, p, i3, v) :
              f \in FlagSets, i1 \in I1s, w \in Wids, i2 \in I2s, p \in Precs, i3 \in I3s, v \in Verbs} : WellFormedDir(d)}
Reduced(vs, fs) == {Dir(f, i1, w, NoIdx, p, i3, v) :
              f \in fs, i1 \in {NoIdx, 2}, w \in {"none", "star"}, p \in {"none", "star"}, i3 \in {NoIdx, 1, BadIdx}, v \in vs}

VARIABLE c
Init == c = 0
Next == UNCHANGED c
Spec == Init /\ [][Next]_c

Emit1 == (Mode \in {"single", "quick"}) =>
   \A d \in Singles : \A nargs \in 0..3 :
      PrintT(<<"FMT", ToJson([dirs |-> <<d>>, nargs |-> nargs, t |-> Trace(<<d>>, nargs, 0..(nargs - 1))])>>)
Emit2 == (Mode = "double") =>
   \A d1 \in Reduced(ReducedVerbs1, IF Thorough THEN {{}, {"-"}} ELSE {{}}) : \A d2 \in Reduced(ReducedVerbs, {{}}) : \A nargs \in 0..4 :
      PrintT(<<"FMT", ToJson([dirs |-> <<d1, d2>>, nargs |-> nargs, t |-> Trace(<<d1, d2>>, nargs, 0..(nargs - 1))])>>)

\* sanity of the transcription itself (checked by TLC on every enumerated case):
\* an argument is never consumed beyond the supplied ones, and a directive that renders a value
\* has a good index state.
TraceSane == \A d \in Singles : \A nargs \in 0..3 :
   LET t == Trace(<<d>>, nargs, 0..(nargs - 1)).trace[1]
   IN /\ t.arg < nargs /\ t.warg < nargs /\ t.parg < nargs
      /\ (t.out = "value" => t.arg >= 0)
      /\ (d.verb = "%" /\ ~t.oddindex => t.out = "percent")
=============================================================================
