package main

import (
	"context"
	"encoding/json"
	"errors"
	"fmt"
	"time"

	"github.com/d5/tengo/v2"
)

// hostile: run a (deliberately hostile) program through Compiled.RunContext, then keep using the
// same Compiled object the way an embedder would: GetAll / Get (+ Value, String), Set, RunContext
// again, Clone + RunContext.  Every step reports ok / err / panic; nothing may panic or hang.
func guarded(f func() error) (res string) {
	defer func() {
		if r := recover(); r != nil {
			res = "panic:" + fmt.Sprint(r)
		}
	}()
	if err := f(); err != nil {
		return "err"
	}
	return "ok"
}

func hasCycle(o tengo.Object) bool {
	var walk func(v V) bool
	walk = func(v V) bool {
		if v["k"] == "cycle" {
			return true
		}
		for _, x := range v {
			switch x := x.(type) {
			case V:
				if walk(x) {
					return true
				}
			case []interface{}:
				for _, e := range x {
					switch e := e.(type) {
					case V:
						if walk(e) {
							return true
						}
					case []interface{}:
						for _, f := range e {
							if fv, ok := f.(V); ok && walk(fv) {
								return true
							}
						}
					}
				}
			}
		}
		return false
	}
	return walk(encodeValue(o))
}

func hostileHandle(raw []byte) map[string]interface{} {
	var pc progCase
	if err := json.Unmarshal(raw, &pc); err != nil {
		return map[string]interface{}{"error": err.Error()}
	}
	out := map[string]interface{}{}
	s, files, err := buildScript(&pc)
	if err != nil {
		return map[string]interface{}{"error": err.Error()}
	}
	var c *tengo.Compiled
	if pc.Path == "script-bg" || pc.Path == "script-timeout" {
		// the context-aware entry point of Script: compiles and runs; the Compiled object it returns is then used further
		var o V
		r := guarded(func() error {
			ctx := context.Background()
			if pc.Path == "script-timeout" {
				var cancel context.CancelFunc
				ctx, cancel = context.WithTimeout(ctx, 3*time.Second)
				defer cancel()
			}
			var e error
			c, e = s.RunContext(ctx)
			if e != nil {
				if errors.Is(e, context.DeadlineExceeded) {
					o = V{"k": "timeout"}
				} else {
					o = V{"k": "runtime_error", "kind": classifyRuntime(e), "msg": clip(e.Error())}
				}
			} else {
				o = V{"k": "ok"}
			}
			return e
		})
		out["compile"] = "ok"
		out["run"] = r
		out["outcome"] = o
		out["path"] = pc.Path
		if c == nil {
			return out // Script.RunContext returns no object when the run failed
		}
		out["getall"] = guarded(func() error { _ = encodeGlobals(c); return nil })
		r2 := guarded(func() error {
			ctx, cancel := context.WithTimeout(context.Background(), 3*time.Second)
			defer cancel()
			return c.RunContext(ctx)
		})
		out["rerun"] = r2
		return out
	}
	cres := guarded(func() error { var e error; c, e = s.Compile(); return e })
	out["compile"] = cres
	if cres != "ok" {
		if cres == "err" {
			_, e := s.Compile()
			out["compile_kind"] = classifyCompile(e.Error())
		}
		return out
	}
	to := time.Duration(pc.TimeoutMs) * time.Millisecond
	if to == 0 {
		to = 3 * time.Second
	}
	run := func(c *tengo.Compiled) (string, V) {
		var o V
		r := guarded(func() error {
			ctx, cancel := context.WithTimeout(context.Background(), to)
			defer cancel()
			if pc.Path == "compiled-bg" {
				ctx = context.Background() // never cancellable: only for programs that end by themselves
			}
			if pc.Path == "compiled-cancelled" {
				cancel() // the context is done before the call: the call must come back at once, whatever the script would do
			}
			e := c.RunContext(ctx)
			if e != nil {
				if errors.Is(e, context.DeadlineExceeded) {
					o = V{"k": "timeout"}
				} else {
					msg := e.Error()
					if len(msg) > 300 {
						msg = msg[:300]
					}
					o = V{"k": "runtime_error", "kind": classifyRuntime(e), "msg": msg, "positions": parsePositions(e.Error(), files)}
				}
			} else {
				o = V{"k": "ok"}
			}
			return e
		})
		return r, o
	}
	r1, o1 := run(c)
	out["run"] = r1
	out["outcome"] = o1
	if o1 != nil && o1["k"] == "ok" {
		g := guarded(func() error { o1["g"] = encodeGlobals(c); return nil })
		if g != "ok" {
			out["encode_globals"] = g
		}
	}
	// a container that contains itself (directly or through other containers) among the globals - block variables included: what
	// follows traverses every global, and the traversal of such a value is the recorded defect; say so before trying
	if gl, _ := c.VerifGlobals(); globalsCyclic(gl) {
		emit(map[string]interface{}{"note": pc.ID, "cyclic_globals": true})
		flushOut()
	}
	// follow-ups
	var names []string
	out["getall"] = guarded(func() error {
		for _, v := range c.GetAll() {
			names = append(names, v.Name())
		}
		return nil
	})
	// the Variables handed out by GetAll are used directly (type, text, typed accessors), also for globals the aborted run never reached
	out["getall_use"] = guarded(func() error {
		for _, v := range c.GetAll() {
			_ = v.ValueType()
			_ = v.IsUndefined()
			if v.Object() == nil {
				return fmt.Errorf("GetAll handed out a Variable without an object: %s", v.Name())
			}
			if hasCycle(v.Object()) {
				continue
			}
			_ = v.String()
			_ = v.Value()
			_, _, _, _ = v.Int(), v.Float(), v.Bool(), v.Char()
			_, _, _ = v.Array(), v.Map(), v.Bytes()
			_ = v.Error()
		}
		return nil
	})
	reads := map[string]string{}
	cyclic := false
	for _, n := range names {
		reads[n] = guarded(func() error {
			v := c.Get(n)
			_ = v.ValueType()
			_ = c.IsDefined(n)
			// a value that contains itself cannot be rendered or converted by anybody; creating one is
			// not the script taking the host down, traversing it inside the VM is (see the run above)
			if hasCycle(v.Object()) {
				cyclic = true
				return nil
			}
			_ = v.Value()
			_ = v.String()
			return nil
		})
	}
	out["reads"] = reads
	out["cyclic_global"] = cyclic
	if len(names) > 0 {
		out["set"] = guarded(func() error { return c.Set(names[0], 1) })
	}
	out["set_unknown"] = guarded(func() error { return c.Set("no_such_variable", 1) })
	if len(pc.Repair) > 0 {
		// the embedder repairs the input after a failed run: the same object must then run to completion
		for _, kv := range pc.Repair {
			name, _ := kv[0].(string)
			v, err := decodeValue(kv[1])
			if err != nil {
				return map[string]interface{}{"error": err.Error()}
			}
			out["repair_set"] = guarded(func() error { return c.Set(name, v) })
		}
		rr, ro := run(c)
		out["repaired_run"] = rr
		out["repaired_outcome"] = ro
		if ro != nil && ro["k"] == "ok" {
			ro["g"] = encodeGlobals(c)
		}
		return out
	}
	r2, o2 := run(c)
	out["rerun"] = r2
	out["rerun_outcome"] = o2
	var cl *tengo.Compiled
	if cyclic {
		return out // Clone copies the globals deeply
	}
	out["clone"] = guarded(func() error { cl = c.Clone(); return nil })
	if cl != nil {
		r3, _ := run(cl)
		out["clone_run"] = r3
	}
	return out
}

func init() {
	register("hostile", "run hostile programs through RunContext and keep using the Compiled object", func(args []string) error {
		return runCases(30*time.Second, hostileHandle)
	})
}

// globalsCyclic reports whether a container is reachable from itself (arrays, maps, their immutable forms, error payloads).
func globalsCyclic(roots []tengo.Object) bool {
	onPath := map[tengo.Object]bool{}
	done := map[tengo.Object]bool{}
	var visit func(o tengo.Object) bool
	visit = func(o tengo.Object) bool {
		var kids []tengo.Object
		switch x := o.(type) {
		case *tengo.Array:
			kids = x.Value
		case *tengo.ImmutableArray:
			kids = x.Value
		case *tengo.Map:
			for _, v := range x.Value {
				kids = append(kids, v)
			}
		case *tengo.ImmutableMap:
			for _, v := range x.Value {
				kids = append(kids, v)
			}
		case *tengo.Error:
			kids = []tengo.Object{x.Value}
		default:
			return false
		}
		if onPath[o] {
			return true
		}
		if done[o] {
			return false
		}
		onPath[o] = true
		for _, k := range kids {
			if k != nil && visit(k) {
				return true
			}
		}
		onPath[o] = false
		done[o] = true
		return false
	}
	for _, r := range roots {
		if r != nil && visit(r) {
			return true
		}
	}
	return false
}
