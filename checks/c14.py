"""C14 Run-time errors point at the statement that failed.

E: TengoSem records, for a run-time error, the innermost executing statement and the stack
   of call-site statements (it has no instruction offsets, source maps or frames).
R: the error text of RunContext; the positions after each 'at' are converted to byte
   offsets and must lie inside the extent of the predicted statement (failing location)
   and of the statements containing each active call, innermost first.  Extents come from
   the harness's own printer.  The twin compiled without dead-code elimination must
   report the same positions; sentinel errors must stay recognisable by errors.Is.

E2: SourcePos.tla - the file set every reported location goes through (disjoint position ranges per
   file, line tables, the LastFile cache in front of the binary search) as a state machine, with the
   invariants: the lookup computes the declarative meaning of a position whatever the cache holds,
   ranges disjoint, positions ordered like (line, column), line starts are column 1.
R2: one witness history per (state, mutating call) edge replayed on a real parser.SourceFileSet,
   then every query of the spec's answer table asked in several orders (every ordered pair of
   positions: the first lookup loads the cache).
"""
import json

import c06
import semcmp
import semlib
import vlib


def self_recursive(p):
    """True if some function literal bound to a name calls that name in tail position (the tail-call rule may then drop frames)."""
    nodes = p["nodes"]
    for n in nodes:
        if n["t"] == "def" and n.get("isfn"):
            name = n["name"]
            stack = [n["e"]]
            while stack:
                k = stack.pop()
                if not k:
                    continue
                nd = nodes[k - 1]
                # only a self call in tail position re-uses its frame: the returned expression itself, the right operand of || / && that is
                # the returned expression, or a call used as a statement (it may be the last one)
                def is_self(j):
                    c = nodes[j - 1]
                    return c["t"] == "call" and nodes[c["f"] - 1]["t"] == "id" and nodes[c["f"] - 1]["name"] == name

                def tailpos(j):
                    if not j:
                        return False
                    c = nodes[j - 1]
                    if is_self(j):
                        return True
                    if c["t"] == "bin" and c.get("op") in ("||", "&&"):
                        return tailpos(c.get("r"))
                    return False
                if nd["t"] == "ret" and tailpos(nd.get("e")):
                    return True
                if nd["t"] == "expr" and nd.get("e") and is_self(nd["e"]):
                    return True
                for key, v in nd.items():
                    if key in ("t", "name", "op", "v", "q", "c", "b", "keys", "params", "k", "key", "isfn", "va", "spread", "root"):
                        continue
                    if isinstance(v, int):
                        stack.append(v)
                    elif isinstance(v, list):
                        stack.extend(x for x in v if isinstance(x, int))
    return False


def check_positions(p, model, real):
    """Returns None if fine, else a description."""
    pos = real.get("positions") or []
    if not pos:
        return "no position reported"
    if any(q["off"] < 0 for q in pos):
        return "position outside its file: %s" % pos
    ext = p["ext"]
    nf = p["nodefile"]
    srcs = {"(main)": p["src"]}
    for m in p.get("mods", []):
        srcs[m["name"]] = m["src"]
    if model["stmt"] == 0:
        return None

    def inside(q, node):
        return q["file"] == nf[node - 1] and ext[node - 1][0] <= q["off"] <= ext[node - 1][1]

    def text(node):
        return srcs[nf[node - 1]][ext[node - 1][0]:ext[node - 1][1]]
    if not inside(pos[0], model["stmt"]):
        return "failing location %s:%d:%d is outside the failing statement %r (file %s)" % (
            pos[0]["file"], pos[0]["line"], pos[0]["col"], text(model["stmt"]), nf[model["stmt"] - 1])
    return check_calls(p, model, pos, inside, text)


def check_calls(p, model, pos, inside, text):
    calls = model["calls"]
    rest = pos[1:]
    if not self_recursive(p):
        if len(rest) != len(calls):
            return "trace has %d call entries, %d calls are active" % (len(rest), len(calls))
        for q, c in zip(rest, calls):
            if not inside(q, c):
                return "trace entry %s:%d:%d is outside the statement containing the call %r" % (
                    q["file"], q["line"], q["col"], text(c))
        return None
    # self recursion: a tail call replaces its frame, so the trace is a subsequence of the active calls
    j = 0
    for q in rest:
        while j < len(calls) and not inside(q, calls[j]):
            j += 1
        if j >= len(calls):
            return "trace entry %d:%d matches no active call" % (q["line"], q["col"])
        j += 1
    return None


def run(ck):
    quick = ck.quick()
    n = 400 if quick else 10000
    progs = []
    for fam, k in (("errs", n), ("dce", n // 4), ("random", n // 2)):
        for p in semlib.generate(ck, fam, k):
            p["id"] = len(progs) + 1
            p["family"] = fam
            progs.append(p)
    outs = semlib.tlc_outcomes(ck, progs, njobs=12)
    real = semlib.real_outcomes(ck, progs, nproc=8)
    twin = semlib.real_outcomes(ck, progs, nproc=8, extra={"nodce": True})
    # the same programs through another API path (Clone + ReplaceBuiltinModule, which copies the bytecode) and with the host
    # function's error wrapped in the host's own error type: the failure must be reported identically
    via = semlib.real_outcomes(ck, progs, nproc=8, extra={"via": "clone-replace"})
    hostp = [p for p in progs if "hostfail" in p["src"]]
    wrapped = {m: semlib.real_outcomes(ck, hostp, nproc=8, extra={"hosterr": m}) for m in ("wrapnum", "wraptype")}
    nerr = 0
    kinds = {}
    depth = {}
    for p in progs:
        r = real[p["id"]]
        ms = outs[p["id"]]
        ck.evaluations += 1
        if r["k"] != "runtime_error":
            continue
        v, det = semcmp.compare(ms, r)
        if v != "agree":
            if v == "disagree":
                ck.violation("sem", "outcome disagrees with TengoSem: %s\n%s" % (det, p["src"]), {"program": p, "model": ms, "real": r})
            continue
        cands = [m for m in ms if m["k"] == "runtime_error" and m["kind"] == r["kind"]]
        problems = [check_positions(p, m, r) for m in cands]
        if all(problems):
            ck.violation("pos:" + r["kind"], "%s\n%s\n%s" % (problems[0], r["msg"], p["src"]), {"program": p, "model": cands, "real": r})
            continue
        bad_sent = [k for k, v in (r.get("sentinels") or {}).items() if v["text"] != v["is"]]
        if bad_sent:
            ck.violation("sentinel:" + bad_sent[0], "error names %s but errors.Is does not recognise it (or vice versa): %s\n%s" % (
                bad_sent[0], r["msg"], p["src"]), {"program": p, "real": r})
            continue
        v3 = via[p["id"]]
        # (Clone copies the globals with Object.Copy, which turns an immutable input into a mutable one: a program failing on such an
        # input may end differently in the clone - that is not a matter of error positions, so only equal error kinds are compared)
        # - a program with an immutable container among its inputs is therefore not compared on this path at all; nor is a program whose
        # failure depends on the iteration order of a map (two real runs may fail on another element first)
        imm_input = '"imm": true' in json.dumps(p.get("inputs", []))
        odep = c06.order_dependent(p)
        if len(ms) == 1 and not imm_input and not odep and v3.get("k") == "runtime_error" and v3.get("kind") == r["kind"] and v3.get("msg") != r.get("msg"):
            ck.violation("api-path-pos", "the same failure is reported differently after Clone + ReplaceBuiltinModule:\n%s\n---\n%s\n%s" % (
                r.get("msg"), v3.get("msg"), p["src"]), {"program": p, "plain": r, "via_clone": v3})
            continue
        if r["kind"] == "host_error":
            badw = None
            for m, wr in wrapped.items():
                w = wr.get(p["id"])
                if w is None:
                    continue
                s_ = (w.get("sentinels") or {}).get("host_error") or {}
                if w.get("kind") != "host_error" or not s_.get("is") or w.get("positions") != r.get("positions"):
                    badw = (m, w)
            if badw:
                ck.violation("host-error-wrapped:" + badw[0], "a host error of the host's own type (chain contains %s) is not handed back intact: %s\n%s" % (
                    "ErrWrongNumArguments" if badw[0] == "wrapnum" else "ErrInvalidArgumentType", str(badw[1].get("msg"))[:300], p["src"]),
                    {"program": p, "plain": r, "wrapped": badw[1]})
                continue
        t = twin[p["id"]]
        if len(ms) == 1 and not c06.order_dependent(p) and t.get("msg") != r.get("msg"):
            ck.violation("twin-pos", "optimized and unoptimized code report different errors/positions:\n%s\n---\n%s\n%s" % (
                r.get("msg"), t.get("msg"), p["src"]), {"program": p, "opt": r, "unopt": t})
            continue
        nerr += 1
        ck.traces += 1
        kinds[r["kind"]] = kinds.get(r["kind"], 0) + 1
        d = len(r["positions"]) - 1
        depth[d] = depth.get(d, 0) + 1
        ck.note_distinct(r["kind"] + "/" + str(d) + "/" + p["src"])
        if len(ck.samples) < 3 and d >= 2:
            ck.add_sample({"src": p["src"], "error": r["msg"]})
    # ---- the same failing programs with multi-line block comments and line comments in front of the code (main file and every
    # module): every extent moves by the length of the inserted text, the reported lines and columns must follow
    CM = "/* one\n   two\n   three */\n// a line comment\n/* x */ /* y\n */\n"
    shifted = []
    for p in progs:
        if real[p["id"]]["k"] != "runtime_error" or len(shifted) >= (150 if quick else 3000):
            continue
        q = dict(p)
        q["id"] = len(shifted) + 1
        q["orig"] = p["id"]
        q["src"] = CM + p["src"]
        q["mods"] = [{"name": m["name"], "src": CM + m["src"]} for m in p.get("mods", [])]
        q["ext"] = [[a + len(CM), b + len(CM)] for (a, b) in p["ext"]]
        shifted.append(q)
    sreal = semlib.real_outcomes(ck, shifted, nproc=8)
    for q in shifted:
        r = sreal[q["id"]]
        ms = outs[q["orig"]]
        ck.evaluations += 1
        if r.get("k") != "runtime_error":
            ck.violation("comments-change-outcome", "comments in front of the code change the outcome: %s\n%s" % (str(r)[:200], q["src"][:600]), {"program": q, "real": r})
            continue
        cands = [m for m in ms if m["k"] == "runtime_error" and m["kind"] == r["kind"]]
        problems = [check_positions(q, m, r) for m in cands]
        if cands and all(problems):
            ck.violation("pos-after-comments:" + r["kind"], "with block comments in front of the code: %s\n%s\n%s" % (problems[0], r["msg"], q["src"][:1500]), {"program": q, "model": cands, "real": r})
        else:
            ck.traces += 1
    # ---- instruction level: the reported location is the source position of the instruction that was dispatched last - for every
    # failing program, and for programs stopped by the allocation limit at every budget below what they need
    ep = [{"id": i + 1, "src": p["src"], "inputs": p.get("inputs", []), "mods": p.get("mods", []), "pid": p["id"]} for i, p in enumerate(progs)
          if real[p["id"]]["k"] == "runtime_error"]
    okp = [p for p in progs if real[p["id"]]["k"] == "ok"][: (60 if quick else 1500)]
    for p in okp:
        for b in (0, 1, 2, 3, 5, 8, 13):
            ep.append({"id": len(ep) + 1, "src": p["src"], "inputs": p.get("inputs", []), "mods": p.get("mods", []), "pid": p["id"], "budget": b})
    er = vlib.run_cases(ck, "errpos", ep, nproc=8)
    nlim = 0
    for c in ep:
        o = er[c["id"]]
        ck.evaluations += 1
        if o.get("hang") or o.get("died") or o.get("panic") or "match" not in o:
            continue
        if (o.get("outcome") or {}).get("kind") == "alloc_limit":
            nlim += 1
        if not o["match"]:
            ck.violation("pos-of-instruction:" + o["outcome"]["kind"], "the error (%s%s) reports %s, the instruction dispatched last (offset %s) stands at %s\n%s" % (
                o["outcome"]["kind"], "" if "budget" not in c else ", budget %d" % c["budget"], o["reported"], o["expected"].get("ip"), o["expected"], c["src"][:1200]),
                {"case": c, "real": o})
        else:
            ck.traces += 1
    ck.extra["errpos_cases"] = len(ep)
    srcpos(ck, quick)
    ck.extra["errpos_alloc_limit_errors"] = nlim
    # sentinel errors stay recognisable: the harness classifies them with errors.Is first
    ck.extra.update({"failing_programs_validated": nerr, "error_kinds": kinds, "call_depth_histogram": depth})
    ck.rule = ("failing programs of families errs/dce/random; non-trivial = distinct (error kind, call depth, source); each validated "
               "against the statement and call-site statements TengoSem predicts, and against the no-DCE twin")
    ck.assumptions = ["statement extents come from the harness's printer", "error classes are read with errors.Is / fixed message prefixes"]


SRCPOS_CFG = """SPECIFICATION %s
CONSTANTS
  MaxFiles = %d
  MaxSize = %d
  MaxLen = %d
VIEW View
CONSTRAINT Bounded
%s
INVARIANTS Disjoint LinesSorted LookupRight CacheTransparent Ordered LineStarts Valid
"""


def srcpos(ck, quick):
    # (1) the full machine, queries included: the cache states that lookups can leave behind
    mf, ms, ml = (3, 2, 5) if quick else (3, 3, 7)
    r = ck.tlc("SourcePos", SRCPOS_CFG % ("Spec", mf, ms, ml, ""), workers=4, name="srcpos-mc", timeout=3000, xmx="8g")
    if r.violated:
        raise vlib.Infra("SourcePos.tla violates %s:\n%s" % (r.violated, r.stdout[-2000:]))
    # (2) witness histories of the mutating calls with the answer table of the state reached
    mf, ms, ml = (3, 2, 5) if quick else (3, 4, 6)
    r2 = ck.tlc("SourcePos", SRCPOS_CFG % ("SpecMut", mf, ms, ml, "ACTION_CONSTRAINT EmitEdge"), workers=1, name="srcpos-emit", timeout=3000, xmx="8g")
    if r2.violated:
        raise vlib.Infra("SourcePos.tla violates %s" % r2.violated)
    cases = r2.tagged("CASE")
    for i, c in enumerate(cases):
        c["id"] = i
    ck.log("SourcePos.tla: %d states with queries, %d mutating edges with answer tables" % (r.distinct, len(cases)))
    res = vlib.run_cases(ck, "srcpos", cases, nproc=12)
    nq = 0
    for c in cases:
        o = res[c["id"]]
        ck.evaluations += 1
        if o.get("hang") or o.get("died") or o.get("panic"):
            ck.violation("srcpos-down", "file-set history did not return / panicked: %s %s" % (json.dumps(c["calls"])[:400], str(o)[:300]), {"srcpos": c, "real": o})
            continue
        if o.get("error"):
            raise vlib.Infra("srcpos driver: %s" % o["error"])
        if not o["ok"]:
            ck.violation("srcpos:" + o["what"].split("(")[0].split(".")[-1],
                         "%s gives %s, SourcePos.tla says %s; history: %s" % (
                             o["what"], json.dumps(o["got"]), json.dumps(o["want"]),
                             " ".join("%s%s" % (x["op"], json.dumps(x["args"])) for x in c["calls"]))[:900],
                         {"srcpos": c, "real": o})
            continue
        ck.traces += 1
        nq += o.get("queries", 0)
        ck.note_distinct("srcpos/" + json.dumps(c["calls"]))
    ck.extra["srcpos_histories"] = len(cases)
    ck.extra["srcpos_queries"] = nq


def replay(ck, path):
    rep = json.load(open(path))["replay"]
    if "srcpos" in rep:
        c = rep["srcpos"]
        c["id"] = 0
        print(json.dumps(vlib.run_cases(ck, "srcpos", [c], nproc=1)[0], indent=1))
        return 0
    print(rep["program"]["src"])
    print(json.dumps(rep.get("real") or rep.get("opt"), indent=1)[:2000])
    return 0
