package main

import (
	"io"
	"bytes"
	"encoding/json"
	"fmt"
	"math"
	"sort"
	"strconv"
	"time"

	"github.com/d5/tengo/v2"
	"github.com/d5/tengo/v2/parser"
	"github.com/d5/tengo/v2/stdlib"
)

// pipelines: the same program through (A) the raw Compiler.Bytecode(), (B) + RemoveDuplicates,
// (C) + Encode/Decode; each run in a real VM.  Also dumps the bytecode before and after
// RemoveDuplicates in the abstract form of Dedup.tla.

type compiledProg struct {
	bc      *tengo.Bytecode
	globals []tengo.Object
	names   map[string]int
	files   map[string]string
	mods    *tengo.ModuleMap
}

func compileRaw(pc *progCase) (cp *compiledProg, bad V) {
	defer func() {
		if r := recover(); r != nil {
			bad = V{"k": "host_down", "how": "compile_panic", "msg": fmt.Sprint(r)}
		}
	}()
	st := tengo.NewSymbolTable()
	for idx, fn := range tengo.GetAllBuiltinFunctions() {
		st.DefineBuiltin(idx, fn.Name)
	}
	globals := make([]tengo.Object, tengo.GlobalsSize)
	for _, in := range pc.Inputs {
		name, _ := in[0].(string)
		o, err := decodeValue(in[1])
		if err != nil {
			return nil, V{"k": "harness_error", "msg": err.Error()}
		}
		sym := st.Define(name)
		globals[sym.Index] = o
	}
	var mm *tengo.ModuleMap
	if pc.Stdlib {
		mm = stdlib.GetModuleMap(stdlib.AllModuleNames()...)
	} else {
		mm = tengo.NewModuleMap()
	}
	files := map[string]string{"(main)": pc.Src}
	for _, m := range pc.Mods {
		mm.AddSourceModule(m.Name, []byte(m.Src))
		files[m.Name] = m.Src
	}
	addSpecialModules(mm, pc)
	fs := parser.NewFileSet()
	// every other program gets its file at an explicit base that leaves a gap in front of it (an embedder with a file set of its
	// own): locations are relative to the file, wherever the file sits in the set - before and after Encode/Decode
	base := -1
	if len(pc.Src)%2 == 1 {
		base = 1000 + len(pc.Src)%13
	}
	sf := fs.AddFile("(main)", base, len(pc.Src))
	p := parser.NewParser(sf, []byte(pc.Src), nil)
	file, err := p.ParseFile()
	if err != nil {
		return nil, V{"k": "compile_error", "kind": "parse_error", "msg": err.Error()}
	}
	c := tengo.NewCompiler(sf, st, nil, mm, nil)
	if err := c.Compile(file); err != nil {
		return nil, V{"k": "compile_error", "kind": classifyCompile(err.Error()), "msg": err.Error()}
	}
	names := map[string]int{}
	for _, n := range st.Names() {
		if sym, _, ok := st.Resolve(n, false); ok && sym.Scope == tengo.ScopeGlobal {
			names[n] = sym.Index
		}
	}
	return &compiledProg{bc: c.Bytecode(), globals: globals, names: names, files: files, mods: mm}, nil
}

func runVM(cp *compiledProg, bc *tengo.Bytecode) (out V) {
	done := make(chan V, 1)
	vm := tengo.NewVM(bc, cp.globals, -1)
	go func() {
		defer func() {
			if r := recover(); r != nil {
				done <- V{"k": "runtime_error", "kind": classifyRuntime(fmt.Errorf("%v", r)), "msg": fmt.Sprint(r), "recovered": true}
			}
		}()
		err := vm.Run()
		if err != nil {
			msg := err.Error()
			done <- V{"k": "runtime_error", "kind": classifyRuntime(err), "msg": msg, "positions": parsePositions(msg, cp.files)}
			return
		}
		done <- V{"k": "ok", "stack_empty": vm.IsStackEmpty()}
	}()
	select {
	case out = <-done:
	case <-time.After(10 * time.Second):
		vm.Abort()
		return V{"k": "timeout"}
	}
	ns := make([]string, 0, len(cp.names))
	for n := range cp.names {
		ns = append(ns, n)
	}
	sort.Strings(ns)
	g := make([]interface{}, 0, len(ns))
	for _, n := range ns {
		v := cp.globals[cp.names[n]]
		if v == nil {
			v = tengo.UndefinedValue
		}
		g = append(g, []interface{}{n, encodeValue(v)})
	}
	out["g"] = g
	return out
}

// abstractBytecode renders a Bytecode in the form of Dedup.tla; ids of functions and anonymous
// maps are assigned by pointer through `ids`, which is shared between the before and after dumps.
func abstractBytecode(bc *tengo.Bytecode, ids map[interface{}]string) V {
	idOf := func(o interface{}, pfx string) string {
		if s, ok := ids[o]; ok {
			return s
		}
		s := fmt.Sprintf("%s%d", pfx, len(ids))
		ids[o] = s
		return s
	}
	consts := make([]V, 0, len(bc.Constants))
	fns := []V{{"id": "main", "refs": refsOf(bc.MainFunction.Instructions)}}
	seenFn := map[string]bool{}
	for _, c := range bc.Constants {
		switch c := c.(type) {
		case *tengo.Int:
			consts = append(consts, V{"k": "int", "v": strconv.FormatInt(c.Value, 10)})
		case *tengo.String:
			consts = append(consts, V{"k": "string", "v": c.Value})
		case *tengo.Float:
			consts = append(consts, V{"k": "float", "v": strconv.FormatUint(math.Float64bits(c.Value), 16)})
		case *tengo.Char:
			consts = append(consts, V{"k": "char", "v": strconv.Itoa(int(c.Value))})
		case *tengo.CompiledFunction:
			id := idOf(c, "f")
			consts = append(consts, V{"k": "fn", "v": id})
			if !seenFn[id] {
				seenFn[id] = true
				fns = append(fns, V{"id": id, "refs": refsOf(c.Instructions)})
			}
		case *tengo.ImmutableMap:
			if name, ok := c.Value["__module_name__"].(*tengo.String); ok && name.Value != "" {
				consts = append(consts, V{"k": "mod", "v": name.Value})
			} else {
				consts = append(consts, V{"k": "anon", "v": idOf(c, "a")})
			}
		default:
			consts = append(consts, V{"k": "other", "v": c.TypeName()})
		}
	}
	return V{"consts": consts, "fns": fns}
}

func refsOf(code []byte) []V {
	out := []V{}
	for i := 0; i < len(code); {
		w, ok := opWidths(code[i])
		if !ok {
			break
		}
		ops, read := parser.ReadOperands(w, code[i+1:])
		switch code[i] {
		case parser.OpConstant:
			out = append(out, V{"op": "C", "i": ops[0], "n": 0})
		case parser.OpClosure:
			out = append(out, V{"op": "L", "i": ops[0], "n": ops[1]})
		}
		i += 1 + read
	}
	return out
}

func pipelinesHandle(raw []byte) map[string]interface{} {
	var pc progCase
	if err := json.Unmarshal(raw, &pc); err != nil {
		return map[string]interface{}{"error": err.Error()}
	}
	res := map[string]interface{}{}
	// A: raw
	cpA, bad := compileRaw(&pc)
	if bad != nil {
		return map[string]interface{}{"compile": bad}
	}
	res["A"] = runVM(cpA, cpA.bc)
	// B: deduplicated (fresh compile: RemoveDuplicates rewrites instructions in place)
	cpB, bad := compileRaw(&pc)
	if bad != nil {
		return map[string]interface{}{"compile": bad}
	}
	ids := map[interface{}]string{}
	before := abstractBytecode(cpB.bc, ids)
	func() {
		defer func() {
			if r := recover(); r != nil {
				res["dedup_panic"] = fmt.Sprint(r)
			}
		}()
		cpB.bc.RemoveDuplicates()
	}()
	if res["dedup_panic"] != nil {
		return res
	}
	res["dedup"] = V{"before": before, "after": abstractBytecode(cpB.bc, ids)}
	res["wf"] = dumpBytecode(cpB.bc, tengo.GlobalsSize)
	res["B"] = runVM(cpB, cpB.bc)
	// C: + Encode / Decode
	cpC, bad := compileRaw(&pc)
	if bad != nil {
		return map[string]interface{}{"compile": bad}
	}
	cpC.bc.RemoveDuplicates()
	var buf bytes.Buffer
	if err := cpC.bc.Encode(&buf); err != nil {
		res["C"] = V{"k": "encode_error", "msg": err.Error()}
		return res
	}
	dec := &tengo.Bytecode{}
	if err := dec.Decode(bytes.NewReader(buf.Bytes()), cpC.mods); err != nil {
		res["C"] = V{"k": "decode_error", "msg": err.Error()}
		return res
	}
	res["wfC"] = dumpBytecode(dec, tengo.GlobalsSize)
	res["C"] = runVM(cpC, dec)
	res["encoded_bytes"] = buf.Len()
	// D: Encode called on bytecode that was NOT de-duplicated, then the receiver is used again: run, encoded a second time, decoded, run
	if len(pc.Inputs) == 0 {
		cpD, badD := compileRaw(&pc)
		if badD == nil {
			var b1, b2 bytes.Buffer
			if err := cpD.bc.Encode(&b1); err != nil {
				res["D"] = V{"k": "encode_error", "msg": err.Error()}
			} else {
				res["D"] = runVM(cpD, cpD.bc) // the receiver after Encode
				if err := cpD.bc.Encode(&b2); err != nil {
					res["D2"] = V{"k": "encode_error", "msg": err.Error()}
				} else {
					decD := &tengo.Bytecode{}
					if err := decD.Decode(bytes.NewReader(b2.Bytes()), cpD.mods); err != nil {
						res["D2"] = V{"k": "decode_error", "msg": err.Error()}
					} else {
						cpD2 := &compiledProg{bc: decD, globals: make([]tengo.Object, tengo.GlobalsSize), names: cpD.names, files: cpD.files, mods: cpD.mods}
						res["D2"] = runVM(cpD2, decD)
					}
				}
			}
		}
		// E: decoded without the embedder's module map (data-only modules travel inside the encoding)
		if pc.StateMod && !pc.Stdlib && len(pc.Mods) == 0 && pc.Weird == "" {
			decE := &tengo.Bytecode{}
			if err := decE.Decode(bytes.NewReader(buf.Bytes()), tengo.NewModuleMap()); err != nil {
				res["E"] = V{"k": "decode_error", "msg": err.Error()}
			} else {
				cpE := &compiledProg{bc: decE, globals: make([]tengo.Object, tengo.GlobalsSize), names: cpC.names, files: cpC.files, mods: cpC.mods}
				res["E"] = runVM(cpE, decE)
			}
		}
	}
	// the same encoding read a second time with the same module map: an independent program again
	dec2 := &tengo.Bytecode{}
	// (through a reader that offers nothing but Read: a file, a network or decompression stream)
	if err := dec2.Decode(struct{ io.Reader }{bytes.NewReader(buf.Bytes())}, cpC.mods); err != nil {
		res["C2"] = V{"k": "decode_error", "msg": err.Error()}
		return res
	}
	if len(pc.Inputs) == 0 {
		cpC2 := &compiledProg{bc: dec2, globals: make([]tengo.Object, tengo.GlobalsSize), names: cpC.names, files: cpC.files, mods: cpC.mods}
		res["C2"] = runVM(cpC2, dec2)
	}
	return res
}

func init() {
	register("pipelines", "raw / deduplicated / encoded+decoded bytecode of each program, run in the VM", func(args []string) error {
		return runCases(40*time.Second, pipelinesHandle)
	})
}
