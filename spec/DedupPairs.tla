---------------------------- MODULE DedupPairs ----------------------------
(* Artefact validation: bytecode of real programs before and after the real       *)
(* Bytecode.RemoveDuplicates; TLC checks after = RemoveDuplicates(before) and the  *)
(* properties on that instance.                                                     *)
EXTENDS Dedup, Json

Pairs == ndJsonDeserialize("dedup.ndjson")
VARIABLE pi

Verdict(p) ==
  LET b == [consts |-> p.before.consts, fns |-> p.before.fns]
      out == RemoveDuplicates(b)
  IN [id |-> p.id, same_consts |-> out.consts = p.after.consts,
      same_fns |-> \A f \in 1..Len(out.fns) : Live(b, f) => out.fns[f] = p.after.fns[f],
      props |-> Props(b), nbefore |-> Len(b.consts), nafter |-> Len(out.consts)]

PInit == pi = 1 /\ bc = [consts |-> <<>>, fns |-> <<>>]
PNext == pi < Len(Pairs) /\ pi' = pi + 1 /\ UNCHANGED bc
PSpec == PInit /\ [][PNext]_<<pi, bc>>
Emit == PrintT(<<"DEDUP", ToJson(Verdict(Pairs[pi]))>>)
=============================================================================
