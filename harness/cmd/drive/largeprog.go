package main

import (
	"encoding/json"
	"fmt"
	"time"

	"github.com/d5/tengo/v2"
	"github.com/d5/tengo/v2/parser"
)

// largeprog: programs whose functions exceed 64 KiB of bytecode or whose constant pool exceeds 255 entries.
// BytecodeWF.tla cannot be evaluated by TLC on functions of that size in useful time, so for this family the
// structural part is checked here (instruction boundaries, jump targets, operand validity, final instruction)
// and the behavioural part by a closed form: the value of `out`, compiled with and without dead-code elimination.

func structuralFaults(bc *tengo.Bytecode) []string {
	var faults []string
	check := func(name string, code []byte) {
		bound := map[int]bool{}
		type jmp struct{ at, target int }
		var jumps []jmp
		last := byte(255)
		for i := 0; i < len(code); {
			bound[i] = true
			w, ok := opWidths(code[i])
			if !ok {
				faults = append(faults, fmt.Sprintf("%s: unknown opcode %d at %d", name, code[i], i))
				return
			}
			total := 0
			for _, x := range w {
				total += x
			}
			if i+1+total > len(code) {
				faults = append(faults, fmt.Sprintf("%s: truncated operands at %d", name, i))
				return
			}
			ops, read := parser.ReadOperands(w, code[i+1:])
			// decode 4-byte operands independently of parser.ReadOperands
			switch code[i] {
			case parser.OpJump, parser.OpJumpFalsy, parser.OpAndJump, parser.OpOrJump:
				t := int(code[i+1])<<24 | int(code[i+2])<<16 | int(code[i+3])<<8 | int(code[i+4])
				jumps = append(jumps, jmp{i, t})
				if ops[0] != t {
					faults = append(faults, fmt.Sprintf("%s: parser.ReadOperands decodes the jump operand at %d as %d, the bytes say %d", name, i, ops[0], t))
				}
			case parser.OpConstant:
				if ops[0] >= len(bc.Constants) {
					faults = append(faults, fmt.Sprintf("%s: CONST %d beyond the pool (%d) at %d", name, ops[0], len(bc.Constants), i))
				}
			case parser.OpClosure:
				if ops[0] >= len(bc.Constants) {
					faults = append(faults, fmt.Sprintf("%s: CLOSURE %d beyond the pool at %d", name, ops[0], i))
				} else if _, isFn := bc.Constants[ops[0]].(*tengo.CompiledFunction); !isFn {
					faults = append(faults, fmt.Sprintf("%s: CLOSURE %d at %d names a %s constant", name, ops[0], i, bc.Constants[ops[0]].TypeName()))
				}
			}
			last = code[i]
			i += 1 + read
		}
		for _, j := range jumps {
			if !bound[j.target] && j.target != len(code) {
				faults = append(faults, fmt.Sprintf("%s: jump at %d targets %d, not an instruction boundary (length %d)", name, j.at, j.target, len(code)))
			}
		}
		if last != parser.OpReturn && last != parser.OpSuspend {
			faults = append(faults, fmt.Sprintf("%s: does not end in RET/SUSPEND", name))
		}
	}
	check("main", bc.MainFunction.Instructions)
	for i, c := range bc.Constants {
		if f, ok := c.(*tengo.CompiledFunction); ok {
			check(fmt.Sprintf("const %d", i), f.Instructions)
		}
	}
	if len(faults) > 5 {
		faults = faults[:5]
	}
	return faults
}

func init() {
	register("largeprog", "functions > 64 KiB / pools > 255 constants: structure, closed-form result, DCE twin", func(args []string) error {
		return runCases(120*time.Second, func(raw []byte) map[string]interface{} {
			var in struct {
				progCase
				Expect int64 `json:"expect"`
			}
			if err := json.Unmarshal(raw, &in); err != nil {
				return map[string]interface{}{"error": err.Error()}
			}
			out := map[string]interface{}{}
			for _, nodce := range []bool{false, true} {
				tag := "opt"
				if nodce {
					tag = "nodce"
				}
				pc := in.progCase
				pc.NoDCE = nodce
				pc.TimeoutMs = 20000
				func() {
					defer func() {
						if r := recover(); r != nil {
							out[tag] = V{"k": "host_down", "msg": fmt.Sprint(r)}
						}
					}()
					res := runProgram(&pc)
					o := res.Outcome
					if res.Compiled != nil {
						bc := res.Compiled.VerifBytecode()
						o["faults"] = structuralFaults(bc)
						sizes := []int{len(bc.MainFunction.Instructions)}
						for _, c := range bc.Constants {
							if f, ok := c.(*tengo.CompiledFunction); ok {
								sizes = append(sizes, len(f.Instructions))
							}
						}
						o["sizes"] = sizes
						o["nconsts"] = len(bc.Constants)
						if v := res.Compiled.Get("out"); v != nil {
							o["out"] = encodeValue(v.Object())
						}
					}
					delete(o, "g")
					out[tag] = o
				}()
			}
			return out
		})
	})
}
