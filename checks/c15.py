"""C15 Host/script value exchange is coherent over any sequence of API calls.

E: ScriptAPI.tla - Script.Add/Remove/Compile and Compiled.Run/Get/GetAll/IsDefined/Set/Clone as a
   state machine with the return value of every call, over a small script family whose effect on
   the globals is part of the spec (incl. a script that fails after a partial effect).  TLC's
   breadth-first search with a VIEW that hides the history visits every (abstract state, call)
   edge once and prints one shortest witness history per edge ("one test per transition"); the
   FromGo/ToGo kind tables are emitted as well.
R: every witness history is replayed on real Script/Compiled objects and every return value is
   compared; every supported Go kind goes through FromInterface / a script / ToInterface and the
   typed accessors.
"""
import json

import vlib

CFG = """SPECIFICATION Spec
CONSTANTS
  Names = {%s}
  Vals <- %s
  MaxObjs = 2
  MaxLen = %d
VIEW View
CONSTRAINT Bounded
ACTION_CONSTRAINT EmitEdge
INVARIANTS Isolation EmitTables
PROPERTIES NamesFixed CloneIsolated
"""


def run(ck):
    quick = ck.quick()
    cfg = CFG % ('"a", "b", "c"', "MCVals2", 6) if quick else CFG % ('"a", "b", "c"', "MCVals2", 7)
    r = ck.tlc("ScriptAPI", cfg, workers=1, name="api", timeout=3000, xmx="12g")
    if r.violated:
        raise vlib.Infra("ScriptAPI.tla violates %s:\n%s" % (r.violated, r.stdout[-2000:]))
    # a second, small exploration in which the host also uses the name of a builtin function
    r2 = ck.tlc("ScriptAPI", CFG % ('"a", "len"', "MCVals2", 5 if quick else 7), workers=1, name="api-builtin-name", timeout=3000, xmx="12g")
    if r2.violated:
        raise vlib.Infra("ScriptAPI.tla violates %s" % r2.violated)
    # a third exploration over one name with the larger value universe: a float that is Tengo-equal to an int, an empty map
    r3 = ck.tlc("ScriptAPI", CFG % ('"a"', "MCVals3", 6 if quick else 7), workers=1, name="api-values", timeout=3000, xmx="12g")
    if r3.violated:
        raise vlib.Infra("ScriptAPI.tla violates %s" % r3.violated)
    cases = []
    seen = set()
    for c in r.tagged("CASE") + [c for c in r2.tagged("CASE") if any("len" in json.dumps(x["args"]) for x in c["calls"])] + r3.tagged("CASE"):
        key = json.dumps(c, sort_keys=True)
        if key in seen:
            continue
        seen.add(key)
        c["id"] = len(cases)
        cases.append(c)
    tables = r.tagged("TABLES")[0]
    ck.log("ScriptAPI.tla: %d abstract states, %d witness histories" % (r.distinct, len(cases)))
    res = vlib.run_cases(ck, "api", cases, nproc=12)
    ops = {}
    for c in cases:
        o = res[c["id"]]
        ck.evaluations += 1
        last = c["calls"][-1]
        if o.get("hang") or o.get("died") or o.get("panic"):
            ck.violation("api-host-down:" + last["op"], "API history did not return / panicked: %s" % json.dumps(c["calls"])[:600], {"case": c, "real": o})
            continue
        if o.get("error"):
            raise vlib.Infra("api driver: %s" % o["error"])
        if not o["ok"] and o.get("final"):
            ck.violation("api-state:%s:%s" % (c["src"], last["op"]),
                         "script %s: after the history the %s is %s, the model says %s; history: %s" % (
                             c["src"], o["final"], json.dumps(o["got"])[:300], json.dumps(o["want"])[:300],
                             " ".join("%s%s" % (x["op"], json.dumps(x["args"])) for x in c["calls"]))[:900],
                         {"case": c, "real": o})
            continue
        if not o["ok"]:
            call = c["calls"][o["at"]]
            ck.violation("api:%s:%s" % (c["src"], call["op"]),
                         "script %s, call %d %s%s returned %s, the model says %s; history: %s" % (
                             c["src"], o["at"], call["op"], json.dumps(call["args"]), json.dumps(o["got"]), json.dumps(o["want"]),
                             " ".join("%s%s" % (x["op"], json.dumps(x["args"])) for x in c["calls"][:o["at"] + 1]))[:900],
                         {"case": c, "real": o})
            continue
        ck.traces += 1
        ops[last["op"]] = ops.get(last["op"], 0) + 1
        ck.note_distinct(c["src"] + "/" + last["op"] + "/" + json.dumps(last["args"]) + "/" + json.dumps(last["ret"]))
    ck.extra["edges_by_call"] = ops
    if cases:
        c = cases[len(cases) // 2]
        ck.add_sample({"src": c["src"], "calls": c["calls"]})
    # ---- kinds: FromInterface / ToInterface / accessors
    out = ck.drive(["interop"], timeout=120)
    fromgo, togo = tables["fromgo"], tables["togo"]
    n = 0
    for line in out.stdout.splitlines():
        if not line.startswith("{"):
            continue
        o = json.loads(line)
        n += 1
        ck.evaluations += 1
        kind = o["interop"]
        bad = []
        if kind == "eval":
            if o.get("eval_problem"):
                ck.violation("eval", "tengo.Eval(%r): %s" % (o["go"], o["eval_problem"]), {"observation": o})
            else:
                ck.traces += 1
            continue
        if "err" in o:
            bad.append("FromInterface failed: %s" % o["err"])
        else:
            exp = fromgo[kind]
            t = o["type"].split(":")[0]
            if exp == "same":
                if not o.get("same"):
                    bad.append("an Object was converted instead of passed through")
            elif t != exp:
                bad.append("arrives as %s, documented %s" % (o["type"], exp))
            if kind != "CallableFunc":
                if exp != "same" and o["back_kind"] != togo.get(t, "Object"):
                    bad.append("reads back as Go %s, documented %s" % (o["back_kind"], togo.get(t)))
                if not o["roundtrip"]:
                    bad.append("ToInterface(FromInterface(x)) != x up to the documented normalisation")
                if "script_err" in o:
                    bad.append("script failed: %s" % o["script_err"])
                else:
                    if o["script_type"] != o["type"]:
                        bad.append("type inside the script is %s, outside %s" % (o["script_type"], o["type"]))
                    if o.get("get_type") != o["type"] or o.get("getall_type") != o["type"]:
                        bad.append("Get shows a %s, GetAll a %s, the value is a %s" % (o.get("get_type"), o.get("getall_type"), o["type"]))
                    if o.get("get_same_object") is False:
                        bad.append("Get hands back another object than the one the host added")
                    imm = o["type"].startswith("immutable-")
                    if not imm and (o.get("clone_type") != o["type"] or not o.get("clone_roundtrip")):
                        bad.append("a clone holds a %s (equal: %s), the original a %s" % (o.get("clone_type"), o.get("clone_roundtrip"), o["type"]))
                    if not imm and "clone_script_same" in o and t not in ("error", "undefined") and o["go"].find("NaN") < 0:
                        if o["clone_script_same"] is not True or o["clone_script_type"] != o["type"]:
                            bad.append("inside a clone's script the two copies of the value are %s and of type %s" % (
                                "equal" if o["clone_script_same"] else "not equal", o["clone_script_type"]))
                    if not o["script_roundtrip"]:
                        bad.append("value read back after a run differs from the value handed in")
                    acc = o["acc"]
                    if acc["undefined"] != (t == "undefined"):
                        bad.append("IsUndefined is %s for a %s" % (acc["undefined"], t))
                    if acc["array_nil"] != (t != "array") or acc["map_nil"] != (t != "map") or acc["error_nil"] != (t != "error"):
                        bad.append("Array()/Map()/Error() accessors disagree with the value's type %s" % t)
                    if t in ("undefined", "array", "map", "error", "time", "bytes") and (acc["int"] != 0 or acc["float"] != "0" or acc["char"] != 0):
                        bad.append("numeric accessors of a %s are not zero values" % t)
                    exp = o["exp"]
                    if kind not in ("map[string]Object", "map[string]interface{}", "[]Object", "[]interface{}", "error", "time.Time", "[]byte", "Object", "nil"):
                        if acc["int"] != exp["int"] or acc["int64"] != exp["int"]:
                            bad.append("Int()/Int64() = %s/%s, the coercion table gives %s" % (acc["int"], acc["int64"], exp["int"]))
                        if acc["float"] != exp["float"]:
                            bad.append("Float() = %s, the coercion table gives %s" % (acc["float"], exp["float"]))
                        if acc["char"] != exp["char"]:
                            bad.append("Char() = %s, the coercion table gives %s" % (acc["char"], exp["char"]))
                        if exp.get("string_known") and acc["string"] != exp["string"]:
                            bad.append("String() = %r, expected %r" % (acc["string"], exp["string"]))
        if bad:
            ck.violation("interop:" + kind, "Go %s %s: %s" % (kind, o.get("go", "")[:80], "; ".join(bad)), {"observation": o})
        else:
            ck.traces += 1
    ck.extra["go_kinds_checked"] = n
    ck.rule = ("one shortest call history per (abstract state, call) edge of ScriptAPI.tla (edge covering), each replayed on the real API; "
               "non-trivial = distinct (script, last call, arguments, return value)")
    ck.assumptions = ["the effect of the three family scripts on the globals is written in the spec (they are also checked against TengoSem in C01's families)"]


def replay(ck, path):
    rep = json.load(open(path))["replay"]
    if "case" in rep:
        c = rep["case"]
        c["id"] = 0
        print(json.dumps(vlib.run_cases(ck, "api", [c], nproc=1)[0], indent=1))
    else:
        print(json.dumps(rep, indent=1)[:2000])
    return 0
