package main

import (
	"context"
	"encoding/json"
	"fmt"
	"sort"
	"sync"
	"time"

	"github.com/d5/tengo/v2"
	"github.com/d5/tengo/v2/stdlib"
)

// conc: execute a concurrent history chosen by CompiledConc.tla: every goroutine issues its planned
// calls on the original / the clones after a common barrier.  Built with -race; afterwards the
// objects nobody wrote to must be unchanged and every object must still run correctly alone.
type concCase struct {
	ID     int                            `json:"id"`
	Plan   map[string][]map[string]string `json:"plan"`
	Script string                         `json:"script"`
	Reps   int                            `json:"reps"`
}

var concScripts = map[string]string{
	// plain computation over inputs, a closure, a mutable input container (deep-copied by Clone)
	"plain": `acc := 0
add := func(n) { acc += n; return acc }
for i := 0; i < 30; i++ { add(i * x) }
arr[0] = arr[0] + 1
cfg.state.hits += 1
nested[0].n += 1
r := acc + arr[0] + cfg.state.hits + nested[0].n`,
	// indexes and iterates a string constant shared by all clones (String.runeStr cache)
	"strindex": `s := "héllo wörld, shared constant"
n := 0
for i := 0; i < 12; i++ { n += int(s[i % 9]) }
for c in s { n += int(c) }
r := n + x`,
	// fails with a run-time error: the position look-up goes through the shared file set
	"fails": `m := import("mod")
r := x
y := m.f(x) + undefined`,
	// single file, fails in an instruction without operands (the position is found by walking back)
	"fails2": `r := x
f := func(v) { return v.a.b }
y := f(x)`,
	// indexes and iterates a string *input*: every clone has its own copy of it (nothing shared)
	"strinput": `n := 0
for i := 0; i < 12; i++ { n += int(sv[i % 9]) }
for c in sv { n += int(c) }
r := n + x`,
	// an embedder-supplied builtin module with mutable container attributes: a shared constant that scripts must not be able to change
	"stmod": `st := import("st")
fr := freeze(st)
cp := copy(st)
cp.counter.n = 7
ext := st.log + [x]
r := type_name(st.counter) + "/" + type_name(fr.counter) + "/" + st.counter.n + "/" + len(st.log) + "/" + x + "/" + ext[len(ext) - 1]`,
	// format() under a lowered string limit: fails for x > 4, succeeds otherwise; the text must be this object's own
	"fmtlimit": `s := x > 4 ? long : "ok"
r := ""
for i := 0; i < 40; i++ { r = format("%s|%d|%s|%v|%5.2f", s, x + i, s, [i, x], 1.5 * i) }`,
	// module-level functions of a stdlib module with internal state
	"randmod": `rand := import("rand")
n := 0
for i := 0; i < 60; i++ { n += rand.intn(10) >= 0 ? 1 : 0; n += rand.float() < 1.0 ? 1 : 0 }
r := n + x`,
	// iterates the member maps of imported modules - builtin, source and embedder-supplied: shared immutable constants
	"moditer": `math := import("math")
m := import("mod")
st := import("st")
n := 0
for k, v in math { n += len(k) }
for k, v in m { n += len(k) }
for k, v in st { n += len(k) }
for k in math { n += 1 }
r := n + x`,
	// leaves globals bound to literals (shared, de-duplicated constants): what the host then Sets on one object is that object's alone
	"constreset": `total = 0
label = "none"
ratio = 1.5
bonus := 0
tag := "none"
half := 1.5
for i := 0; i < 3; i++ { bonus += i }
r := string(bonus + total) + tag + label + string(half + ratio) + string(x)`,
	// every object is given "its own" instance of a stateful embedder module with ReplaceBuiltinModule, all from one attribute table:
	// the state a script updates is that object's alone
	"stown": `st := import("st")
st.counter.n += x
ext := st.log + [x]
r := st.counter.n * 1000 + ext[len(ext) - 1]`,
	// source and builtin modules, module function constants shared by all clones
	"modules": `math := import("math")
m := import("mod")
enum := import("enum")
r := m.f(x) + math.abs(-2) + len(enum.map([1, 2, 3], func(k, v) { return v * x }))`,
}

func concCompile(script string) (*tengo.Compiled, error) {
	s := tengo.NewScript([]byte(concScripts[script]))
	mm := stdlib.GetModuleMap("math", "enum", "text", "rand", "times")
	mm.AddSourceModule("mod", []byte("export {f: func(a) { t := [a, a]; return t[0] + t[1] }}"))
	mm.AddBuiltinModule("st", map[string]tengo.Object{
		"counter": &tengo.Map{Value: map[string]tengo.Object{"n": &tengo.Int{Value: 0}}},
		"log":     &tengo.Array{Value: make([]tengo.Object, 0, 8)}, // spare capacity: nothing may be appended in place
	})
	s.SetImports(mm)
	_ = s.Add("x", 3)
	_ = s.Add("sv", "héllo wörld, an input string")
	_ = s.Add("long", "0123456789012345678901234567890123456789")
	_ = s.Add("arr", []interface{}{1, 2, 3})
	_ = s.Add("total", 5)
	_ = s.Add("label", "start")
	_ = s.Add("ratio", 0.25)
	// an immutable input holding a mutable child, and a container nested in a container
	_ = s.Add("cfg", &tengo.ImmutableMap{Value: map[string]tengo.Object{"state": &tengo.Map{Value: map[string]tengo.Object{"hits": &tengo.Int{Value: 0}}}}})
	_ = s.Add("nested", []interface{}{map[string]interface{}{"n": 0}})
	return s.Compile()
}

func snapshotGlobals(c *tengo.Compiled) string {
	var parts []string
	for _, v := range c.GetAll() {
		b, _ := json.Marshal(encodeValue(v.Object()))
		parts = append(parts, v.Name()+"="+string(b))
	}
	sort.Strings(parts)
	return fmt.Sprint(parts)
}

func concHandle(raw []byte) map[string]interface{} {
	var cs concCase
	if err := json.Unmarshal(raw, &cs); err != nil {
		return map[string]interface{}{"error": err.Error()}
	}
	if cs.Reps == 0 {
		cs.Reps = 1
	}
	problems := []string{}
	if cs.Script == "fmtlimit" {
		old := tengo.MaxStringLen
		tengo.MaxStringLen = 60
		defer func() { tengo.MaxStringLen = old }()
	}
	for rep := 0; rep < cs.Reps; rep++ {
		orig, err := concCompile(cs.Script)
		if err != nil {
			return map[string]interface{}{"error": err.Error()}
		}
		objs := map[string]*tengo.Compiled{"orig": orig, "c1": orig.Clone(), "c2": orig.Clone()}
		stownAttrs := map[string]tengo.Object{
			"counter": &tengo.Map{Value: map[string]tengo.Object{"n": &tengo.Int{Value: 0}}},
			"log":     &tengo.Array{Value: make([]tengo.Object, 0, 8)},
		}
		if cs.Script == "stown" {
			for _, o := range objs {
				o.ReplaceBuiltinModule("st", stownAttrs)
			}
		}
		before := map[string]string{}
		for n, o := range objs {
			before[n] = snapshotGlobals(o)
		}
		written := map[string]bool{}
		var wg sync.WaitGroup
		start := make(chan struct{})
		var mu sync.Mutex
		for _, ops := range cs.Plan {
			ops := ops
			for _, op := range ops {
				if op["kind"] == "Run" || op["kind"] == "Set" {
					written[op["obj"]] = true
				}
			}
			wg.Add(1)
			go func() {
				defer wg.Done()
				defer func() {
					if r := recover(); r != nil {
						mu.Lock()
						problems = append(problems, fmt.Sprint("panic: ", r))
						mu.Unlock()
					}
				}()
				<-start
				for _, op := range ops {
					o := objs[op["obj"]]
					switch op["kind"] {
					case "Run":
						ctx, cancel := context.WithTimeout(context.Background(), 5*time.Second)
						_ = o.RunContext(ctx)
						cancel()
					case "Get":
						// the Variable returned by Get refers to the live object: only immutable values are
						// read after the call returned (traversing a container would race with a later Run by design)
						_ = o.Get("r").Value()
						_ = o.Get("arr").ValueType()
					case "GetAll":
						for _, v := range o.GetAll() {
							_ = v.ValueType()
						}
					case "IsDefined":
						_ = o.IsDefined("r")
					case "Set":
						_ = o.Set("x", 5)
					case "Clone":
						cl := o.Clone()
						if cs.Script == "stown" {
							cl.ReplaceBuiltinModule("st", stownAttrs) // as documented: a clone that is to run concurrently gets its own instance of a stateful module
						}
						_ = cl.Run()
					case "Replace":
						concReplace(o)
					}
				}
			}()
		}
		close(start)
		done := make(chan struct{})
		go func() { wg.Wait(); close(done) }()
		select {
		case <-done:
		case <-time.After(20 * time.Second):
			return map[string]interface{}{"problems": []string{"concurrent history did not finish (deadlock?)"}}
		}
		// an object that was only run (never Set) during the history has computed r from its initial inputs: the value must be the
		// one a fresh object computes (a result assembled from another object's data shows up here)
		for n, o := range objs {
			ran, set := false, false
			for _, ops := range cs.Plan {
				for _, op := range ops {
					if op["obj"] == n && op["kind"] == "Run" {
						ran = true
					}
					if op["obj"] == n && (op["kind"] == "Set" || op["kind"] == "Replace") {
						set = true
					}
				}
			}
			idempotent := cs.Script == "moditer" || cs.Script == "constreset" || cs.Script == "strinput" || cs.Script == "stmod" || cs.Script == "fmtlimit" || cs.Script == "strindex" || cs.Script == "randmod" // r does not depend on earlier runs
			if ran && !set && idempotent {
				ref, _ := concCompile(cs.Script)
				if e := ref.Run(); e == nil && fmt.Sprint(o.Get("r").Value()) != fmt.Sprint(ref.Get("r").Value()) {
					problems = append(problems, fmt.Sprintf("%s computed r=%v during the concurrent history, alone a fresh object computes r=%v", n, o.Get("r").Value(), ref.Get("r").Value()))
				}
			}
		}
		for n, o := range objs {
			if !written[n] && snapshotGlobals(o) != before[n] {
				problems = append(problems, fmt.Sprintf("globals of %s changed although no Run/Set was issued on it: %s -> %s", n, before[n], snapshotGlobals(o)))
			}
		}
		if rep == 0 && (cs.Script == "constreset" || cs.Script == "plain" || cs.Script == "moditer") {
			// epilogue 1: after a run the host Sets new values on ONE object; every other object, run again, computes what a fresh
			// object with that object's inputs computes
			x := map[string]int{}
			for n, o := range objs {
				x[n] = o.Get("x").Int()
				_ = o.Run()
			}
			_ = objs["c1"].Set("total", 100)
			_ = objs["c1"].Set("label", "changed")
			_ = objs["c1"].Set("ratio", 9.75)
			_ = objs["c1"].Set("x", 77)
			if cs.Script != "plain" {
				for _, n := range []string{"orig", "c2"} {
					replaced := false
					for _, ops := range cs.Plan {
						for _, op := range ops {
							if op["obj"] == n && op["kind"] == "Replace" {
								replaced = true // its modules were replaced during the history: another program than the fresh reference
							}
						}
					}
					if replaced {
						continue
					}
					_ = objs[n].Run()
					ref, _ := concCompile(cs.Script)
					_ = ref.Set("x", x[n])
					_ = ref.Run()
					if g, w := fmt.Sprint(objs[n].Get("r").Value()), fmt.Sprint(ref.Get("r").Value()); g != w {
						problems = append(problems, fmt.Sprintf("after Set calls on c1 only, %s computes r=%v; a fresh object with its inputs computes r=%v", n, g, w))
					}
				}
			}
			// epilogue 2: GetAll against Set/Run on the same object, both in a tight loop: every call returns
			var swg sync.WaitGroup
			for k := 0; k < 3; k++ {
				k := k
				swg.Add(1)
				go func() {
					defer swg.Done()
					for i := 0; i < 3000; i++ {
						switch k {
						case 0:
							for _, v := range objs["c2"].GetAll() {
								_ = v.Name()
							}
						case 1:
							_ = objs["c2"].Set("x", i)
						case 2:
							_ = objs["c2"].IsDefined("r")
							_ = objs["c2"].Get("x").Int()
						}
					}
				}()
			}
			sdone := make(chan struct{})
			go func() { swg.Wait(); close(sdone) }()
			select {
			case <-sdone:
			case <-time.After(30 * time.Second):
				return map[string]interface{}{"problems": []string{"GetAll / Set / Get in tight loops on one object did not finish (deadlock)"}}
			}
		}
		if cs.Script == "stown" {
			// each object's module state moves by its own x per run, whatever the others do in between; the attribute table is untouched
			for _, n := range []string{"orig", "c1", "c2"} {
				o := objs[n]
				if o.Run() != nil {
					continue
				}
				r1, x := o.Get("r").Int()/1000, o.Get("x").Int()
				for _, m := range []string{"orig", "c1", "c2"} {
					if m != n {
						_ = objs[m].Run()
					}
				}
				_ = o.Run()
				if r2 := o.Get("r").Int() / 1000; r2-r1 != x {
					problems = append(problems, fmt.Sprintf("%s's own module counter moved by %d during one run of it (x = %d): other objects' runs reach its module state", n, r2-r1, x))
				}
			}
			if c := stownAttrs["counter"].(*tengo.Map).Value["n"].(*tengo.Int).Value; c != 0 {
				problems = append(problems, fmt.Sprintf("the attribute table handed to ReplaceBuiltinModule was modified by the scripts (n = %d)", c))
			}
		}
		if cs.Script == "fmtlimit" && rep == 0 {
			// storm: the original fails in format() with the string limit over and over while the clones format concurrently;
			// every successful run of a clone must produce exactly its own text
			_ = objs["orig"].Set("x", 9)
			_ = objs["c1"].Set("x", 3)
			_ = objs["c2"].Set("x", 4)
			want := map[string]string{}
			for _, n := range []string{"c1", "c2"} {
				ref, _ := concCompile(cs.Script)
				_ = ref.Set("x", objs[n].Get("x").Int())
				_ = ref.Run()
				want[n] = fmt.Sprint(ref.Get("r").Value())
			}
			var swg sync.WaitGroup
			var smu sync.Mutex
			for k, n := range []string{"orig", "c1", "c2", "orig"} {
				n := n
				o := objs[n]
				if k == 3 {
					o = objs["orig"].Clone() // a second failing object
				}
				swg.Add(1)
				go func() {
					defer swg.Done()
					for i := 0; i < 12; i++ {
						e := o.Run()
						if n != "orig" && e == nil {
							if got := fmt.Sprint(o.Get("r").Value()); got != want[n] {
								smu.Lock()
								problems = append(problems, fmt.Sprintf("%s formatted %q while another object's format() failed with the string limit; alone it formats %q", n, got, want[n]))
								smu.Unlock()
								return
							}
						} else if n != "orig" && e != nil {
							smu.Lock()
							problems = append(problems, fmt.Sprintf("%s failed (%v) although its own text is within the limit", n, e))
							smu.Unlock()
							return
						}
					}
				}()
			}
			swg.Wait()
			_ = objs["orig"].Set("x", 3)
		}
		// every object still runs alone and computes what a fresh object computes for its current x
		for n, o := range objs {
			if cs.Script == "stown" {
				break // its module state accumulates by design: judged by the increments above
			}
			xv := o.Get("x").Int()
			ref, _ := concCompile(cs.Script)
			_ = ref.Set("x", xv)
			_ = ref.Set("arr", o.Get("arr").Value())
			_ = ref.Set("cfg", o.Get("cfg").Object().Copy())
			_ = ref.Set("nested", o.Get("nested").Value())
			if replacedOn(cs.Plan, n) {
				concReplace(ref) // exactly the objects the embedder replaced modules on use the replacement; nobody else
			}
			e1 := o.Run()
			e2 := ref.Run()
			if (e1 == nil) != (e2 == nil) || (e1 == nil && fmt.Sprint(o.Get("r").Value()) != fmt.Sprint(ref.Get("r").Value())) {
				{
					problems = append(problems, fmt.Sprintf("%s computes r=%v (err %v) alone after the history, a fresh object computes r=%v (err %v)",
						n, o.Get("r").Value(), e1, ref.Get("r").Value(), e2))
				}
			}
		}
	}
	return map[string]interface{}{"problems": problems}
}

// concReplace: what an embedder does to give a clone its own module instances - first a module this script may not even import, then
// math with an abs that is recognisably different (1000)
func concReplace(o *tengo.Compiled) {
	o.ReplaceBuiltinModule("times", map[string]tengo.Object{"now": &tengo.UserFunction{Name: "now",
		Value: func(args ...tengo.Object) (tengo.Object, error) { return &tengo.Int{Value: 0}, nil }}})
	o.ReplaceBuiltinModule("math", map[string]tengo.Object{"abs": &tengo.UserFunction{Name: "abs",
		Value: func(args ...tengo.Object) (tengo.Object, error) { return &tengo.Int{Value: 1000}, nil }}})
}

func replacedOn(plan map[string][]map[string]string, obj string) bool {
	for _, ops := range plan {
		for _, op := range ops {
			if op["kind"] == "Replace" && op["obj"] == obj {
				return true
			}
		}
	}
	return false
}

func anyReplace(plan map[string][]map[string]string) bool {
	for _, ops := range plan {
		for _, op := range ops {
			if op["kind"] == "Replace" {
				return true
			}
		}
	}
	return false
}

func init() {
	register("conc", "execute concurrent histories on a Compiled object and its clones (build with -race)", func(args []string) error {
		return runCases(60*time.Second, concHandle)
	})
}
