"""C16 Self tail calls run in constant frame space at any depth.

E: TailCall.tla - the VM's frame discipline for self calls (re-use the frame when the next
   instruction is RET or POP; RET, with the discard flag) against plain recursion, for every
   shape of the code after the call and every depth: same value, constant frame count exactly for
   tail shapes, overflow only for non-tail shapes; the machine without the discard flag (the
   defect repaired in 8465caf) is rejected.  TengoSem (which has no frames at all) evaluates every
   program of the 'tailcalls' family at depths 0..12.
R: the same functions on the real VM at the model depths (outcome must be one TengoSem allows) and
   at depths 10^3 .. 10^5 (10^6 thorough) with a sparse probe: the value must equal the closed form
   of the equivalent loop, frames and sp - bp at function entry must be constant for tail forms,
   closures captured in earlier iterations must return that iteration's parameter, and non-tail
   forms must grow the frame stack and end in the stack-overflow error past the frame limit.
"""
import json

import semcmp
import semlib
import vlib

CFG = "SPECIFICATION Spec\nCONSTANTS\n  MaxDepth = %d\n  MaxFrames = %d\n  DiscardFlag = %s\nINVARIANT Safety\nPROPERTY Terminates\n"
MAXFRAMES = 1024


def expected(p):
    """Closed form of what f(depth, ...) returns (canonical value), or 'overflow'."""
    d, form, nacc, va, cap = p["depth"], p["form"], p["nacc"], p["variadic"], p["capture"]
    s = d * (d + 1) // 2
    base = ("int", (nacc - 1) + s) if nacc > 0 else ("int", 0)
    if va:
        base = ("array", False, (base, ("int", 0 if d == 0 else 2)))
    if cap:
        base = ("array", False, (base, ("int", d), ("array", False, tuple(("int", k) for k in range(d, 0, -1)))))
    if d == 0:
        return base
    tailforms = {"return-call", "and-call", "or-call", "if-else-return", "local-then-return-call"}
    if form in tailforms:
        return base
    if form in ("stmt-call-return", "stmt-call-end"):
        return ("undef",)
    if d + 2 > MAXFRAMES:
        return "overflow"
    if form in ("ternary-call", "assign-then-return", "call-then-more", "index-call"):
        return base
    if form == "stmt-call-return-value":
        return ("int", 7)
    if form == "plus-call":
        return None  # base + d for ints, error for arrays: left to the model depths
    if form == "not-call":
        return None
    return None


def run(ck):
    quick = ck.quick()
    r = ck.tlc("TailCall", CFG % (8, 5, "TRUE"), workers=2, name="tailcall", timeout=600)
    if r.violated:
        raise vlib.Infra("TailCall.tla violates %s" % r.violated)
    m = ck.tlc("TailCall", CFG % (4, 5, "FALSE"), workers=1, name="tailcall-nodiscard", timeout=600, expect_violation=True, count=False)
    if not m.violated:
        raise vlib.Infra("TailCall.tla without the discard flag is not rejected: Safety is vacuous")
    # ---- model depths
    progs = semlib.generate(ck, "tailcalls", 0)
    for i, p in enumerate(progs):
        p["id"] = i + 1
    outs = semlib.tlc_outcomes(ck, progs, njobs=12)
    real = semlib.real_outcomes(ck, progs, nproc=8)
    for p in progs:
        v, det = semcmp.compare(outs[p["id"]], real[p["id"]])
        ck.evaluations += 1
        if v == "disagree":
            ck.violation("sem:" + p["form"], "self-recursive function (form %s, depth %d) disagrees with TengoSem: expected %s got %s\n%s" % (
                p["form"], p["depth"], det["expected"], det["got"], p["src"]), {"program": p, "model": outs[p["id"]], "real": real[p["id"]]})
        elif v == "agree":
            ck.traces += 1
            # the closed form used for the deep runs is validated against the model here
            e = None if p.get("special") else expected(p)
            o = real[p["id"]]
            if e is not None and e != "overflow" and o["k"] == "ok":
                got = dict((n, semcmp.canon(x)) for n, x in o["g"])["r"]
                if got != e:
                    raise vlib.Infra("closed form of the harness is wrong for %s depth %d: %s vs %s" % (p["form"], p["depth"], e, got))
    # ---- bytecode level: the recorded instruction stream of every model-depth run (frame index and stack pointer before
    # every instruction) must be a behaviour of TengoVM.tla, whose CALL action re-uses the frame exactly for self tail calls
    vv = semlib.vm_validate(ck, progs, njobs=12, tag="vmtc", max_steps=6000)
    vstats = {}
    for p in progs:
        o = vv.get(p["id"], {"v": "skipped"})
        vstats[o["v"]] = vstats.get(o["v"], 0) + 1
        ck.evaluations += 1
        if o["v"] == "accepted":
            ck.traces += 1
        elif o["v"] == "rejected":
            ck.violation("vm-trace:" + p["form"], "the recorded run (form %s, depth %d) is not a behaviour of TengoVM.tla: %s at event %s of %s (%s)\n%s" % (
                p["form"], p["depth"], o["why"], o.get("at"), o.get("n"), json.dumps(o.get("event"))[:200], p["src"]), {"program": p, "vm": o})
    ck.extra["vm_trace_verdicts"] = vstats
    # ---- deep runs
    depths = [1000, 1030, 5000, 100000] if quick else [1000, 1023, 1024, 1030, 5000, 100000, 1000000]
    deep = []
    for d in depths:
        for p in semlib.generate(ck, "tailcalls", d):
            if quick and d >= 100000 and (p["nacc"] == 2 or p["variadic"]):
                continue
            p["id"] = len(deep) + 1
            deep.append(p)
    res = vlib.run_cases(ck, "deep", [{"id": p["id"], "src": p["src"], "inputs": [], "mods": [], "timeout_ms": 100000} for p in deep], nproc=12, timeout=1800)
    tail_ok = nontail_ok = 0
    for p in deep:
        o = res[p["id"]]
        ck.evaluations += 1
        tag = "%s/d=%d" % (p["form"], p["depth"])
        rep = {"program": {k: p[k] for k in ("src", "form", "depth", "nacc", "variadic", "capture")}, "real": o}
        if o.get("hang") or o.get("died") or o.get("panic"):
            ck.violation("deep-host-down:" + p["form"], "deep run did not return (%s)" % tag, rep)
            continue
        out = o["outcome"]
        e = expected(p)
        fstat = o["fns"][0] if o["fns"] else None
        if p["tail"]:
            if out["k"] != "ok":
                ck.violation("tail-fails:" + p["form"], "tail-recursive function fails at depth %d: %s\n%s" % (p["depth"], out.get("msg", "")[:200], p["src"]), rep)
                continue
            got = semcmp.canon(out["r"])
            if e is not None and got != e:
                ck.violation("tail-value:" + p["form"], "tail-recursive function returns %s at depth %d, the equivalent loop gives %s\n%s" % (
                    semcmp.show(got)[:200], p["depth"], semcmp.show(e)[:200], p["src"]), rep)
                continue
            if fstat and (len(fstat["fis"]) != 1 or len(fstat["spbp"]) != 1):
                ck.violation("tail-frames:" + p["form"], "frame index / sp-bp at function entry not constant in a tail-recursive function: %s\n%s" % (
                    json.dumps(fstat), p["src"]), rep)
                continue
            tail_ok += 1
            ck.traces += 1
            ck.note_distinct(tag + json.dumps([p["nacc"], p["variadic"], p["capture"]]))
        else:
            # a non-tail form may run out of frames (stack-overflow error) or, with several operands per
            # frame, out of operand stack first (recovered Go bounds error): both are "ends in an error"
            limit_err = out["k"] == "runtime_error" and out["kind"] in ("stack_overflow", "go_index_panic")
            if e == "overflow":
                if not limit_err:
                    ck.violation("nontail-no-overflow:" + p["form"], "a self call that is not in tail position did not end in a stack-limit error at depth %d: %s\n%s" % (
                        p["depth"], json.dumps(out)[:300], p["src"]), rep)
                    continue
            elif e is not None and not (limit_err and out["kind"] == "go_index_panic" and p["depth"] >= 300):
                if out["k"] != "ok" or semcmp.canon(out["r"]) != e:
                    ck.violation("nontail-value:" + p["form"], "non-tail recursion returns %s at depth %d, expected %s\n%s" % (
                        json.dumps(out)[:200], p["depth"], semcmp.show(e)[:200], p["src"]), rep)
                    continue
            if fstat and out["k"] == "ok" and p["depth"] > 0 and len(fstat["fis"]) < 2:
                ck.violation("nontail-as-tail:" + p["form"], "a non-tail self call did not push frames\n" + p["src"], rep)
                continue
            nontail_ok += 1
            ck.traces += 1
            ck.note_distinct(tag + json.dumps([p["nacc"], p["variadic"], p["capture"]]))
        if len(ck.samples) < 2 and p["tail"] and p["capture"] and p["depth"] == 1000:
            ck.add_sample({"src": p["src"], "depth": p["depth"], "max_fi": o["max_fi"], "entries": fstat["entries"] if fstat else 0})
    # ---- a tail-call loop started from the deepest frames: frame re-use needs no frame, so it must work wherever the call that
    # entered the function worked (frame arithmetic: main is frame 1, g at nesting level k runs in frame k+1, the call of loop from
    # level D needs frame D+2 <= MaxFrames).  1 operand-stack slot per level, so the operand stack (2048) is not what runs out.
    edge = []
    for D in (1000, 1018, 1019, 1020, 1021, 1022, 1023, 1024, 1030):
        for iters in (0, 1, 50):
            src = ("d := 0\nloop := func(n, acc) { if n == 0 { return acc }; return loop(n - 1, acc + 1) }\n"
                   "g := func() { d += 1; if d >= %d { return loop(%d, 0) }; return g() + 0 }\nr := g()\n" % (D, iters))
            edge.append({"id": len(edge) + 1, "src": src, "inputs": [], "mods": [], "D": D, "iters": iters, "timeout_ms": 20000})
    eres = semlib.real_outcomes(ck, edge, nproc=6)
    for c in edge:
        o = eres[c["id"]]
        ck.evaluations += 1
        want_ok = c["D"] + 2 <= MAXFRAMES
        rep = {"program": {"src": c["src"], "D": c["D"], "iters": c["iters"]}, "real": o}
        if want_ok:
            r = dict((n, semcmp.canon(x)) for n, x in o.get("g", [])).get("r") if o.get("k") == "ok" else None
            if r != ("int", c["iters"]):
                ck.violation("tail-loop-in-last-frames:%d" % (MAXFRAMES - c["D"] - 2), "a self tail-call loop of %d iterations entered from nesting level %d (frame %d of %d) must return %d, got %s %s" % (
                    c["iters"], c["D"], c["D"] + 2, MAXFRAMES, c["iters"], o.get("k"), str(o.get("msg") or r)[:200]), rep)
                continue
        elif not (o.get("k") == "runtime_error" and o.get("kind") == "stack_overflow"):
            ck.violation("frame-limit-not-enforced", "nesting level %d needs frame %d > %d: expected the stack-overflow error, got %s" % (
                c["D"], c["D"] + 2, MAXFRAMES, str(o)[:200]), rep)
            continue
        ck.traces += 1
    # ---- further shapes of self tail calls, all deeper than the frame stack (1024) and the operand stack (2048) allow without re-use:
    # no arguments at all (state in a global / in a captured variable), arguments passed with the spread operator, and the short-circuit
    # forms behind code the optimizer removes (their jump operands are relocated)
    shapes = []
    for D in ((3000, 100000) if quick else (1500, 3000, 100000, 1000000)):
        T, F = {"k": "bool", "b": True}, {"k": "bool", "b": False}
        I = lambda n: {"k": "int", "n": n}
        shapes += [
            ("zero-arg/global", "n := %d\nacc := 0\nf := func() { if n <= 0 { return acc }; n -= 1; acc += 1; return f() }\nr := f()\n" % D, I(D)),
            ("zero-arg/and", "n := %d\nf := func() { if n <= 0 { return true }; n -= 1; return n >= 0 && f() }\nr := f()\n" % D, T),
            ("zero-arg/or", "n := %d\nf := func() { if n <= 0 { return false }; n -= 1; return n < 0 || f() }\nr := f()\n" % D, F),
            ("zero-arg/discarded", "n := %d\nf := func() { if n <= 0 { return }; n -= 1; f() }\nr := f()\nr2 := n\n" % D, {"k": "undef"}),
            ("zero-arg/captured", "mk := func() { n := %d; g := func() { if n <= 0 { return n }; n -= 1; return g() }; return g }\nr := mk()()\n" % D, I(0)),
            ("spread/rest", "f := func(n, acc, ...rest) { if n <= 0 { return acc + len(rest) }; return f(n - 1, acc + 1, rest...) }\nr := f(%d, 0, 7, 8)\n" % D, I(D + 2)),
            ("spread/all", "f := func(...a) { if a[0] <= 0 { return a[1] }; return f([a[0] - 1, a[1] + 1]...) }\nr := f(%d, 0)\n" % D, I(D)),
            ("spread/or", "f := func(n, ...rest) { return n <= 0 || f(n - 1, rest...) }\nr := f(%d, 1, 2)\n" % D, T),
            ("dead-code-then-or", "f := func(n) { if n < -5 { return 0; n = 1; n = 2 } else if n < -3 { return 1; n = 3 }; return n <= 0 || f(n - 1) }\nr := f(%d)\n" % D, T),
            ("dead-code-then-and", "f := func(n) { if n < -5 { return 0; n = 1 }; for false { return 2; n = 9 }; return n > 0 && f(n - 1) }\nr := f(%d)\n" % D, F),
            ("dead-code-then-call", "f := func(n, acc) { if n < 0 { return -1; acc = 0 }; if n == 0 { return acc; acc = 1 }; return f(n - 1, acc + 2) }\nr := f(%d, 0)\n" % D, I(2 * D)),
        ]
        shapes += [
            # the variadic parameter of every iteration stays alive as a value: each iteration has an array of its own
            ("variadic-kept", "collect := func(n, out, ...v) { out = append(out, v); if n == 0 { return out }; return collect(n - 1, out, n, n * 10) }\no := collect(%d, [])\n"
                              "r := o[1][0] + o[2][0] * 2 + o[len(o) - 1][0] * 3 + len(o) + o[1][1]\n" % D, I(D + (D - 1) * 2 + 3 + D + 1 + D * 10)),
            ("variadic-kept/fewer", "collect := func(n, out, ...v) { out = append(out, v); if n == 0 { return out }; return collect(n - 1, out, n) }\no := collect(%d, [], 5, 6, 7)\n"
                                    "r := o[0][2] + o[1][0] + o[2][0] * 2 + o[len(o) - 1][0] * 3 + len(o)\n" % D, I(7 + D + (D - 1) * 2 + 3 + D + 1)),
            ("variadic-kept/closure", "fs := []\nkeep := func(n, ...v) { fs = append(fs, func() { return v[0] }); if n == 0 { return len(fs) }; return keep(n - 1, n) }\nk := keep(%d, -1)\n"
                                      "r := fs[0]() + fs[1]() + fs[2]() * 2 + fs[len(fs) - 1]() * 3 + k\n" % D, I(-1 + D + (D - 1) * 2 + 3 + D + 1)),
            # a self call in tail position with the wrong number of arguments is the same error as any other call
            ("arity/too-few", "f := func(n, acc) { if n <= %d - 3 { return f(n - 1) }; return f(n - 1, acc + 1) }\nr := f(%d, 0)\n" % (D, D), {"err": "wrong_num_args"}),
            ("arity/too-many", "f := func(n, acc) { if n <= 0 { return f(n, acc, 1) }; return f(n - 1, acc + 1) }\nr := f(%d, 0)\n" % D, {"err": "wrong_num_args"}),
            ("arity/or", "f := func(n, acc) { return n < 0 || f(n - 1) }\nr := f(%d, 0)\n" % D, {"err": "wrong_num_args"}),
            ("arity/discarded", "f := func(n, acc) { if n < 0 { return }; f(n - 1) }\nr := f(%d, 0)\n" % D, {"err": "wrong_num_args"}),
            ("arity/variadic-too-few", "f := func(n, acc, ...rest) { if n <= 0 { return f(n) }; return f(n - 1, acc + 1, 7) }\nr := f(%d, 0)\n" % D, {"err": "wrong_num_args"}),
            ("arity/zero-params", "n := %d\nf := func() { if n <= 0 { return f(1) }; n -= 1; return f() }\nr := f()\n" % D, {"err": "wrong_num_args"}),
        ]
        shapes = [(t + ("" if "@" in t else "@%d" % D), s_, w) for (t, s_, w) in shapes]
    # a self call that is the LEFT operand of || / && (or sits inside any other expression) is not in tail position: its value is used
    T, F = {"k": "bool", "b": True}, {"k": "bool", "b": False}
    I = lambda n: {"k": "int", "n": n}
    for dd in (5, 40, 600):
        shapes += [
            ("left-of-or@%d" % dd, "any := func(n) { if n <= 0 { return false }; return any(n - 1) || n == 2 }\nr := any(%d)\n" % dd, T),
            ("left-of-and@%d" % dd, "all := func(n) { if n <= 0 { return true }; return all(n - 1) && n != 2 }\nr := all(%d)\n" % dd, F),
            ("left-of-or-value@%d" % dd, "f := func(n) { if n <= 0 { return false }; return f(n - 1) || n }\nr := f(%d)\n" % dd, I(1)),
            ("left-of-and-value@%d" % dd, "f := func(n) { if n <= 0 { return true }; return f(n - 1) && n }\nr := f(%d)\n" % dd, I(dd)),
            ("left-of-or-statement@%d" % dd, "c := 0\nf := func(n) { if n <= 0 { return false }; f(n - 1) || n == 2; c += 1 }\nf(%d)\nr := c\n" % dd, I(dd)),
            ("cond-of-ternary@%d" % dd, "f := func(n) { if n <= 0 { return false }; return f(n - 1) ? 1 : n == 3 }\nr := f(%d)\n" % dd, I(1) if dd >= 4 else T),
        ]
    scases = [{"id": i + 1, "src": s_, "inputs": [], "mods": [], "timeout_ms": 60000} for i, (t, s_, w) in enumerate(shapes)]
    sres = semlib.real_outcomes(ck, scases, nproc=8)
    for i, (t, s_, w) in enumerate(shapes):
        o = sres[i + 1]
        ck.evaluations += 1
        got = dict((n, v) for n, v in o.get("g", [])).get("r") if o.get("k") == "ok" else None
        if isinstance(w, dict) and "err" in w:
            got = {"err": o.get("kind")} if o.get("k") == "runtime_error" else got
        if got != w:
            ck.violation("tail-shape:" + t.split("@")[0], "self tail call (%s) at depth %s: expected r = %s, got %s %s\n%s" % (
                t.split("@")[0], t.split("@")[1], w, o.get("k"), str(o.get("msg") or got)[:200], s_), {"program": {"src": s_, "tag": t}, "real": o})
        else:
            ck.traces += 1
    ck.extra.update({"deep_tail_ok": tail_ok, "deep_nontail_ok": nontail_ok, "depths": depths, "model_depth_programs": len(progs), "last_frame_cases": len(edge), "deep_shape_cases": len(shapes)})
    ck.rule = ("14 forms of code after the self call x 0-2 accumulators x variadic x capturing closures; depths 0..12 against TengoSem, "
               "deep depths against the closed form of the equivalent loop with a frame probe")
    ck.assumptions = ["the closed forms used at deep depths are validated against TengoSem at the model depths in the same run"]


def replay(ck, path):
    rep = json.load(open(path))["replay"]
    print(json.dumps(rep, indent=1)[:3000])
    return 0
