package main

// Replay of SourcePos.tla histories on a real parser.SourceFileSet: every mutating call's return value is
// compared, and in the state reached every query of the specification's answer table is asked - positions in
// ascending and descending order and as every ordered pair (the first lookup loads the LastFile cache, the
// second must not care), File, SourceFile.Position/Offset/LineStart/FileSetPos/LineCount.

import (
	"encoding/json"
	"fmt"
	"sort"
	"strconv"
	"time"

	"github.com/d5/tengo/v2/parser"
)

type spCall struct {
	Op   string          `json:"op"`
	Args []int           `json:"args"`
	Ret  json.RawMessage `json:"ret"`
}

type spCase struct {
	Calls []spCall `json:"calls"`
	Table struct {
		Pos       json.RawMessage `json:"pos"`
		LineStart json.RawMessage `json:"linestart"`
		Offset    json.RawMessage `json:"offset"`
	} `json:"table"`
}

type spPos struct {
	File   int `json:"file"`
	Offset int `json:"offset"`
	Line   int `json:"line"`
	Column int `json:"column"`
}

// TLC prints a function over 1..n as an array and one over 0..n as an object keyed by the numbers
func intKeyed(raw json.RawMessage, first int) map[int]json.RawMessage {
	out := map[int]json.RawMessage{}
	var arr []json.RawMessage
	if json.Unmarshal(raw, &arr) == nil {
		for i, x := range arr {
			out[i+first] = x
		}
		return out
	}
	var obj map[string]json.RawMessage
	if json.Unmarshal(raw, &obj) == nil {
		for k, x := range obj {
			n, _ := strconv.Atoi(k)
			out[n] = x
		}
	}
	return out
}

func sortedKeys(m map[int]json.RawMessage) []int {
	ks := make([]int, 0, len(m))
	for k := range m {
		ks = append(ks, k)
	}
	sort.Ints(ks)
	return ks
}

func panics(f func()) (p bool) {
	defer func() {
		if recover() != nil {
			p = true
		}
	}()
	f()
	return false
}

func srcposHandle(raw []byte) map[string]interface{} {
	var c spCase
	if err := json.Unmarshal(raw, &c); err != nil {
		return map[string]interface{}{"error": err.Error()}
	}
	fs := parser.NewFileSet()
	var files []*parser.SourceFile
	fail := func(k int, what string, got, want interface{}) map[string]interface{} {
		return map[string]interface{}{"ok": false, "at": k, "what": what, "got": got, "want": want}
	}
	for k, call := range c.Calls {
		switch call.Op {
		case "AddFile":
			var want struct{ Base, Next int }
			_ = json.Unmarshal(call.Ret, &want)
			f := fs.AddFile(fmt.Sprintf("f%d", len(files)+1), call.Args[0], call.Args[1])
			files = append(files, f)
			if f.Base != want.Base || fs.Base != want.Next || f.Size != call.Args[1] || f.Set() != fs {
				return fail(k, "AddFile", map[string]int{"base": f.Base, "next": fs.Base, "size": f.Size}, want)
			}
		case "AddLine":
			var want struct{ Lines []int }
			_ = json.Unmarshal(call.Ret, &want)
			f := files[call.Args[0]-1]
			f.AddLine(call.Args[1])
			if fmt.Sprint(f.Lines) != fmt.Sprint(want.Lines) || f.LineCount() != len(want.Lines) {
				return fail(k, "AddLine", f.Lines, want.Lines)
			}
		default:
			return map[string]interface{}{"error": "unknown op " + call.Op}
		}
	}
	n := len(c.Calls) - 1
	// ---- the answer table of the state reached
	posT := intKeyed(c.Table.Pos, 0)
	want := map[int]spPos{}
	for p, r := range posT {
		var w spPos
		_ = json.Unmarshal(r, &w)
		want[p] = w
	}
	ask := func(p int) spPos {
		r := fs.Position(parser.Pos(p))
		g := spPos{Offset: r.Offset, Line: r.Line, Column: r.Column}
		for i, f := range files {
			if r.Filename == f.Name {
				g.File = i + 1
			}
		}
		return g
	}
	ps := sortedKeys(posT)
	check := func(p int, how string) map[string]interface{} {
		if g := ask(p); g != want[p] {
			return fail(n, fmt.Sprintf("Position(%d) %s", p, how), g, want[p])
		}
		f := fs.File(parser.Pos(p))
		if (f == nil) != (want[p].File == 0) || (f != nil && f != files[want[p].File-1]) {
			return fail(n, fmt.Sprintf("File(%d) %s", p, how), fmt.Sprint(f != nil), want[p].File)
		}
		return nil
	}
	for _, p := range ps {
		if r := check(p, "ascending"); r != nil {
			return r
		}
	}
	for i := len(ps) - 1; i >= 0; i-- {
		if r := check(ps[i], "descending"); r != nil {
			return r
		}
	}
	for _, q := range ps {
		for _, p := range ps {
			ask(q)
			if r := check(p, fmt.Sprintf("after Position(%d)", q)); r != nil {
				return r
			}
		}
	}
	for fi, row := range intKeyed(c.Table.LineStart, 1) {
		f := files[fi-1]
		for l, r := range intKeyed(row, 0) {
			var w int
			_ = json.Unmarshal(r, &w)
			var g parser.Pos
			pn := panics(func() { g = f.LineStart(l) })
			if pn != (w == -1) || (!pn && int(g) != w) {
				return fail(n, fmt.Sprintf("f%d.LineStart(%d)", fi, l), map[string]interface{}{"panic": pn, "pos": int(g)}, w)
			}
		}
	}
	for fi, row := range intKeyed(c.Table.Offset, 1) {
		f := files[fi-1]
		for p, r := range intKeyed(row, 0) {
			var w int
			_ = json.Unmarshal(r, &w)
			var g int
			pn := panics(func() { g = f.Offset(parser.Pos(p)) })
			if pn != (w == -1) || (!pn && g != w) {
				return fail(n, fmt.Sprintf("f%d.Offset(%d)", fi, p), map[string]interface{}{"panic": pn, "offset": g}, w)
			}
			if p == 0 {
				continue // NoPos: SourceFile.Position returns the zero value without looking
			}
			// SourceFile.Position: the same answer as the set's for positions of the file, a panic outside
			var fp parser.SourceFilePos
			pn = panics(func() { fp = f.Position(parser.Pos(p)) })
			if pn != (w == -1) {
				return fail(n, fmt.Sprintf("f%d.Position(%d)", fi, p), map[string]interface{}{"panic": pn}, w)
			}
			if !pn {
				wp := want[p]
				if fp.Offset != wp.Offset || fp.Line != wp.Line || fp.Column != wp.Column || fp.Filename != f.Name {
					return fail(n, fmt.Sprintf("f%d.Position(%d)", fi, p), fp, wp)
				}
				if int(f.FileSetPos(w)) != p {
					return fail(n, fmt.Sprintf("f%d.FileSetPos(%d)", fi, w), int(f.FileSetPos(w)), p)
				}
			}
		}
		if !panics(func() { f.FileSetPos(f.Size + 1) }) {
			return fail(n, fmt.Sprintf("f%d.FileSetPos(size+1)", fi), "no panic", "panic")
		}
	}
	return map[string]interface{}{"ok": true, "queries": len(ps)*len(ps) + 2*len(ps)}
}

func init() {
	register("srcpos", "replay SourcePos.tla histories and answer tables (cases on stdin)", func(args []string) error {
		return runCases(20*time.Second, srcposHandle)
	})
}
