"""Common machinery of the /verif checks: scratch space, harness build, TLC runs,
verdict protocol (violations / known findings / evidence / exit codes).

Exit codes: 0 held, 1 violation (with a VIOLATION line), 2 infrastructure failure.
"""
import hashlib
import json
import os
import re
import shutil
import subprocess
import sys
import tempfile
import time

VERIF = os.path.dirname(os.path.dirname(os.path.abspath(__file__)))
REPO = os.environ.get("VERIF_REPO", "/repo")
SPEC = os.path.join(VERIF, "spec")
HARNESS = os.path.join(VERIF, "harness")
TLA_CP = "/opt/veriftools/tla/tla2tools.jar:/opt/veriftools/tla/CommunityModules-deps.jar"

GOENV = {
    "GOFLAGS": "-mod=mod",
    "GOPROXY": "off",
    "GOSUMDB": "off",
    "GOTOOLCHAIN": "local",
}


class Infra(Exception):
    """Infrastructure failure: never a verdict about the property."""


def goenv():
    e = dict(os.environ)
    e.update(GOENV)
    return e


class TLCResult:
    def __init__(self):
        self.stdout = ""
        self.generated = 0
        self.distinct = 0
        self.cases = []  # parsed PrintT(<<tag, json>>) payloads: (tag, obj)
        self.rc = 0
        self.violated = None  # name of violated invariant / property
        self.wall = 0.0
        self.coverage = {}

    def tagged(self, tag):
        return [o for (t, o) in self.cases if t == tag]


_PRINT_RE = re.compile(r'^<<"([A-Z_0-9]+)", "(.*)">>$')


_ESC_RE = re.compile(r"\\(.)", re.S)
_ESC_MAP = {"n": "\n", "t": "\t"}


def _unescape_tla(s):
    # TLC prints TLA+ strings with \" and \\ escapes (and \n, \t).
    if "\\" not in s:
        return s
    return _ESC_RE.sub(lambda m: _ESC_MAP.get(m.group(1), m.group(1)), s)


class Check:
    def __init__(self, pid, tier, seed, level="model_checking"):
        self.pid = pid
        self.tier = tier
        self.seed = seed
        self.level = level
        self.t0 = time.time()
        base = os.environ.get("VERIF_SCRATCH", "/var/tmp")
        os.makedirs(base, exist_ok=True)
        self.scratch = tempfile.mkdtemp(prefix="verif-%s-" % pid, dir=base)
        self.states = 0
        self.transitions = 0
        self.traces = 0
        self.evaluations = 0
        self.samples = []
        self.extra = {}
        self.assumptions = []
        self.violations = []  # (key, what, replay)
        self.known_hits = []
        self.tlc_jobs = []
        self.exhaustive = None
        self.rule = ""
        self.distinct = set()
        self._drive = {}
        self.findings = load_findings()

    # ---------------------------------------------------------------- util
    def log(self, *a):
        print("[%s %6.1fs]" % (self.pid, time.time() - self.t0), *a, flush=True)

    def quick(self):
        return self.tier == "quick"

    def path(self, *p):
        return os.path.join(self.scratch, *p)

    def cleanup(self):
        shutil.rmtree(self.scratch, ignore_errors=True)

    def add_sample(self, s, limit=8):
        if len(self.samples) < limit:
            self.samples.append(s)

    def note_distinct(self, key):
        self.distinct.add(key if isinstance(key, str) else json.dumps(key, sort_keys=True))

    # ------------------------------------------------------------- harness
    def build_harness(self, race=False, tags="verif"):
        key = (race, tags)
        if key in self._drive:
            return self._drive[key]
        # The harness module is copied to scratch so that go.sum/go.mod edits made
        # by the toolchain never touch /verif; it always builds against REPO's tree.
        dst = self.path("harness-%s%s" % (tags, "-race" if race else ""))
        shutil.copytree(HARNESS, dst)
        gomod = open(os.path.join(dst, "go.mod")).read()
        gomod = re.sub(r"=> /repo\b", "=> " + REPO, gomod)
        open(os.path.join(dst, "go.mod"), "w").write(gomod)
        gosum = os.path.join(REPO, "go.sum")
        if os.path.exists(gosum):
            shutil.copy(gosum, os.path.join(dst, "go.sum"))
        out = os.path.join(dst, "drive.bin")
        cmd = ["go", "build", "-tags", tags, "-o", out]
        if race:
            cmd.append("-race")
        cmd.append("./cmd/drive")
        t = time.time()
        p = subprocess.run(cmd, cwd=dst, env=goenv(), capture_output=True, text=True)
        if p.returncode != 0:
            raise Infra("harness build failed:\n" + p.stdout + p.stderr)
        self.log("harness built%s in %.1fs" % (" (-race)" if race else "", time.time() - t))
        self._drive[key] = out
        return out

    def drive(self, args, input=None, timeout=600, race=False, env=None, check=True):
        exe = self.build_harness(race=race)
        e = goenv()
        e["VERIF_SEED"] = str(self.seed)
        if env:
            e.update(env)
        try:
            p = subprocess.run([exe] + args, input=input, capture_output=True, text=True,
                               timeout=timeout, env=e, cwd=self.scratch)
        except subprocess.TimeoutExpired:
            raise Infra("driver timed out: %s" % " ".join(args))
        if check and p.returncode != 0:
            raise Infra("driver failed (%d): %s\n%s" % (p.returncode, " ".join(args), p.stderr[-4000:]))
        return p

    # ----------------------------------------------------------------- TLC
    def tlc(self, module, cfg, files=None, workers=None, simulate=None, depth=None,
            timeout=600, xmx="4g", extra=None, deadlock=False, coverage=False,
            expect_violation=False, dfs=False, name=None, xss="64m", count=True):
        """Run TLC on spec/<module>.tla with config text or file `cfg`.

        files: {filename: text} written next to the spec (trace / case inputs).
        Returns TLCResult. Raises Infra on TLC errors that are not property
        violations (parse errors, evaluation errors, timeouts).
        """
        name = name or (module + "-" + hashlib.sha1((cfg + str(time.time())).encode()).hexdigest()[:6])
        d = self.path("tlc-" + name)
        os.makedirs(d, exist_ok=True)
        for f in os.listdir(SPEC):
            if f.endswith(".tla"):
                shutil.copy(os.path.join(SPEC, f), d)
        if os.path.exists(os.path.join(SPEC, cfg)):
            shutil.copy(os.path.join(SPEC, cfg), os.path.join(d, module + ".cfg"))
        else:
            open(os.path.join(d, module + ".cfg"), "w").write(cfg)
        for fn, text in (files or {}).items():
            open(os.path.join(d, fn), "w").write(text)
        if workers is None:
            workers = 1
        jopts = ["-XX:+UseParallelGC", "-Xmx" + xmx, "-Xss" + xss]
        if workers <= 2:
            # many single-worker JVMs run side by side: keep each one's GC/JIT threads few
            jopts += ["-XX:ParallelGCThreads=2", "-XX:CICompilerCount=2", "-XX:TieredStopAtLevel=1"]
        if dfs:
            jopts.append("-Dtlc2.tool.queue.IStateQueue=StateDeque")
        cmd = ["java"] + jopts + ["-cp", TLA_CP, "tlc2.TLC", "-metadir", os.path.join(d, "meta"),
                                  "-workers", str(workers), "-noGenerateSpecTE"]
        if not deadlock:
            cmd.append("-deadlock")  # TLC: -deadlock means do NOT check deadlock
        if coverage:
            cmd += ["-coverage", "1"]
        if simulate is not None:
            cmd += ["-simulate", "num=%d" % simulate, "-depth", str(depth or 100),
                    "-seed", str(self.seed)]
        if extra:
            cmd += extra
        cmd += ["-config", module + ".cfg", module + ".tla"]
        t = time.time()
        try:
            p = subprocess.run(cmd, cwd=d, capture_output=True, text=True, timeout=timeout)
        except subprocess.TimeoutExpired:
            subprocess.run(["pkill", "-f", "tlc2.TL[C].*" + re.escape(d)])
            raise Infra("TLC timed out after %ds: %s/%s" % (timeout, module, name))
        r = TLCResult()
        r.stdout = p.stdout
        r.rc = p.returncode
        r.wall = time.time() - t
        for line in p.stdout.splitlines():
            m = _PRINT_RE.match(line)
            if m:
                try:
                    r.cases.append((m.group(1), json.loads(_unescape_tla(m.group(2)))))
                except Exception as ex:  # malformed payload is an infra error
                    raise Infra("cannot parse TLC output line: %r (%s)" % (line[:200], ex))
                continue
            m = re.match(r"^(\d+) states generated, (\d+) distinct states found", line)
            if m:
                r.generated = int(m.group(1))
                r.distinct = int(m.group(2))
            m = re.match(r"^Error: Invariant (\S+) is violated", line)
            if m:
                r.violated = m.group(1)
            m = re.match(r"^Error: Action property (\S+) is violated", line)
            if m:
                r.violated = m.group(1)
            if line.startswith("Error: Temporal properties were violated"):
                r.violated = "temporal"
            m = re.match(r"^Error: The postcondition (.*) is violated|^Error: Postcondition", line)
            if m:
                r.violated = "postcondition"
        if simulate is not None and r.generated == 0:
            m = re.search(r"(\d+) states checked", p.stdout)
            if m:
                r.generated = int(m.group(1))
                r.distinct = r.distinct or r.generated
        self.tlc_jobs.append({"module": module, "name": name, "generated": r.generated,
                              "distinct": r.distinct, "wall_s": round(r.wall, 2),
                              "violated": r.violated})
        if count:
            self.states += r.distinct
            self.transitions += r.generated
        if r.violated and not expect_violation:
            # a model-level violation is a *candidate*; callers decide. Keep output.
            r.trace_text = p.stdout
            return r
        if r.rc != 0 and not r.violated:
            lines_ = p.stdout.splitlines()
            errs = [i for i, l in enumerate(lines_) if l.startswith("Error:") or "Exception" in l]
            head = "\n".join("\n".join(lines_[i:i + 6]) for i in errs[:3])
            tail = head + "\n...\n" + "\n".join(lines_[-25:])
            raise Infra("TLC failed rc=%d on %s/%s:\n%s\n%s" % (r.rc, module, name, tail, p.stderr[-2000:]))
        shutil.rmtree(os.path.join(d, "meta"), ignore_errors=True)
        return r

    # ------------------------------------------------------------ verdicts
    def violation(self, key, what, replay):
        """Report a confirmed violation. `key` is the normal form of the failing
        input class used to match known findings."""
        for f in self.findings:
            if f.get("property") == self.pid and f.get("status", "open") == "open" and f.get("key") == key:
                if key not in [k for (k, _) in self.known_hits]:
                    self.known_hits.append((key, f.get("what", what)))
                return False
        self.violations.append((key, what, replay))
        return True

    def finish(self):
        wall = time.time() - self.t0
        cov = {
            "states": self.states,
            "transitions": self.transitions,
            "traces_validated_against_impl": self.traces,
            "samples": self.samples if self.samples else ["(none)"],
            "evaluations": self.evaluations or self.traces,
            "distinct_nontrivial": len(self.distinct),
            "rule": self.rule,
            "tlc_jobs": self.tlc_jobs,
        }
        if self.exhaustive is not None:
            cov["exhaustive"] = bool(self.exhaustive)
        cov.update(self.extra)
        ev = {
            "property_id": self.pid,
            "tier": self.tier,
            "seed": self.seed,
            "level": self.level,
            "coverage": cov,
            "assumptions": self.assumptions,
            "wall_s": round(wall, 2),
            "violations": len(self.violations),
            "known_findings_reproduced": [k for (k, _) in self.known_hits],
        }
        os.makedirs(os.path.join(VERIF, "evidence"), exist_ok=True)
        with open(os.path.join(VERIF, "evidence", self.pid + ".json"), "w") as f:
            json.dump(ev, f, indent=1, sort_keys=True)
            f.write("\n")
        for key, what in self.known_hits:
            print("KNOWN-FINDING: property=%s %s [%s]" % (self.pid, what, key))
        rc = 0
        if self.violations:
            os.makedirs(os.path.join(VERIF, "out"), exist_ok=True)
            seen = set()
            for key, what, replay in self.violations:
                h = hashlib.sha1(json.dumps([key, replay], sort_keys=True, default=str).encode()).hexdigest()[:10]
                if h in seen:
                    continue
                seen.add(h)
                path = os.path.join(VERIF, "out", "%s-%s.json" % (self.pid, h))
                with open(path, "w") as f:
                    json.dump({"property": self.pid, "key": key, "what": what, "seed": self.seed,
                               "tier": self.tier, "replay": replay}, f, indent=1, default=str)
                print("VIOLATION property=%s replay=%s" % (self.pid, path))
                print("  key=%s: %s" % (key, what))
                if len(seen) >= int(os.environ.get("VERIF_MAXREPORT", "10")):
                    break
            rc = 1
        self.log("done: states=%d transitions=%d traces=%d violations=%d known=%d wall=%.1fs" % (
            self.states, self.transitions, self.traces, len(self.violations), len(self.known_hits), wall))
        return rc


def load_findings():
    p = os.path.join(VERIF, "known_findings.json")
    if not os.path.exists(p):
        return []
    return json.load(open(p)).get("findings", [])


def ndjson(objs):
    return "".join(json.dumps(o, separators=(",", ":")) + "\n" for o in objs)


def chunks(lst, n):
    for i in range(0, len(lst), n):
        yield lst[i:i + n]


def parallel(fn, items, nproc=16):
    """Run fn(item) over items in a thread pool (each fn spawns subprocesses)."""
    from concurrent.futures import ThreadPoolExecutor
    with ThreadPoolExecutor(max_workers=nproc) as ex:
        return list(ex.map(fn, items))


def run_cases(ck, subcmd, cases, nproc=8, race=False, timeout=900, env=None, args=None):
    """Feed `cases` (dicts with unique 'id') to `drive <subcmd>` worker processes.

    Returns {id: result}.  A case whose process hung gets {'hang': True}; a case
    whose process died gets {'died': True, 'stderr': ...}.  The remaining cases of
    a dead/hung worker are re-queued to a fresh worker.
    """
    exe = ck.build_harness(race=race)
    e = goenv()
    e["VERIF_SEED"] = str(ck.seed)
    if env:
        e.update(env)
    results = {}

    def work(batch):
        pending = list(batch)
        local = {}
        guard = 0
        while pending:
            guard += 1
            if guard > len(batch) + 5:
                raise Infra("worker restarted too often in %s" % subcmd)
            inp = ndjson(pending)
            try:
                p = subprocess.run([exe, subcmd] + (args or []), input=inp, capture_output=True,
                                   text=True, timeout=timeout, env=e, cwd=ck.scratch)
            except subprocess.TimeoutExpired:
                raise Infra("driver %s timed out after %ds" % (subcmd, timeout))
            started = None
            notes = {}
            done_ids = set()
            for line in p.stdout.splitlines():
                if not line.strip():
                    continue
                try:
                    o = json.loads(line)
                except Exception:
                    continue  # output of the script under test (print) etc.
                if not isinstance(o, dict):
                    continue
                if "start" in o and len(o) == 1:
                    started = o["start"]
                    notes = {}
                    continue
                if "note" in o:
                    # something the driver found out about the case in progress, in case it does not live to report a result
                    notes = dict(o)
                    continue
                if "id" in o:
                    if o.get("hang") and notes.get("note") == o["id"]:
                        o["note"] = notes
                    local[o["id"]] = o
                    done_ids.add(o["id"])
            if p.returncode == 0:
                missing = [c for c in pending if c["id"] not in done_ids]
                if missing:
                    raise Infra("driver %s exited 0 without results for %d cases" % (subcmd, len(missing)))
                pending = []
            else:
                # hang (exit 3, result already recorded) or death: attribute to `started`
                if started is None and not done_ids:
                    raise Infra("driver %s failed before any case (rc=%d): %s" % (subcmd, p.returncode, p.stderr[-3000:]))
                if started is not None and started not in done_ids:
                    local[started] = {"id": started, "died": True, "rc": p.returncode,
                                      "stderr": p.stderr[-3000:]}
                    if notes.get("note") == started:
                        local[started]["note"] = notes
                    done_ids.add(started)
                pending = [c for c in pending if c["id"] not in done_ids]
        return local

    if not cases:
        return results
    nproc = max(1, min(nproc, len(cases)))
    batches = [cases[i::nproc] for i in range(nproc)]
    for local in parallel(work, batches, nproc=nproc):
        results.update(local)
    return results


def retry_hangs(ck, subcmd, cases, res, **kw):
    """Batch cases that did not finish within the driver's deadline are run once more, one at a time: a codec that really loops
    hangs again; a machine that was merely busy does not turn into a verdict."""
    again = [c for c in cases if (res.get(c["id"]) or {}).get("hang")]
    for c in again:
        r2 = run_cases(ck, subcmd, [c], nproc=1, **kw)
        res[c["id"]] = r2[c["id"]]
    return res
