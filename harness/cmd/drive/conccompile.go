package main

import (
	"encoding/json"
	"fmt"
	"strings"
	"sync"
	"time"

	"github.com/d5/tengo/v2"
)

// conccompile: independent scripts compiled by several goroutines at the same time must compile to what they compile to alone
// (the compiler and its optimizer have no business sharing state between compilations).
func listingOf(src string) (string, error) {
	s := tengo.NewScript([]byte(src))
	c, err := s.Compile()
	if err != nil {
		return "", err
	}
	bc := c.VerifBytecode()
	return strings.Join(bc.FormatInstructions(), "\n") + "\n--\n" + strings.Join(stripPointers(bc.FormatConstants()), "\n"), nil
}

func init() {
	register("conccompile", "C03: concurrent compilation of independent scripts equals their sequential compilation", func(args []string) error {
		return runCases(120*time.Second, func(raw []byte) map[string]interface{} {
			var in struct {
				Srcs   []string `json:"srcs"`
				Rounds int      `json:"rounds"`
			}
			if err := json.Unmarshal(raw, &in); err != nil {
				return map[string]interface{}{"error": err.Error()}
			}
			want := make([]string, len(in.Srcs))
			for i, s := range in.Srcs {
				l, err := listingOf(s)
				if err != nil {
					l = "error: " + err.Error()
				}
				want[i] = l
			}
			var problems []string
			var mu sync.Mutex
			for r := 0; r < in.Rounds; r++ {
				var wg sync.WaitGroup
				start := make(chan struct{})
				for i := range in.Srcs {
					i := i
					wg.Add(1)
					go func() {
						defer wg.Done()
						defer func() {
							if p := recover(); p != nil {
								mu.Lock()
								problems = append(problems, fmt.Sprintf("script %d: compile panicked under concurrency: %v", i, p))
								mu.Unlock()
							}
						}()
						<-start
						l, err := listingOf(in.Srcs[i])
						if err != nil {
							l = "error: " + err.Error()
						}
						if l != want[i] {
							mu.Lock()
							if len(problems) < 5 {
								problems = append(problems, fmt.Sprintf("script %d compiled concurrently differs from its sequential compilation", i))
							}
							mu.Unlock()
						}
					}()
				}
				close(start)
				wg.Wait()
				if len(problems) > 0 {
					break
				}
			}
			return map[string]interface{}{"problems": problems, "scripts": len(in.Srcs)}
		})
	})
}
