----------------------------- MODULE ScriptAPI -----------------------------
(***************************************************************************)
(* The embedding API (script.go, variable.go): Script.Add / Remove /       *)
(* Compile, Compiled.Run / Get / GetAll / IsDefined / Set / Clone, as a    *)
(* state machine with the return value of every call.                      *)
(*                                                                         *)
(* Abstract state:                                                         *)
(*   src    which script of a small family the Script object holds         *)
(*   vars   the Script's variable table (name -> value)                    *)
(*   objs   the Compiled objects created so far; each has its own          *)
(*          globals (name -> value, "U" = undefined) over the names known  *)
(*          at compile time (declared variables + names the script defines)*)
(* Values are ints and strings (tuples of bytes); the effect of each       *)
(* script on the globals is given here as a function (and the same scripts *)
(* are part of the TengoSem program families).                             *)
(*                                                                         *)
(*   P1:  c := a; a = b                                                    *)
(*   P2:  c := 7                                                           *)
(*   P3:  c := 1; d := a + b        (fails after c := 1 when a is an int   *)
(*                                   and b a string: partial effect)      *)
(*   P4:  a.x[0] += 1               (mutates a container in place)         *)
(*   P5:  a.x = [1]                 (assigns a key of a container in place)*)
(* Containers handed in by the host have identity: heap[id] is the content *)
(* of container id.  Compile hands the *same* container to every Compiled  *)
(* object made from the Script (the implementation does not copy there);   *)
(* Clone copies deeply, Set and Add bring in fresh containers.             *)
(*                                                                         *)
(* hist is the call history with return values; VIEW hides it, so TLC's    *)
(* breadth-first search visits every (abstract state, call) edge once and  *)
(* the ACTION_CONSTRAINT prints one shortest witness history per edge: one *)
(* implementation test per transition.                                     *)
(***************************************************************************)
EXTENDS Integers, Sequences, FiniteSets, TLC, Json

CONSTANTS Names,      \* names the host uses in Add/Remove/Set/Get
          Vals,       \* values the host passes
          MaxObjs,    \* bound on Compiled objects
          MaxLen      \* bound on the length of a call history (state constraint)

I(n) == [k |-> "int", n |-> n]
S(b) == [k |-> "str", b |-> b]
MCVals == {I(1), I(2), S(<<115>>)}      \* the ints 1, 2 and the string "s"
NewCont == [k |-> "newcont"]            \* a fresh Go map {"x": [0]} handed in by the host
NewEmpty == [k |-> "newempty"]          \* a fresh empty Go map {} (a container without the key x: content -1)
Fl(n) == [k |-> "float", n |-> n]       \* the Go float64 n.0: Tengo-equal to the int n, but another type
MCVals2 == {I(2), S(<<115>>), NewCont}
Bad == [k |-> "bad"]                    \* a Go value of a type FromInterface does not support (a struct): the call fails and changes nothing
MCVals3 == {I(2), Fl(2), S(<<115>>), NewCont, NewEmpty, Bad}

Srcs == {"P1", "P2", "P3", "P4", "P5"}
Uses(s) == CASE s = "P1" -> {"a", "b"} [] s = "P2" -> {} [] s = "P3" -> {"a", "b"} [] s = "P4" -> {"a"} [] s = "P5" -> {"a"}
Defines(s) == CASE s = "P1" -> {"c"} [] s = "P2" -> {"c"} [] s = "P3" -> {"c", "d"} [] s = "P4" -> {} [] s = "P5" -> {}
MaxContent == 2
U == [k |-> "undef"]

Digit(n) == <<48 + n>>
Plus(x, y, h) == \* the + operator on the value universe; [k |-> "err"] = run-time error
  LET Rend(id) == IF h[id] < 0 THEN <<123, 125>> ELSE <<123, 120, 58, 32, 91>> \o Digit(h[id]) \o <<93, 125>> IN    \* {} or {x: [n]}
  IF x.k = "undef" \/ y.k = "undef" THEN [k |-> "err"]
  ELSE IF x.k = "cont" THEN [k |-> "err"]                     \* map + anything: invalid operation
  ELSE IF x.k = "str" /\ y.k = "cont" THEN S(x.b \o Rend(y.id))
  ELSE IF y.k = "cont" THEN [k |-> "err"]
  ELSE IF x.k = "int" /\ y.k = "int" THEN I(x.n + y.n)
  ELSE IF x.k \in {"int", "float"} /\ y.k \in {"int", "float"} THEN Fl(x.n + y.n)    \* mixed or float arithmetic gives a float
  ELSE IF x.k = "str" /\ y.k = "str" THEN S(x.b \o y.b)
  ELSE IF x.k = "str" THEN S(x.b \o Digit(y.n))   \* string + int (0..9) / float n.0: the text "n" is appended
  ELSE [k |-> "err"]                             \* number + string: invalid operation

\* effect of running script s on globals g and the container heap h: [g, h, ok]
Effect(s, g, h) ==
  CASE s = "P1" -> [g |-> [g EXCEPT !["c"] = g["a"], !["a"] = g["b"]], h |-> h, ok |-> TRUE]
    [] s = "P2" -> [g |-> [g EXCEPT !["c"] = I(7)], h |-> h, ok |-> TRUE]
    [] s = "P3" -> LET g1 == [g EXCEPT !["c"] = I(1)] r == Plus(g["a"], g["b"], h) IN
                   IF r.k = "err" THEN [g |-> g1, h |-> h, ok |-> FALSE]
                   ELSE [g |-> [g1 EXCEPT !["d"] = r], h |-> h, ok |-> TRUE]
    [] s = "P4" -> IF g["a"].k = "cont" /\ h[g["a"].id] >= 0 THEN [g |-> g, h |-> [h EXCEPT ![g["a"].id] = @ + 1], ok |-> TRUE]
                   ELSE [g |-> g, h |-> h, ok |-> FALSE]           \* no key x (or not a container): undefined[0] + 1 fails
    [] s = "P5" -> IF g["a"].k = "cont" THEN [g |-> g, h |-> [h EXCEPT ![g["a"].id] = 1], ok |-> TRUE]
                   ELSE [g |-> g, h |-> h, ok |-> FALSE]

VARIABLES src, vars, objs, heap, hist
vars4 == <<src, vars, objs, heap>>

Init == /\ src \in Srcs
        /\ vars = [n \in {} |-> U]
        /\ objs = <<>>
        /\ heap = <<>>
        /\ hist = <<>>

Call(op, args, ret) == hist' = Append(hist, [op |-> op, args |-> args, ret |-> ret])

Fresh(v) == IF v.k \in {"newcont", "newempty"} THEN [k |-> "cont", id |-> Len(heap) + 1] ELSE v
HeapAfter(v) == IF v.k = "newcont" THEN Append(heap, 0) ELSE IF v.k = "newempty" THEN Append(heap, -1) ELSE heap
Shown(v, h) == IF v.k = "cont" THEN [k |-> "cont", n |-> h[v.id]] ELSE v     \* what the host sees of a value

Add(n, v) == /\ Len(heap) < 4
             /\ v.k # "bad"
             /\ vars' = [m \in DOMAIN vars \cup {n} |-> IF m = n THEN Fresh(v) ELSE vars[m]]
             /\ heap' = HeapAfter(v)
             /\ Call("Add", <<n, v>>, "ok") /\ UNCHANGED <<src, objs>>

AddBad(n) == /\ Bad \in Vals
             /\ Call("Add", <<n, Bad>>, "err") /\ UNCHANGED <<src, vars, objs, heap>>

Remove(n) == /\ vars' = [m \in DOMAIN vars \ {n} |-> vars[m]]
             /\ Call("Remove", <<n>>, n \in DOMAIN vars) /\ UNCHANGED <<src, objs, heap>>

CompileOK == Uses(src) \subseteq DOMAIN vars /\ Defines(src) \cap DOMAIN vars = {}
Compile == /\ Len(objs) < MaxObjs
           /\ IF CompileOK
              THEN LET names == DOMAIN vars \cup Defines(src) IN
                   /\ objs' = Append(objs, [names |-> names, g |-> [n \in names |-> IF n \in DOMAIN vars THEN vars[n] ELSE U]])
                   /\ Call("Compile", <<>>, "ok")
              ELSE /\ objs' = objs
                   /\ Call("Compile", <<>>, "err")
           /\ UNCHANGED <<src, vars, heap>>

Run(i) == LET e == Effect(src, objs[i].g, heap) IN
          /\ \A k \in 1..Len(e.h) : e.h[k] <= MaxContent
          /\ objs' = [objs EXCEPT ![i].g = e.g]
          /\ heap' = e.h
          /\ Call("Run", <<i>>, IF e.ok THEN "ok" ELSE "err") /\ UNCHANGED <<src, vars>>

GetVal(o, n) == IF n \in o.names THEN o.g[n] ELSE U
Get(i, n) == Call("Get", <<i, n>>, Shown(GetVal(objs[i], n), heap)) /\ UNCHANGED vars4
IsDefined(i, n) == Call("IsDefined", <<i, n>>, GetVal(objs[i], n) # U) /\ UNCHANGED vars4
GetAll(i) == Call("GetAll", <<i>>, {<<n, Shown(objs[i].g[n], heap)>> : n \in objs[i].names}) /\ UNCHANGED vars4
Set(i, n, v) == /\ Len(heap) < 4
                /\ IF n \in objs[i].names /\ v.k # "bad"
                   THEN objs' = [objs EXCEPT ![i].g[n] = Fresh(v)] /\ heap' = HeapAfter(v)
                        /\ Call("Set", <<i, n, v>>, "ok") /\ UNCHANGED <<src, vars>>
                   ELSE Call("Set", <<i, n, v>>, "err") /\ UNCHANGED vars4
\* Clone copies every global deeply: containers get new identities with the same content
CloneGlobals(g, names, h) ==
  LET conts == {n \in names : g[n].k = "cont"}
      order == CHOOSE sq \in [1..Cardinality(conts) -> conts] : \A a, b \in 1..Cardinality(conts) : a # b => sq[a] # sq[b]
      idOf(n) == Len(h) + (CHOOSE k \in 1..Cardinality(conts) : order[k] = n)
  IN [g |-> [n \in names |-> IF n \in conts THEN [k |-> "cont", id |-> idOf(n)] ELSE g[n]],
      h |-> h \o [k \in 1..Cardinality(conts) |-> h[g[order[k]].id]]]
Clone(i) == /\ Len(objs) < MaxObjs
            /\ LET c == CloneGlobals(objs[i].g, objs[i].names, heap) IN
               /\ Len(c.h) <= 6
               /\ objs' = Append(objs, [objs[i] EXCEPT !.g = c.g])
               /\ heap' = c.h
            /\ Call("Clone", <<i>>, "ok") /\ UNCHANGED <<src, vars>>

AllNames == Names \cup {"c", "d", "zz"}
Next == \/ \E n \in Names, v \in Vals : Add(n, v)
        \/ \E n \in Names : AddBad(n)
        \/ \E n \in Names : Remove(n)
        \/ Compile
        \/ \E i \in 1..Len(objs) :
             \/ Run(i) \/ GetAll(i) \/ Clone(i)
             \/ \E n \in AllNames : Get(i, n) \/ IsDefined(i, n)
             \/ \E n \in AllNames, v \in Vals : Set(i, n, v)
Spec == Init /\ [][Next]_<<src, vars, objs, heap, hist>>

\* State identity for the edge-covering search: the concrete values are abstracted to their kinds, so
\* that TLC keeps one representative per class of API-visible situations (which names are declared
\* where, which are defined, and of which type - what decides every return value but Get's payload).
KindOrNone(f, n) == IF n \in DOMAIN f THEN f[n].k ELSE "none"
\* containers are abstracted to "which names (of which objects / of the Script) share one container"
ContOf(f, n) == IF n \in DOMAIN f /\ f[n].k = "cont" THEN f[n].id ELSE 0
ObjView(o) == <<o.names, KindOrNone(o.g, "a"), KindOrNone(o.g, "b"),
                {n \in o.names \ {"a", "b"} : o.g[n].k # "undef"}>>
Sharing == LET slots == {<<0, n>> : n \in DOMAIN vars} \cup UNION {{<<i, n>> : n \in objs[i].names} : i \in 1..Len(objs)}
               idAt(sl) == IF sl[1] = 0 THEN ContOf(vars, sl[2]) ELSE ContOf(objs[sl[1]].g, sl[2])
           IN <<{<<x, y>> \in slots \X slots : idAt(x) # 0 /\ idAt(x) = idAt(y)},
                {<<x, heap[idAt(x)]>> : x \in {sl \in slots : idAt(sl) # 0}}>>
View == <<src, KindOrNone(vars, "a"), KindOrNone(vars, "b"), DOMAIN vars, Len(objs),
          [i \in 1..Len(objs) |-> ObjView(objs[i])], Sharing>>
\* what the host can observe of the state reached, beyond the return values of the calls: every object's variables, whether the
\* script compiles now and what a newly compiled object holds (a call that "fails and changes nothing" is checked against this)
FinalObs == [objs |-> [i \in 1..Len(objs) |-> {<<n, Shown(objs[i].g[n], heap)>> : n \in objs[i].names}],
             compile |-> CompileOK,
             fresh |-> {<<n, IF n \in DOMAIN vars THEN Shown(vars[n], heap) ELSE U>> : n \in DOMAIN vars \cup Defines(src)}]
EmitEdge == PrintT(<<"CASE", ToJson([src |-> src, calls |-> hist', final |-> FinalObs'])>>)

Bounded == Len(hist) < MaxLen

\* ---- value exchange tables (docs/interoperability.md, docs/runtime-types.md) --------------
GoKinds == {"nil", "string", "int64", "int", "bool", "rune", "byte", "float64", "[]byte", "time.Time", "error",
            "map[string]Object", "map[string]interface{}", "[]Object", "[]interface{}", "Object", "CallableFunc"}
FromGo(k) == CASE k = "nil" -> "undefined" [] k = "string" -> "string" [] k \in {"int64", "int"} -> "int"
               [] k = "bool" -> "bool" [] k \in {"rune", "byte"} -> "char" [] k = "float64" -> "float"
               [] k = "[]byte" -> "bytes" [] k = "time.Time" -> "time" [] k = "error" -> "error"
               [] k \in {"map[string]Object", "map[string]interface{}"} -> "map"
               [] k \in {"[]Object", "[]interface{}"} -> "array"
               [] k = "Object" -> "same" [] k = "CallableFunc" -> "user-function"
\* what Variable.Value() / ToInterface gives back for a Tengo type
ToGo(t) == CASE t = "undefined" -> "nil" [] t = "string" -> "string" [] t = "int" -> "int64" [] t = "bool" -> "bool"
             [] t = "char" -> "rune" [] t = "float" -> "float64" [] t = "bytes" -> "[]byte" [] t = "time" -> "time.Time"
             [] t = "error" -> "error" [] t \in {"map", "immutable-map"} -> "map[string]interface{}"
             [] t \in {"array", "immutable-array"} -> "[]interface{}" [] OTHER -> "Object"
EmitTables == (hist = <<>>) =>
   PrintT(<<"TABLES", ToJson([fromgo |-> [k \in GoKinds |-> FromGo(k)],
                              togo |-> [t \in {"undefined", "string", "int", "bool", "char", "float", "bytes", "time", "error", "map",
                                                "immutable-map", "array", "immutable-array", "user-function"} |-> ToGo(t)]])>>)

\* ---- properties of the design ------------------------------------------------
\* a compiled object's variable reads as the last value the host set or the script assigned: by
\* construction of Get/Set/Run above; what TLC checks is isolation and well-formedness
Isolation == \A i \in 1..Len(objs) : DOMAIN objs[i].g = objs[i].names
NamesFixed == [][\A i \in 1..Len(objs) : objs'[i].names = objs[i].names]_<<src, vars, objs, heap, hist>>
\* a clone shares no container with the object it was cloned from (checked on every Clone step)
CloneIsolated ==
  [][(Len(objs') = Len(objs) + 1 /\ hist'[Len(hist')].op = "Clone") =>
       \A n \in objs'[Len(objs')].names :
         \A j \in 1..Len(objs) :
           \A m2 \in objs[j].names :
             ContOf(objs'[Len(objs')].g, n) = 0 \/ ContOf(objs'[Len(objs')].g, n) # ContOf(objs'[j].g, m2)]_<<src, vars, objs, heap, hist>>
=============================================================================
