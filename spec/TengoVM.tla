------------------------------- MODULE TengoVM -------------------------------
(***************************************************************************)
(* The virtual machine at bytecode level: operand stack, call frames with  *)
(* base pointers, local slots that become boxes once captured, free        *)
(* variable cells, globals, iterators - one action per instruction, with   *)
(* the value semantics of TengoValues (shared with the source-level        *)
(* specification TengoSem, whose builtin and unary-operator definitions    *)
(* are instantiated here).                                                 *)
(*                                                                         *)
(* It is a *trace specification*: the real compiler's bytecode of a        *)
(* program (decoded instructions, constants) is the program text, and the  *)
(* events the instrumented VM recorded - one per dispatched instruction,   *)
(* before it executes: frame index, function, instruction offset, stack    *)
(* pointer and a digest of the top of the stack - must be a behaviour of   *)
(* this machine.  The machine is deterministic except for the order in     *)
(* which a map iterator yields keys, which the trace resolves.  Runs that  *)
(* leave the modelled value range end with verdict "excluded".             *)
(***************************************************************************)
EXTENDS TengoValues, Json

Runs == ndJsonDeserialize("vmruns.ndjson")

VARIABLES ti, l, vm, verdict
vars == <<ti, l, vm, verdict>>

S == INSTANCE TengoSem WITH pi <- 0, m <- 0

MaxFrames == 1024
StackSize == 2048

R == Runs[ti]
Fn(P, f) == P.fns[f]                       \* f: 1 = main, others by position
Ins(P, f, i) == P.fns[f].ins[i]            \* [off, op, a, b]
\* instruction index of a byte offset within function f (0 if it is not an instruction boundary)
IdxOf(P, f, off) == LET I == {i \in 1..Len(P.fns[f].ins) : P.fns[f].ins[i].off = off} IN IF I = {} THEN 0 ELSE CHOOSE i \in I : TRUE

Junk == [k |-> "junk"]
Ptr(c) == [k |-> "ptr", c |-> c]
CFunc(f, free, id) == [k |-> "func", fn |-> f, free |-> free, id |-> id]   \* id: which function object (0 = the constant itself)
Iter(id) == [k |-> "iter", id |-> id]

\* ---- machine state ----------------------------------------------------------------
\* st: operand stack (st[i] is slot i-1 of the implementation), fr: frames (last = current),
\* g: globals, cells: boxes of captured variables, h: heap, its: iterators
RECURSIVE SetInputs(_, _, _)
SetInputs(mm, g0, i) ==   \* variables the host added before compiling: their values are in the globals from the start
  IF i > Len(g0) THEN mm
  ELSE LET r == Intern(mm.h, g0[i][2], 0) IN SetInputs([mm EXCEPT !.h = r.h, !.g[g0[i][1]] = r.v], g0, i + 1)

InitVM(P) == SetInputs(
  [st |-> <<>>, fr |-> <<[f |-> 1, ip |-> 1, bp |-> 0, free |-> <<>>, discard |-> FALSE, id |-> 0]>>, nclos |-> 0,
   g |-> [i \in 1..P.nglobals |-> VUndef], cells |-> <<>>, h |-> EmptyHeap, its |-> <<>>,
   status |-> "run", err |-> ""], P.g0, 1)

Cur(m) == m.fr[Len(m.fr)]
SP(m) == Len(m.st)
Top(m) == m.st[Len(m.st)]
Peek(m, k) == m.st[Len(m.st) - k]          \* k = 0: top
Pop(m, n) == [m EXCEPT !.st = SubSeq(@, 1, Len(@) - n)]
Push(m, v) == [m EXCEPT !.st = Append(@, v)]
Adv(m) == [m EXCEPT !.fr[Len(m.fr)].ip = @ + 1]
Fail(m, kind) == [m EXCEPT !.status = "error", !.err = kind]
Excl(m, why) == [m EXCEPT !.status = "excluded", !.err = why]
WithH(m, h2) == [m EXCEPT !.h = h2]

\* result of a TengoValues operation pushed after popping n operands
Res(m, n, r) ==
  IF r.ok THEN Adv(Push(WithH(Pop(m, n), r.h), r.v))
  ELSE IF r.kind = "excluded" THEN Excl(m, r.why) ELSE Fail(Pop(m, n), r.kind)

Deref(m, v) == IF v.k = "ptr" THEN m.cells[v.c] ELSE v

BinTok(t) ==   \* token numbers of token/tokens.go used by BINARYOP
  CASE t = 11 -> "+" [] t = 12 -> "-" [] t = 13 -> "*" [] t = 14 -> "/" [] t = 15 -> "%"
    [] t = 16 -> "&" [] t = 17 -> "|" [] t = 18 -> "^" [] t = 19 -> "<<" [] t = 20 -> ">>" [] t = 21 -> "&^"
    [] t = 38 -> "<" [] t = 39 -> ">" [] t = 43 -> "<=" [] t = 44 -> ">=" [] OTHER -> "?"

\* selector assignment: indexAssign(dst, src, selectors) of vm.go
RECURSIVE Descend(_, _, _, _)
Descend(h, dst, sels, i) ==   \* i from Len(sels) down to 2: IndexGet chain
  IF i < 2 THEN Ok(h, dst)
  ELSE LET r == IndexGet(h, dst, sels[i]) IN IF ~r.ok THEN r ELSE Descend(r.h, r.v, sels, i - 1)
IndexAssign(h, dst, src, sels) ==
  LET d == Descend(h, dst, sels, Len(sels)) IN
  IF ~d.ok THEN d
  ELSE IF d.v.k = "array" /\ ~d.v.imm /\ Partners(d.h, d.v.sid) # {} THEN Excluded("capacity")   \* might be visible through a sharing store
  ELSE IndexSet(d.h, d.v, sels[1], src)

\* ---- iterators ----------------------------------------------------------------------
NewIter(m, v) ==
  CASE v.k = "array" -> [kind |-> "array", src |-> v, pos |-> 0, n |-> v.len, left |-> {}, key |-> <<>>]
    [] v.k = "map" -> [kind |-> "map", src |-> v, pos |-> 0, n |-> Len(TableOf(m.h, v)), left |-> TableKeys(TableOf(m.h, v)), key |-> <<>>]
    [] v.k = "string" -> [kind |-> "string", src |-> v, pos |-> 0, n |-> Len(Runes(v.b)), left |-> {}, key |-> <<>>]
    [] v.k = "bytes" -> [kind |-> "bytes", src |-> v, pos |-> 0, n |-> Len(v.b), left |-> {}, key |-> <<>>]
    [] OTHER -> [kind |-> "undef", src |-> v, pos |-> 0, n |-> 0, left |-> {}, key |-> <<>>]

\* ---- calls ------------------------------------------------------------------------------
\* the arguments are the top n slots; callee below them
CallCompiled(P, m, callee, n) ==
  LET fd == Fn(P, callee.fn)
      \* variadic: surplus arguments are rolled into an array
      va == fd.va /\ n - (fd.np - 1) >= 0
      nvar == n - (fd.np - 1)
      rolled == IF va THEN NewArr(m.h, SubSeq(m.st, SP(m) - nvar + 1, SP(m))) ELSE Ok(m.h, VUndef)
      m1 == IF va THEN Push(WithH(Pop(m, nvar), rolled.h), rolled.v) ELSE m
      n1 == IF va THEN fd.np ELSE n
      cur == Cur(m1)
      ip == cur.ip
      nextI == Ins(P, cur.f, ip + 1)
      next2 == IF ip + 2 <= Len(Fn(P, cur.f).ins) THEN Ins(P, cur.f, ip + 2).op ELSE "NONE"
      selfTail == callee.fn = cur.f /\ callee.id = cur.id /\ ip + 1 <= Len(Fn(P, cur.f).ins)
                  /\ (nextI.op = "RET" \/ (nextI.op = "POP" /\ next2 = "RET"))
  IN IF n1 # fd.np THEN Fail(m1, "wrong_num_args")
     ELSE IF selfTail
     THEN \* the frame is re-used: parameters overwritten in place, callee and arguments popped, ip back to the start
          LET args == SubSeq(m1.st, SP(m1) - n1 + 1, SP(m1))
              st1 == [i \in 1..(SP(m1) - n1 - 1) |-> IF i > cur.bp /\ i <= cur.bp + n1 THEN args[i - cur.bp] ELSE m1.st[i]]
          IN [m1 EXCEPT !.st = st1, !.fr[Len(m1.fr)].ip = 1,
                        !.fr[Len(m1.fr)].discard = (@ \/ nextI.op = "POP")]
     ELSE IF Len(m1.fr) >= MaxFrames THEN Fail(m1, "stack_overflow")
     ELSE LET bp == SP(m1) - n1
              grown == m1.st \o [i \in 1..(fd.nl - n1) |-> Junk]
          IN [m1 EXCEPT !.st = grown,
                        !.fr = Append(@, [f |-> callee.fn, ip |-> 1, bp |-> bp, free |-> callee.free, discard |-> FALSE, id |-> callee.id])]

\* self tail call detection compares function *objects*: the closure instance running in the frame
\* (every CLOSURE instruction makes a new object, a function constant is one object).

CallBuiltin(P, m, callee, n) ==
  LET args == SubSeq(m.st, SP(m) - n + 1, SP(m))
      m1 == Pop(m, n + 1)
      r == IF callee.name = "append"
           THEN (IF n < 2 THEN Err("wrong_num_args")
                 ELSE IF args[1].k # "array" THEN Err("invalid_arg_type")
                 ELSE LET a == args[1] L == Len(m.h.stores[a.sid]) end == a.off + a.len k == n - 1 items == SubSeq(args, 2, n) IN
                      \* Go semantics where Go is deterministic; a store that may share a hidden capacity with another one
                      \* (it was the source or the result of a growing append) is not written through: excluded
                      IF end + k <= L
                      THEN (IF a.imm THEN NewArr(m.h, ArrElems(m.h, a) \o items)
                            ELSE IF Partners(m.h, a.sid) # {} THEN Excluded("capacity")
                            ELSE Ok([m.h EXCEPT !.stores[a.sid] = [i \in 1..L |-> IF i > end /\ i <= end + k THEN items[i - end] ELSE @[i]]],
                                    VArr(FALSE, a.sid, a.off, a.len + k)))
                      ELSE IF ~a.imm /\ (\E q \in m.h.pairs : q[1] = a.sid) THEN Excluded("capacity")
                      ELSE LET r0 == NewArr(m.h, ArrElems(m.h, a) \o items) IN
                           IF a.imm THEN r0 ELSE Ok([r0.h EXCEPT !.pairs = @ \cup {<<a.sid, r0.v.sid>>}], r0.v))
           ELSE S!Builtin([h |-> m.h], callee.name, args)
      \* copy(f) of a compiled function is a new function object over the same code and the same cells
      \* (CompiledFunction.Copy): it matters to self-tail-call detection, which compares objects
      fcopy == callee.name = "copy" /\ n = 1 /\ args[1].k = "func"
  IN IF fcopy THEN Adv(Push([m1 EXCEPT !.nclos = @ + 1], CFunc(args[1].fn, args[1].free, m.nclos + 1)))
     ELSE IF r.ok THEN Adv(Push(WithH(m1, r.h), r.v))
     ELSE IF r.kind = "excluded" THEN Excl(m, r.why) ELSE Fail(m1, r.kind)

\* ---- one instruction -----------------------------------------------------------------------
\* returns the set of successor machines (more than one only for the next key of a map iterator)
Step(P, m) ==
  LET cur == Cur(m)
      in == Ins(P, cur.f, cur.ip)
      op == in.op
      One(x) == {x}
      LocalSlot(i) == cur.bp + i + 1
  IN
  CASE op = "CONST" -> LET c == P.consts[in.a + 1] IN
         One(IF c.k = "unrep" THEN Excl(m, "constant") ELSE IF c.k = "fnref" THEN Adv(Push(m, CFunc(c.f, <<>>, 0))) ELSE Adv(Push(m, c)))
    [] op = "NULL" -> One(Adv(Push(m, VUndef)))
    [] op = "TRUE" -> One(Adv(Push(m, VBool(TRUE))))
    [] op = "FALSE" -> One(Adv(Push(m, VBool(FALSE))))
    [] op = "POP" -> One(Adv(Pop(m, 1)))
    [] op = "BINARYOP" -> One(Res(m, 2, BinOp(m.h, BinTok(in.a), Peek(m, 1), Peek(m, 0))))
    [] op = "EQL" -> One(Adv(Push(Pop(m, 2), VBool(Equals(m.h, Peek(m, 1), Peek(m, 0), 0)))))
    [] op = "NEQ" -> One(Adv(Push(Pop(m, 2), VBool(~Equals(m.h, Peek(m, 1), Peek(m, 0), 0)))))
    [] op = "NOT" -> One(Adv(Push(Pop(m, 1), VBool(IsFalsy(m.h, Top(m))))))
    [] op = "BCOMPL" -> One(Res(m, 1, S!UnOp(m.h, "^", Top(m))))
    [] op = "MINUS" -> One(Res(m, 1, S!UnOp(m.h, "-", Top(m))))
    [] op = "JMP" -> One([m EXCEPT !.fr[Len(m.fr)].ip = IdxOf(P, cur.f, in.a)])
    [] op = "JMPF" -> One(IF IsFalsy(m.h, Top(m)) THEN [Pop(m, 1) EXCEPT !.fr[Len(m.fr)].ip = IdxOf(P, cur.f, in.a)] ELSE Adv(Pop(m, 1)))
    [] op = "ANDJMP" -> One(IF IsFalsy(m.h, Top(m)) THEN [m EXCEPT !.fr[Len(m.fr)].ip = IdxOf(P, cur.f, in.a)] ELSE Adv(Pop(m, 1)))
    [] op = "ORJMP" -> One(IF IsFalsy(m.h, Top(m)) THEN Adv(Pop(m, 1)) ELSE [m EXCEPT !.fr[Len(m.fr)].ip = IdxOf(P, cur.f, in.a)])
    [] op = "SETG" -> One(Adv([Pop(m, 1) EXCEPT !.g[in.a + 1] = Top(m)]))
    [] op = "GETG" -> One(Adv(Push(m, m.g[in.a + 1])))
    [] op = "SETSG" -> One(LET n == in.b
                               sels == SubSeq(m.st, SP(m) - n + 1, SP(m))
                               val == Peek(m, n)
                               r == IndexAssign(m.h, m.g[in.a + 1], val, sels)
                           IN IF r.ok THEN Adv(WithH(Pop(m, n + 1), r.h))
                              ELSE IF r.kind = "excluded" THEN Excl(m, r.why) ELSE Fail(Pop(m, n + 1), r.kind))
    [] op = "ARR" -> One(LET n == in.a r == NewArr(m.h, SubSeq(m.st, SP(m) - n + 1, SP(m))) IN Adv(Push(WithH(Pop(m, n), r.h), r.v)))
    [] op = "MAP" -> One(LET n == in.a
                             kv == SubSeq(m.st, SP(m) - n + 1, SP(m))
                             RECURSIVE Build(_, _)
                             Build(t, i) == IF i > n THEN t ELSE Build(TablePut(t, kv[i].b, kv[i + 1]), i + 2)
                             h2 == NewTable(m.h, Build(<<>>, 1))
                         IN Adv(Push(WithH(Pop(m, n), h2), VMap(FALSE, Len(h2.tables)))))
    [] op = "ERROR" -> One(Adv(Push([Pop(m, 1) EXCEPT !.h.nerr = @ + 1], VErr(m.h.nerr + 1, Top(m)))))
    [] op = "IMMUT" -> One(LET v == Top(m) IN
                           IF v.k \in {"array", "map"} /\ ~v.imm THEN Adv(Push(Pop(m, 1), [v EXCEPT !.imm = TRUE])) ELSE Adv(m))
    [] op = "INDEX" -> One(Res(m, 2, IndexGet(m.h, Peek(m, 1), Peek(m, 0))))
    [] op = "SLICE" -> One(Res(m, 3, SliceOf(m.h, Peek(m, 2), Peek(m, 1), Peek(m, 0))))
    [] op = "CALL" ->
         One(LET n0 == in.a
                 spread == in.b = 1
                 callee0 == Peek(m, n0)
             IN IF callee0.k \notin {"func", "builtin"} THEN (IF callee0.k \in {"hostfn", "userfunc"} THEN Excl(m, "host-function") ELSE Fail(m, "not_callable"))
                ELSE IF spread /\ Top(m).k # "array" THEN Fail(Pop(m, 1), "not_an_array")
                ELSE LET m1 == IF spread THEN [m EXCEPT !.st = SubSeq(@, 1, Len(@) - 1) \o ArrElems(m.h, Top(m))] ELSE m
                         n == IF spread THEN n0 - 1 + Top(m).len ELSE n0
                     IN IF SP(m1) > StackSize THEN Excl(m, "operand-stack")
                        ELSE IF callee0.k = "func" THEN CallCompiled(P, m1, callee0, n) ELSE CallBuiltin(P, m1, callee0, n))
    [] op = "RET" ->
         One(LET rv == IF cur.discard THEN VUndef ELSE IF in.a = 1 THEN Top(m) ELSE VUndef
                 caller == m.fr[Len(m.fr) - 1]
             IN \* the frame is dropped, the stack cut at its base pointer, the callee slot below it replaced by the result
                [m EXCEPT !.fr = [i \in 1..(Len(m.fr) - 1) |-> IF i = Len(m.fr) - 1 THEN [caller EXCEPT !.ip = @ + 1] ELSE m.fr[i]],
                          !.st = SubSeq(m.st, 1, cur.bp - 1) \o <<rv>>])
    [] op = "DEFL" -> One(Adv([Pop(m, 1) EXCEPT !.st[LocalSlot(in.a)] = Top(m)]))
    [] op = "SETL" -> One(LET slot == m.st[LocalSlot(in.a)] IN
                          IF slot.k = "ptr" THEN Adv([Pop(m, 1) EXCEPT !.cells[slot.c] = Top(m)])
                          ELSE Adv([Pop(m, 1) EXCEPT !.st[LocalSlot(in.a)] = Top(m)]))
    [] op = "GETL" -> One(Adv(Push(m, Deref(m, m.st[LocalSlot(in.a)]))))
    [] op = "SETSL" -> One(LET n == in.b
                               sels == SubSeq(m.st, SP(m) - n + 1, SP(m))
                               val == Peek(m, n)
                               r == IndexAssign(m.h, Deref(m, m.st[LocalSlot(in.a)]), val, sels)
                           IN IF r.ok THEN Adv(WithH(Pop(m, n + 1), r.h))
                              ELSE IF r.kind = "excluded" THEN Excl(m, r.why) ELSE Fail(Pop(m, n + 1), r.kind))
    [] op = "BUILTIN" -> One(Adv(Push(m, VBuiltin(P.builtins[in.a + 1]))))
    [] op = "CLOSURE" -> One(LET n == in.b
                                 caps == SubSeq(m.st, SP(m) - n + 1, SP(m))
                                 c == P.consts[in.a + 1]
                             IN IF c.k # "fnref" THEN Fail(m, "not_function")
                                ELSE IF \E i \in 1..n : caps[i].k # "ptr" THEN Excl(m, "closure-over-stack-slot")
                                ELSE Adv(Push([Pop(m, n) EXCEPT !.nclos = @ + 1], CFunc(c.f, [i \in 1..n |-> caps[i].c], m.nclos + 1))))
    [] op = "GETFP" -> One(Adv(Push(m, Ptr(cur.free[in.a + 1]))))
    [] op = "GETF" -> One(Adv(Push(m, m.cells[cur.free[in.a + 1]])))
    [] op = "SETF" -> One(Adv([Pop(m, 1) EXCEPT !.cells[cur.free[in.a + 1]] = Top(m)]))
    [] op = "GETLP" -> One(LET slot == m.st[LocalSlot(in.a)] IN
                           IF slot.k = "ptr" THEN Adv(Push(m, slot))
                           ELSE LET c == Len(m.cells) + 1 IN
                                Adv(Push([m EXCEPT !.cells = Append(@, slot), !.st[LocalSlot(in.a)] = Ptr(c)], Ptr(c))))
    [] op = "SETSF" -> One(LET n == in.b
                               sels == SubSeq(m.st, SP(m) - n + 1, SP(m))
                               val == Peek(m, n)
                               r == IndexAssign(m.h, m.cells[cur.free[in.a + 1]], val, sels)
                           IN IF r.ok THEN Adv(WithH(Pop(m, n + 1), r.h))
                              ELSE IF r.kind = "excluded" THEN Excl(m, r.why) ELSE Fail(Pop(m, n + 1), r.kind))
    [] op = "ITER" -> One(LET v == Top(m) IN
                          IF v.k = "undef" THEN Adv(m)       \* undefined is its own (empty) iterator
                          ELSE IF v.k \notin {"array", "map", "string", "bytes"} THEN Fail(Pop(m, 1), "not_iterable")
                          ELSE Adv(Push([Pop(m, 1) EXCEPT !.its = Append(@, NewIter(m, v))], Iter(Len(m.its) + 1))))
    [] op = "ITNXT" ->
         IF Top(m).k = "undef" THEN One(Adv(Push(Pop(m, 1), VBool(FALSE)))) ELSE
         LET id == Top(m).id it == m.its[id] IN
         IF it.kind = "map"
         THEN IF it.left = {} THEN One(Adv(Push(Pop(m, 1), VBool(FALSE))))
              ELSE {Adv(Push([Pop(m, 1) EXCEPT !.its[id].key = k, !.its[id].left = @ \ {k}], VBool(TRUE))) : k \in it.left}
         ELSE One(Adv(Push([Pop(m, 1) EXCEPT !.its[id].pos = @ + 1], VBool(it.pos + 1 <= it.n))))
    [] op = "ITKEY" ->
         One(IF Top(m).k = "undef" THEN Adv(m) ELSE LET it == m.its[Top(m).id] IN
             Adv(Push(Pop(m, 1), CASE it.kind = "map" -> VStr(it.key) [] it.kind = "undef" -> VUndef [] OTHER -> VInt(it.pos - 1))))
    [] op = "ITVAL" ->
         One(IF Top(m).k = "undef" THEN Adv(m) ELSE LET it == m.its[Top(m).id] IN
             Adv(Push(Pop(m, 1),
                 CASE it.kind = "array" -> m.h.stores[it.src.sid][it.src.off + it.pos]
                   [] it.kind = "map" -> TableGet(TableOf(m.h, it.src), it.key)
                   [] it.kind = "string" -> VChar(Runes(it.src.b)[it.pos])
                   [] it.kind = "bytes" -> VInt(it.src.b[it.pos])
                   [] OTHER -> VUndef)))
    [] op = "SUSPEND" -> One([m EXCEPT !.status = "done"])
    [] OTHER -> One(Excl(m, "opcode"))

\* ---- observation ----------------------------------------------------------------------------
TableLen(h, v) == Len(TableOf(h, v))
Digest(m, v) ==
  CASE v.k = "int" -> [k |-> "int", n |-> v.n]
    [] v.k = "float" -> [k |-> "float", q |-> v.q]
    [] v.k = "bool" -> [k |-> "bool", b |-> v.b]
    [] v.k = "char" -> [k |-> "char", c |-> v.c]
    [] v.k = "string" -> [k |-> "string", b |-> v.b]
    [] v.k = "bytes" -> [k |-> "bytes", b |-> v.b]
    [] v.k = "array" -> [k |-> "array", imm |-> v.imm, len |-> v.len]
    [] v.k = "map" -> [k |-> "map", imm |-> v.imm, len |-> TableLen(m.h, v)]
    [] v.k = "builtin" -> [k |-> "builtin", name |-> v.name]
    [] OTHER -> [k |-> v.k]          \* undef, error, func, ptr, iter, junk

\* does machine m (status "run") agree with event e = [fi, f, off, sp, top]?
Agrees(P, m, e) ==
  /\ Len(m.fr) = e.fi
  /\ Cur(m).f = e.f
  /\ Cur(m).ip <= Len(Fn(P, Cur(m).f).ins) /\ Ins(P, Cur(m).f, Cur(m).ip).off = e.off
  /\ SP(m) = e.sp
  /\ (e.sp > 0 /\ Top(m).k # "junk" /\ e.top.k # "unrep") => Digest(m, Top(m)) = e.top

Why(P, m, e) ==   \* first difference, for the report
  IF Len(m.fr) # e.fi THEN "frame index"
  ELSE IF Cur(m).f # e.f THEN "function"
  ELSE IF Cur(m).ip > Len(Fn(P, Cur(m).f).ins) \/ Ins(P, Cur(m).f, Cur(m).ip).off # e.off THEN "instruction pointer"
  ELSE IF SP(m) # e.sp THEN "stack pointer"
  ELSE "top of stack"

\* ---- trace validation ------------------------------------------------------------------------
\* l: number of events consumed; vm: the machine before instruction l+1 ... (vm agrees with event l)
Init == /\ ti = 1 /\ l = 1 /\ vm = InitVM(Runs[1])
        /\ verdict = IF Agrees(Runs[1], InitVM(Runs[1]), Runs[1].ev[1]) THEN [ok |-> TRUE] ELSE [ok |-> FALSE, why |-> "initial state", at |-> 1]

Consume ==
  /\ verdict.ok /\ vm.status = "run" /\ l < Len(R.ev)
  /\ LET succ == Step(R, vm)
         good == {x \in succ : x.status = "run" /\ Agrees(R, x, R.ev[l + 1])}
         stop == {x \in succ : x.status # "run"}
     IN IF good # {} THEN /\ vm' \in good /\ l' = l + 1 /\ UNCHANGED <<ti, verdict>>
        ELSE IF \E x \in stop : x.status = "excluded" THEN /\ vm' \in {x \in stop : x.status = "excluded"} /\ UNCHANGED <<ti, l, verdict>>
        ELSE \* no successor agrees: this path is dead (if it was the only one, the run is rejected - see the check)
             /\ verdict' = [ok |-> FALSE, at |-> l + 1,
                            why |-> IF stop # {} THEN "the machine stops (" \o (CHOOSE x \in stop : TRUE).status \o " " \o (CHOOSE x \in stop : TRUE).err \o ") but the run went on"
                                    ELSE Why(R, CHOOSE x \in succ : TRUE, R.ev[l + 1])]
             /\ UNCHANGED <<ti, l, vm>>

\* the last recorded instruction: the machine must end the way the run ended
Last ==
  /\ verdict.ok /\ vm.status = "run" /\ l = Len(R.ev)
  /\ LET succ == Step(R, vm) x == CHOOSE y \in succ : TRUE IN
     /\ vm' = x
     /\ verdict' = IF x.status = "excluded" THEN verdict
                   ELSE IF x.status = "run" THEN [ok |-> FALSE, at |-> l, why |-> "the run ended but the machine goes on"]
                   ELSE IF x.status = "done" /\ R.end # "ok" THEN [ok |-> FALSE, at |-> l, why |-> "the run failed (" \o R.end \o ") where the machine completes"]
                   ELSE IF x.status = "error" /\ R.end # x.err THEN [ok |-> FALSE, at |-> l, why |-> "the machine fails with " \o x.err \o ", the run ended with " \o R.end]
                   ELSE IF x.status = "done" /\ SP(x) # 0 THEN [ok |-> FALSE, at |-> l, why |-> "completed with a non-empty stack"]
                   ELSE verdict
     /\ UNCHANGED <<ti, l>>

Finish ==
  /\ (~verdict.ok \/ vm.status # "run")
  /\ PrintT(<<"VMTRACE", ToJson([id |-> R.id, ok |-> verdict.ok, verdict |-> verdict, status |-> vm.status, why |-> vm.err, consumed |-> l, n |-> Len(R.ev),
                                 globals |-> IF vm.status = "done" THEN [i \in 1..Len(vm.g) |-> Reify(vm.h, Deref(vm, vm.g[i]), 0)] ELSE <<>>])>>)
  /\ IF ti < Len(Runs)
     THEN /\ ti' = ti + 1 /\ l' = 1 /\ vm' = InitVM(Runs[ti + 1])
          /\ verdict' = IF Agrees(Runs[ti + 1], InitVM(Runs[ti + 1]), Runs[ti + 1].ev[1]) THEN [ok |-> TRUE] ELSE [ok |-> FALSE, why |-> "initial state", at |-> 1]
     ELSE /\ ti' = 0 /\ l' = 0 /\ vm' = [status |-> "end"] /\ verdict' = [ok |-> TRUE, done |-> TRUE]

Next == ti > 0 /\ (Consume \/ Last \/ Finish)
Spec == Init /\ [][Next]_vars

\* ---- invariants of the machine itself, checked in every state of every validated run ---------
FrameDiscipline ==
  (ti > 0 /\ "fr" \in DOMAIN vm) =>
     /\ Len(vm.fr) >= 1 /\ Len(vm.fr) <= MaxFrames
     /\ \A i \in 1..Len(vm.fr) : vm.fr[i].bp <= SP(vm) /\ (i > 1 => vm.fr[i].bp >= vm.fr[i - 1].bp)
     /\ \A i \in 2..Len(vm.fr) : vm.fr[i].bp >= 1 /\ vm.st[vm.fr[i].bp].k = "func"      \* the callee sits below its frame
CellsWellFormed ==
  (ti > 0 /\ "fr" \in DOMAIN vm) =>
     /\ \A i \in 1..Len(vm.st) : vm.st[i].k = "ptr" => vm.st[i].c \in 1..Len(vm.cells)
     /\ \A i \in 1..Len(vm.fr) : \A j \in 1..Len(vm.fr[i].free) : vm.fr[i].free[j] \in 1..Len(vm.cells)
     /\ \A i \in 1..Len(vm.cells) : vm.cells[i].k # "ptr"
=============================================================================
