SPECIFICATION Spec
CONSTANTS
  Shapes = {"finite", "error", "panic", "loop"}
  MaxSteps = 5
  ResetOnEntry = FALSE
  Drain = TRUE
INVARIANTS Safety EmitObs
PROPERTIES Live
