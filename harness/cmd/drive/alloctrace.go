package main

import (
	"context"
	"encoding/json"
	"errors"
	"time"

	"github.com/d5/tengo/v2"
	"github.com/d5/tengo/v2/parser"
)

// alloctrace: record, for one run under a given allocation budget, every dispatched instruction
// with the allocation counter before it and the detail the accounting rule depends on.
type allocCase struct {
	progCase
	Budget int64 `json:"budget"`
	MaxEv  int   `json:"max_events"`
	Clone  bool  `json:"clone"` // run a Clone() of the compiled script: it must carry the same budget
}

func kindOf(o tengo.Object) string {
	switch o.(type) {
	case nil:
		return "none"
	case *tengo.Array:
		return "array"
	case *tengo.Map:
		return "map"
	case *tengo.CompiledFunction:
		return "func"
	case *tengo.BuiltinFunction, *tengo.UserFunction:
		return "native"
	}
	return "other"
}

func allocHandle(raw []byte) map[string]interface{} {
	var pc allocCase
	if err := json.Unmarshal(raw, &pc); err != nil {
		return map[string]interface{}{"error": err.Error()}
	}
	pc.MaxAllocs = &pc.Budget
	c, bad := compileForDump(&pc.progCase)
	if bad != nil {
		return map[string]interface{}{"outcome": bad}
	}
	if pc.MaxEv == 0 {
		pc.MaxEv = 3000
	}
	if pc.Clone {
		c = c.Clone()
	}
	var evs []V
	over := false
	tengo.VerifSetStep(func(v *tengo.VM) {
		if len(evs) >= pc.MaxEv {
			over = true
			return
		}
		s := v.VerifState()
		e := V{"op": int(s.Op), "al": s.Allocs, "top": "-", "native": false, "tailcall": false}
		switch s.Op {
		case parser.OpImmutable:
			e["top"] = kindOf(v.VerifTop(0))
		case parser.OpCall:
			// operands: numArgs, spread - read from the instruction stream through the function
			code := s.Fn.Instructions
			if s.IP+1 < len(code) {
				n := int(code[s.IP+1])
				callee := v.VerifTop(n)
				e["native"] = kindOf(callee) == "native"
			}
		}
		evs = append(evs, e)
	})
	end := V{}
	tengo.VerifSetRun(nil, func(v *tengo.VM) {
		s := v.VerifState()
		end["al"] = s.Allocs
	})
	defer tengo.VerifSetStep(nil)
	defer tengo.VerifSetRun(nil, nil)
	ctx, cancel := context.WithTimeout(context.Background(), 10*time.Second)
	defer cancel()
	err := c.RunContext(ctx)
	res := map[string]interface{}{"budget": pc.Budget, "ev": evs, "over": over}
	if a, ok := end["al"]; ok {
		res["al_end"] = a
	} else {
		res["al_end"] = nil // a Go panic skipped the run-end hook
	}
	switch {
	case err == nil:
		res["end"] = "ok"
		res["g"] = encodeGlobals(c)
	case errors.Is(err, tengo.ErrObjectAllocLimit):
		res["end"] = "alloc_limit"
	case errors.Is(err, context.DeadlineExceeded):
		res["end"] = "timeout"
	default:
		res["end"] = "error"
		res["kind"] = classifyRuntime(err)
	}
	if len(evs) == 0 {
		res["ev"] = []V{}
	}
	return res
}

func init() {
	register("alloctrace", "record per-instruction allocation counters under a budget", func(args []string) error {
		return runCases(30*time.Second, allocHandle)
	})
}
