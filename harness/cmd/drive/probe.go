package main

import (
	"context"
	"encoding/json"
	"fmt"
	"time"
	"unsafe"

	"github.com/d5/tengo/v2"
)

// probe: run a program with the per-instruction hook and compare the real VM's
// operand-stack pointer with the static heights computed by BytecodeWF.tla:
//   sp = basePointer + NumLocals(fn) + H[fn][ip]     at every dispatched instruction.

type probeCase struct {
	progCase
	H []struct {
		Cidx int     `json:"cidx"`
		H    [][]int `json:"h"`
	} `json:"heights"`
	MaxSteps int `json:"max_steps"`
}

func codeKey(f *tengo.CompiledFunction) uintptr {
	if len(f.Instructions) == 0 {
		return 0
	}
	return uintptr(unsafe.Pointer(&f.Instructions[0]))
}

func probeHandle(raw []byte) map[string]interface{} {
	var pc probeCase
	if err := json.Unmarshal(raw, &pc); err != nil {
		return map[string]interface{}{"error": err.Error()}
	}
	c, bad := compileForDump(&pc.progCase)
	if bad != nil {
		return map[string]interface{}{"outcome": bad}
	}
	bc := c.VerifBytecode()
	type fnInfo struct {
		cidx int
		nl   int
		h    map[int]int
	}
	hs := map[int]map[int]int{}
	for _, e := range pc.H {
		m := map[int]int{}
		for _, p := range e.H {
			m[p[0]] = p[1]
		}
		hs[e.Cidx] = m
	}
	fns := map[uintptr]*fnInfo{codeKey(bc.MainFunction): {cidx: -1, nl: 0, h: hs[-1]}}
	for i, k := range bc.Constants {
		if f, ok := k.(*tengo.CompiledFunction); ok {
			fns[codeKey(f)] = &fnInfo{cidx: i, nl: f.NumLocals, h: hs[i]}
		}
	}
	byCode := map[string]*fnInfo{}
	for _, f := range fns {
		_ = f
	}
	byCode[string(bc.MainFunction.Instructions)] = fns[codeKey(bc.MainFunction)]
	for _, k := range bc.Constants {
		if f, ok := k.(*tengo.CompiledFunction); ok {
			byCode[string(f.Instructions)] = fns[codeKey(f)]
		}
	}
	steps := 0
	var mism []V
	maxSP, maxFI := 0, 0
	fam := map[string]int{}
	tengo.VerifSetStep(func(v *tengo.VM) {
		s := v.VerifState()
		steps++
		if s.SP > maxSP {
			maxSP = s.SP
		}
		if s.FI > maxFI {
			maxFI = s.FI
		}
		fi := fns[codeKey(s.Fn)]
		if fi == nil {
			// a function object made by copy(): same code in a fresh slice - identified by its instruction bytes
			fi = byCode[string(s.Fn.Instructions)]
			if fi != nil {
				fns[codeKey(s.Fn)] = fi
			}
		}
		if fi == nil {
			if len(mism) < 5 {
				mism = append(mism, V{"why": "unknown function", "ip": s.IP})
			}
			return
		}
		want, ok := fi.h[s.IP]
		if !ok {
			if len(mism) < 5 {
				mism = append(mism, V{"why": "executed an offset BytecodeWF never reached", "cidx": fi.cidx, "ip": s.IP, "op": s.Op})
			}
			return
		}
		if s.SP != s.BP+fi.nl+want || s.SP < 0 || s.SP > tengo.StackSize || s.FI < 1 || s.FI > tengo.MaxFrames {
			if len(mism) < 5 {
				mism = append(mism, V{"why": "sp != bp + NumLocals + H", "cidx": fi.cidx, "ip": s.IP, "op": s.Op,
					"sp": s.SP, "bp": s.BP, "nl": fi.nl, "h": want, "fi": s.FI})
			}
		}
		switch {
		case s.Op >= 22 && s.Op <= 24:
			fam["global"]++
		case s.Op >= 25 && s.Op <= 28 || s.Op == 32:
			fam["local"]++
		case s.Op == 29 || s.Op == 30 || s.Op == 31 || s.Op == 33:
			fam["free"]++
		}
	})
	endSP, endErr := -1, ""
	tengo.VerifSetRun(nil, func(v *tengo.VM) {
		s := v.VerifState()
		endSP = s.SP
		if s.Err != nil {
			endErr = s.Err.Error()
		}
	})
	defer tengo.VerifSetStep(nil)
	defer tengo.VerifSetRun(nil, nil)
	ctx, cancel := context.WithTimeout(context.Background(), 10*time.Second)
	defer cancel()
	err := c.RunContext(ctx)
	res := map[string]interface{}{"steps": steps, "mismatches": mism, "end_sp": endSP, "max_sp": maxSP, "max_fi": maxFI, "fam": fam}
	if err != nil {
		res["err"] = err.Error()
		res["kind"] = classifyRuntime(err)
	} else if endSP != 0 {
		res["mismatches"] = append(mism, V{"why": fmt.Sprintf("successful run left sp=%d", endSP)})
	}
	_ = endErr
	return res
}

func init() {
	register("probe", "run programs with the per-instruction probe against BytecodeWF heights", func(args []string) error {
		return runCases(30*time.Second, probeHandle)
	})
}
