package main

import (
	"fmt"
	"math/rand"
)

// Family "limits": every string / bytes producing operation of the core language driven across a
// small configured maximum length L (the check sets MaxStringLen = MaxBytesLen = L): operands of
// length a and b with a + b = L-1, L, L+1.
func limitsPrograms(r *rand.Rand, L int) []*Program {
	var ps []*Program
	str := func(n int) *Node {
		b := make([]byte, n)
		for i := range b {
			b[i] = byte('a' + i%26)
		}
		return Str(string(b))
	}
	add := func(meta string, st ...*Node) {
		ps = append(ps, &Program{Stmts: st, Meta: map[string]interface{}{"cell": meta, "L": L}})
	}
	for total := L - 1; total <= L+2; total++ {
		for a := 0; a <= total; a++ {
			b := total - a
			if a > L || b > L {
				continue // a literal longer than the maximum is a compile error, covered below
			}
			add(fmt.Sprintf("str+str %d+%d", a, b), Def("x", str(a)), Def("y", str(b)), Def("r", Bin("+", Id("x"), Id("y"))))
			add(fmt.Sprintf("str+=str %d+%d", a, b), Def("x", str(a)), Set("x", nil, "+=", str(b)))
			add(fmt.Sprintf("bytes+bytes %d+%d", a, b), Def("x", Call(Id("bytes"), str(a))), Def("y", Call(Id("bytes"), str(b))),
				Def("r", Bin("+", Id("x"), Id("y"))))
		}
		// string + non-string operands whose rendering has a known length
		if total-1 >= 0 && total-1 <= L {
			add(fmt.Sprintf("str+int %d+1", total-1), Def("x", str(total-1)), Def("r", Bin("+", Id("x"), Int(7))))
			add(fmt.Sprintf("str+char %d+1", total-1), Def("x", str(total-1)), Def("r", Bin("+", Id("x"), Char('z'))))
		}
		if total-4 >= 0 && total-4 <= L {
			add(fmt.Sprintf("str+bool %d+4", total-4), Def("x", str(total-4)), Def("r", Bin("+", Id("x"), Bool(true))))
			add(fmt.Sprintf("str+arr %d+4", total-4), Def("x", str(total-4)), Def("r", Bin("+", Id("x"), Arr(Int(1), Int(2)))))
		}
		// the empty string as left operand: the result is the rendering of the right operand alone, which must respect the maximum too
		if total >= 1 {
			add(fmt.Sprintf("empty+int %d", total), Def("x", Str("")), Def("r", Bin("+", Id("x"), Int(int64(pow10(total))))))
			add(fmt.Sprintf("empty+str %d", min0(total, L)), Def("x", Str("")), Def("r", Bin("+", Id("x"), str(min0(total, L)))))
		}
		if total >= 2 {
			add(fmt.Sprintf("empty+arr %d", total), Def("x", Str("")), Def("r", Bin("+", Id("x"), Arr(Int(int64(pow10(total-2)))))))
			add(fmt.Sprintf("empty+=arr %d", total), Def("x", Str("")), Set("x", nil, "+=", Arr(Int(int64(pow10(total-2))))))
			add(fmt.Sprintf("empty+map %d", total), Def("x", Str("")), Def("r", Bin("+", Id("x"), Map([]string{"k"}, []*Node{Int(int64(pow10(max0(total-5))))}))))
		}
		// conversions producing strings / bytes of a given length
		add(fmt.Sprintf("string(int) len %d", total), Def("r", Call(Id("string"), Int(int64(pow10(total))))))
		add(fmt.Sprintf("bytes(N) %d", total), Def("r", Call(Id("bytes"), Int(int64(total)))))
		if total <= L {
			add(fmt.Sprintf("bytes(str) %d", total), Def("x", str(total)), Def("r", Call(Id("bytes"), Id("x"))))
			add(fmt.Sprintf("string(bytes) %d", total), Def("x", Call(Id("bytes"), str(total))), Def("r", Call(Id("string"), Id("x"))))
			add(fmt.Sprintf("string(arr) %d", total), Def("r", Call(Id("string"), Arr(str(max0(total-2))))))
		}
		// literals and map keys at the boundary
		add(fmt.Sprintf("literal %d", total), Def("r", str(total)))
		add(fmt.Sprintf("mapkey %d", total), Def("r", Map([]string{string(str(total).SV)}, []*Node{Int(1)})))
		add(fmt.Sprintf("selector %d", total), Def("m", Map(nil, nil)), Def("r", Sel(Id("m"), string(str(total).SV))))
	}
	// format(): the result (not only its parts) must respect the maximum; padding and precision included
	for _, f := range []struct{ fmtstr string; args []*Node }{
		{"%s%s", []*Node{str(L - 3), str(3)}}, {"%s%s", []*Node{str(L - 3), str(4)}}, {"%s-%s", []*Node{str(L - 4), str(4)}},
		{"abcd%-6d", []*Node{Int(1)}}, {"abcd%-4d", []*Node{Int(1)}}, {"abcd%-5d", []*Node{Int(1)}}, {"abcd%6d", []*Node{Int(1)}}, {"abcd%4d", []*Node{Int(1)}},
		{"ab%-6s", []*Node{Str("c")}}, {"ab%-7s", []*Node{Str("c")}}, {"ab%6s", []*Node{Str("c")}}, {"ab%7s", []*Node{Str("c")}},
		{"%-9v", []*Node{Int(5)}}, {"%9v", []*Node{Int(5)}}, {"%-8v", []*Node{Bool(true)}}, {"%-9v", []*Node{Bool(true)}},
		{"%09d", []*Node{Int(7)}}, {"%08d", []*Node{Int(7)}}, {"%.9f", []*Node{Float16(24)}}, {"%.5f", []*Node{Float16(24)}}, {"%10.3f", []*Node{Float16(24)}},
		{"%x", []*Node{str(4)}}, {"%x", []*Node{str(5)}}, {"%q", []*Node{str(6)}}, {"%q", []*Node{str(7)}}, {"%v", []*Node{Arr(Int(1), Int(2), Int(3))}},
		{"%v", []*Node{Arr(Int(1), Int(2))}}, {"%*d", []*Node{Int(9), Int(1)}}, {"%*d", []*Node{Int(8), Int(1)}}, {"%-*d", []*Node{Int(9), Int(1)}},
		{"%.*f", []*Node{Int(8), Float16(16)}}, {"%5t|%-5t", []*Node{Bool(true), Bool(false)}}, {"%c%c%c%c%c%c%c%c%c", []*Node{Char('a'), Char('b'), Char('c'), Char('d'), Char('e'), Char('f'), Char('g'), Char('h'), Char('i')}},
		{"%8s|", []*Node{Str("x")}}, {"%-8s|", []*Node{Str("x")}}, {"%+d%+d%+d%+d%+d", []*Node{Int(1), Int(2), Int(3), Int(4), Int(5)}},
	} {
		add("format "+f.fmtstr, Def("r", Call(Id("format"), append([]*Node{Str(f.fmtstr)}, f.args...)...)))
	}
	// the output of every kind of directive as the *last* thing written, with the text in front of it sweeping across the
	// maximum: each writer of the formatter (literal text, single bytes, padding, operands, the %!(EXTRA ...) trailer) has its
	// own boundary test
	for _, t := range []struct{ tail string; args []*Node }{
		{"%%", nil}, {"%d", []*Node{Call(Id("bytes"), Str("a"))}}, {"", []*Node{Int(1)}}, {"%c", []*Node{Char('z')}}, {"%v", []*Node{Arr(Int(1))}},
		{"%t", []*Node{Bool(true)}}, {"%q", []*Node{Str("a")}}, {"%x", []*Node{Str("a")}}, {"z", nil}, {"%d", []*Node{Int(5)}}, {"%2d", []*Node{Int(5)}},
		{"%-2d", []*Node{Int(5)}}, {"%s", []*Node{Str("é")}}, {"%v", []*Node{Map([]string{"a"}, []*Node{Int(1)})}}, {"%!", nil}, {"%z", []*Node{Int(1)}},
		{"%d", nil}, {"%[3]d", []*Node{Int(1)}}, {"%q", []*Node{Char('x')}}, {"%U", []*Node{Char('x')}}, {"%e", []*Node{Float16(16)}}, {"%v", []*Node{Undef()}},
	} {
		for n := 0; n <= L+1; n++ {
			add(fmt.Sprintf("format-tail %q after %d", t.tail, n), Def("r", Call(Id("format"), append([]*Node{Str("%s" + t.tail), str(n)}, t.args...)...)))
		}
	}
	// %x / %X of strings and bytes with every combination of the flags that change the size of the output, for every operand length
	for _, f := range []string{"%x", "% x", "%#x", "% #x", "%# X", "%-20x", "%020x", "% #20x"} {
		for n := 1; n <= L; n++ {
			add(fmt.Sprintf("format %s len %d", f, n), Def("r", Call(Id("format"), Str(f), str(n))))
			add(fmt.Sprintf("format-bytes %s len %d", f, n), Def("r", Call(Id("format"), Str(f), Call(Id("bytes"), str(n)))))
		}
	}
	for _, f := range []string{"%q", "%+q", "%#q", "%v", "%10v", "%-10s", "%10s", "%.3s", "%c%c", "%U", "%#U", "%08.3f", "%+.2e", "%t", "%5t", "%T", "%10T"} {
		add("format-misc "+f, Def("r", Call(Id("format"), Str(f), Str("héllo"), Str("x"))), Def("q", Call(Id("format"), Str(f), Int(233), Int(65))),
			Def("w", Call(Id("format"), Str(f), Float16(24), Bool(true))))
	}
	// signed and zero-padded numbers: sign, padding and digits are written by separate writers, so every flag set is driven with
	// widths around the maximum for negative and positive operands (the sign is written first, the digits last)
	for _, fl := range []string{"0", "+0", " 0", "+", "-", "-+"} {
		for w := L - 2; w <= L+2; w++ {
			for _, vb := range []struct{ verb string; neg, pos *Node }{
				{"d", Un("-", Int(15)), Int(15)}, {".2f", Un("-", Float16(24)), Float16(24)}, {".1e", Un("-", Float16(24)), Float16(24)},
				{"x", Un("-", Int(255)), Int(255)}, {"g", Un("-", Float16(24)), Float16(24)}, {"o", Un("-", Int(8)), Int(8)},
			} {
				f := fmt.Sprintf("%%%s%d%s", fl, w, vb.verb)
				add("format-signpad "+f, Def("r", Call(Id("format"), Str(f), vb.neg)), Def("q", Call(Id("format"), Str(f), vb.pos)))
			}
		}
	}
	// literals with multi-byte characters: the maximum counts bytes
	for k := 1; k <= L; k++ {
		b := ""
		for i := 0; i < k; i++ {
			b += "é"
		}
		add(fmt.Sprintf("literal-utf8 %d bytes", 2*k), Def("r", Str(b)))
		add(fmt.Sprintf("literal-utf8+ascii %d bytes", 2*k+1), Def("r", Str(b+"a")), Def("n", Call(Id("len"), Id("r"))))
	}
	// growth in loops
	add("doubling", Def("s", Str("ab")), For(Def("i", Int(0)), Bin("<", Id("i"), Int(6)), IncDec("i", nil, "++"), Blk(Set("s", nil, "+=", Id("s")))))
	add("bytes-doubling", Def("s", Call(Id("bytes"), Str("ab"))), For(Def("i", Int(0)), Bin("<", Id("i"), Int(6)), IncDec("i", nil, "++"),
		Blk(Set("s", nil, "=", Bin("+", Id("s"), Id("s"))))))
	add("append-strings", Def("a", Arr()), For(Def("i", Int(0)), Bin("<", Id("i"), Int(4)), IncDec("i", nil, "++"),
		Blk(Set("a", nil, "=", Call(Id("append"), Id("a"), Str("abcd"))))), Def("r", Call(Id("string"), Id("a"))))
	add("error-string", Def("e", ErrE(str(L))), Def("r", Call(Id("string"), Id("e"))))
	add("slice-keeps", Def("x", str(L)), Def("r", Slice(Id("x"), Int(1), nil)), Def("q", Bin("+", Id("r"), Str("z"))), Def("w", Bin("+", Id("q"), Str("z"))))
	return ps
}

func pow10(n int) int {
	// an int with n decimal digits (n >= 1), capped to the model's range
	if n < 1 {
		return 0
	}
	if n > 9 {
		n = 9
	}
	v := 1
	for i := 1; i < n; i++ {
		v *= 10
	}
	return v
}

func min0(a, b int) int {
	if a < b {
		return a
	}
	return b
}

func max0(n int) int {
	if n < 0 {
		return 0
	}
	return n
}

func init() {
	families["limits"] = func(seed int64, n int) []*Program {
		if n <= 0 {
			n = 8
		}
		return limitsPrograms(rand.New(rand.NewSource(seed)), n)
	}
}
