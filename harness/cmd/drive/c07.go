package main

import (
	"fmt"
	"context"
	"encoding/json"
	"errors"
	"runtime"
	"sort"
	"strings"
	"sync"
	"sync/atomic"
	"time"

	"github.com/d5/tengo/v2"
)

// C07: gate replay and free-running recording of Compiled.RunContext.

type c07Case struct {
	ID      int    `json:"id"`
	Shape   string `json:"shape"`
	Src     string `json:"src"`
	Mode    string `json:"mode"`   // "gated" | "free"
	Cancel  string `json:"cancel"` // gated: never|precall|pre|running|finished|returned ; free: delay|deadline|never
	K       int    `json:"k"`      // running: block when K instructions were dispatched
	DelayUs int    `json:"delay_us"`
	MaxLog  int    `json:"maxlog"` // step events are logged up to this index (and always after Abort)
	LeakMs  int    `json:"leak_ms"` // how long the runner stays blocked after Abort while the caller must not return (default 15)
}

type c07Run struct {
	mu          sync.Mutex
	events      []map[string]interface{}
	maxLog      int
	steps       int
	aborted     bool
	atAbort     int
	afterAbort  int
	sawRunEnd   bool
	blockAt     string
	blockK      int
	arrived     chan struct{}
	arrivedOnce sync.Once
	release     chan struct{}
	abortCh     chan struct{}
	abortOnce   sync.Once
	retSeen     int32
	stepsAtRet  int
}

var c07cur atomic.Value // *c07Run or (*c07Run)(nil)

func c07get() *c07Run {
	r, _ := c07cur.Load().(*c07Run)
	return r
}

func (r *c07Run) logLocked(ev map[string]interface{}) {
	r.events = append(r.events, ev)
}

func (r *c07Run) block(site string, k int) {
	if r.blockAt != site || (site == "running" && r.blockK != k) {
		return
	}
	r.arrivedOnce.Do(func() { close(r.arrived) })
	<-r.release
}

var c07hooksOnce sync.Once

func c07InstallHooks() {
	c07hooksOnce.Do(func() {
		tengo.VerifSetStep(func(v *tengo.VM) {
			r := c07get()
			if r == nil {
				return
			}
			r.mu.Lock()
			r.steps++
			n := r.steps
			if r.aborted {
				r.afterAbort++
			}
			if n <= r.maxLog || r.aborted {
				i := n
				if i > r.maxLog+1 {
					i = r.maxLog + 1
				}
				r.logLocked(map[string]interface{}{"e": "step", "i": i})
			}
			r.mu.Unlock()
			r.block("running", n-1)
		})
		tengo.VerifSetRun(nil, func(v *tengo.VM) {
			r := c07get()
			if r == nil {
				return
			}
			res := "nil"
			if v.VerifState().Err != nil {
				res = "runErr"
			}
			r.mu.Lock()
			r.sawRunEnd = true
			r.logLocked(map[string]interface{}{"e": "finished", "r": res})
			r.mu.Unlock()
			r.block("finished", 0)
		})
		tengo.VerifSetGate(func(site string) {
			r := c07get()
			if r == nil {
				return
			}
			switch site {
			case "runnerStart":
				r.mu.Lock()
				r.logLocked(map[string]interface{}{"e": "runnerStart"})
				r.mu.Unlock()
				r.block("pre", 0)
			case "runnerExit":
				r.mu.Lock()
				panicked := !r.sawRunEnd
				if panicked {
					r.logLocked(map[string]interface{}{"e": "finished", "r": "panicErr"})
				}
				r.mu.Unlock()
				if panicked {
					r.block("finished", 0)
				}
			case "afterAbort":
				r.mu.Lock()
				r.aborted = true
				r.atAbort = r.steps
				r.logLocked(map[string]interface{}{"e": "afterAbort"})
				r.mu.Unlock()
				r.abortOnce.Do(func() { close(r.abortCh) })
			case "callerRet":
				r.mu.Lock()
				r.stepsAtRet = r.steps
				r.logLocked(map[string]interface{}{"e": "callerRet", "res": "?"})
				r.mu.Unlock()
				atomic.StoreInt32(&r.retSeen, 1)
			}
		})
	})
}

var errC07Cause = errors.New("the cause given to the cancel function")

func c07Classify(err error) string {
	switch {
	case err == nil:
		return "nil"
	case err == context.Canceled || err == context.DeadlineExceeded:
		return "ctxErr"
	case errors.Is(err, errC07Cause):
		return "causeNotCtxErr" // the contract is ctx.Err()
	case strings.HasPrefix(err.Error(), "Runtime Error:"):
		return "runErr"
	default:
		return "panicErr"
	}
}

func c07Globals(c *tengo.Compiled) string {
	var parts []string
	for _, v := range c.GetAll() {
		parts = append(parts, v.Name()+"="+v.Object().TypeName()+":"+v.Object().String())
	}
	sort.Strings(parts)
	return strings.Join(parts, ";")
}

func newC07Run(maxLog int) *c07Run {
	return &c07Run{maxLog: maxLog, arrived: make(chan struct{}), release: make(chan struct{}),
		abortCh: make(chan struct{})}
}

// c07Quiesce waits until the goroutines spawned by the previous call are gone, so
// that a late deferred hook of an earlier runner cannot log into the next run.
func c07Quiesce(base int) int {
	left := 0
	for i := 0; i < 2000; i++ {
		left = runtime.NumGoroutine() - base
		if left <= 0 {
			return left
		}
		time.Sleep(200 * time.Microsecond)
	}
	return left
}

func c07Handle(raw []byte) map[string]interface{} {
	var cs c07Case
	if err := json.Unmarshal(raw, &cs); err != nil {
		return map[string]interface{}{"error": err.Error()}
	}
	if cs.MaxLog == 0 {
		cs.MaxLog = 12
	}
	c07InstallHooks()
	out := map[string]interface{}{}
	compile := func() (*tengo.Compiled, error) {
		s := tengo.NewScript([]byte(cs.Src))
		// a host function that panics: the Go-panic path of the spawned goroutine
		_ = s.Add("boom", &tengo.UserFunction{Name: "boom", Value: func(args ...tengo.Object) (tengo.Object, error) {
			panic("boom")
		}})
		// panic values that are neither strings nor errors
		_ = s.Add("boom2", &tengo.UserFunction{Name: "boom2", Value: func(args ...tengo.Object) (tengo.Object, error) {
			panic(42)
		}})
		_ = s.Add("boom3", &tengo.UserFunction{Name: "boom3", Value: func(args ...tengo.Object) (tengo.Object, error) {
			panic(struct{ A, B int }{1, 2})
		}})
		_ = s.Add("boom4", &tengo.UserFunction{Name: "boom4", Value: func(args ...tengo.Object) (tengo.Object, error) {
			panic(fmt.Errorf("an error value as panic value"))
		}})
		return s.Compile()
	}
	base := runtime.NumGoroutine()
	// Reference: a fresh object run to completion without interference (not for loops).
	refRes, refGlobals, n := "", "", 0
	if cs.Shape != "loop" {
		ref, err := compile()
		if err != nil {
			return map[string]interface{}{"error": "compile: " + err.Error()}
		}
		pr := newC07Run(1 << 30)
		c07cur.Store(pr)
		e := ref.RunContext(context.Background())
		c07Quiesce(base)
		c07cur.Store((*c07Run)(nil))
		refRes, refGlobals, n = c07Classify(e), c07Globals(ref), pr.steps
		if cs.Shape == "finite" {
			// the model's step NSteps is SUSPEND, which is dispatched (and counted) too
		}
	}
	out["n"] = n
	out["ref"] = refRes

	c, err := compile()
	if err != nil {
		return map[string]interface{}{"error": "compile: " + err.Error()}
	}
	r := newC07Run(cs.MaxLog)
	if cs.Mode == "gated" {
		switch cs.Cancel {
		case "pre", "finished":
			r.blockAt = cs.Cancel
		case "running":
			r.blockAt, r.blockK = "running", cs.K
		}
	}
	c07cur.Store(r)
	// cancellation carries a cause: what RunContext returns must still be the context's error (ctx.Err()), not the cause
	ctx, cancelCause := context.WithCancelCause(context.Background())
	cancel := func() { cancelCause(errC07Cause) }
	doCancel := func() {
		r.mu.Lock()
		r.logLocked(map[string]interface{}{"e": "cancel"})
		r.mu.Unlock()
		cancel()
	}
	if cs.Mode == "free" && cs.Cancel == "deadline" {
		// logged at creation: the model may then see the context fire earlier than it
		// really does, which only makes the validation more permissive, never unsound.
		r.logLocked(map[string]interface{}{"e": "cancel"})
		cancel()
		var cancelT context.CancelFunc
		ctx, cancelT = context.WithTimeoutCause(context.Background(), time.Duration(cs.DelayUs)*time.Microsecond, errC07Cause)
		cancel = func() { cancelT() }
	}
	if cs.Cancel == "precall" {
		doCancel()
	}
	resCh := make(chan error, 1)
	go func() { resCh <- c.RunContext(ctx) }()
	leak, noAbort, reached := false, false, false
	var err1 error
	got := false
	switch {
	case cs.Mode == "gated" && r.blockAt != "":
		select {
		case <-r.arrived:
			reached = true
			doCancel()
			select {
			case <-r.abortCh:
			case <-time.After(2 * time.Second):
				noAbort = true
			}
			// leak window: with the runner still blocked the caller must not return
			t := time.Now()
			window := 15 * time.Millisecond
			if cs.LeakMs > 0 {
				window = time.Duration(cs.LeakMs) * time.Millisecond
			}
			for time.Since(t) < window {
				if atomic.LoadInt32(&r.retSeen) == 1 {
					leak = true
					break
				}
				time.Sleep(500 * time.Microsecond)
			}
			close(r.release)
		case err1 = <-resCh:
			got = true // the block point was never reached (program ended earlier)
			close(r.release)
		}
	case cs.Mode == "free" && cs.Cancel == "delay":
		go func() {
			if cs.DelayUs > 0 {
				time.Sleep(time.Duration(cs.DelayUs) * time.Microsecond)
			}
			doCancel()
		}()
	}
	if !got {
		err1 = <-resCh
	}
	if cs.Cancel == "returned" {
		doCancel()
	}
	res1 := c07Classify(err1)
	// in free "delay" mode the canceller goroutine may still be about to log; wait for it
	if cs.Mode == "free" && cs.Cancel == "delay" {
		time.Sleep(time.Duration(cs.DelayUs)*time.Microsecond + 2*time.Millisecond)
	}
	cancel()
	r.mu.Lock()
	for _, ev := range r.events {
		if ev["e"] == "callerRet" && ev["res"] == "?" {
			ev["res"] = res1
		}
	}
	sat := func(x int) int {
		if x > cs.MaxLog {
			return cs.MaxLog
		}
		return x
	}
	obs := map[string]interface{}{
		"shape": cs.Shape, "res": res1, "steps": sat(r.stepsAtRet), "aborted": r.aborted,
		"atAbort": sat(r.atAbort), "after": r.afterAbort, "raw_steps": r.steps,
	}
	if !r.aborted {
		obs["atAbort"] = 0
	}
	events1 := append([]map[string]interface{}(nil), r.events...)
	r.mu.Unlock()
	// goroutine accounting: everything spawned for the call must be gone
	gor := c07Quiesce(base)
	out["obs"] = obs
	out["leak"] = leak
	out["no_abort"] = noAbort
	out["reached"] = reached
	out["goroutines_left"] = gor
	// round 2 on the same object, live context
	if cs.Shape != "loop" {
		r2 := newC07Run(cs.MaxLog)
		c07cur.Store(r2)
		ctx2, cancel2 := context.WithTimeout(context.Background(), 5*time.Second)
		err2 := c.RunContext(ctx2)
		cancel2()
		c07Quiesce(base)
		r2.mu.Lock()
		for _, ev := range r2.events {
			if ev["e"] == "callerRet" {
				ev["res"] = c07Classify(err2)
			}
		}
		events1 = append(events1, r2.events...)
		r2.mu.Unlock()
		out["round2"] = map[string]interface{}{"res": c07Classify(err2), "globals_ok": c07Globals(c) == refGlobals,
			"globals": c07Globals(c), "ref_globals": refGlobals}
	}
	c07cur.Store((*c07Run)(nil))
	out["events"] = events1
	return out
}

func init() {
	register("c07", "RunContext gate replay / free-running recording (cases on stdin)", func(args []string) error {
		return runCases(20*time.Second, c07Handle)
	})
}
