package main

import (
	"context"
	"encoding/json"
	"time"

	"github.com/d5/tengo/v2"
	"github.com/d5/tengo/v2/parser"
)

// vmtrace: compile a program, decode its bytecode for TengoVM.tla and record one event per dispatched
// instruction (before it executes): frame index, function, instruction offset, stack pointer and a
// digest of the top of the stack.

var vmOpNames = map[byte]string{
	parser.OpConstant: "CONST", parser.OpPop: "POP", parser.OpTrue: "TRUE", parser.OpFalse: "FALSE", parser.OpBComplement: "BCOMPL",
	parser.OpEqual: "EQL", parser.OpNotEqual: "NEQ", parser.OpMinus: "MINUS", parser.OpLNot: "NOT", parser.OpJumpFalsy: "JMPF",
	parser.OpAndJump: "ANDJMP", parser.OpOrJump: "ORJMP", parser.OpJump: "JMP", parser.OpNull: "NULL", parser.OpGetGlobal: "GETG",
	parser.OpSetGlobal: "SETG", parser.OpSetSelGlobal: "SETSG", parser.OpArray: "ARR", parser.OpMap: "MAP", parser.OpError: "ERROR",
	parser.OpImmutable: "IMMUT", parser.OpIndex: "INDEX", parser.OpSliceIndex: "SLICE", parser.OpCall: "CALL", parser.OpReturn: "RET",
	parser.OpGetLocal: "GETL", parser.OpSetLocal: "SETL", parser.OpDefineLocal: "DEFL", parser.OpSetSelLocal: "SETSL",
	parser.OpGetBuiltin: "BUILTIN", parser.OpClosure: "CLOSURE", parser.OpGetFreePtr: "GETFP", parser.OpGetFree: "GETF",
	parser.OpSetFree: "SETF", parser.OpGetLocalPtr: "GETLP", parser.OpSetSelFree: "SETSF", parser.OpIteratorInit: "ITER",
	parser.OpIteratorNext: "ITNXT", parser.OpIteratorKey: "ITKEY", parser.OpIteratorValue: "ITVAL", parser.OpBinaryOp: "BINARYOP",
	parser.OpSuspend: "SUSPEND",
}

func decodeIns(code []byte) ([]V, bool) {
	out := []V{}
	for i := 0; i < len(code); {
		w, ok := opWidths(code[i])
		if !ok {
			return nil, false
		}
		total := 0
		for _, x := range w {
			total += x
		}
		if i+1+total > len(code) {
			return nil, false
		}
		ops, read := parser.ReadOperands(w, code[i+1:])
		in := V{"off": i, "op": vmOpNames[code[i]], "a": 0, "b": 0}
		if len(ops) > 0 {
			in["a"] = ops[0]
		}
		if len(ops) > 1 {
			in["b"] = ops[1]
		}
		out = append(out, in)
		i += 1 + read
	}
	return out, true
}

func digest(o tengo.Object) V {
	if o == nil {
		return V{"k": "junk"}
	}
	switch o := o.(type) {
	case *tengo.Array:
		return V{"k": "array", "imm": false, "len": len(o.Value)}
	case *tengo.ImmutableArray:
		return V{"k": "array", "imm": true, "len": len(o.Value)}
	case *tengo.Map:
		return V{"k": "map", "imm": false, "len": len(o.Value)}
	case *tengo.ImmutableMap:
		return V{"k": "map", "imm": true, "len": len(o.Value)}
	case *tengo.Error:
		return V{"k": "error"}
	case *tengo.CompiledFunction:
		return V{"k": "func"}
	case *tengo.BuiltinFunction:
		return V{"k": "builtin", "name": o.Name}
	case *tengo.ObjectPtr:
		return V{"k": "ptr"}
	case *tengo.Int, *tengo.Float, *tengo.Bool, *tengo.Char, *tengo.String, *tengo.Bytes, *tengo.Undefined:
		return encodeValue(o)
	case *tengo.UserFunction:
		return V{"k": "userfunc"}
	}
	if _, isIt := o.(tengo.Iterator); isIt {
		return V{"k": "iter"}
	}
	return V{"k": "unrep"}
}

func init() {
	register("vmtrace", "TengoVM.tla: bytecode and per-instruction trace of a program", func(args []string) error {
		return runCases(60*time.Second, func(raw []byte) map[string]interface{} {
			var pc struct {
				progCase
				MaxSteps int `json:"max_steps"`
			}
			if err := json.Unmarshal(raw, &pc); err != nil {
				return map[string]interface{}{"error": err.Error()}
			}
			if pc.MaxSteps == 0 {
				pc.MaxSteps = 3000
			}
			c, bad := compileForDump(&pc.progCase)
			if bad != nil {
				return map[string]interface{}{"outcome": bad}
			}
			bc := c.VerifBytecode()
			fnIdx := map[uintptr]int{codeKey(bc.MainFunction): 1}
			// function objects made by copy() carry the same code in a fresh slice: identified by their instruction
			// bytes, and if two functions of the program have the same bytes the run is not validated
			byCode := map[string][]int{string(bc.MainFunction.Instructions): {1}}
			ambiguous := false
			mainIns, ok := decodeIns(bc.MainFunction.Instructions)
			if !ok {
				return map[string]interface{}{"outcome": V{"k": "undecodable"}}
			}
			fns := []V{{"ins": mainIns, "nl": bc.MainFunction.NumLocals, "np": 0, "va": false}}
			consts := []V{}
			for _, k := range bc.Constants {
				switch k := k.(type) {
				case *tengo.CompiledFunction:
					ins, ok := decodeIns(k.Instructions)
					if !ok {
						return map[string]interface{}{"outcome": V{"k": "undecodable"}}
					}
					fns = append(fns, V{"ins": ins, "nl": k.NumLocals, "np": k.NumParameters, "va": k.VarArgs})
					fnIdx[codeKey(k)] = len(fns)
					byCode[string(k.Instructions)] = append(byCode[string(k.Instructions)], len(fns))
					consts = append(consts, V{"k": "fnref", "f": len(fns)})
				case *tengo.Int, *tengo.Float, *tengo.Char, *tengo.String:
					consts = append(consts, encodeValue(k))
				default:
					consts = append(consts, V{"k": "unrep"})
				}
			}
			globals, _ := c.VerifGlobals()
			g0 := []interface{}{}
			for i, g := range globals {
				if g != nil && i < 64 {
					g0 = append(g0, []interface{}{i + 1, encodeValue(g)})
				}
			}
			ng := 0
			for i, g := range globals {
				if g != nil {
					ng = i + 1
				}
			}
			// the number of globals the program uses: highest index referenced by GETG/SETG/SETSG
			for _, f := range fns {
				for _, in := range f["ins"].([]V) {
					switch in["op"] {
					case "GETG", "SETG", "SETSG":
						if n := in["a"].(int) + 1; n > ng {
							ng = n
						}
					}
				}
			}
			builtins := []string{}
			for _, b := range tengo.GetAllBuiltinFunctions() {
				builtins = append(builtins, b.Name)
			}
			var ev []V
			truncated := false
			tengo.VerifSetStep(func(v *tengo.VM) {
				if len(ev) >= pc.MaxSteps {
					truncated = true
					return
				}
				s := v.VerifState()
				fidx, known := fnIdx[codeKey(s.Fn)]
				if !known {
					if c := byCode[string(s.Fn.Instructions)]; len(c) == 1 {
						fidx = c[0]
						fnIdx[codeKey(s.Fn)] = fidx
					} else {
						ambiguous = true
					}
				}
				e := V{"fi": s.FI, "f": fidx, "off": s.IP, "sp": s.SP, "top": V{"k": "junk"}}
				if s.SP > 0 {
					e["top"] = digest(v.VerifTop(0))
				}
				ev = append(ev, e)
			})
			defer tengo.VerifSetStep(nil)
			ctx, cancel := context.WithTimeout(context.Background(), 10*time.Second)
			defer cancel()
			err := c.RunContext(ctx)
			end := "ok"
			if err != nil {
				end = classifyRuntime(err)
			}
			if truncated {
				return map[string]interface{}{"outcome": V{"k": "too_long"}}
			}
			if ambiguous {
				return map[string]interface{}{"outcome": V{"k": "ambiguous_copied_function"}}
			}
			greal := []interface{}{}
			gl, _ := c.VerifGlobals()
			for i := 0; i < ng && i < len(gl); i++ {
				if gl[i] == nil {
					greal = append(greal, V{"k": "undef"})
				} else {
					greal = append(greal, encodeValue(gl[i]))
				}
			}
			run := V{"id": pc.ID, "fns": fns, "consts": consts, "nglobals": ng, "g0": g0, "builtins": builtins, "ev": ev, "end": end}
			return map[string]interface{}{"run": run, "g_real": greal, "end": end, "steps": len(ev)}
		})
	})
}
