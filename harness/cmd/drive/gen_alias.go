package main

import (
	"fmt"
	"math/rand"
)

// Family "alias": straight-line programs over a handful of array (and bytes/map)
// variables built from slicing, +, append, copy, immutable and element writes.
// The reference semantics tracks which values share storage; the family exists to
// make an implementation that shares more (or less) than documented observable.
func aliasProgram(r *rand.Rand) *Program {
	p := &Program{}
	var arrs []string
	n := 0
	newv := func() string { n++; return fmt.Sprintf("a%d", n) }
	lit := func() *Node {
		k := 1 + r.Intn(4)
		var el []*Node
		for i := 0; i < k; i++ {
			el = append(el, Int(int64(r.Intn(9))))
		}
		return Arr(el...)
	}
	v := newv()
	p.Stmts = append(p.Stmts, Def(v, lit()))
	arrs = append(arrs, v)
	steps := 3 + r.Intn(6)
	for i := 0; i < steps; i++ {
		src := arrs[r.Intn(len(arrs))]
		switch r.Intn(9) {
		case 0:
			v := newv()
			var lo, hi *Node
			if r.Intn(3) > 0 {
				lo = Int(int64(r.Intn(3)))
			}
			if r.Intn(3) > 0 {
				hi = Int(int64(1 + r.Intn(4)))
			}
			if lo != nil && hi != nil && lo.IV > hi.IV {
				lo, hi = hi, lo
			}
			p.Stmts = append(p.Stmts, Def(v, Slice(Id(src), lo, hi)))
			arrs = append(arrs, v)
		case 1:
			v := newv()
			rhs := lit()
			if r.Intn(3) == 0 {
				rhs = Id(arrs[r.Intn(len(arrs))])
			}
			p.Stmts = append(p.Stmts, Def(v, Bin("+", Id(src), rhs)))
			arrs = append(arrs, v)
		case 2:
			v := newv()
			p.Stmts = append(p.Stmts, Def(v, Call(Id("append"), Id(src), Int(int64(10+r.Intn(9))))))
			arrs = append(arrs, v)
		case 3, 4:
			p.Stmts = append(p.Stmts, Set(src, []*Node{Int(int64(r.Intn(3)))}, "=", Int(int64(20+r.Intn(9)))))
		case 5:
			v := newv()
			p.Stmts = append(p.Stmts, Def(v, Call(Id("copy"), Id(src))))
			arrs = append(arrs, v)
		case 6:
			v := newv()
			p.Stmts = append(p.Stmts, Def(v, Lit(lit())))
			arrs = append(arrs, v)
		case 7:
			v := newv()
			p.Stmts = append(p.Stmts, Def(v, Imm(Id(src))))
			arrs = append(arrs, v)
		case 8:
			v := newv()
			p.Stmts = append(p.Stmts, Def(v, Id(src)))
			arrs = append(arrs, v)
		}
	}
	return p
}

func Lit(n *Node) *Node { return n }

func init() {
	families["alias"] = func(seed int64, n int) []*Program {
		r := rand.New(rand.NewSource(seed))
		var ps []*Program
		for i := 0; i < n; i++ {
			ps = append(ps, aliasProgram(r))
		}
		return ps
	}
}
