package main

import (
	"fmt"
	"math/rand"
)

// Family "tailcalls": self-recursive functions in every tail / non-tail form, with 0-3 extra
// parameters, variadics, locals and closures capturing parameters.  Meta carries the depth, the
// form and whether the form is a tail position (so the deep runs know what to expect).
type tcForm struct {
	name string
	tail bool
	// body of f(n, acc...) given the recursive call expression `rec` and the base value `base`
	mk func(rec *Node, base *Node) []*Node
}

func tcForms() []tcForm {
	stop := func(base *Node) *Node { return If(nil, Bin("<=", Id("n"), Int(0)), Blk(Ret(base)), nil) }
	return []tcForm{
		{"return-call", true, func(rec, base *Node) []*Node { return []*Node{stop(base), Ret(rec)} }},
		{"and-call", true, func(rec, base *Node) []*Node { return []*Node{stop(base), Ret(Bin("&&", Bin(">", Id("n"), Int(0)), rec))} }},
		{"or-call", true, func(rec, base *Node) []*Node { return []*Node{stop(base), Ret(Bin("||", Bin("<", Id("n"), Int(0)), rec))} }},
		{"ternary-call", false, func(rec, base *Node) []*Node { return []*Node{stop(base), Ret(Cond(Bin(">", Id("n"), Int(0)), rec, Int(-1)))} }},
		{"if-else-return", true, func(rec, base *Node) []*Node {
			return []*Node{If(nil, Bin("<=", Id("n"), Int(0)), Blk(Ret(base)), Blk(Ret(rec)))}
		}},
		{"local-then-return-call", true, func(rec, base *Node) []*Node {
			return []*Node{stop(base), Def("t", Bin("+", Id("n"), Int(1))), Def("u", Arr(Id("t"))), Ret(rec)}
		}},
		{"plus-call", false, func(rec, base *Node) []*Node { return []*Node{stop(base), Ret(Bin("+", rec, Int(0)))} }},
		{"index-call", false, func(rec, base *Node) []*Node { return []*Node{stop(base), Ret(Idx(Arr(rec), Int(0)))} }},
		{"assign-then-return", false, func(rec, base *Node) []*Node { return []*Node{stop(base), Def("x", rec), Ret(Id("x"))} }},
		{"call-then-more", false, func(rec, base *Node) []*Node { return []*Node{stop(base), Def("x", rec), Def("y", Int(1)), Ret(Id("x"))} }},
		{"stmt-call-return", true, func(rec, base *Node) []*Node { return []*Node{stop(base), ExprS(rec), Ret(nil)} }},         // result discarded: undefined
		{"stmt-call-end", true, func(rec, base *Node) []*Node { return []*Node{stop(base), ExprS(rec)} }},                      // falls off the end: undefined
		{"stmt-call-return-value", false, func(rec, base *Node) []*Node { return []*Node{stop(base), ExprS(rec), Ret(Int(7))} }}, // not a tail call
		{"not-call", false, func(rec, base *Node) []*Node { return []*Node{stop(base), Ret(Un("!", rec))} }},
	}
}

func tailcallProgram(r *rand.Rand, form tcForm, nacc int, variadic, capture bool, depth int) *Program {
	params := []string{"n"}
	var recArgs []*Node
	recArgs = append(recArgs, Bin("-", Id("n"), Int(1)))
	var base *Node = Int(0)
	for i := 0; i < nacc; i++ {
		a := fmt.Sprintf("a%d", i)
		params = append(params, a)
		recArgs = append(recArgs, Bin("+", Id(a), Id("n")))
		base = Id(a)
	}
	if variadic {
		params = append(params, "rest")
		recArgs = append(recArgs, Id("n"), Int(1))
		base = Arr(base, Call(Id("len"), Id("rest")))
	}
	var pre []*Node
	if capture {
		// a closure created in every iteration captures the parameter of that iteration
		params = append(params, "fs")
		recArgs = append(recArgs, Call(Id("append"), Id("fs"), Fn(nil, false, Ret(Id("n")))))
		base = Arr(base, Call(Id("len"), Id("fs")), Call(Fn(nil, false, Def("out", Arr()),
			ForIn("", "g", Id("fs"), Blk(Set("out", nil, "=", Call(Id("append"), Id("out"), Call(Id("g")))))), Ret(Id("out")))))
	}
	if variadic && capture {
		// variadic parameter must be last
		params[len(params)-2], params[len(params)-1] = params[len(params)-1], params[len(params)-2]
		n := len(recArgs)
		// recArgs currently: ..., n, 1, append(fs,..)  ->  ..., append(fs,..), n, 1
		fsArg := recArgs[n-1]
		copy(recArgs[n-2:], []*Node{recArgs[n-3], recArgs[n-2]})
		recArgs[n-3] = fsArg
	}
	rec := Call(Id("f"), recArgs...)
	body := append(pre, form.mk(rec, base)...)
	callArgs := []*Node{Int(int64(depth))}
	for i := 0; i < nacc; i++ {
		callArgs = append(callArgs, Int(int64(i)))
	}
	if capture {
		callArgs = append(callArgs, Arr())
	}
	st := []*Node{Def("f", Fn(params, variadic, body...)), Def("r", Call(Id("f"), callArgs...))}
	return &Program{Stmts: st, Meta: map[string]interface{}{"form": form.name, "tail": form.tail, "depth": depth,
		"nacc": nacc, "variadic": variadic, "capture": capture}}
}

func tailcallPrograms(r *rand.Rand, depths []int, withCapture bool) []*Program {
	var ps []*Program
	for _, f := range tcForms() {
		for nacc := 0; nacc <= 2; nacc++ {
			for _, va := range []bool{false, true} {
				for _, cp := range []bool{false, true} {
					if cp && !withCapture {
						continue
					}
					for _, d := range depths {
						ps = append(ps, tailcallProgram(r, f, nacc, va, cp, d))
					}
				}
			}
		}
	}
	return ps
}

// special cases around "which calls are self tail calls": another closure instance of the same function
// literal is not "self" (it has other free variables); a discarded self call and a returned self call in
// the same function, taken in either order.
func tailcallSpecials(depth int) []*Program {
	var ps []*Program
	add := func(form string, tail bool, st ...*Node) {
		ps = append(ps, &Program{Stmts: st, Meta: map[string]interface{}{"form": form, "tail": tail, "depth": depth, "nacc": 0, "variadic": false,
			"capture": false, "special": true}})
	}
	d := Int(int64(depth))
	// a(n, next) tail-calls `next`, another instance of the same literal with a different captured k
	add("other-instance", false,
		Def("mk", Fn([]string{"k"}, false, Ret(Fn([]string{"n", "next"}, false, If(nil, Bin("<=", Id("n"), Int(0)), Blk(Ret(Id("k"))), nil),
			Ret(Call(Id("next"), Bin("-", Id("n"), Int(1)), Id("next"))))))),
		Def("a", Call(Id("mk"), Int(1))), Def("b", Call(Id("mk"), Int(2))), Def("r", Call(Id("a"), d, Id("b"))))
	// every level creates a fresh instance mk(k+1) and tail-calls it
	add("fresh-instance-each-level", false,
		Def("mk", Fn([]string{"k"}, false, Ret(Fn([]string{"n", "acc"}, false, If(nil, Bin("<=", Id("n"), Int(0)), Blk(Ret(Id("acc"))), nil),
			Ret(Call(Call(Id("mk"), Bin("+", Id("k"), Int(1))), Bin("-", Id("n"), Int(1)), Bin("+", Id("acc"), Id("k")))))))),
		Def("r", Call(Call(Id("mk"), Int(1)), d, Int(0))))
	// discarded self call first, returned self call later (and the other way round)
	add("discard-then-return", true,
		Def("f", Fn([]string{"n", "ret"}, false, If(nil, Bin("<=", Id("n"), Int(0)), Blk(Ret(Int(5))), nil),
			If(nil, Id("ret"), Blk(Ret(Call(Id("f"), Bin("-", Id("n"), Int(1)), Bool(false)))), nil),
			ExprS(Call(Id("f"), Bin("-", Id("n"), Int(1)), Bool(true))))),
		Def("r", Call(Id("f"), d, Bool(false))))
	add("return-then-discard", true,
		Def("f", Fn([]string{"n", "ret"}, false, If(nil, Bin("<=", Id("n"), Int(0)), Blk(Ret(Int(5))), nil),
			If(nil, Id("ret"), Blk(Ret(Call(Id("f"), Bin("-", Id("n"), Int(1)), Bool(false)))), nil),
			ExprS(Call(Id("f"), Bin("-", Id("n"), Int(1)), Bool(true))))),
		Def("r", Call(Id("f"), d, Bool(true))))
	add("alternate-discard-return", true,
		Def("f", Fn([]string{"n"}, false, If(nil, Bin("<=", Id("n"), Int(0)), Blk(Ret(Int(5))), nil),
			If(nil, Bin("==", Bin("%", Id("n"), Int(2)), Int(0)), Blk(Ret(Call(Id("f"), Bin("-", Id("n"), Int(1))))), nil),
			ExprS(Call(Id("f"), Bin("-", Id("n"), Int(1)))), Ret(nil))),
		Def("r", Call(Id("f"), d)))
	// a nested call of the same function from a frame whose result was discarded must not inherit the flag
	add("discard-flag-not-inherited", false,
		Def("f", Fn([]string{"n"}, false, If(nil, Bin("<=", Id("n"), Int(0)), Blk(Ret(Int(5))), nil),
			If(nil, Bin("==", Id("n"), Int(1)), Blk(Ret(Bin("+", Call(Id("f"), Int(0)), Int(1)))), nil),
			ExprS(Call(Id("f"), Bin("-", Id("n"), Int(1)))), Ret(nil))),
		Def("g", Fn(nil, false, Def("x", Call(Id("f"), d)), Def("y", Call(Id("f"), Int(1))), Ret(Arr(Id("x"), Id("y"))))),
		Def("r", Call(Id("g"))))
	return ps
}

func init() {
	families["tailcalls"] = func(seed int64, n int) []*Program {
		if n <= 0 {
			r := rand.New(rand.NewSource(seed))
			ps := tailcallPrograms(r, []int{0, 1, 2, 3, 7, 12}, true)
			for _, d := range []int{0, 1, 2, 3, 4, 7} {
				ps = append(ps, tailcallSpecials(d)...)
			}
			return ps
		}
		return families["tailcalls-deep"](seed, n)
	}
	families["tailcalls-deep"] = func(seed int64, n int) []*Program {
		r := rand.New(rand.NewSource(seed))
		return tailcallPrograms(r, []int{n}, n <= 5000)
	}
}
