package main

import (
	"bytes"
	"fmt"
	"strconv"
	"strings"
)

// The harness's own AST of Tengo programs.  It is independent of the
// repository's parser: programs are *printed* from it, and the same tree is
// exported as a flat node table for the TLA+ reference semantics (TengoSem).

type Node struct {
	ID int // 1-based index in the node table (assigned by Number)
	T  string

	Op   string
	Name string
	IV   int64  // int value; float value * 16 for T == "float"; code point for "char"
	BV   bool   // bool value; spread flag for "call"; varargs flag for "fn"
	SV   []byte // string / selector key bytes

	E, L, R, C, A, B *Node // generic children (meaning per kind)
	List             []*Node
	Keys             [][]byte // map literal keys
	Params           []string
	Init, Post, Body *Node
	KName, VName     string

	Pos, End int // byte extent in the printed source (set by Print)
}

func N(t string) *Node { return &Node{T: t} }

func Int(v int64) *Node       { return &Node{T: "int", IV: v} }
func Float16(q int64) *Node   { return &Node{T: "float", IV: q} }
func Bool(b bool) *Node       { return &Node{T: "bool", BV: b} }
func Undef() *Node            { return &Node{T: "undef"} }
func Char(c rune) *Node       { return &Node{T: "char", IV: int64(c)} }
func Str(s string) *Node      { return &Node{T: "str", SV: []byte(s)} }
func Id(n string) *Node       { return &Node{T: "id", Name: n} }
func Arr(el ...*Node) *Node   { return &Node{T: "arr", List: el} }
func Un(op string, e *Node) *Node { return &Node{T: "un", Op: op, E: e} }
func Bin(op string, l, r *Node) *Node {
	switch op {
	case "&&":
		return &Node{T: "and", L: l, R: r}
	case "||":
		return &Node{T: "or", L: l, R: r}
	}
	return &Node{T: "bin", Op: op, L: l, R: r}
}
func Cond(c, a, b *Node) *Node { return &Node{T: "cond", C: c, A: a, B: b} }
func Idx(e, i *Node) *Node     { return &Node{T: "idx", E: e, R: i} }
func Sel(e *Node, k string) *Node {
	return &Node{T: "sel", E: e, SV: []byte(k)}
}
func Slice(e, lo, hi *Node) *Node { return &Node{T: "slice", E: e, L: lo, R: hi} }
func Call(f *Node, args ...*Node) *Node {
	return &Node{T: "call", E: f, List: args}
}
func CallSpread(f *Node, args ...*Node) *Node {
	return &Node{T: "call", E: f, List: args, BV: true}
}
func Fn(params []string, varargs bool, body ...*Node) *Node {
	return &Node{T: "fn", Params: params, BV: varargs, Body: Blk(body...)}
}
func Map(keys []string, vals []*Node) *Node {
	n := &Node{T: "map", List: vals}
	for _, k := range keys {
		n.Keys = append(n.Keys, []byte(k))
	}
	return n
}
func Imm(e *Node) *Node    { return &Node{T: "imm", E: e} }
func ErrE(e *Node) *Node   { return &Node{T: "err", E: e} }
func Import(n string) *Node { return &Node{T: "imp", Name: n} }

func Def(name string, e *Node) *Node { return &Node{T: "def", Name: name, E: e} }

// Set is `name[sels...] op e`; selectors are expression nodes (a ".x" selector is a "str" node with BV=true).
func Set(name string, sels []*Node, op string, e *Node) *Node {
	return &Node{T: "set", Name: name, List: sels, Op: op, E: e}
}
func DotKey(k string) *Node { return &Node{T: "str", SV: []byte(k), BV: true} }
func IncDec(name string, sels []*Node, op string) *Node {
	return &Node{T: "set", Name: name, List: sels, Op: op, E: Int(1)}
}
func ExprS(e *Node) *Node   { return &Node{T: "expr", E: e} }
func If(init, c, a, b *Node) *Node {
	return &Node{T: "if", Init: init, C: c, A: a, B: b}
}
func For(init, c, post, body *Node) *Node {
	return &Node{T: "for", Init: init, C: c, Post: post, Body: body}
}
func ForIn(k, v string, it, body *Node) *Node {
	return &Node{T: "forin", KName: k, VName: v, E: it, Body: body}
}
func Brk() *Node            { return &Node{T: "brk"} }
func Cont() *Node           { return &Node{T: "cont"} }
func Ret(e *Node) *Node     { return &Node{T: "ret", E: e} }
func Export(e *Node) *Node  { return &Node{T: "exp", E: e} }
func Blk(st ...*Node) *Node { return &Node{T: "blk", List: st} }

// Program is a list of top-level statements plus inputs and source modules.
type Program struct {
	ID      int
	Stmts   []*Node
	Inputs  []Input
	Modules []Module // source modules
	Src     string
	Nodes   []*Node // filled by Number (index i holds node id i+1)
	Root    *Node
	Meta    map[string]interface{}
	// MinParens: binary operators are printed with the parentheses the documented precedence and left associativity require, and
	// no others (the node table handed to the model still says which tree is meant)
	MinParens bool

	nodeFile []string
}

type Input struct {
	Name string
	V    interface{} // model value JSON (see values.go)
}

type Module struct {
	Name string
	Prog *Program
}

func (n *Node) children() []*Node {
	var out []*Node
	add := func(c *Node) {
		if c != nil {
			out = append(out, c)
		}
	}
	add(n.Init)
	add(n.C)
	add(n.E)
	add(n.L)
	add(n.R)
	add(n.A)
	add(n.B)
	add(n.Post)
	for _, c := range n.List {
		add(c)
	}
	add(n.Body)
	return out
}

// Number assigns ids in post-order (children before parents) and fills p.Nodes.
// The node tables of the source modules are appended to the main table (every
// module once); an "imp" node carries the id of the imported module's root.
func (p *Program) Number() {
	p.Nodes = nil
	p.nodeFile = nil
	p.Root = Blk(p.Stmts...)
	p.Root.T = "top"
	var walk func(n *Node, file string)
	walk = func(n *Node, file string) {
		for _, c := range n.children() {
			walk(c, file)
		}
		p.Nodes = append(p.Nodes, n)
		p.nodeFile = append(p.nodeFile, file)
		n.ID = len(p.Nodes)
	}
	walk(p.Root, "(main)")
	roots := map[string]int{}
	for _, m := range p.Modules {
		m.Prog.Root = Blk(m.Prog.Stmts...)
		m.Prog.Root.T = "top"
		walk(m.Prog.Root, m.Name)
		roots[m.Name] = m.Prog.Root.ID
	}
	for _, n := range p.Nodes {
		if n.T == "imp" {
			n.IV = int64(roots[n.Name])
		}
	}
}

var stdModules = map[string]bool{"math": true, "os": true, "text": true, "times": true, "rand": true, "fmt": true,
	"json": true, "base64": true, "hex": true, "enum": true}

func id(n *Node) int {
	if n == nil {
		return 0
	}
	return n.ID
}

func ids(l []*Node) []int {
	out := make([]int, 0, len(l))
	for _, n := range l {
		out = append(out, n.ID)
	}
	return out
}

func byteInts(b []byte) []int {
	out := make([]int, 0, len(b))
	for _, x := range b {
		out = append(out, int(x))
	}
	return out
}

// Table exports the node table in the form TengoSem.tla expects.
func (p *Program) Table() []map[string]interface{} {
	tab := make([]map[string]interface{}, 0, len(p.Nodes))
	for _, n := range p.Nodes {
		m := map[string]interface{}{"t": n.T}
		switch n.T {
		case "int":
			m["v"] = n.IV
		case "float":
			m["q"] = n.IV
		case "bool":
			m["v"] = n.BV
		case "char":
			m["c"] = n.IV
		case "str":
			m["b"] = byteInts(n.SV)
		case "id":
			m["name"] = n.Name
		case "arr":
			m["el"] = ids(n.List)
		case "map":
			ks := make([][]int, 0, len(n.Keys))
			for _, k := range n.Keys {
				ks = append(ks, byteInts(k))
			}
			m["keys"] = ks
			m["vals"] = ids(n.List)
		case "un":
			m["op"] = n.Op
			m["e"] = id(n.E)
		case "bin":
			m["op"] = n.Op
			m["l"] = id(n.L)
			m["r"] = id(n.R)
		case "and", "or":
			m["l"] = id(n.L)
			m["r"] = id(n.R)
		case "cond":
			m["c"] = id(n.C)
			m["a"] = id(n.A)
			m["b"] = id(n.B)
		case "idx":
			m["e"] = id(n.E)
			m["i"] = id(n.R)
		case "sel":
			m["e"] = id(n.E)
			m["key"] = byteInts(n.SV)
		case "slice":
			m["e"] = id(n.E)
			m["lo"] = id(n.L)
			m["hi"] = id(n.R)
		case "call":
			m["f"] = id(n.E)
			m["args"] = ids(n.List)
			m["spread"] = n.BV
		case "fn":
			m["params"] = append([]string{}, n.Params...)
			m["va"] = n.BV
			m["body"] = id(n.Body)
		case "imp":
			m["name"] = n.Name
			m["std"] = stdModules[n.Name]
			m["root"] = n.IV // node id of the module body ("top" node) after merging, 0 = not a source module
		case "err", "imm", "expr", "exp":
			m["e"] = id(n.E)
		case "ret":
			m["e"] = id(n.E)
		case "def":
			m["name"] = n.Name
			m["e"] = id(n.E)
			m["isfn"] = n.E != nil && n.E.T == "fn"
		case "set":
			m["name"] = n.Name
			m["sels"] = ids(n.List)
			switch n.Op {
			case "++":
				m["op"] = "+="
			case "--":
				m["op"] = "-="
			default:
				m["op"] = n.Op
			}
			m["e"] = id(n.E)
		case "if":
			m["init"] = id(n.Init)
			m["c"] = id(n.C)
			m["a"] = id(n.A)
			m["b"] = id(n.B)
		case "for":
			m["init"] = id(n.Init)
			m["c"] = id(n.C)
			m["post"] = id(n.Post)
			m["body"] = id(n.Body)
		case "forin":
			m["k"] = n.KName
			m["v"] = n.VName
			m["it"] = id(n.E)
			m["body"] = id(n.Body)
		case "blk", "top":
			m["st"] = ids(n.List)
		case "undef", "brk", "cont":
		default:
			panic("Table: unknown node kind " + n.T)
		}
		tab = append(tab, m)
	}
	return tab
}

// ---------------------------------------------------------------- printer

type printer struct {
	buf       bytes.Buffer
	indent    int
	minParens bool
}

// precedence of binary operators as documented (docs/operators.md): higher binds tighter, all left associative
func docPrec(n *Node) int {
	switch n.T {
	case "or":
		return 1
	case "and":
		return 2
	}
	switch n.Op {
	case "==", "!=", "<", "<=", ">", ">=":
		return 3
	case "+", "-", "|", "^":
		return 4
	}
	return 5 // * / % << >> & &^
}

// operand prints a child of a binary operator in MinParens mode
func (p *printer) operand(c *Node, parentPrec int, right bool) {
	switch c.T {
	case "bin", "and", "or":
		cp := docPrec(c)
		if cp < parentPrec || (cp == parentPrec && right) {
			p.expr(c) // keeps its own parentheses
			return
		}
		c.Pos = p.buf.Len()
		p.binaryInner(c)
		c.End = p.buf.Len()
	default:
		p.expr(c)
	}
}

func (p *printer) binaryInner(n *Node) {
	op := n.Op
	if n.T == "and" {
		op = "&&"
	} else if n.T == "or" {
		op = "||"
	}
	p.operand(n.L, docPrec(n), false)
	p.buf.WriteString(" " + op + " ")
	p.operand(n.R, docPrec(n), true)
}

func (p *printer) ws() {
	p.buf.WriteString(strings.Repeat("  ", p.indent))
}

func isIdent(s []byte) bool {
	if len(s) == 0 {
		return false
	}
	for i, c := range s {
		if c == '_' || (c >= 'a' && c <= 'z') || (c >= 'A' && c <= 'Z') || (i > 0 && c >= '0' && c <= '9') {
			continue
		}
		return false
	}
	switch string(s) {
	case "break", "continue", "else", "for", "func", "error", "immutable", "if", "return", "export",
		"true", "false", "in", "undefined", "import":
		return false
	}
	return true
}

func quote(b []byte) string { return strconv.Quote(string(b)) }

// startsWithMap: the printed form of n begins with '{' - as the condition of an if/for statement that
// would be read as the statement's block ("missing condition in if statement")
func startsWithMap(n *Node) bool {
	for n != nil {
		switch n.T {
		case "map":
			return true
		case "idx", "sel", "slice", "call":
			n = n.E
		default:
			return false
		}
	}
	return false
}

// cond prints a condition, parenthesised when it would otherwise start with a map literal
func (p *printer) cond(n *Node) {
	if startsWithMap(n) {
		p.buf.WriteString("(")
		p.expr(n)
		p.buf.WriteString(")")
		return
	}
	p.expr(n)
}

func (p *printer) expr(n *Node) {
	n.Pos = p.buf.Len()
	defer func() { n.End = p.buf.Len() }()
	w := p.buf.WriteString
	switch n.T {
	case "int":
		if n.IV < 0 {
			w("(" + strconv.FormatInt(n.IV, 10) + ")")
		} else {
			w(strconv.FormatInt(n.IV, 10))
		}
	case "float":
		f := float64(n.IV) / 16
		s := strconv.FormatFloat(f, 'f', -1, 64)
		if !strings.Contains(s, ".") {
			s += ".0"
		}
		if f < 0 {
			s = "(" + s + ")"
		}
		w(s)
	case "bool":
		if n.BV {
			w("true")
		} else {
			w("false")
		}
	case "undef":
		w("undefined")
	case "char":
		w(strconv.QuoteRune(rune(n.IV)))
	case "str":
		w(quote(n.SV))
	case "id":
		w(n.Name)
	case "arr":
		w("[")
		for i, e := range n.List {
			if i > 0 {
				w(", ")
			}
			p.expr(e)
		}
		w("]")
	case "map":
		w("{")
		for i, e := range n.List {
			if i > 0 {
				w(", ")
			}
			if isIdent(n.Keys[i]) {
				w(string(n.Keys[i]))
			} else {
				w(quote(n.Keys[i]))
			}
			w(": ")
			p.expr(e)
		}
		w("}")
	case "un":
		w("(" + n.Op)
		p.expr(n.E)
		w(")")
	case "bin", "and", "or":
		op := n.Op
		if n.T == "and" {
			op = "&&"
		} else if n.T == "or" {
			op = "||"
		}
		if p.minParens {
			w("(")
			p.binaryInner(n)
			w(")")
			break
		}
		w("(")
		p.expr(n.L)
		w(" " + op + " ")
		p.expr(n.R)
		w(")")
	case "cond":
		w("(")
		p.expr(n.C)
		w(" ? ")
		p.expr(n.A)
		w(" : ")
		p.expr(n.B)
		w(")")
	case "idx":
		p.expr(n.E)
		w("[")
		p.expr(n.R)
		w("]")
	case "sel":
		p.expr(n.E)
		if isIdent(n.SV) {
			w("." + string(n.SV))
		} else {
			w("[" + quote(n.SV) + "]")
		}
	case "slice":
		p.expr(n.E)
		w("[")
		if n.L != nil {
			p.expr(n.L)
		}
		w(":")
		if n.R != nil {
			p.expr(n.R)
		}
		w("]")
	case "call":
		p.expr(n.E)
		w("(")
		for i, e := range n.List {
			if i > 0 {
				w(", ")
			}
			if n.BV && i == len(n.List)-1 && (e.T == "int" || e.T == "float") {
				w("(") // "1..." would scan as the float "1." followed by ".."
				p.expr(e)
				w(")")
			} else {
				p.expr(e)
			}
		}
		if n.BV {
			w("...")
		}
		w(")")
	case "fn":
		w("func(")
		for i, prm := range n.Params {
			if i > 0 {
				w(", ")
			}
			if n.BV && i == len(n.Params)-1 {
				w("...")
			}
			w(prm)
		}
		w(") ")
		p.block(n.Body)
	case "imp":
		w("import(" + strconv.Quote(n.Name) + ")")
	case "err":
		w("error(")
		p.expr(n.E)
		w(")")
	case "imm":
		w("immutable(")
		p.expr(n.E)
		w(")")
	default:
		panic("printer: not an expression: " + n.T)
	}
}

func (p *printer) block(n *Node) {
	n.Pos = p.buf.Len()
	p.buf.WriteString("{\n")
	p.indent++
	for _, s := range n.List {
		p.ws()
		p.stmt(s)
		p.buf.WriteString("\n")
	}
	p.indent--
	p.ws()
	p.buf.WriteString("}")
	n.End = p.buf.Len()
}

func (p *printer) simple(n *Node) {
	// statement without trailing newline
	w := p.buf.WriteString
	n.Pos = p.buf.Len()
	defer func() { n.End = p.buf.Len() }()
	switch n.T {
	case "def":
		w(n.Name + " := ")
		p.expr(n.E)
	case "set":
		w(n.Name)
		for _, s := range n.List {
			if s.T == "str" && s.BV && isIdent(s.SV) {
				s.Pos = p.buf.Len()
				w("." + string(s.SV))
				s.End = p.buf.Len()
			} else {
				w("[")
				p.expr(s)
				w("]")
			}
		}
		if n.Op == "++" || n.Op == "--" {
			w(n.Op)
			return
		}
		w(" " + n.Op + " ")
		p.expr(n.E)
	case "expr":
		p.expr(n.E)
	default:
		panic("printer: not a simple statement: " + n.T)
	}
}

func (p *printer) stmt(n *Node) {
	w := p.buf.WriteString
	switch n.T {
	case "def", "set", "expr":
		p.simple(n)
		return
	}
	n.Pos = p.buf.Len()
	defer func() { n.End = p.buf.Len() }()
	switch n.T {
	case "if":
		w("if ")
		if n.Init != nil {
			p.simple(n.Init)
			w("; ")
		}
		p.cond(n.C)
		w(" ")
		p.block(n.A)
		if n.B != nil {
			w(" else ")
			if n.B.T == "if" {
				p.stmt(n.B)
			} else {
				p.block(n.B)
			}
		}
	case "for":
		w("for ")
		if n.Init != nil || n.Post != nil {
			if n.Init != nil {
				p.simple(n.Init)
			}
			w("; ")
			if n.C != nil {
				p.cond(n.C)
			}
			w("; ")
			if n.Post != nil {
				p.simple(n.Post)
			}
			w(" ")
		} else if n.C != nil {
			p.cond(n.C)
			w(" ")
		}
		p.block(n.Body)
	case "forin":
		w("for ")
		if n.KName != "" {
			w(n.KName + ", ")
		}
		w(n.VName + " in ")
		p.expr(n.E)
		w(" ")
		p.block(n.Body)
	case "brk":
		w("break")
	case "cont":
		w("continue")
	case "ret":
		w("return")
		if n.E != nil {
			w(" ")
			p.expr(n.E)
		}
	case "exp":
		w("export ")
		p.expr(n.E)
	case "blk":
		p.block(n)
	default:
		panic("printer: unknown statement " + n.T)
	}
}

// Print renders the program and records the extent of every node.
func (p *Program) Print() string {
	pr := &printer{minParens: p.MinParens}
	for _, s := range p.Stmts {
		pr.stmt(s)
		pr.buf.WriteString("\n")
	}
	p.Src = pr.buf.String()
	return p.Src
}

// Export produces the JSON object handed to TLC (and kept for replay).
func (p *Program) Export() map[string]interface{} {
	if p.Src == "" && len(p.Stmts) > 0 {
		p.Print()
	}
	mods := make([]interface{}, 0)
	for _, m := range p.Modules {
		if m.Prog.Src == "" {
			m.Prog.MinParens = p.MinParens
			m.Prog.Print()
		}
		mods = append(mods, map[string]interface{}{"name": m.Name, "src": m.Prog.Src})
	}
	p.Number()
	ins := make([][]interface{}, 0, len(p.Inputs))
	for _, in := range p.Inputs {
		ins = append(ins, []interface{}{in.Name, in.V})
	}
	ext := make([][]int, 0, len(p.Nodes))
	for _, n := range p.Nodes {
		ext = append(ext, []int{n.Pos, n.End})
	}
	out := map[string]interface{}{
		"id": p.ID, "src": p.Src, "nodes": p.Table(), "root": p.Root.ID,
		"inputs": ins, "mods": mods, "ext": ext, "nodefile": p.nodeFile,
	}
	for k, v := range p.Meta {
		out[k] = v
	}
	return out
}

func (p *Program) String() string { return fmt.Sprintf("program#%d:\n%s", p.ID, p.Src) }
