----------------------------- MODULE JsonGrammar -----------------------------
(***************************************************************************)
(* The JSON text grammar (RFC 8259) that json.decode must accept exactly,  *)
(* as a recogniser written in TLA+ over symbol sequences, with the value   *)
(* each valid text denotes - numbers typed "int" when written without      *)
(* fraction or exponent and "float" otherwise - plus the decoding rules of *)
(* string literals (escapes, surrogate pairs, replacement of ill-formed    *)
(* input) and the shape space of encodable values.                         *)
(*                                                                         *)
(* TLC enumerates                                                          *)
(*   text    every symbol sequence up to MaxLen over the structural        *)
(*           alphabet (brackets, separators, two string literals, number   *)
(*           characters, the three words, a misspelt word, white space,    *)
(*           a control character, a non-ASCII character, a lone quote),    *)
(*   mutate  every single-symbol deletion, insertion and replacement of    *)
(*           a set of valid base documents,                                *)
(*   number  every sequence over the number characters up to MaxLen,       *)
(*   string  every sequence of string-body tokens up to MaxLen (plain      *)
(*           characters of 1-4 bytes, every escape, \u escapes incl. high  *)
(*           and low surrogates, ill-formed escapes, raw control bytes,    *)
(*           ill-formed UTF-8),                                            *)
(*   value   every value shape up to depth 2 over scalar classes           *)
(* and prints the verdict (valid?, value / code points).  The harness      *)
(* renders each case to bytes and requires the real decoder, Go's          *)
(* encoding/json and this specification to agree three ways.               *)
(***************************************************************************)
EXTENDS Integers, Sequences, FiniteSets, TLC, Json

CONSTANTS Mode, MaxLen, Part, NParts

\* ---- structural alphabet ----------------------------------------------------
Sym == <<"{", "}", "[", "]", ":", ",", "SA", "SB", "Q", "-", "+", "0", "1", ".", "e", "T", "F", "N", "W", " ", "NL", "C", "U">>
SymSet == {Sym[i] : i \in 1..Len(Sym)}
IsSpace(c) == c \in {" ", "NL"}
IsDigit(c) == c \in {"0", "1"}

At(s, k) == IF k >= 1 /\ k <= Len(s) THEN s[k] ELSE "EOF"

RECURSIVE Skip(_, _)
Skip(s, i) == IF IsSpace(At(s, i)) THEN Skip(s, i + 1) ELSE i
RECURSIVE SkipDigits(_, _)
SkipDigits(s, i) == IF IsDigit(At(s, i)) THEN SkipDigits(s, i + 1) ELSE i

Fail == [ok |-> FALSE, next |-> 0, v |-> [k |-> "null"]]
Ok(n, v) == [ok |-> TRUE, next |-> n, v |-> v]

\* number = [ - ] int [ frac ] [ exp ];  int = 0 / digit1-9 *digit;  the longest match is taken
ParseNumber(s, i) ==
  LET i1 == IF At(s, i) = "-" THEN i + 1 ELSE i
      intEnd == IF At(s, i1) = "0" THEN i1 + 1
                ELSE IF At(s, i1) = "1" THEN SkipDigits(s, i1 + 1) ELSE 0
      fracEnd == IF intEnd # 0 /\ At(s, intEnd) = "."
                 THEN (IF SkipDigits(s, intEnd + 1) > intEnd + 1 THEN SkipDigits(s, intEnd + 1) ELSE 0)
                 ELSE intEnd
      e1 == IF At(s, fracEnd + 1) \in {"+", "-"} THEN fracEnd + 2 ELSE fracEnd + 1
      expEnd == IF fracEnd # 0 /\ At(s, fracEnd) = "e"
                THEN (IF SkipDigits(s, e1) > e1 THEN SkipDigits(s, e1) ELSE 0)
                ELSE fracEnd
  IN IF expEnd = 0 THEN Fail
     ELSE Ok(expEnd, [k |-> "num", lex |-> SubSeq(s, i, expEnd - 1),
                      float |-> (\E j \in i..(expEnd - 1) : s[j] \in {".", "e"})])

RECURSIVE ParseValue(_, _), ParseElems(_, _, _), ParseMembers(_, _, _)
ParseValue(s, i) ==
  LET c == At(s, i) IN
  CASE c = "T" -> Ok(i + 1, [k |-> "bool", b |-> TRUE])
    [] c = "F" -> Ok(i + 1, [k |-> "bool", b |-> FALSE])
    [] c = "N" -> Ok(i + 1, [k |-> "null"])
    [] c \in {"SA", "SB"} -> Ok(i + 1, [k |-> "str", s |-> c])
    [] c \in {"-", "0", "1"} -> ParseNumber(s, i)
    [] c = "[" -> (LET j == Skip(s, i + 1) IN
                   IF At(s, j) = "]" THEN Ok(j + 1, [k |-> "arr", e |-> <<>>]) ELSE ParseElems(s, j, <<>>))
    [] c = "{" -> (LET j == Skip(s, i + 1) IN
                   IF At(s, j) = "}" THEN Ok(j + 1, [k |-> "obj", m |-> <<>>]) ELSE ParseMembers(s, j, <<>>))
    [] OTHER -> Fail
\* at the start of an element
ParseElems(s, i, acc) ==
  LET r == ParseValue(s, i) IN
  IF ~r.ok THEN Fail
  ELSE LET j == Skip(s, r.next) IN
       IF At(s, j) = "]" THEN Ok(j + 1, [k |-> "arr", e |-> Append(acc, r.v)])
       ELSE IF At(s, j) = "," THEN ParseElems(s, Skip(s, j + 1), Append(acc, r.v))
       ELSE Fail
\* at the start of a member (a string key)
ParseMembers(s, i, acc) ==
  IF At(s, i) \notin {"SA", "SB"} THEN Fail
  ELSE LET j == Skip(s, i + 1) IN
       IF At(s, j) # ":" THEN Fail
       ELSE LET r == ParseValue(s, Skip(s, j + 1)) IN
            IF ~r.ok THEN Fail
            ELSE LET n == Skip(s, r.next) IN
                 IF At(s, n) = "}" THEN Ok(n + 1, [k |-> "obj", m |-> Append(acc, <<s[i], r.v>>)])
                 ELSE IF At(s, n) = "," THEN ParseMembers(s, Skip(s, n + 1), Append(acc, <<s[i], r.v>>))
                 ELSE Fail

ParseText(s) ==
  LET r == ParseValue(s, Skip(s, 1)) IN
  IF r.ok /\ Skip(s, r.next) = Len(s) + 1 THEN [valid |-> TRUE, v |-> r.v] ELSE [valid |-> FALSE, v |-> [k |-> "null"]]

\* ---- string bodies ----------------------------------------------------------
\* token |-> <<class, code point>>; classes: "cp" a character (plain or escaped), "hi"/"lo" a \u surrogate escape,
\* "bad" makes the text invalid, "rep n" ill-formed UTF-8 replaced by n U+FFFD
Tok == <<
  <<"a", "cp", 97>>, <<"e9", "cp", 233>>, <<"euro", "cp", 8364>>, <<"smile", "cp", 128512>>, <<"slash", "cp", 47>>, <<"apos", "cp", 39>>, <<"del", "cp", 127>>,
  <<"ls", "cp", 8232>>,
  <<"\\q", "cp", 34>>, <<"\\\\", "cp", 92>>, <<"\\/", "cp", 47>>, <<"\\b", "cp", 8>>, <<"\\f", "cp", 12>>, <<"\\n", "cp", 10>>, <<"\\r", "cp", 13>>, <<"\\t", "cp", 9>>,
  <<"\\u0041", "cp", 65>>, <<"\\u00e9", "cp", 233>>, <<"\\u20AC", "cp", 8364>>, <<"\\u0000", "cp", 0>>, <<"\\uFFFF", "cp", 65535>>,
  <<"\\ud83d", "hi", 55357>>, <<"\\ude00", "lo", 56832>>, <<"\\uDBFF", "hi", 56319>>, <<"\\uDFFF", "lo", 57343>>,
  <<"\\x", "bad", 0>>, <<"\\'", "bad", 0>>, <<"\\u1G34", "bad", 0>>, <<"\\U0041", "bad", 0>>, <<"ctl01", "bad", 0>>, <<"tab", "bad", 0>>, <<"nl", "bad", 0>>, <<"quote", "bad", 0>>,
  <<"xff", "rep", 1>>, <<"xc3", "rep", 1>>, <<"xc080", "rep", 2>>, <<"xeda080", "rep", 3>>, <<"xf4908080", "rep", 4>> >>
NTok == Len(Tok)
Rep == 65533

RECURSIVE DecodeBody(_, _)
DecodeBody(ts, i) ==   \* ts: sequence of token indexes; result: sequence of code points
  IF i > Len(ts) THEN <<>>
  ELSE LET t == Tok[ts[i]] IN
       CASE t[2] = "cp" -> <<t[3]>> \o DecodeBody(ts, i + 1)
         [] t[2] = "rep" -> [j \in 1..t[3] |-> Rep] \o DecodeBody(ts, i + 1)
         [] t[2] = "lo" -> <<Rep>> \o DecodeBody(ts, i + 1)
         [] t[2] = "hi" -> (IF i < Len(ts) /\ Tok[ts[i + 1]][2] = "lo"
                            THEN <<65536 + (t[3] - 55296) * 1024 + (Tok[ts[i + 1]][3] - 56320)>> \o DecodeBody(ts, i + 2)
                            ELSE <<Rep>> \o DecodeBody(ts, i + 1))
         [] OTHER -> <<>>
BodyValid(ts) == \A i \in 1..Len(ts) : Tok[ts[i]][2] # "bad"

\* ---- value shapes (encode side) ---------------------------------------------
Scalars == {"null", "true", "false", "int", "float", "wholefloat", "bigfloat", "smallfloat", "str", "escstr", "emptystr"}
Shape0 == {[k |-> "scalar", c |-> x] : x \in Scalars}
KeyClasses == {"plain", "esc", "empty"}
Seqs(S, n) == UNION {[1..m -> S] : m \in 0..n}

\* ---- enumeration --------------------------------------------------------------
RECURSIVE SeqsOver(_, _)
SeqsOver(S, n) == IF n = 0 THEN {<<>>} ELSE LET prev == SeqsOver(S, n - 1) IN prev \cup {Append(p, x) : p \in {q \in prev : Len(q) = n - 1}, x \in S}

PartOf(i) == i % NParts = Part

Bases == <<
  <<"{", "SA", ":", "[", "1", ",", "-", "0", ".", "1", "]", ",", "SB", ":", "T", "}">>,
  <<"[", "{", "}", ",", "[", "]", ",", "N", ",", "1", "e", "+", "1", ",", "SB", "]">>,
  <<" ", "[", " ", "1", "0", " ", ",", "NL", "F", " ", "]", "NL">>,
  <<"{", "SA", ":", "{", "SA", ":", "0", "}", ",", "SA", ":", "-", "1", ".", "0", "e", "-", "1", "}">>,
  <<"-", "1", "0", ".", "0", "1", "e", "1", "0">>,
  <<"SB">>,
  <<"[", "1", ",", "1", ".", "1", ",", "1", "e", "1", ",", "0", "]">> >>

Mutations(b) ==
  {SubSeq(b, 1, i - 1) \o SubSeq(b, i + 1, Len(b)) : i \in 1..Len(b)}
  \cup {SubSeq(b, 1, i - 1) \o <<x>> \o SubSeq(b, i, Len(b)) : i \in 1..(Len(b) + 1), x \in SymSet}
  \cup {[b EXCEPT ![i] = x] : i \in 1..Len(b), x \in SymSet}
  \cup {b}

NumSyms == {"-", "+", "0", "1", ".", "e"}

VARIABLE c
Init == c = 0
Next == UNCHANGED c
Spec == Init /\ [][Next]_c

EmitText == (Mode = "text") =>
  \A f \in {i \in 1..Len(Sym) : PartOf(i)} : \A rest \in SeqsOver(SymSet, MaxLen - 1) :
     LET s == <<Sym[f]>> \o rest IN PrintT(<<"JTEXT", ToJson([s |-> s, r |-> ParseText(s)])>>)
EmitMutate == (Mode = "mutate") =>
  \A b \in {i \in 1..Len(Bases) : PartOf(i)} : \A s \in Mutations(Bases[b]) :
     PrintT(<<"JTEXT", ToJson([s |-> s, r |-> ParseText(s)])>>)
EmitNumber == (Mode = "number") =>
  \A s \in SeqsOver(NumSyms, MaxLen) :
     LET r == ParseNumber(s, 1) IN
     PrintT(<<"JNUM", ToJson([s |-> s, valid |-> (Len(s) > 0 /\ r.ok /\ r.next = Len(s) + 1), float |-> (\E j \in 1..Len(s) : s[j] \in {".", "e"})])>>)
\* "surrogates": longer sequences over the tokens that interact (surrogate halves, a \u escape, a plain and a 4-byte character, ill-formed bytes)
StrAlphabet == IF Mode = "surrogates" THEN {i \in 1..NTok : Tok[i][1] \in {"a", "smile", "\\u0041", "\\ud83d", "\\ude00", "\\uDBFF", "\\uDFFF", "xff", "\\n"}}
               ELSE 1..NTok
EmitString == (Mode \in {"string", "surrogates"}) =>
  \A f \in {i \in StrAlphabet : PartOf(i)} : \A rest \in SeqsOver(StrAlphabet, MaxLen - 1) :
     LET ts == <<f>> \o rest IN
     PrintT(<<"JSTR", ToJson([t |-> [i \in 1..Len(ts) |-> Tok[ts[i]][1]], valid |-> BodyValid(ts),
                               cps |-> IF BodyValid(ts) THEN DecodeBody(ts, 1) ELSE <<>>])>>)
EmitValue == (Mode = "value") =>
  /\ \A e \in Seqs(Scalars, 3) : PrintT(<<"JVAL", ToJson([k |-> "arr", e |-> e])>>)
  /\ \A ks \in Seqs(KeyClasses, 2) : \A vs \in [1..Len(ks) -> Scalars \cup {"arr", "obj", "emptyarr", "emptyobj"}] :
        PrintT(<<"JVAL", ToJson([k |-> "obj", keys |-> ks, vals |-> vs])>>)
  /\ \A a \in Seqs({"arr", "obj", "emptyarr", "emptyobj", "int", "str"}, 3) : PrintT(<<"JVAL", ToJson([k |-> "nest", e |-> a])>>)

\* properties of the grammar itself, checked on every enumerated text:
\* white space around a valid document keeps it valid and keeps its value; a valid document stays valid inside an array
Sanity == (Mode = "text") =>
  \A s \in SeqsOver(SymSet, MaxLen - 1) :
     LET r == ParseText(s) IN
     r.valid => /\ ParseText(<<" ">> \o s \o <<"NL">>).valid
                /\ ParseText(<<"[">> \o s \o <<"]">>).valid
                /\ ParseText(<<"{", "SA", ":">> \o s \o <<"}">>).valid
=============================================================================
