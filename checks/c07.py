"""C07 Cancellation stops any running script promptly and cleanly.

E: RunContext.tla (PlusCal) - all interleavings of caller / runner / canceller for
   every program shape x length: Safety (returns the context's error only if it
   fired, own result otherwise, at most one instruction after Abort, no goroutine
   left behind, lock free, channel capacity) and liveness under fairness.
R: (A) every cancellation scenario the model distinguishes is forced in the real
   process through blocking gates (cancel before the call, before the runner's first
   instruction, with k instructions dispatched, after the run finished but before it
   sent, after the call returned); the observation (result, instructions dispatched,
   instructions after Abort) must be one the model emitted for that scenario.
   (B) free-running executions with random cancellation instants: the recorded hook
   events are validated against the specification by RunContextTrace.tla.
   Both: goroutine accounting, re-run of the same object with a live context.
"""
import json
import random

import vlib
import vmabortlib

FINITE = ["", "a := 1", "a := [1, 2]", "a := 1; b := a + 2", "a := {x: 1}; b := a.x"]
ERROR = ['a := 1 + "x"', "a := 1 / 0", "a := 1; a()", "a := 5; b := [a][0].z.y", 'f := func(x) { return x.y.z }; f(1)']
PANIC = ["boom()", "a := 5; b := boom(a)", "f := func(x) { return boom(x) }; f(0)", "a := bytes(-1)", "boom2()", "a := 1; b := boom3(a)", "boom4()"]
LOOP = ["for {}", "f := func(x) { return f(x + 1) }; f(0)", "i := 0; for { i++ }",
        "a := [1, 2, 3]; for { for x in a { } }", "f := func(x) { return x > 0 && f(x + 1) }; f(1)"]

MC_MAXSTEPS = 8
TRACE_MAXSTEPS = 12


def mc_cfg(reset=False, drain=True, maxsteps=MC_MAXSTEPS, live=True):
    return """SPECIFICATION Spec
CONSTANTS
  Shapes = {"finite", "error", "panic", "loop"}
  MaxSteps = %d
  ResetOnEntry = %s
  Drain = %s
INVARIANTS Safety EmitObs
%s
""" % (maxsteps, "TRUE" if reset else "FALSE", "TRUE" if drain else "FALSE", "PROPERTIES Live" if live else "")


def run(ck):
    rnd = random.Random(ck.seed)
    quick = ck.quick()
    # ---- E: model check the design; collect the allowed observations
    r = ck.tlc("RunContextMC", mc_cfg(), workers=8, name="mc", timeout=600)
    if r.violated:
        raise vlib.Infra("RunContext model violates %s on the faithful configuration:\n%s" % (r.violated, r.stdout[-3000:]))
    allowed = set()
    for o in r.tagged("OBS"):
        allowed.add((o["shape"], o["n"], o["cancelAt"], o["res"], o["steps"], o["aborted"], o["atAbort"], o["after"]))
    ck.log("model: %d states, %d allowed observations" % (r.distinct, len(allowed)))
    # the invariants are sharp: both knob mutations must violate them
    for nm, cfg in (("reset-on-entry", mc_cfg(reset=True, live=False)), ("no-drain", mc_cfg(drain=False, live=False))):
        m = ck.tlc("RunContextMC", cfg, workers=4, name="mut-" + nm, timeout=300, expect_violation=True, count=False)
        if not m.violated:
            raise vlib.Infra("mutated model %s does not violate Safety: invariants are vacuous" % nm)
    ck.extra["model_mutations_rejected"] = 2

    # ---- R(A): gated scenarios
    cases = []
    progs = [("finite", s) for s in FINITE] + [("error", s) for s in ERROR] + \
            [("panic", s) for s in PANIC] + [("loop", s) for s in LOOP]
    reps = 1 if quick else 6
    for shape, src in progs:
        scen = [("never", 0), ("precall", 0), ("pre", 0), ("finished", 0), ("returned", 0)]
        ks = range(0, 9) if shape != "loop" else [0, 1, 2, 3, 5, 7, 11, 40, 1000]
        scen += [("running", k) for k in ks]
        if shape == "loop":
            scen = [s for s in scen if s[0] not in ("never", "finished", "returned")]
        for _ in range(reps):
            for (c, k) in scen:
                # the runner stays blocked for leak_ms after Abort and the caller must not return meanwhile; a few scenarios
                # per program hold it for a long time (a bounded wait for the runner is then seen to expire)
                long_hold = c in ("pre", "finished") or (c == "running" and k in (0, 2))
                cases.append({"id": len(cases), "shape": shape, "src": src, "mode": "gated", "cancel": c, "k": k,
                              "maxlog": TRACE_MAXSTEPS, "leak_ms": (400 if quick else 2500) if long_hold else 15})
    ngated = len(cases)
    # ---- R(B): free-running
    nfree = 300 if quick else 6000
    for i in range(nfree):
        shape, src = progs[rnd.randrange(len(progs))]
        if shape == "loop":
            mode = rnd.choice(["delay", "delay", "deadline", "precall"])
        else:
            mode = rnd.choice(["delay", "delay", "deadline", "never", "precall"])
        cases.append({"id": len(cases), "shape": shape, "src": src, "mode": "free", "cancel": mode, "k": 0,
                      "delay_us": rnd.choice([0, 1, 5, 20, 50, 100, 300, 1000]) if mode != "deadline" else rnd.choice([1, 20, 100, 500]),
                      "maxlog": TRACE_MAXSTEPS})
    res = vlib.run_cases(ck, "c07", cases, nproc=12)
    ck.evaluations = len(cases)
    cmap = {"never": "never", "precall": "pre", "pre": "pre", "running": "running", "finished": "finished",
            "returned": "returned"}
    traces = []
    sat = lambda x: min(x, MC_MAXSTEPS)
    for cs in cases:
        o = res.get(cs["id"])
        tag = "%s/%s/%s%s" % (cs["shape"], cs["mode"], cs["cancel"], ("@%d" % cs["k"]) if cs["cancel"] == "running" else "")
        rep = {"case": cs, "result": o}
        if o is None:
            raise vlib.Infra("no result for case %r" % cs)
        if o.get("hang"):
            ck.violation("hang:" + tag, "RunContext did not return within 20s (%s, %r)" % (tag, cs["src"]), rep)
            continue
        if o.get("died") or o.get("panic"):
            ck.violation("host-down:" + tag, "panic/fatal escaped RunContext (%s, %r)" % (tag, cs["src"]), rep)
            continue
        if o.get("error"):
            raise vlib.Infra("harness error: %s" % o["error"])
        ck.traces += 1
        ck.note_distinct(tag)
        ob = o["obs"]
        if o["leak"] or (o["goroutines_left"] or 0) > 0:
            ck.violation("leak:" + cs["shape"] + "/" + cs["cancel"], "caller returned while the runner goroutine was still running / goroutine left behind (%s)" % tag, rep)
        if o["no_abort"]:
            ck.violation("no-abort:" + tag, "context fired but the VM was not aborted within 2s", rep)
        if "round2" in o:
            r2 = o["round2"]
            if r2["res"] != o["ref"] or not r2["globals_ok"]:
                ck.violation("rerun:" + tag, "re-running the same object gave %s/%s instead of %s/%s" % (
                    r2["res"], r2["globals"], o["ref"], r2["ref_globals"]), rep)
        if cs["mode"] == "gated":
            cancel_at = cmap[cs["cancel"]]
            if cs["cancel"] in ("running", "finished", "pre") and not o["reached"]:
                cancel_at = "never"
            n = o["n"] if cs["shape"] != "loop" else None
            tup_ok = False
            ns = [n] if n is not None else range(1, MC_MAXSTEPS + 1)
            for nn in ns:
                if nn > MC_MAXSTEPS:
                    tup_ok = True  # longer than the exhaustively checked bound: trace validation only
                    break
                t = (cs["shape"], nn, cancel_at, ob["res"], sat(ob["steps"]), ob["aborted"], sat(ob["atAbort"]), ob["after"])
                if t in allowed:
                    tup_ok = True
                    break
            if not tup_ok:
                ck.violation("obs:" + tag, "observation %s not allowed by RunContext.tla for scenario %s (n=%s)" % (
                    json.dumps(ob, sort_keys=True), cancel_at, n), rep)
            if len(ck.samples) < 4 and cs["cancel"] == "running":
                ck.add_sample({"scenario": tag, "src": cs["src"], "observation": ob})
        nn = o["n"] if cs["shape"] != "loop" else 1
        if nn <= TRACE_MAXSTEPS:
            traces.append({"id": cs["id"], "shape": cs["shape"], "n": max(nn, 1), "ev": o["events"]})
    # ---- B: trace validation of every recorded execution
    bad_ids = set()
    for chunk in vlib.chunks(traces, 400):
        files = {"traces.ndjson": vlib.ndjson(chunk)}
        cfg = open(vlib.SPEC + "/RunContextTrace.cfg").read()
        t = ck.tlc("RunContextTrace", cfg, files=files, workers=1, name="trace%d" % chunk[0]["id"], timeout=900,
                   expect_violation=True)
        if t.violated and t.violated != "postcondition":
            # Safety violated on a state consistent with the observed prefix: report with the trace
            ck.violation("trace-safety", "a recorded execution drives RunContext.tla into a state violating %s" % t.violated,
                         {"tlc": t.stdout[-4000:]})
        for rej in t.tagged("REJECTED"):
            bad_ids.update(rej["ids"])
    byid = {c["id"]: c for c in cases}
    for i in sorted(bad_ids):
        cs = byid[i]
        tag = "%s/%s/%s" % (cs["shape"], cs["mode"], cs["cancel"])
        ck.violation("trace:" + tag, "recorded hook events of a real execution are not a behaviour of RunContext.tla (%s, %r)" % (tag, cs["src"]),
                     {"case": cs, "result": res[i]})
    # ---- several calls on one object: a waiter's context is cancelled while another run holds the object
    cc = []
    for waiters in (1, 2, 3):
        for holder_ms, cancel_ms, delay in ((500, 150, 50), (500, 0, 50), (300, 600, 20), (400, 1, 100)):
            cc.append({"id": len(cc) + 1, "waiters": waiters, "holder_ms": holder_ms, "cancel_ms": cancel_ms, "waiter_delay": delay})
    cr = vlib.run_cases(ck, "c07contend", cc, nproc=4, timeout=900)
    for c in cc:
        o = cr[c["id"]]
        ck.evaluations += 1
        if o.get("error"):
            raise vlib.Infra("c07contend driver: %s" % o["error"])
        if o.get("hang") or o.get("died") or o.get("panic") or not o.get("ok"):
            ck.violation("contended-cancel", "holder %d ms, %d waiter(s) cancelled after %d ms: %s" % (c["holder_ms"], c["waiters"], c["cancel_ms"], o.get("what") or str(o)[:300]),
                         {"contend": c, "real": o})
        else:
            ck.traces += 1
    # ---- Abort on a VM object, then the same object run again
    vmabortlib.judge(ck)
    ck.extra["gated_scenarios"] = ngated
    ck.extra["free_running"] = nfree
    ck.extra["traces_checked_by_tlc"] = len(traces)
    ck.extra["allowed_observations"] = len(allowed)
    if traces:
        ck.add_sample({"trace": traces[len(traces) // 2]})
    ck.rule = ("gated: program shape x cancellation scenario (cancel point k) forced through hooks; free: random cancellation delay; "
               "distinct = shape/mode/scenario")
    ck.assumptions = ["hook sequence numbers are taken under one mutex inside the hook",
                      "a hang is detected by a 20 s deadline per case",
                      "liveness of the design is checked by TLC under weak fairness of caller and runner"]


def replay(ck, path):
    rep = json.load(open(path))
    cs = rep["replay"]["case"]
    cs["id"] = 0
    res = vlib.run_cases(ck, "c07", [cs], nproc=1)
    print(json.dumps(res[0], indent=1))
    return 0
