------------------------------ MODULE Modules ------------------------------
(***************************************************************************)
(* Compilation of a graph of source modules (compiler.go compileModule,    *)
(* checkCyclicImports, loadCompiledModule, storeCompiledModule, fork).     *)
(*                                                                         *)
(* The compiler of a module is a child of the compiler that met the import *)
(* expression; the chain of parents is the current import path.  For an    *)
(* import of m the code (1) walks the parent chain comparing module paths  *)
(* (cycle check), (2) looks m up in the *root* compiler's cache, (3) forks *)
(* a child compiler and compiles m's body, import by import, (4) stores    *)
(* the compiled function at every level up to the root.                    *)
(*                                                                         *)
(* The import graph is chosen in Init: imports[n] is the ordered list of   *)
(* modules node n imports (n = "main" or a module), so TLC explores every  *)
(* graph - chains, diamonds, self loops, longer cycles, repeated imports.  *)
(***************************************************************************)
EXTENDS Integers, Sequences, FiniteSets, TLC, Json

CONSTANTS Mods, MaxImports

Nodes == Mods \cup {"main"}
ImportLists == UNION {[1..k -> Mods] : k \in 0..MaxImports}

VARIABLES imports,   \* the graph (never changes)
          stack,     \* chain of compilers: <<[mod, idx]>>, main at the bottom
          cache,     \* per level: set of modules stored in that compiler's cache
          compiles,  \* how many times each module body was compiled (ghost)
          result     \* "running" | "ok" | "cyclic"

vars == <<imports, stack, cache, compiles, result>>

Init == /\ imports \in [Nodes -> ImportLists]
        /\ stack = <<[mod |-> "main", idx |-> 1]>>
        /\ cache = <<{}>>
        /\ compiles = [m \in Mods |-> 0]
        /\ result = "running"

Top == stack[Len(stack)]
OnPath(m) == \E i \in 1..Len(stack) : stack[i].mod = m     \* checkCyclicImports walks the parents

\* the compiler on top meets its next import expression
ImportStep ==
  /\ result = "running"
  /\ Top.idx <= Len(imports[Top.mod])
  /\ LET m == imports[Top.mod][Top.idx] IN
     IF OnPath(m) THEN                                        \* (1) cyclic import
          /\ result' = "cyclic" /\ UNCHANGED <<imports, stack, cache, compiles>>
     ELSE IF m \in cache[1] THEN                              \* (2) cached at the root
          /\ stack' = [stack EXCEPT ![Len(stack)].idx = @ + 1]
          /\ UNCHANGED <<imports, cache, compiles, result>>
     ELSE                                                     \* (3) fork a child compiler
          /\ stack' = Append(stack, [mod |-> m, idx |-> 1])
          /\ cache' = Append(cache, {})
          /\ compiles' = [compiles EXCEPT ![m] = @ + 1]
          /\ UNCHANGED <<imports, result>>

\* the compiler on top has compiled its whole body
FinishStep ==
  /\ result = "running"
  /\ Top.idx > Len(imports[Top.mod])
  /\ IF Len(stack) = 1 THEN result' = "ok" /\ UNCHANGED <<imports, stack, cache, compiles>>
     ELSE /\ stack' = [SubSeq(stack, 1, Len(stack) - 1) EXCEPT ![Len(stack) - 1].idx = @ + 1]
          \* (4) storeCompiledModule: at the parent and, through it, at every level up to the root
          /\ cache' = [i \in 1..(Len(cache) - 1) |-> cache[i] \cup {Top.mod}]
          /\ UNCHANGED <<imports, compiles, result>>

Next == ImportStep \/ FinishStep
Spec == Init /\ [][Next]_vars /\ WF_vars(Next)

\* ---- what the graph alone says -------------------------------------------
Succs(n) == {imports[n][i] : i \in 1..Len(imports[n])}
RECURSIVE ReachSet(_, _)
ReachSet(frontier, seen) == IF frontier = {} THEN seen
                            ELSE LET nxt == (UNION {Succs(n) : n \in frontier}) \ seen IN ReachSet(nxt, seen \cup nxt)
Reachable == ReachSet({"main"}, {"main"})
OnCycle(m) == m \in ReachSet(Succs(m), Succs(m))
CycleReachable == \E m \in Reachable \cap Mods : OnCycle(m)

\* ---- properties ----------------------------------------------------------
PathSimple == \A i, j \in 1..Len(stack) : i # j => stack[i].mod # stack[j].mod
CompiledOnce == \A m \in Mods : compiles[m] <= 1
Verdict == /\ (result = "cyclic" => CycleReachable)
           /\ (result = "ok" => (~CycleReachable /\ \A m \in Mods : compiles[m] = IF m \in Reachable THEN 1 ELSE 0))
CacheOnlyFinished == \A m \in cache[1] : ~OnPath(m)
Safety == PathSimple /\ CompiledOnce /\ Verdict /\ CacheOnlyFinished /\ Len(stack) = Len(cache)
Terminates == <>(result # "running")

\* one line per graph: what the real compiler must do with it
Emit == (result # "running") =>
           PrintT(<<"GRAPH", ToJson([imports |-> imports, result |-> result, compiles |-> compiles])>>)
=============================================================================
