---------------------------- MODULE TengoValues ----------------------------
(***************************************************************************)
(* Values, heap and operator tables of the Tengo language, transcribed     *)
(* from docs/operators.md, docs/runtime-types.md, docs/builtins.md and     *)
(* docs/tutorial.md.  Everything here is a pure operator over a heap       *)
(* record h = [stores, tables, nerr, pairs]:                               *)
(*   stores : Seq(Seq(Value))  backing arrays; an array value is a window  *)
(*            [sid, off, len] into one of them (slices share, like Go)     *)
(*   tables : Seq(Seq([key, val])) map contents; a map value is [mid]      *)
(*   nerr   : counter giving error values their identity                   *)
(*   pairs  : ghost set of <<source store, result store>> of appends whose *)
(*            sharing depends on hidden slice capacity                     *)
(* Model limits: |int| < 2^30 (Bound); floats are dyadic q/16; strings are *)
(* byte sequences with a UTF-8 rune view.  An operation that leaves the    *)
(* model's range yields kind "excluded".                                   *)
(***************************************************************************)
EXTENDS Integers, Sequences, FiniteSets, TLC, Bitwise

Bound == 1073741824

\* ---------------------------------------------------------------- values
VInt(n)    == [k |-> "int", n |-> n]
VFloat(q)  == [k |-> "float", q |-> q]          \* value = q / 16
VBool(b)   == [k |-> "bool", b |-> b]
VUndef     == [k |-> "undef"]
VChar(c)   == [k |-> "char", c |-> c]
VStr(b)    == [k |-> "string", b |-> b]
VBytes(b)  == [k |-> "bytes", b |-> b]
VArr(imm, sid, off, len) == [k |-> "array", imm |-> imm, sid |-> sid, off |-> off, len |-> len]
VMap(imm, mid) == [k |-> "map", imm |-> imm, mid |-> mid]
VErr(id, v) == [k |-> "error", id |-> id, v |-> v]
VBuiltin(name) == [k |-> "builtin", name |-> name]

EmptyHeap == [stores |-> <<>>, tables |-> <<>>, nerr |-> 0, pairs |-> {}]

Ok(h, v)      == [ok |-> TRUE, h |-> h, v |-> v]
Err(kind)     == [ok |-> FALSE, kind |-> kind]
Excluded(why) == [ok |-> FALSE, kind |-> "excluded", why |-> why]

InRange(n) == n > -Bound /\ n < Bound
OkInt(h, n) == IF InRange(n) THEN Ok(h, VInt(n)) ELSE Excluded("range")

\* ASCII helpers --------------------------------------------------------
Ascii(s) == \* a TLA+ string literal as a byte sequence (table for the few literals we need)
  CASE s = "true" -> <<116,114,117,101>>
    [] s = "false" -> <<102,97,108,115,101>>
    [] s = "error: " -> <<101,114,114,111,114,58,32>>
    [] s = "<undefined>" -> <<60,117,110,100,101,102,105,110,101,100,62>>
    [] s = ", " -> <<44,32>>
    [] s = ": " -> <<58,32>>
    [] s = "int" -> <<105,110,116>>
    [] s = "float" -> <<102,108,111,97,116>>
    [] s = "bool" -> <<98,111,111,108>>
    [] s = "char" -> <<99,104,97,114>>
    [] s = "string" -> <<115,116,114,105,110,103>>
    [] s = "bytes" -> <<98,121,116,101,115>>
    [] s = "array" -> <<97,114,114,97,121>>
    [] s = "immutable-array" -> <<105,109,109,117,116,97,98,108,101,45,97,114,114,97,121>>
    [] s = "map" -> <<109,97,112>>
    [] s = "immutable-map" -> <<105,109,109,117,116,97,98,108,101,45,109,97,112>>
    [] s = "error" -> <<101,114,114,111,114>>
    [] s = "undefined" -> <<117,110,100,101,102,105,110,101,100>>
    [] s = "compiled-function" -> <<99,111,109,112,105,108,101,100,45,102,117,110,99,116,105,111,110>>
    [] s = "<compiled-function>" -> <<60,99,111,109,112,105,108,101,100,45,102,117,110,99,116,105,111,110,62>>
    [] s = "<builtin-function>" -> <<60,98,117,105,108,116,105,110,45,102,117,110,99,116,105,111,110,62>>
    [] s = "builtin-function:" -> <<98,117,105,108,116,105,110,45,102,117,110,99,116,105,111,110,58>>
    [] s = "value" -> <<118,97,108,117,101>>

RECURSIVE NatDigits(_)
NatDigits(n) == IF n < 10 THEN <<48 + n>> ELSE NatDigits(n \div 10) \o <<48 + (n % 10)>>
IntToStr(n) == IF n < 0 THEN <<45>> \o NatDigits(0 - n) ELSE NatDigits(n)

\* strconv.FormatFloat(f, 'f', -1, 64) for f = q/16
FracStr(r) == \* r in 0..15, fraction r/16 without the leading "0."
  CASE r = 0 -> <<>> [] r = 1 -> <<48,54,50,53>> [] r = 2 -> <<49,50,53>> [] r = 3 -> <<49,56,55,53>>
    [] r = 4 -> <<50,53>> [] r = 5 -> <<51,49,50,53>> [] r = 6 -> <<51,55,53>> [] r = 7 -> <<52,51,55,53>>
    [] r = 8 -> <<53>> [] r = 9 -> <<53,54,50,53>> [] r = 10 -> <<54,50,53>> [] r = 11 -> <<54,56,55,53>>
    [] r = 12 -> <<55,53>> [] r = 13 -> <<56,49,50,53>> [] r = 14 -> <<56,55,53>> [] r = 15 -> <<57,51,55,53>>
Abs(n) == IF n < 0 THEN 0 - n ELSE n
FloatToStr(q) ==
  LET a == Abs(q) ip == a \div 16 fr == a % 16
      body == NatDigits(ip) \o (IF fr = 0 THEN <<>> ELSE <<46>> \o FracStr(fr))
  IN IF q < 0 THEN <<45>> \o body ELSE body

\* UTF-8 ----------------------------------------------------------------
\* Runes(b): code points of a byte sequence, decoded like Go's utf8.DecodeRune: an ill-formed
\* sequence (bad continuation byte, overlong form, surrogate, > U+10FFFF, truncation) yields U+FFFD
\* and consumes one byte
IsCont(x) == x >= 128 /\ x < 192
RECURSIVE RunesFrom(_, _)
RunesFrom(b, i) ==
  IF i > Len(b) THEN <<>>
  ELSE LET c == b[i]
           n == Len(b)
           b1 == IF i + 1 <= n THEN b[i+1] ELSE 0
           b2 == IF i + 2 <= n THEN b[i+2] ELSE 0
           b3 == IF i + 3 <= n THEN b[i+3] ELSE 0
           lo2 == IF c = 224 THEN 160 ELSE IF c = 240 THEN 144 ELSE 128        \* second-byte range excludes overlong forms ...
           hi2 == IF c = 237 THEN 159 ELSE IF c = 244 THEN 143 ELSE 191        \* ... surrogates and code points beyond U+10FFFF
       IN
    IF c < 128 THEN <<c>> \o RunesFrom(b, i + 1)
    ELSE IF c >= 194 /\ c < 224 /\ IsCont(b1)
      THEN <<(c - 192) * 64 + (b1 - 128)>> \o RunesFrom(b, i + 2)
    ELSE IF c >= 224 /\ c < 240 /\ b1 >= lo2 /\ b1 <= hi2 /\ IsCont(b2)
      THEN <<(c - 224) * 4096 + (b1 - 128) * 64 + (b2 - 128)>> \o RunesFrom(b, i + 3)
    ELSE IF c >= 240 /\ c <= 244 /\ b1 >= lo2 /\ b1 <= hi2 /\ IsCont(b2) /\ IsCont(b3)
      THEN <<(c - 240) * 262144 + (b1 - 128) * 4096 + (b2 - 128) * 64 + (b3 - 128)>> \o RunesFrom(b, i + 4)
    ELSE <<65533>> \o RunesFrom(b, i + 1)
Runes(b) == RunesFrom(b, 1)

RuneBytes(c) == \* UTF-8 encoding of a code point (invalid ones become U+FFFD like Go's string(rune))
  IF c < 0 \/ c > 1114111 \/ (c >= 55296 /\ c <= 57343) THEN <<239, 191, 189>>
  ELSE IF c < 128 THEN <<c>>
  ELSE IF c < 2048 THEN <<192 + (c \div 64), 128 + (c % 64)>>
  ELSE IF c < 65536 THEN <<224 + (c \div 4096), 128 + ((c \div 64) % 64), 128 + (c % 64)>>
  ELSE <<240 + (c \div 262144), 128 + ((c \div 4096) % 64), 128 + ((c \div 64) % 64), 128 + (c % 64)>>

\* lexicographic comparison of byte sequences: -1, 0, 1
RECURSIVE CmpBytes(_, _, _)
CmpBytes(a, b, i) ==
  IF i > Len(a) /\ i > Len(b) THEN 0
  ELSE IF i > Len(a) THEN -1
  ELSE IF i > Len(b) THEN 1
  ELSE IF a[i] < b[i] THEN -1
  ELSE IF a[i] > b[i] THEN 1
  ELSE CmpBytes(a, b, i + 1)

\* ------------------------------------------------------------ heap access
ArrElems(h, a) == [i \in 1..a.len |-> h.stores[a.sid][a.off + i]]   \* elements of an array value
TableOf(h, m)  == h.tables[m.mid]
TableKeys(t)   == {t[i].key : i \in 1..Len(t)}
TableGet(t, key) == LET I == {i \in 1..Len(t) : t[i].key = key} IN
                    IF I = {} THEN VUndef ELSE t[CHOOSE i \in I : TRUE].val
TableHas(t, key) == \E i \in 1..Len(t) : t[i].key = key
TablePut(t, key, val) ==
  IF TableHas(t, key) THEN [i \in 1..Len(t) |-> IF t[i].key = key THEN [key |-> key, val |-> val] ELSE t[i]]
  ELSE Append(t, [key |-> key, val |-> val])
TableDel(t, key) == SelectSeq(t, LAMBDA e : e.key # key)

NewStore(h, elems) == [h EXCEPT !.stores = Append(@, elems)]
NewArr(h, elems)   == LET h2 == NewStore(h, elems) IN
                      Ok(h2, VArr(FALSE, Len(h2.stores), 0, Len(elems)))
NewTable(h, t)     == [h EXCEPT !.tables = Append(@, t)]

\* ------------------------------------------------------------- predicates
TypeName(v) ==
  CASE v.k = "array" -> IF v.imm THEN "immutable-array" ELSE "array"
    [] v.k = "map"   -> IF v.imm THEN "immutable-map" ELSE "map"
    [] v.k = "func"  -> "compiled-function"
    [] v.k = "undef" -> "undefined"
    [] OTHER -> v.k

IsFalsy(h, v) ==
  CASE v.k = "int"    -> v.n = 0
    [] v.k = "string" -> Len(v.b) = 0
    [] v.k = "float"  -> FALSE            \* only NaN is falsy; the dyadic universe has no NaN
    [] v.k = "bool"   -> ~v.b
    [] v.k = "char"   -> v.c = 0
    [] v.k = "bytes"  -> Len(v.b) = 0
    [] v.k = "array"  -> v.len = 0
    [] v.k = "map"    -> Len(TableOf(h, v)) = 0
    [] v.k = "error"  -> TRUE
    [] v.k = "undef"  -> TRUE
    [] OTHER -> FALSE                     \* functions

\* Structural depth guard: cyclic containers are outside the property (excluded)
MaxDepth == 8

RECURSIVE Equals(_, _, _, _)
Equals(h, a, b, d) ==   \* docs/operators.md equality tables
  IF d > MaxDepth THEN FALSE
  ELSE CASE a.k = "int" -> (b.k = "int" /\ a.n = b.n) \/ (b.k = "float" /\ a.n * 16 = b.q)
    [] a.k = "float" -> (b.k = "float" /\ a.q = b.q) \/ (b.k = "int" /\ b.n * 16 = a.q)
    [] a.k = "bool" -> b.k = "bool" /\ a.b = b.b
    [] a.k = "char" -> b.k = "char" /\ a.c = b.c
    [] a.k = "string" -> b.k = "string" /\ a.b = b.b
    [] a.k = "bytes" -> b.k = "bytes" /\ a.b = b.b
    [] a.k = "undef" -> b.k = "undef"
    [] a.k = "error" -> b.k = "error" /\ a.id = b.id
    [] a.k = "array" -> /\ b.k = "array" /\ a.len = b.len
                        /\ \A i \in 1..a.len : Equals(h, h.stores[a.sid][a.off + i], h.stores[b.sid][b.off + i], d + 1)
    [] a.k = "map" -> /\ b.k = "map"
                      /\ LET ta == TableOf(h, a) tb == TableOf(h, b) IN
                         /\ Len(ta) = Len(tb)
                         /\ \A i \in 1..Len(ta) : /\ TableHas(tb, ta[i].key)
                                                   /\ Equals(h, ta[i].val, TableGet(tb, ta[i].key), d + 1)
    [] OTHER -> FALSE                      \* functions never compare equal

\* strconv.Quote restricted to what the generators emit: printable ASCII without quote/backslash
Quotable(b) == \A i \in 1..Len(b) : b[i] >= 32 /\ b[i] < 127 /\ b[i] # 34 /\ b[i] # 92

RECURSIVE JoinSeq(_, _)
JoinSeq(parts, sep) == IF Len(parts) = 0 THEN <<>>
                       ELSE IF Len(parts) = 1 THEN parts[1]
                       ELSE parts[1] \o sep \o JoinSeq(Tail(parts), sep)

\* Object.String(): [ok, b].  Maps with more than one key depend on Go map order: not ok.
RECURSIVE StringOf(_, _, _)
StringOf(h, v, d) ==
  IF d > MaxDepth THEN [ok |-> FALSE, b |-> <<>>]
  ELSE CASE v.k = "int" -> [ok |-> TRUE, b |-> IntToStr(v.n)]
    [] v.k = "float" -> [ok |-> TRUE, b |-> FloatToStr(v.q)]
    [] v.k = "bool" -> [ok |-> TRUE, b |-> IF v.b THEN Ascii("true") ELSE Ascii("false")]
    [] v.k = "char" -> [ok |-> TRUE, b |-> RuneBytes(v.c)]
    [] v.k = "string" -> [ok |-> Quotable(v.b), b |-> <<34>> \o v.b \o <<34>>]
    [] v.k = "bytes" -> [ok |-> TRUE, b |-> v.b]
    [] v.k = "undef" -> [ok |-> TRUE, b |-> Ascii("<undefined>")]
    [] v.k = "error" -> LET s == StringOf(h, v.v, d + 1) IN [ok |-> s.ok, b |-> Ascii("error: ") \o s.b]
    [] v.k = "array" ->
         LET parts == [i \in 1..v.len |-> StringOf(h, h.stores[v.sid][v.off + i], d + 1)] IN
         [ok |-> \A i \in 1..v.len : parts[i].ok,
          b |-> <<91>> \o JoinSeq([i \in 1..v.len |-> parts[i].b], Ascii(", ")) \o <<93>>]
    [] v.k = "map" ->
         LET t == TableOf(h, v)
             parts == [i \in 1..Len(t) |-> StringOf(h, t[i].val, d + 1)] IN
         [ok |-> Len(t) <= 1 /\ \A i \in 1..Len(t) : parts[i].ok,
          b |-> <<123>> \o JoinSeq([i \in 1..Len(t) |-> t[i].key \o Ascii(": ") \o parts[i].b], Ascii(", ")) \o <<125>>]
    [] v.k = "func" -> [ok |-> TRUE, b |-> Ascii("<compiled-function>")]
    [] v.k = "builtin" -> [ok |-> TRUE, b |-> Ascii("<builtin-function>")]
    [] OTHER -> [ok |-> FALSE, b |-> <<>>]

\* tengo.ToString: strings give their content, undefined does not convert, the rest String()
ToStringConv(h, v) ==
  IF v.k = "undef" THEN [conv |-> FALSE, ok |-> TRUE, b |-> <<>>]
  ELSE IF v.k = "string" THEN [conv |-> TRUE, ok |-> TRUE, b |-> v.b]
  ELSE LET s == StringOf(h, v, 0) IN [conv |-> TRUE, ok |-> s.ok, b |-> s.b]

\* Go integer division truncates toward zero
TDiv(a, b) == LET q == Abs(a) \div Abs(b) IN IF (a < 0) # (b < 0) THEN 0 - q ELSE q
TRem(a, b) == a - b * TDiv(a, b)

Pow2(n) == 2 ^ n

\* decimal parse of a byte string: [ok, n]
IsDigit(c) == c >= 48 /\ c <= 57
RECURSIVE DigitsVal(_, _, _)
DigitsVal(b, i, acc) == IF i > Len(b) THEN acc
                        ELSE IF acc >= Bound THEN Bound
                        ELSE DigitsVal(b, i + 1, acc * 10 + (b[i] - 48))
ParseInt(b) == \* strconv.ParseInt(s, 10, 64): optional sign, digits (underscores not allowed in base 10 explicit)
  LET neg == Len(b) > 0 /\ b[1] = 45
      pos == Len(b) > 0 /\ b[1] = 43
      ds  == IF neg \/ pos THEN Tail(b) ELSE b
  IN IF Len(ds) = 0 \/ \E i \in 1..Len(ds) : ~IsDigit(ds[i]) THEN [ok |-> FALSE, n |-> 0, big |-> FALSE]
     ELSE LET n == DigitsVal(ds, 1, 0) IN
          [ok |-> TRUE, n |-> IF neg THEN 0 - n ELSE n, big |-> n >= Bound]

\* ------------------------------------------------------------ binary ops
CmpOp(op, c) == \* c = sign of (l - r)
  CASE op = "<" -> c < 0 [] op = "<=" -> c <= 0 [] op = ">" -> c > 0 [] op = ">=" -> c >= 0
IsCmp(op) == op \in {"<", "<=", ">", ">="}
Sign(n) == IF n < 0 THEN -1 ELSE IF n > 0 THEN 1 ELSE 0

IntIntOp(h, op, a, b) ==
  CASE op = "+" -> OkInt(h, a + b)
    [] op = "-" -> OkInt(h, a - b)
    [] op = "*" -> IF Abs(a) < 32768 /\ Abs(b) < 32768 THEN OkInt(h, a * b) ELSE Excluded("range")
    [] op = "/" -> IF b = 0 THEN Err("div_by_zero") ELSE OkInt(h, TDiv(a, b))
    [] op = "%" -> IF b = 0 THEN Err("div_by_zero") ELSE OkInt(h, TRem(a, b))
    [] op \in {"&", "|", "^", "&^"} ->
         IF a < 0 \/ b < 0 THEN Excluded("range")
         ELSE (CASE op = "&" -> OkInt(h, a & b)
                [] op = "|" -> OkInt(h, a | b)
                [] op = "^" -> OkInt(h, a ^^ b)
                [] op = "&^" -> OkInt(h, a - (a & b)))
    [] op = "<<" -> IF b < 0 \/ b > 20 \/ a < 0 \/ a >= 1024 THEN Excluded("range") ELSE OkInt(h, a * Pow2(b))
    [] op = ">>" -> IF b < 0 \/ b > 30 \/ a < 0 THEN Excluded("range") ELSE OkInt(h, a \div Pow2(b))
    [] IsCmp(op) -> Ok(h, VBool(CmpOp(op, Sign(a - b))))
    [] OTHER -> Err("invalid_operation")

OkFloat(h, q) == IF InRange(q) THEN Ok(h, VFloat(q)) ELSE Excluded("range")
FloatOp(h, op, qa, qb) == \* both operands as q/16
  CASE op = "+" -> OkFloat(h, qa + qb)
    [] op = "-" -> OkFloat(h, qa - qb)
    \* a zero product/quotient with a negative operand is IEEE -0, which the dyadic universe lacks
    [] op = "*" -> IF Abs(qa) < 32768 /\ Abs(qb) < 32768 /\ (qa * qb) % 16 = 0
                      /\ ~(qa * qb = 0 /\ (qa < 0 \/ qb < 0))
                   THEN OkFloat(h, (qa * qb) \div 16) ELSE Excluded("float")
    [] op = "/" -> IF qb # 0 /\ Abs(qa) < 1048576 /\ (qa * 16) % Abs(qb) = 0 /\ ~(qa = 0 /\ qb < 0)
                   THEN OkFloat(h, TDiv(qa * 16, qb)) ELSE Excluded("float")
    [] IsCmp(op) -> Ok(h, VBool(CmpOp(op, Sign(qa - qb))))
    [] OTHER -> Err("invalid_operation")

CharOp(h, op, a, b) == \* char (+,-) char|int, comparisons by code point
  CASE op = "+" -> IF a + b >= 0 /\ a + b < 1114112 THEN Ok(h, VChar(a + b)) ELSE Excluded("range")
    [] op = "-" -> IF a - b >= 0 /\ a - b < 1114112 THEN Ok(h, VChar(a - b)) ELSE Excluded("range")
    [] IsCmp(op) -> Ok(h, VBool(CmpOp(op, Sign(a - b))))
    [] OTHER -> Err("invalid_operation")

CONSTANTS MaxStringLen, MaxBytesLen

BinOp(h, op, l, r) ==
  CASE l.k = "int" /\ r.k = "int"   -> IntIntOp(h, op, l.n, r.n)
    [] l.k = "int" /\ r.k = "float" -> FloatOp(h, op, l.n * 16, r.q)
    [] l.k = "float" /\ r.k = "int" -> FloatOp(h, op, l.q, r.n * 16)
    [] l.k = "float" /\ r.k = "float" -> FloatOp(h, op, l.q, r.q)
    [] l.k = "int" /\ r.k = "char"  -> CharOp(h, op, l.n, r.c)
    [] l.k = "char" /\ r.k = "int"  -> CharOp(h, op, l.c, r.n)
    [] l.k = "char" /\ r.k = "char" -> CharOp(h, op, l.c, r.c)
    [] l.k = "string" ->
         IF op = "+" THEN
           IF r.k = "string" THEN
             IF Len(l.b) + Len(r.b) > MaxStringLen THEN Err("string_limit") ELSE Ok(h, VStr(l.b \o r.b))
           ELSE LET s == StringOf(h, r, 0) IN
                IF ~s.ok THEN Excluded("string-of")
                ELSE IF Len(l.b) + Len(s.b) > MaxStringLen THEN Err("string_limit")
                ELSE Ok(h, VStr(l.b \o s.b))
         ELSE IF IsCmp(op) /\ r.k = "string" THEN Ok(h, VBool(CmpOp(op, CmpBytes(l.b, r.b, 1))))
         ELSE Err("invalid_operation")
    [] l.k = "bytes" /\ r.k = "bytes" /\ op = "+" ->
         IF Len(l.b) + Len(r.b) > MaxBytesLen THEN Err("bytes_limit") ELSE Ok(h, VBytes(l.b \o r.b))
    [] l.k = "array" /\ r.k = "array" /\ op = "+" /\ l.imm = r.imm ->
         \* "(array) + (array): return a concatenated array"; the implementation accepts
         \* array+array and immutable+immutable only, the result is a (mutable) array
         NewArr(h, ArrElems(h, l) \o ArrElems(h, r))
    [] OTHER -> Err("invalid_operation")

\* --------------------------------------------------------------- indexing
IndexGet(h, v, i) ==
  CASE v.k = "array" ->
         IF i.k # "int" THEN Err("invalid_index_type")
         ELSE IF i.n < 0 \/ i.n >= v.len THEN Ok(h, VUndef)
         ELSE Ok(h, h.stores[v.sid][v.off + i.n + 1])
    [] v.k = "string" ->
         IF i.k # "int" THEN Err("invalid_index_type")
         ELSE LET rs == Runes(v.b) IN
              IF i.n < 0 \/ i.n >= Len(rs) THEN Ok(h, VUndef) ELSE Ok(h, VChar(rs[i.n + 1]))
    [] v.k = "bytes" ->
         IF i.k # "int" THEN Err("invalid_index_type")
         ELSE IF i.n < 0 \/ i.n >= Len(v.b) THEN Ok(h, VUndef) ELSE Ok(h, VInt(v.b[i.n + 1]))
    [] v.k = "map" ->
         LET s == ToStringConv(h, i) IN
         IF ~s.conv THEN Err("invalid_index_type")
         ELSE IF ~s.ok THEN Excluded("string-of")
         ELSE Ok(h, TableGet(TableOf(h, v), s.b))
    [] v.k = "error" ->
         LET s == ToStringConv(h, i) IN
         IF s.conv /\ s.ok /\ s.b = Ascii("value") THEN Ok(h, v.v)
         ELSE IF s.conv /\ ~s.ok THEN Excluded("string-of")
         ELSE Err("invalid_index_on_error")
    [] v.k = "undef" -> Ok(h, VUndef)
    [] OTHER -> Err("not_indexable")

\* tengo.ToInt used by Array.IndexSet: int, float (truncated), char, bool, decimal string
ToIntConv(v) ==
  CASE v.k = "int" -> [ok |-> TRUE, n |-> v.n, ex |-> FALSE]
    [] v.k = "float" -> [ok |-> TRUE, n |-> TDiv(v.q, 16), ex |-> FALSE]
    [] v.k = "char" -> [ok |-> TRUE, n |-> v.c, ex |-> FALSE]
    [] v.k = "bool" -> [ok |-> TRUE, n |-> IF v.b THEN 1 ELSE 0, ex |-> FALSE]
    [] v.k = "string" -> LET p == ParseInt(v.b) IN [ok |-> p.ok, n |-> p.n, ex |-> p.big]
    [] OTHER -> [ok |-> FALSE, n |-> 0, ex |-> FALSE]

\* stores sharing a possibly-hidden capacity with store s
\* (transitively: d := append(c, x) in place of c := append(b, y) in place of b shares with b)
Direct(h, s) == {p[2] : p \in {q \in h.pairs : q[1] = s}} \cup {p[1] : p \in {q \in h.pairs : q[2] = s}}
RECURSIVE Closure_(_, _, _, _)
Closure_(h, seen, frontier, fwd) ==
  IF frontier = {} THEN seen
  ELSE LET nxt == (UNION {IF fwd THEN {p[2] : p \in {q \in h.pairs : q[1] = s}} ELSE Direct(h, s) : s \in frontier}) \ seen
       IN Closure_(h, seen \cup nxt, nxt, fwd)
Partners(h, s) == Closure_(h, {s}, {s}, FALSE) \ {s}
\* the stores that grew out of s: appending to s beyond its known length could clobber what they show
Results(h, s) == Closure_(h, {s}, {s}, TRUE) \ {s}

IndexSet(h, v, i, x) ==   \* returns Ok(h', VUndef) or an error
  CASE v.k = "array" /\ ~v.imm ->
         LET c == ToIntConv(i) IN
         IF ~c.ok THEN Err("invalid_index_type")
         ELSE IF c.ex THEN Excluded("range")
         ELSE IF c.n < 0 \/ c.n >= v.len THEN Err("index_out_of_bounds")
         ELSE Ok([h EXCEPT !.stores[v.sid][v.off + c.n + 1] = x], VUndef)
    [] v.k = "map" /\ ~v.imm ->
         LET s == ToStringConv(h, i) IN
         IF ~s.conv THEN Err("invalid_index_type")
         ELSE IF ~s.ok THEN Excluded("string-of")
         ELSE Ok([h EXCEPT !.tables[v.mid] = TablePut(@, s.b, x)], VUndef)
    [] OTHER -> Err("not_index_assignable")

Clamp(n, hi) == IF n < 0 THEN 0 ELSE IF n > hi THEN hi ELSE n
SubSeqSafe(s, lo, hi) == IF hi <= lo THEN <<>> ELSE SubSeq(s, lo + 1, hi)   \* 0-based [lo, hi)

SliceOf(h, v, lo, hi) ==
  IF lo.k \notin {"undef", "int"} THEN Err("invalid_slice_index")
  ELSE IF v.k \notin {"array", "string", "bytes"} THEN Err("not_indexable")
  ELSE IF hi.k \notin {"undef", "int"} THEN Err("invalid_slice_index")
  ELSE LET n == CASE v.k = "array" -> v.len [] OTHER -> Len(v.b)
           l0 == IF lo.k = "undef" THEN 0 ELSE lo.n
           h0 == IF hi.k = "undef" THEN n ELSE hi.n
       IN IF l0 > h0 THEN Err("invalid_slice_index")
          ELSE LET l1 == Clamp(l0, n) h1 == Clamp(h0, n) IN
            CASE v.k = "array" ->
                   \* slicing a mutable array shares its store ("like Go"); a slice of an
                   \* immutable array must not hand out the immutable storage (C09)
                   IF v.imm THEN NewArr(h, SubSeqSafe(ArrElems(h, v), l1, h1))
                   ELSE Ok(h, VArr(FALSE, v.sid, v.off + l1, h1 - l1))
              [] v.k = "string" -> Ok(h, VStr(SubSeqSafe(v.b, l1, h1)))
              [] v.k = "bytes"  -> Ok(h, VBytes(SubSeqSafe(v.b, l1, h1)))

\* ------------------------------------------------------------------ copy
RECURSIVE CopyDeep(_, _, _)
CopyDeep(h, v, d) ==   \* copy(): deep copy; immutable containers become mutable ones
  IF d > MaxDepth THEN Excluded("cycle")
  ELSE CASE v.k = "array" ->
         LET RECURSIVE go(_, _, _)
             go(hh, i, acc) == IF i > v.len THEN [ok |-> TRUE, h |-> hh, v |-> acc]
                               ELSE LET r == CopyDeep(hh, hh.stores[v.sid][v.off + i], d + 1) IN
                                    IF ~r.ok THEN r ELSE go(r.h, i + 1, Append(acc, r.v))
             r == go(h, 1, <<>>)
         IN IF ~r.ok THEN r ELSE NewArr(r.h, r.v)
    [] v.k = "map" ->
         LET t == TableOf(h, v)
             RECURSIVE go(_, _, _)
             go(hh, i, acc) == IF i > Len(t) THEN [ok |-> TRUE, h |-> hh, v |-> acc]
                               ELSE LET r == CopyDeep(hh, t[i].val, d + 1) IN
                                    IF ~r.ok THEN r ELSE go(r.h, i + 1, Append(acc, [key |-> t[i].key, val |-> r.v]))
             r == go(h, 1, <<>>)
         IN IF ~r.ok THEN r ELSE LET h2 == NewTable(r.h, r.v) IN Ok(h2, VMap(FALSE, Len(h2.tables)))
    [] v.k = "error" ->
         LET r == CopyDeep(h, v.v, d + 1) IN
         IF ~r.ok THEN r ELSE Ok([r.h EXCEPT !.nerr = @ + 1], VErr(r.h.nerr + 1, r.v))
    [] OTHER -> Ok(h, v)

\* freeze(): deep, result immutable, argument untouched
RECURSIVE Freeze(_, _, _)
Freeze(h, v, d) ==
  IF d > MaxDepth THEN Excluded("cycle")
  ELSE CASE v.k = "array" ->
         LET RECURSIVE go(_, _, _)
             go(hh, i, acc) == IF i > v.len THEN [ok |-> TRUE, h |-> hh, v |-> acc]
                               ELSE LET r == Freeze(hh, hh.stores[v.sid][v.off + i], d + 1) IN
                                    IF ~r.ok THEN r ELSE go(r.h, i + 1, Append(acc, r.v))
             r == go(h, 1, <<>>)
         IN IF ~r.ok THEN r
            \* an already-immutable array whose elements needed no freezing is returned as it is
            ELSE IF v.imm /\ r.v = ArrElems(h, v) THEN Ok(r.h, v)
            ELSE LET h2 == NewStore(r.h, r.v) IN Ok(h2, VArr(TRUE, Len(h2.stores), 0, v.len))
    [] v.k = "map" ->
         LET t == TableOf(h, v)
             RECURSIVE go(_, _, _)
             go(hh, i, acc) == IF i > Len(t) THEN [ok |-> TRUE, h |-> hh, v |-> acc]
                               ELSE LET r == Freeze(hh, t[i].val, d + 1) IN
                                    IF ~r.ok THEN r ELSE go(r.h, i + 1, Append(acc, [key |-> t[i].key, val |-> r.v]))
             r == go(h, 1, <<>>)
         IN IF ~r.ok THEN r
            ELSE IF v.imm /\ r.v = t THEN Ok(r.h, v)
            ELSE LET h2 == NewTable(r.h, r.v) IN Ok(h2, VMap(TRUE, Len(h2.tables)))
    [] OTHER -> Ok(h, v)

\* Host input values arrive as trees (exchange format); Intern materialises them in the heap.
RECURSIVE Intern(_, _, _)
Intern(h, v, d) ==
  CASE v.k = "array" ->
         LET RECURSIVE go(_, _, _)
             go(hh, i, acc) == IF i > Len(v.e) THEN [h |-> hh, v |-> acc]
                               ELSE LET r == Intern(hh, v.e[i], d + 1) IN go(r.h, i + 1, Append(acc, r.v))
             r == go(h, 1, <<>>)
             h2 == NewStore(r.h, r.v)
         IN [h |-> h2, v |-> VArr(v.imm, Len(h2.stores), 0, Len(v.e))]
    [] v.k = "map" ->
         LET RECURSIVE go(_, _, _)
             go(hh, i, acc) == IF i > Len(v.kv) THEN [h |-> hh, v |-> acc]
                               ELSE LET r == Intern(hh, v.kv[i][2], d + 1) IN
                                    go(r.h, i + 1, Append(acc, [key |-> v.kv[i][1], val |-> r.v]))
             r == go(h, 1, <<>>)
             h2 == NewTable(r.h, r.v)
         IN [h |-> h2, v |-> VMap(v.imm, Len(h2.tables))]
    [] v.k = "error" -> LET r == Intern(h, v.v, d + 1) IN
                        [h |-> [r.h EXCEPT !.nerr = @ + 1], v |-> VErr(r.h.nerr + 1, r.v)]
    [] OTHER -> [h |-> h, v |-> v]

\* ---------------------------------------------------------------- reify
\* Heap graph -> tree value in the exchange format (maps as sets of <<key, value>>).
RECURSIVE Reify(_, _, _)
Reify(h, v, d) ==
  IF d > MaxDepth THEN [k |-> "cycle"]
  ELSE CASE v.k = "array" -> [k |-> "array", imm |-> v.imm,
                               e |-> [i \in 1..v.len |-> Reify(h, h.stores[v.sid][v.off + i], d + 1)]]
    [] v.k = "map" -> LET t == TableOf(h, v) IN
                      [k |-> "map", imm |-> v.imm,
                       kv |-> [i \in 1..Len(t) |-> <<t[i].key, Reify(h, t[i].val, d + 1)>>]]
    [] v.k = "error" -> [k |-> "error", v |-> Reify(h, v.v, d + 1)]
    [] v.k = "func" -> [k |-> "func"]
    [] v.k = "hostfn" -> [k |-> "userfunc", name |-> v.name]
    [] v.k = "bool" -> [k |-> "bool", b |-> v.b]
    [] OTHER -> v
=============================================================================
