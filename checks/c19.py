"""C19 Standard-library wrappers compute what the wrapped Go functions compute.

E: StdlibSig.tla - the documented signature table of text, math, base64, hex and times (parameter kinds,
   arity range, result kind, error surfacing) and the documented coercion rules as an acceptance matrix;
   TLC derives every call obligation: function x argument count 0..max+1, and function x position x
   run-time type (14 classes) with the other positions right-typed, with the class of outcome required
   (wrong_num_args / invalid_arg_type / value).  The enum module is specified directly (All, Any, Filter,
   Find, Chunk, Map ...) and evaluated by TLC on every array over a small domain with a predicate family.
R: every obligation is executed against the real module tables (stdlib.GetModuleMap(...).Attrs[fn].Call)
   with seeded argument vectors from boundary pools; the enum cases run through a compiled script that
   imports the (Tengo source) module.
O: the outcome class the specification derived; for values, the Go function the module documentation
   names (strings/strconv/regexp/math/encoding/time), called through an independent reflection-based
   coercion by the same documented rules; the result kind of the table.
"""
import json

import vlib

CFG = 'SPECIFICATION Spec\nCONSTANTS\n  Mode = "%s"\nINVARIANTS EmitSigs EmitEnum EmitEnumMap TableSane EnumLaws\n'


def run(ck):
    quick = ck.quick()
    sigs = ck.tlc("StdlibSig", CFG % "sigs", workers=1, name="sigs", timeout=1200).tagged("SIG")
    en = ck.tlc("StdlibSig", CFG % "enum", workers=1, name="enum", timeout=1200)
    enum_cases = en.tagged("ENUM") + en.tagged("ENUMC")
    map_cases = en.tagged("ENUMM")
    B = 150
    rounds = 3 if quick else 100
    batches = []
    for r in range(rounds):
        for k in range(0, len(sigs), B):
            batches.append({"id": len(batches), "batch": sigs[k:k + B], "seed": ck.seed * 1000003 + len(batches), "vectors": 16 if quick else 100})
    res = vlib.run_cases(ck, "stdlibsig", batches, nproc=14, timeout=3000)
    res = vlib.retry_hangs(ck, "stdlibsig", batches, res, timeout=3000)
    ebatches = [{"id": i, "batch": enum_cases[k:k + 400]} for i, k in enumerate(range(0, len(enum_cases), 400))]
    ebatches += [{"id": len(ebatches) + i, "maps": map_cases[k:k + 200]} for i, k in enumerate(range(0, len(map_cases), 200))]
    eres = vlib.run_cases(ck, "enumspec", ebatches, nproc=14, timeout=3000)
    eres = vlib.retry_hangs(ck, "enumspec", ebatches, eres, timeout=3000)
    stats, keycount, seen = {}, {}, set()
    for group, rr in ((batches, res), (ebatches, eres)):
        for b in group:
            o = rr[b["id"]]
            if o.get("died") or o.get("hang") or o.get("panic"):
                ck.violation("fatal:stdlib", "a standard-library call killed, hung or panicked the driver: %s" % json.dumps(o)[:400], {"kind": "batch", "real": o})
                continue
            if "error" in o:
                raise vlib.Infra("stdlib driver: " + o["error"])
            for k, v in o["stats"].items():
                stats[k] = stats.get(k, 0) + v
            for k, v in (o.get("by_key") or {}).items():
                keycount[k] = keycount.get(k, 0) + v
            for m in o.get("mismatches") or []:
                if m["key"] in seen:
                    continue
                seen.add(m["key"])
                ck.violation(m["key"], m["what"], {"kind": "call", "fn": m.get("fn"), "args": m.get("args"), "what": m["what"]})
    missing = sorted(k for k in stats if k.startswith("no_reference:"))
    if missing:
        raise vlib.Infra("functions of the specification without a reference: %s" % missing)
    ck.evaluations += sum(v for k, v in stats.items() if k.startswith("class:")) + stats.get("compared", 0)
    ck.traces += sum(v for k, v in stats.items() if k.startswith("class:"))
    ck.extra.update({"call_obligations": len(sigs), "enum_cases": len(enum_cases), "enum_map_cases": len(map_cases), "functions": len({(c["mod"], c["fn"]) for c in sigs}), "stats": stats,
                     "mismatch_instances_by_key": keycount})
    for c in sigs[::7]:
        ck.note_distinct("%s.%s:%s:%s" % (c["mod"], c["fn"], ",".join(c["types"]), c["expect"]))
    ck.add_sample({"obligation": sigs[len(sigs) // 2], "enum_case": enum_cases[len(enum_cases) // 2]})
    ck.rule = ("every call obligation derived by TLC from the signature table (function x arity, function x position x run-time type) x seeded argument "
               "vectors; every enum case over the array domain; non-trivial counted conservatively as every 7th distinct obligation")
    ck.assumptions = ["the reference coerces with tengo.ToString/ToInt/... (the documented rules themselves are C-other properties' business)",
                      "times.now/since/until/sleep and the Regexp object are checked for arity, types and result kind only (clock dependent / covered through re_*)",
                      "arguments outside the domain of the Go function (it panics: negative repeat count, base > 36 ...) are not compared",
                      "pad_left/pad_right are compared where pad_len - len(s) is a multiple of len(pad_with)"]


def replay(ck, path):
    rep = json.load(open(path))["replay"]
    if rep.get("kind") == "call" and rep.get("args") is not None:
        print(json.dumps(vlib.run_cases(ck, "stdlibsig", [{"id": 0, "fn": rep["fn"], "args": rep["args"]}], nproc=1)[0], indent=1)[:3000])
    else:
        print(json.dumps(rep)[:3000])
    return 0
