package main

// symtrace: record the compiler's use of its symbol table while it compiles a program (hooks verifSym / verifSymEnd) and
// emit one trace per compilation unit (main script, each source module: a root table of its own) for SymbolTableTrace.tla.
// Tables and symbols are numbered by pointer identity; a table is announced ("Fork") the first time it is used.

import (
	"encoding/json"
	"time"

	"github.com/d5/tengo/v2"
)

type symUnit struct {
	root   *tengo.SymbolTable
	tabs   map[*tengo.SymbolTable]int
	syms   map[*tengo.Symbol]int
	ev     []V
	names  map[string]bool
	broken string
}

func (u *symUnit) symNum(s *tengo.Symbol) int {
	if n, ok := u.syms[s]; ok {
		return n
	}
	u.syms[s] = len(u.syms) + 1
	return u.syms[s]
}

// tabNum announces every table of the chain that has not been seen, outermost first
func (u *symUnit) tabNum(t *tengo.SymbolTable) int {
	if n, ok := u.tabs[t]; ok {
		return n
	}
	p := t.VerifParent()
	if p == nil {
		u.broken = "a second root inside one unit"
		return 0
	}
	pn := u.tabNum(p)
	u.tabs[t] = len(u.tabs) + 1
	u.ev = append(u.ev, V{"e": "Fork", "tab": u.tabs[t], "parent": pn, "block": t.VerifBlock()})
	return u.tabs[t]
}

func symtraceHandle(raw []byte) map[string]interface{} {
	var pc progCase
	if err := json.Unmarshal(raw, &pc); err != nil {
		return map[string]interface{}{"error": err.Error()}
	}
	units := []*symUnit{}
	byRoot := map[*tengo.SymbolTable]*symUnit{}
	unitOf := func(t *tengo.SymbolTable) *symUnit {
		r := t
		for r.VerifParent() != nil {
			r = r.VerifParent()
		}
		u, ok := byRoot[r]
		if !ok {
			u = &symUnit{root: r, tabs: map[*tengo.SymbolTable]int{r: 1}, syms: map[*tengo.Symbol]int{}, names: map[string]bool{}}
			byRoot[r] = u
			units = append(units, u)
		}
		return u
	}
	tengo.VerifSetSymSink(func(e tengo.VerifSymEvent) {
		u := unitOf(e.Table)
		if len(u.ev) > 6000 {
			u.broken = "too long"
			return
		}
		tn := u.tabNum(e.Table)
		switch e.Ev {
		case "Define", "DefineBuiltin":
			u.names[e.Name] = true
			u.ev = append(u.ev, V{"e": e.Ev, "tab": tn, "name": e.Name, "sym": u.symNum(e.Sym), "scope": string(e.Sym.Scope), "index": e.Sym.Index})
		case "Resolve":
			u.names[e.Name] = true
			ev := V{"e": "Resolve", "tab": tn, "name": e.Name, "ok": e.Ok, "depth": e.Depth, "sym": 0, "scope": "", "index": 0, "assigned": false}
			if e.Ok && e.Sym != nil {
				ev["sym"], ev["scope"], ev["index"], ev["assigned"] = u.symNum(e.Sym), string(e.Sym.Scope), e.Sym.Index, e.Sym.LocalAssigned
			}
			u.ev = append(u.ev, ev)
		case "Mark":
			u.ev = append(u.ev, V{"e": "Mark", "tab": tn, "sym": u.symNum(e.Sym)})
		case "FuncEnd":
			free := []V{}
			for _, s := range e.Free {
				u.names[s.Name] = true
				free = append(free, V{"sym": u.symNum(s), "name": s.Name, "scope": string(s.Scope), "index": s.Index, "assigned": s.LocalAssigned})
			}
			u.ev = append(u.ev, V{"e": "FuncEnd", "tab": tn, "max": e.Max, "free": free})
		}
	})
	defer tengo.VerifSetSymSink(nil)
	_, bad := compileForDump(&pc)
	tengo.VerifSetSymSink(nil)
	res := map[string]interface{}{}
	if bad != nil {
		res["compile"] = bad
	}
	var out []V
	for i, u := range units {
		if u.broken != "" {
			out = append(out, V{"unit": i, "skipped": u.broken})
			continue
		}
		names := []string{}
		for n := range u.names {
			names = append(names, n)
		}
		out = append(out, V{"unit": i, "ev": u.ev, "names": names})
	}
	res["units"] = out
	return res
}

func init() {
	register("symtrace", "record the compiler's symbol-table calls per compilation unit (cases on stdin)", func(args []string) error {
		return runCases(30*time.Second, symtraceHandle)
	})
}
