package main

import (
	"fmt"
	"math/rand"
)

// Random program generator: weakly typed compositions of every construct the
// reference semantics models.  By construction programs have no static errors
// (every name is declared before use, never redeclared in its block) and
// terminate (loops are counted or range over finite containers, recursion is
// guarded).  A small fraction of ill-typed operands is injected on purpose so
// that run-time error paths are exercised too.

type kind int

const (
	kInt kind = iota
	kBool
	kStr
	kArr
	kMap
	kFloat
	kChar
	kFn
	kAny
)

type gvar struct {
	name   string
	kind   kind
	arity  int
	vari   bool
	ret    kind
	accum  bool // only used as x = append(x, ..)
	frozen bool // immutable container
	noset  bool // must not be assigned (loop counters, functions)
}

type genOpts struct {
	Inputs   bool
	Errors   float64 // probability of injecting an ill-typed operand per expression
	MaxStmts int
	Closures bool
	Modules  bool
	// NoLoopClosures: no function literal inside a loop at global scope (the documented
	// scope-dependent case: a closure outliving the iteration that declared a captured variable)
	NoLoopClosures bool
}

type gen struct {
	r      *rand.Rand
	scopes [][]*gvar
	fuel   int
	fdepth int
	loops  int
	nameN  int
	depth  int
	o      genOpts
	inputs []Input
}

func (g *gen) fresh(prefix string) string {
	g.nameN++
	return fmt.Sprintf("%s%d", prefix, g.nameN)
}

func (g *gen) push()      { g.scopes = append(g.scopes, nil) }
func (g *gen) pop()       { g.scopes = g.scopes[:len(g.scopes)-1] }
func (g *gen) declare(v *gvar) *gvar {
	g.scopes[len(g.scopes)-1] = append(g.scopes[len(g.scopes)-1], v)
	return v
}

func (g *gen) visible() []*gvar {
	seen := map[string]bool{}
	var out []*gvar
	for i := len(g.scopes) - 1; i >= 0; i-- {
		s := g.scopes[i]
		for j := len(s) - 1; j >= 0; j-- {
			if !seen[s[j].name] {
				seen[s[j].name] = true
				out = append(out, s[j])
			}
		}
	}
	return out
}

func (g *gen) varsOf(k kind) []*gvar {
	var out []*gvar
	for _, v := range g.visible() {
		if v.kind == k && !v.accum {
			out = append(out, v)
		}
	}
	return out
}

func (g *gen) pick(vs []*gvar) *gvar { return vs[g.r.Intn(len(vs))] }
func (g *gen) p(x float64) bool       { return g.r.Float64() < x }

var strPool = []string{"", "a", "b", "ab", "xyz", "k1", "héllo", "7", "-3"}
var keyPool = []string{"a", "b", "c", "k1", "x y"}

func (g *gen) intLit() *Node {
	switch g.r.Intn(10) {
	case 0:
		return Int(0)
	case 1:
		return Int(int64(-1 - g.r.Intn(4)))
	case 2:
		return Int(int64(10 + g.r.Intn(90)))
	}
	return Int(int64(g.r.Intn(7)))
}

func (g *gen) lit(k kind) *Node {
	switch k {
	case kInt:
		return g.intLit()
	case kBool:
		return Bool(g.p(0.5))
	case kStr:
		return Str(strPool[g.r.Intn(len(strPool))])
	case kFloat:
		return Float16(int64(g.r.Intn(80) - 16))
	case kChar:
		return Char([]rune{'a', 'b', 'z', 'A', '0', 'é'}[g.r.Intn(6)])
	case kArr:
		n := g.r.Intn(4)
		var el []*Node
		for i := 0; i < n; i++ {
			if g.p(0.15) {
				el = append(el, g.lit([]kind{kStr, kBool, kFloat}[g.r.Intn(3)]))
			} else {
				el = append(el, g.intLit())
			}
		}
		return Arr(el...)
	case kMap:
		n := g.r.Intn(4)
		perm := g.r.Perm(len(keyPool))
		var ks []string
		var vs []*Node
		for i := 0; i < n; i++ {
			ks = append(ks, keyPool[perm[i]])
			vs = append(vs, g.intLit())
		}
		return Map(ks, vs)
	}
	switch g.r.Intn(4) {
	case 0:
		return Undef()
	case 1:
		return ErrE(Str("e"))
	case 2:
		return Imm(g.lit(kArr))
	}
	return g.lit(kind(g.r.Intn(7)))
}

func (g *gen) expr(k kind, d int) *Node {
	g.fuel--
	if g.o.Errors > 0 && g.p(g.o.Errors) && k != kFn {
		k2 := kind(g.r.Intn(7))
		if k2 != k {
			return g.expr(k2, d+1)
		}
	}
	if d > 3 || g.fuel < 0 {
		if vs := g.varsOf(k); len(vs) > 0 && g.p(0.6) {
			return Id(g.pick(vs).name)
		}
		return g.lit(k)
	}
	vs := g.varsOf(k)
	if len(vs) > 0 && g.p(0.35) {
		return Id(g.pick(vs).name)
	}
	switch k {
	case kInt:
		switch g.r.Intn(14) {
		case 0, 1, 2:
			op := []string{"+", "-", "*"}[g.r.Intn(3)]
			return Bin(op, g.expr(kInt, d+1), g.expr(kInt, d+1))
		case 3:
			op := []string{"/", "%"}[g.r.Intn(2)]
			div := Int(int64(1 + g.r.Intn(5)))
			if g.p(0.04) {
				div = Int(0)
			} else if g.p(0.3) {
				return Bin(op, g.expr(kInt, d+1), Bin("+", Bin("*", g.expr(kInt, d+1), g.expr(kInt, d+1)), Int(1)))
			}
			return Bin(op, g.expr(kInt, d+1), div)
		case 4:
			ks := []kind{kArr, kStr, kMap}
			return Call(Id("len"), g.expr(ks[g.r.Intn(3)], d+1))
		case 5:
			if as := g.varsOf(kArr); len(as) > 0 {
				return Idx(Id(g.pick(as).name), Int(int64(g.r.Intn(3))))
			}
		case 6:
			if ms := g.varsOf(kMap); len(ms) > 0 {
				return Sel(Id(g.pick(ms).name), keyPool[g.r.Intn(len(keyPool))])
			}
		case 7:
			return Cond(g.expr(kBool, d+1), g.expr(kInt, d+1), g.expr(kInt, d+1))
		case 8:
			if c := g.callOf(kInt, d); c != nil {
				return c
			}
		case 9:
			return Call(Id("int"), g.expr([]kind{kStr, kFloat, kBool, kChar}[g.r.Intn(4)], d+1))
		case 10:
			op := []string{"&", "|", "^", "&^"}[g.r.Intn(4)]
			return Bin(op, Int(int64(g.r.Intn(64))), Int(int64(g.r.Intn(64))))
		case 11:
			return Un("-", g.expr(kInt, d+1))
		case 12:
			return Bin([]string{"<<", ">>"}[g.r.Intn(2)], Int(int64(g.r.Intn(200))), Int(int64(g.r.Intn(5))))
		}
		return g.lit(kInt)
	case kBool:
		switch g.r.Intn(9) {
		case 0, 1:
			op := []string{"<", "<=", ">", ">=", "==", "!="}[g.r.Intn(6)]
			kk := []kind{kInt, kInt, kStr, kFloat, kChar}[g.r.Intn(5)]
			return Bin(op, g.expr(kk, d+1), g.expr(kk, d+1))
		case 2:
			return Bin([]string{"==", "!="}[g.r.Intn(2)], g.expr(kAny, d+1), g.expr(kAny, d+1))
		case 3:
			return Un("!", g.expr(kAny, d+1))
		case 4:
			return Bin("&&", g.expr(kBool, d+1), g.expr(kBool, d+1))
		case 5:
			return Bin("||", g.expr(kBool, d+1), g.expr(kBool, d+1))
		case 6:
			fn := []string{"is_int", "is_string", "is_array", "is_map", "is_undefined", "is_error", "is_bool",
				"is_float", "is_char", "is_immutable_array", "is_function", "is_callable", "is_iterable", "is_bytes"}
			return Call(Id(fn[g.r.Intn(len(fn))]), g.expr(kAny, d+1))
		case 7:
			return Bin([]string{"<", ">="}[g.r.Intn(2)], g.expr(kInt, d+1), g.expr(kFloat, d+1))
		}
		return g.lit(kBool)
	case kStr:
		switch g.r.Intn(8) {
		case 0, 1:
			return Bin("+", g.expr(kStr, d+1), g.expr(kStr, d+1))
		case 2:
			return Bin("+", g.expr(kStr, d+1), g.expr([]kind{kInt, kBool, kChar, kFloat}[g.r.Intn(4)], d+1))
		case 3:
			return Call(Id("string"), g.expr([]kind{kInt, kBool, kChar, kFloat}[g.r.Intn(4)], d+1))
		case 4:
			var lo, hi *Node
			if g.p(0.7) {
				lo = Int(int64(g.r.Intn(3)))
			}
			if g.p(0.5) {
				hi = Int(int64(g.r.Intn(4) + 2))
			}
			return Slice(g.expr(kStr, d+1), lo, hi)
		case 5:
			return Call(Id("type_name"), g.expr(kAny, d+1))
		case 6:
			return Cond(g.expr(kBool, d+1), g.expr(kStr, d+1), g.expr(kStr, d+1))
		}
		return g.lit(kStr)
	case kFloat:
		switch g.r.Intn(5) {
		case 0:
			return Bin([]string{"+", "-"}[g.r.Intn(2)], g.expr(kFloat, d+1), g.expr(kFloat, d+1))
		case 1:
			return Bin([]string{"+", "-", "*"}[g.r.Intn(3)], g.expr(kInt, d+1), g.lit(kFloat))
		case 2:
			return Call(Id("float"), g.expr(kInt, d+1))
		case 3:
			return Bin("*", g.lit(kFloat), Float16([]int64{8, 16, 32, 4}[g.r.Intn(4)]))
		}
		return g.lit(kFloat)
	case kChar:
		switch g.r.Intn(4) {
		case 0:
			return Idx(g.expr(kStr, d+1), Int(int64(g.r.Intn(2))))
		case 1:
			return Bin("+", g.lit(kChar), Int(int64(g.r.Intn(3))))
		case 2:
			return Call(Id("char"), Int(int64(97+g.r.Intn(5))))
		}
		return g.lit(kChar)
	case kArr:
		switch g.r.Intn(8) {
		case 0:
			var lo, hi *Node
			if g.p(0.7) {
				lo = Int(int64(g.r.Intn(3)))
			}
			if g.p(0.5) {
				hi = Int(int64(g.r.Intn(4) + 1))
			}
			return Slice(g.expr(kArr, d+1), lo, hi)
		case 1:
			return Call(Id("append"), g.lit(kArr), g.expr(kInt, d+1))
		case 2:
			return Bin("+", g.expr(kArr, d+1), g.expr(kArr, d+1))
		case 3:
			return Call(Id("copy"), g.expr(kArr, d+1))
		case 4:
			return Arr(g.expr(kInt, d+1), g.expr(kInt, d+1))
		case 5:
			return Arr(g.expr(kAny, d+1), g.expr(kInt, d+1), g.expr(kStr, d+1))
		}
		return g.lit(kArr)
	case kMap:
		switch g.r.Intn(4) {
		case 0:
			return Call(Id("copy"), g.expr(kMap, d+1))
		case 1:
			return Map([]string{"a", "n"}, []*Node{g.expr(kInt, d+1), g.expr(kAny, d+1)})
		}
		return g.lit(kMap)
	case kAny:
		if g.p(0.6) {
			return g.expr(kind(g.r.Intn(7)), d+1)
		}
		switch g.r.Intn(6) {
		case 0:
			return Undef()
		case 1:
			return ErrE(g.expr(kStr, d+1))
		case 2:
			return Imm(g.expr(kArr, d+1))
		case 3:
			return Imm(g.expr(kMap, d+1))
		case 4:
			if as := g.varsOf(kArr); len(as) > 0 {
				return Idx(Id(g.pick(as).name), g.expr(kInt, d+1))
			}
		case 5:
			return Call(Id("freeze"), g.expr(kArr, d+1))
		}
		return g.lit(kAny)
	}
	return g.lit(k)
}

func (g *gen) callOf(ret kind, d int) *Node {
	var fs []*gvar
	for _, v := range g.visible() {
		if v.kind == kFn && v.ret == ret {
			fs = append(fs, v)
		}
	}
	if len(fs) == 0 {
		return nil
	}
	f := g.pick(fs)
	n := f.arity
	var args []*Node
	if f.vari {
		n = f.arity - 1 + g.r.Intn(3)
	}
	if g.o.Errors > 0 && g.p(g.o.Errors) {
		n = g.r.Intn(4)
	}
	for i := 0; i < n; i++ {
		args = append(args, g.expr(kInt, d+1))
	}
	if f.vari && g.p(0.3) && len(args) >= f.arity-1 {
		args = append(args[:f.arity-1:f.arity-1], g.expr(kArr, d+1))
		return CallSpread(Id(f.name), args...)
	}
	return Call(Id(f.name), args...)
}

func (g *gen) block(n int) *Node {
	g.push()
	defer g.pop()
	g.depth++
	defer func() { g.depth-- }()
	var st []*Node
	for i := 0; i < n; i++ {
		st = append(st, g.stmt()...)
	}
	return Blk(st...)
}

func (g *gen) newName() string {
	// occasionally shadow an outer variable in an inner block
	if len(g.scopes) > 1 && g.p(0.12) {
		cur := map[string]bool{}
		for _, v := range g.scopes[len(g.scopes)-1] {
			cur[v.name] = true
		}
		var outer []*gvar
		for _, v := range g.visible() {
			if !cur[v.name] && v.kind != kFn {
				outer = append(outer, v)
			}
		}
		if len(outer) > 0 {
			return g.pick(outer).name
		}
	}
	return g.fresh("v")
}

func (g *gen) settable(k kind) []*gvar {
	var out []*gvar
	for _, v := range g.varsOf(k) {
		if !v.noset {
			out = append(out, v)
		}
	}
	return out
}

func (g *gen) funcLit(ret kind) (*Node, *gvar) {
	np := g.r.Intn(3)
	vari := g.p(0.2)
	var params []string
	g.push()
	g.fdepth++
	saveLoops := g.loops
	g.loops = 0
	for i := 0; i < np; i++ {
		nm := g.fresh("p")
		params = append(params, nm)
		g.declare(&gvar{name: nm, kind: kInt})
	}
	if vari {
		nm := g.fresh("rest")
		params = append(params, nm)
		g.declare(&gvar{name: nm, kind: kArr})
	}
	var st []*Node
	g.push()
	g.depth++
	for i, n := 0, g.r.Intn(3); i < n; i++ {
		st = append(st, g.stmt()...)
	}
	if g.p(0.3) {
		st = append(st, If(nil, g.expr(kBool, 1), Blk(Ret(g.expr(ret, 1))), nil))
	}
	if g.p(0.9) {
		st = append(st, Ret(g.expr(ret, 1)))
	}
	g.depth--
	g.pop()
	g.loops = saveLoops
	g.fdepth--
	g.pop()
	ar := np
	if vari {
		ar++
	}
	return Fn(params, vari, st...), &gvar{kind: kFn, arity: ar, vari: vari, ret: ret, noset: true}
}

func (g *gen) stmt() []*Node {
	g.fuel -= 2
	if g.fuel < 0 || g.depth > 3 {
		return []*Node{Def(g.fresh("v"), g.lit(kInt))}
	}
	switch c := g.r.Intn(24); {
	case c < 5: // definition
		k := kind(g.r.Intn(7))
		if g.p(0.1) {
			k = kAny
		}
		e := g.expr(k, 0)
		nm := g.newName()
		g.declare(&gvar{name: nm, kind: k})
		return []*Node{Def(nm, e)}
	case c < 8: // assignment
		k := []kind{kInt, kInt, kStr, kBool, kFloat, kArr, kMap}[g.r.Intn(7)]
		if vs := g.settable(k); len(vs) > 0 {
			v := g.pick(vs)
			if k == kInt && g.p(0.5) {
				if g.p(0.4) {
					return []*Node{IncDec(v.name, nil, []string{"++", "--"}[g.r.Intn(2)])}
				}
				return []*Node{Set(v.name, nil, []string{"+=", "-=", "*=", "%=", "|=", "&="}[g.r.Intn(6)], Int(int64(1+g.r.Intn(5))))}
			}
			if k == kStr && g.p(0.4) {
				return []*Node{Set(v.name, nil, "+=", g.expr(kStr, 1))}
			}
			return []*Node{Set(v.name, nil, "=", g.expr(k, 0))}
		}
	case c < 10: // element assignment
		if g.p(0.5) {
			if vs := g.varsOf(kArr); len(vs) > 0 {
				v := g.pick(vs)
				if g.p(0.3) {
					return []*Node{Set(v.name, []*Node{Int(int64(g.r.Intn(2)))}, "+=", g.expr(kInt, 1))}
				}
				return []*Node{Set(v.name, []*Node{Int(int64(g.r.Intn(3)))}, "=", g.expr(kInt, 1))}
			}
		}
		if vs := g.varsOf(kMap); len(vs) > 0 {
			v := g.pick(vs)
			key := keyPool[g.r.Intn(len(keyPool))]
			if g.p(0.5) {
				return []*Node{Set(v.name, []*Node{DotKey(key)}, "=", g.expr(kInt, 1))}
			}
			return []*Node{Set(v.name, []*Node{Str(key)}, "=", g.expr(kInt, 1))}
		}
	case c < 12: // if
		var init *Node
		g.push()
		if g.p(0.2) {
			nm := g.fresh("t")
			init = Def(nm, g.expr(kInt, 1))
			g.declare(&gvar{name: nm, kind: kInt})
		}
		cond := g.expr(kBool, 0)
		a := g.block(1 + g.r.Intn(2))
		var b *Node
		if g.p(0.5) {
			b = g.block(1 + g.r.Intn(2))
		}
		g.pop()
		return []*Node{If(init, cond, a, b)}
	case c < 14: // counted for
		if g.loops >= 2 {
			break
		}
		g.push()
		i := g.fresh("i")
		g.declare(&gvar{name: i, kind: kInt, noset: true})
		g.loops++
		body := g.block(1 + g.r.Intn(2))
		if g.p(0.25) {
			body.List = append([]*Node{If(nil, Bin("==", Id(i), Int(int64(g.r.Intn(3)))), Blk([]*Node{Brk(), Cont()}[g.r.Intn(2)]), nil)}, body.List...)
		}
		g.loops--
		g.pop()
		return []*Node{For(Def(i, Int(0)), Bin("<", Id(i), Int(int64(1+g.r.Intn(3)))), IncDec(i, nil, "++"), body)}
	case c < 16: // for-in
		if g.loops >= 2 {
			break
		}
		g.push()
		k := []kind{kArr, kArr, kMap, kStr}[g.r.Intn(4)]
		it := g.expr(k, 1)
		kn, vn := "", g.fresh("e")
		vk := kInt
		if k == kStr {
			vk = kChar
		}
		if g.p(0.5) {
			kn = g.fresh("k")
			kk := kInt
			if k == kMap {
				kk = kStr
			}
			g.declare(&gvar{name: kn, kind: kk, noset: true})
		}
		if k == kArr {
			vk = kAny
		}
		g.declare(&gvar{name: vn, kind: vk, noset: true})
		g.loops++
		body := g.block(1 + g.r.Intn(2))
		g.loops--
		g.pop()
		return []*Node{ForIn(kn, vn, it, body)}
	case c < 18: // function definition
		if !g.o.Closures || g.fdepth >= 2 || (g.o.NoLoopClosures && g.loops > 0) {
			break
		}
		ret := []kind{kInt, kInt, kStr, kBool, kArr}[g.r.Intn(5)]
		nm := g.fresh("f")
		fn, info := g.funcLit(ret)
		info.name = nm
		g.declare(info)
		return []*Node{Def(nm, fn)}
	case c < 19: // accumulator
		nm := g.fresh("acc")
		g.declare(&gvar{name: nm, kind: kArr, accum: true})
		st := []*Node{Def(nm, Arr())}
		n := 1 + g.r.Intn(3)
		for i := 0; i < n; i++ {
			st = append(st, Set(nm, nil, "=", Call(Id("append"), Id(nm), g.expr(kInt, 1))))
		}
		st = append(st, Def(g.fresh("v"), Call(Id("len"), Id(nm))))
		return st
	case c < 20: // expression statement
		if g.p(0.5) {
			return []*Node{ExprS(g.expr(kind(g.r.Intn(7)), 0))}
		}
		if cl := g.callOf([]kind{kInt, kStr, kBool, kArr}[g.r.Intn(4)], 0); cl != nil {
			return []*Node{ExprS(cl)}
		}
	case c < 21: // delete
		if vs := g.varsOf(kMap); len(vs) > 0 {
			return []*Node{ExprS(Call(Id("delete"), Id(g.pick(vs).name), Str(keyPool[g.r.Intn(len(keyPool))])))}
		}
	case c < 22: // counter closure factory
		if !g.o.Closures || g.fdepth >= 1 || (g.o.NoLoopClosures && g.loops > 0) {
			break
		}
		mk, c1, r1, r2 := g.fresh("mk"), g.fresh("c"), g.fresh("v"), g.fresh("v")
		cnt := g.fresh("n")
		g.declare(&gvar{name: r1, kind: kInt})
		g.declare(&gvar{name: r2, kind: kInt})
		return []*Node{
			Def(mk, Fn([]string{cnt}, false, Ret(Fn(nil, false, Set(cnt, nil, "+=", Int(int64(1+g.r.Intn(3)))), Ret(Id(cnt)))))),
			Def(c1, Call(Id(mk), g.intLit())),
			Def(r1, Call(Id(c1))), Def(r2, Bin("+", Call(Id(c1)), Call(Call(Id(mk), Int(10))))),
		}
	case c < 23: // guarded recursion
		if !g.o.Closures || g.fdepth >= 1 || (g.o.NoLoopClosures && g.loops > 0) {
			break
		}
		f, n, r := g.fresh("rec"), g.fresh("n"), g.fresh("v")
		g.declare(&gvar{name: r, kind: kInt})
		step := Bin("+", Id(n), Call(Id(f), Bin("-", Id(n), Int(1))))
		if g.p(0.4) {
			step = Call(Id(f), Bin("-", Id(n), Int(1)))
		}
		return []*Node{
			Def(f, Fn([]string{n}, false, If(nil, Bin("<=", Id(n), Int(0)), Blk(Ret(g.intLit())), nil), Ret(step))),
			Def(r, Call(Id(f), Int(int64(g.r.Intn(6))))),
		}
	}
	if g.loops > 0 && g.p(0.1) {
		return []*Node{If(nil, g.expr(kBool, 1), Blk([]*Node{Brk(), Cont()}[g.r.Intn(2)]), nil)}
	}
	if g.fdepth > 0 && g.p(0.1) {
		return []*Node{If(nil, g.expr(kBool, 1), Blk(Ret(g.expr(kInt, 1))), nil)}
	}
	k := kind(g.r.Intn(7))
	nm := g.fresh("v")
	e := g.expr(k, 0)
	g.declare(&gvar{name: nm, kind: k})
	return []*Node{Def(nm, e)}
}

func inputValue(r *rand.Rand, k kind) interface{} {
	switch k {
	case kInt:
		return V{"k": "int", "n": r.Intn(9) - 2}
	case kBool:
		return V{"k": "bool", "b": r.Intn(2) == 0}
	case kStr:
		return V{"k": "string", "b": bytesV([]byte(strPool[r.Intn(len(strPool))]))}
	case kFloat:
		return V{"k": "float", "q": r.Intn(64) - 8}
	case kChar:
		return V{"k": "char", "c": 97 + r.Intn(5)}
	case kArr:
		n := r.Intn(4)
		el := make([]interface{}, 0)
		for i := 0; i < n; i++ {
			el = append(el, V{"k": "int", "n": r.Intn(9)})
		}
		return V{"k": "array", "imm": r.Intn(5) == 0, "e": el}
	case kMap:
		n := r.Intn(3)
		kv := make([]interface{}, 0)
		for i := 0; i < n; i++ {
			kv = append(kv, []interface{}{bytesV([]byte(keyPool[i])), V{"k": "int", "n": r.Intn(9)}})
		}
		return V{"k": "map", "imm": r.Intn(5) == 0, "kv": kv}
	}
	return V{"k": "undef"}
}

func randomProgram(r *rand.Rand, o genOpts) *Program {
	g := &gen{r: r, o: o, fuel: 60 + r.Intn(120)}
	g.push()
	p := &Program{}
	if o.Inputs && g.p(0.5) {
		n := 1 + r.Intn(3)
		for i := 0; i < n; i++ {
			k := kind(r.Intn(7))
			nm := fmt.Sprintf("in%d", i)
			p.Inputs = append(p.Inputs, Input{Name: nm, V: inputValue(r, k)})
			g.declare(&gvar{name: nm, kind: k})
		}
	}
	n := 3 + r.Intn(o.MaxStmts)
	for i := 0; i < n; i++ {
		p.Stmts = append(p.Stmts, g.stmt()...)
	}
	return p
}

func init() {
	families["random"] = func(seed int64, n int) []*Program {
		r := rand.New(rand.NewSource(seed))
		var ps []*Program
		for i := 0; i < n; i++ {
			ps = append(ps, randomProgram(r, genOpts{Inputs: true, Errors: 0.01, MaxStmts: 8, Closures: true}))
		}
		return ps
	}
	// the same programs printed with only the parentheses the documented precedence requires
	families["random-minparens"] = func(seed int64, n int) []*Program {
		r := rand.New(rand.NewSource(seed))
		var ps []*Program
		for i := 0; i < n; i++ {
			p := randomProgram(r, genOpts{Inputs: true, Errors: 0.005, MaxStmts: 8, Closures: true})
			p.MinParens = true
			ps = append(ps, p)
		}
		return ps
	}
	families["random-clean"] = func(seed int64, n int) []*Program {
		r := rand.New(rand.NewSource(seed))
		var ps []*Program
		for i := 0; i < n; i++ {
			ps = append(ps, randomProgram(r, genOpts{Inputs: true, Errors: 0, MaxStmts: 10, Closures: true}))
		}
		return ps
	}
}
