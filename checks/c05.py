"""C05 No script can take the host down through the context-aware run path.

E: TengoSem / TengoValues give every run-time error branch of the language a name; the random-hostile
   family (ill-typed operands injected with probability 0.2-0.6) is evaluated by TLC and the real
   outcome must be one the model allows - so "fails with an error" is predicted, not just observed -
   and the evidence lists which error branches were reached.  ScriptAPI.tla (C15) covers the state of
   a Compiled object after a failed run (partial effect, lock free).
R: the hostile family (runaway recursion, operand-stack exhaustion, containers mutated while
   iterated, cyclic containers through every traversal, builtins with extreme arguments, host
   functions that fail or panic) through Compiled.RunContext in child processes: the call must return
   nil or an error - a Go panic escaping, a fatal runtime error killing the process or a hang is the
   violation - and afterwards GetAll / Get(+Value, String) / Set / RunContext / Clone+RunContext on
   the same object must all return.
"""
import json

import semcmp
import semlib
import vlib


def run(ck):
    quick = ck.quick()
    host = semlib.generate(ck, "hostile", 1)
    rnd = semlib.generate(ck, "random-hostile", 400 if quick else 15000)
    progs = []
    for p in host + rnd:
        p["id"] = len(progs) + 1
        progs.append(p)
    # terminating hostile cells also go through the other context-aware entry points (Script.RunContext, a context that can never
    # be cancelled), and "repairable" failures are followed by a Set of a good input and a run that must then succeed
    npath = 0
    for p in list(progs):
        if p.get("raw") and "runaway" not in p.get("cell", "") and "for {" not in p["src"] and "cyclic" not in p.get("cell", ""):
            for path in ("compiled-bg", "script-bg", "script-timeout"):
                if npath % 3 == ["compiled-bg", "script-bg", "script-timeout"].index(path) or not quick:
                    q = dict(p)
                    q["id"] = len(progs) + 1
                    q["path"] = path
                    q["cell"] = p.get("cell", "") + "@" + path
                    progs.append(q)
            npath += 1
    # every hand-written cell - the runaway ones included - is also entered with a context that is already done: the call must return
    for p in list(progs):
        if p.get("raw") and "@" not in p.get("cell", "") and "cyclic" not in p.get("cell", "") and (not quick or p["id"] % 2 == 0 or "runaway" in p.get("cell", "")):
            q = dict(p)
            q["id"] = len(progs) + 1
            q["path"] = "compiled-cancelled"
            q["cell"] = p.get("cell", "") + "@compiled-cancelled"
            progs.append(q)
    I = lambda n: {"k": "int", "n": n}
    Sv = lambda t: {"k": "string", "b": [ord(c) for c in t]}
    A = lambda *e: {"k": "array", "imm": False, "e": list(e)}
    repairable = [
        ("r := 10 / d", "d", I(0), I(2)), ("r := 10 % d", "d", I(0), I(3)), ("r := d + 1", "d", Sv("x") and A(), I(1)), ("r := d.a.b.c()", "d", I(1), {"k": "map", "imm": False, "kv": [[[97], {"k": "map", "imm": False, "kv": [[[98], {"k": "map", "imm": False, "kv": [[[99], {"k": "hostfn", "name": "hostid"}]]}]]}]]}),
        ("f := func(n) { if n <= 0 { return 0 }; return 1 + f(n - 1) }\nr := f(d)", "d", I(5000), I(10)),
        ("r := d[0][0]\nd[5] = 1", "d", A(A(I(1))), A(A(I(1)), I(2), I(3), I(4), I(5), I(6))),
        ("a := [1, 2, 3]\nr := a[d:]", "d", Sv("x"), I(1)), ("r := bytes(d)", "d", I(-1), I(3)),
        ("for x in d { r := x }\nr2 := 1", "d", I(7), A(I(1))), ("r := boom(d)", "d", I(1), I(2)),
    ]
    for (src, name, badv, goodv) in repairable:
        inputs = [[name, badv]]
        repair = [[name, goodv]]
        if "boom" in src:
            inputs.append(["boom", {"k": "hostfn", "name": "hostpanic"}])
            repair = [["boom", {"k": "hostfn", "name": "hostid"}]]
        progs.append({"id": len(progs) + 1, "src": src + "\n", "inputs": inputs, "mods": [], "raw": True, "cell": "repair:" + src.split("\n")[0][:30], "repair": repair})
    cases = [{"id": p["id"], "src": p["src"], "inputs": p.get("inputs", []), "mods": p.get("mods", []), "timeout_ms": 3000,
              "path": p.get("path", ""), "repair": p.get("repair", [])} for p in progs]
    res = vlib.run_cases(ck, "hostile", cases, nproc=10, timeout=1800)
    modelled = [p for p in progs if not p.get("raw")]
    outs = semlib.tlc_outcomes(ck, modelled, njobs=12)
    kinds = {}
    for p in progs:
        o = res[p["id"]]
        ck.evaluations += 1
        cell = p.get("cell", "random")
        rep = {"program": {"src": p["src"][:4000], "cell": cell, "inputs": p.get("inputs", [])}, "real": o}
        if (o.get("died") or o.get("hang")) and not p.get("raw") and ('"cycle"' in json.dumps(outs.get(p["id"])) or (o.get("note") or {}).get("cyclic_globals")):
            # a random program that builds a container containing itself (TengoSem meets the cycle, or the driver found one among the globals
            # after the run and said so before the follow-up calls traversed it): the recorded defect of the
            # cyclic-* cells, reached by a generated program; death and "still recursing at the deadline" are the same failure
            ck.violation("fatal:cyclic-random", "a random program builds a self-containing container and its traversal takes the host down\n%s" % p["src"][:600], rep)
            continue
        if (o.get("died") or o.get("hang")) and cell.startswith("cyclic-random-shape"):
            ck.violation("fatal:cyclic-random", "a self-containing container in a block variable, traversed by the host's calls after the run\n%s" % p["src"][:300], rep)
            continue
        if o.get("died"):
            ck.violation("fatal:" + cell, "a script killed the host process (fatal Go error, not recoverable): %s\n%s\n%s" % (
                cell, p["src"][:400], (o.get("stderr") or "")[:300]), rep)
            continue
        if o.get("hang") and cell.startswith("cyclic-"):
            # traversal of a self-containing value recurses without bound: the goroutine stack grows to Go's 1 GB limit and the process
            # dies - or, on a loaded machine, is still growing when the 30 s deadline expires.  Both are the same failure of the
            # same cell and are reported under the same key (otherwise the verdict would depend on the machine's load).
            ck.violation("fatal:" + cell, "a script takes the host down (unbounded recursion, still running at the 30 s deadline): %s\n%s" % (cell, p["src"][:400]), rep)
            continue
        if o.get("hang"):
            ck.violation("hang:" + cell.split(":")[0], "RunContext (3 s context) or a follow-up call did not return within 30 s: %s\n%s" % (cell, p["src"][:400]), rep)
            continue
        if o.get("panic"):
            ck.violation("panic:" + cell.split(":")[0], "a Go panic reached the embedding program: %s\n%s" % (o["panic"][:200], p["src"][:400]), rep)
            continue
        if o.get("error"):
            raise vlib.Infra("hostile driver: %s" % o["error"])
        if p.get("repair"):
            first, again = o.get("outcome") or {}, o.get("repaired_outcome") or {}
            if first.get("k") != "runtime_error":
                raise vlib.Infra("repair cell %s does not fail in the first place: %s" % (cell, first))
            if again.get("k") != "ok":
                ck.violation("unusable-after-failure:" + cell.split(":")[1][:20], "after a failed run (%s) and a Set of a good input the same object still fails: %s\n%s" % (
                    first.get("kind"), str(again.get("msg") or again)[:200], p["src"]), rep)
                continue
        bad = []
        for step in ("compile", "run", "getall", "getall_use", "set", "set_unknown", "rerun", "clone", "clone_run", "encode_globals", "repair_set", "repaired_run"):
            v = o.get(step)
            if isinstance(v, str) and v.startswith("panic:"):
                bad.append((step, v))
        for n, v in (o.get("reads") or {}).items():
            if v.startswith("panic:"):
                bad.append(("read " + n, v))
        if bad:
            ck.violation("escaped-panic:%s:%s" % (bad[0][0].split(" ")[0], cell.split(":")[0]),
                         "%s panicked in the embedding program (%s): %s\n%s" % (bad[0][0], cell, bad[0][1][:200], p["src"][:500]), rep)
            continue
        oc = o.get("outcome") or {}
        if oc.get("k") == "runtime_error":
            kinds[oc["kind"]] = kinds.get(oc["kind"], 0) + 1
        if not p.get("raw") and oc.get("k") in ("ok", "runtime_error"):
            v, det = semcmp.compare(outs[p["id"]], oc)
            if v == "disagree":
                ck.violation("sem", "hostile random program disagrees with TengoSem: expected %s got %s\n%s" % (det["expected"], det["got"], p["src"]),
                             {"program": p, "model": outs[p["id"]], "real": oc})
                continue
        ck.traces += 1
        ck.note_distinct(p["src"][:2000])
        if len(ck.samples) < 3 and p.get("raw") and oc.get("k") == "runtime_error":
            ck.add_sample({"cell": cell, "src": p["src"][:300], "returned": oc.get("msg", "")[:160]})
    ck.extra["error_branches_reached"] = kinds
    ck.extra["hostile_cells"] = len(host)
    ck.rule = ("hand-enumerated hostile cells (each attack x each traversal/builtin) + random programs with injected type errors; non-trivial = "
               "distinct sources whose run and all follow-up calls returned")
    ck.assumptions = ["fatal Go errors are observed as the death of the child process that announced the case", "3 s context per run, 30 s deadline per case"]


def replay(ck, path):
    rep = json.load(open(path))["replay"]
    p = rep["program"]
    c = {"id": 1, "src": p["src"], "inputs": p.get("inputs", []), "mods": [], "timeout_ms": 3000}
    print(json.dumps(vlib.run_cases(ck, "hostile", [c], nproc=1)[1], indent=1)[:3000])
    return 0
