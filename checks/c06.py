"""C06 Configured resource limits are honoured by every program.

E: AllocTrace.tla - the VM's allocation accounting (counter starts at N + 1, tracked sites, decrement
   after success, stop at zero) replayed by TLC over the per-instruction trace of every real run:
   the counter before each instruction must follow the rule, a run with budget N makes at most N
   tracked allocations or ends with the limit error after exactly N + 1 attempts.  TengoSem with
   MaxStringLen = MaxBytesLen = L (small) predicts every string/bytes-producing operation across the
   boundary L-1, L, L+1.
R: programs run under budgets 0..K, around their own allocation count A (A-1, A, A+1) and unlimited,
   with the probe recording the counter; monotonicity (raising N never turns success into failure nor
   changes the result) is checked on the real outcomes.  The limits family runs with the real maxima
   set to L inside the child process and every value reachable from the globals is measured.  Deep
   non-tail recursion with 0-3 pending operands must end in the stack-overflow error or, when the
   operand stack runs out first, in a recovered bounds error.
"""
import json

import semcmp
import semlib
import vlib

CFG = "SPECIFICATION Spec\nINVARIANT BudgetRespected\n"
L = 8


def measure(v, out):
    """collect (kind, length) of every string/bytes value inside an encoded value"""
    if isinstance(v, dict):
        if v.get("k") in ("string", "bytes"):
            out.append((v["k"], len(v.get("b", []))))
        for x in v.values():
            measure(x, out)
    elif isinstance(v, list):
        for x in v:
            measure(x, out)


def run(ck):
    quick = ck.quick()
    # ---- (a) allocation budgets
    n = 120 if quick else 2500
    progs = []
    for fam, k in (("random", n), ("dce", n // 3), ("m-closure", 60 if quick else 0), ("smoke", 0), ("tailcalls", 0), ("immut", n // 3)):
        ps = semlib.generate(ck, fam, k)
        if fam == "tailcalls":
            ps = [p for p in ps if p["depth"] in (3, 7)][:: (6 if quick else 1)]
        for p in ps:
            p["id"] = len(progs) + 1
            progs.append(p)
    # calls of host functions, with and without a result (a callable may return nil, which the VM turns into undefined):
    # every call of a native function is a tracked allocation site
    hostid = [["h", {"k": "hostfn", "name": "hostid"}]]
    for src in ("a := h()\nb := h()\nc := h()\nd := h()\n", "a := h(1)\nb := h()\nc := h([1])\nd := h()\n",
                "f := func(n) { if n == 0 { return h() }; h(); return f(n - 1) }\nr := f(4)\n",
                "s := 0\nfor i := 0; i < 5; i++ { h(); s += i }\n", "m := {k: h}\nm.k()\nx := m.k(2)\nm.k()\n"):
        progs.append({"id": len(progs) + 1, "src": src, "inputs": hostid, "mods": [], "family": "hostnil"})
    byid = {p["id"]: p for p in progs}
    base = [{"id": p["id"], "src": p["src"], "inputs": p.get("inputs", []), "mods": p.get("mods", []), "budget": -1} for p in progs]
    r0 = vlib.run_cases(ck, "alloctrace", base, nproc=8)
    cases = []
    meta = {}
    for p in progs:
        o = r0[p["id"]]
        if "ev" not in o or o.get("over") or o["end"] == "timeout":
            continue
        A = -o["al_end"] if o.get("al_end") is not None else None
        meta[p["id"]] = {"A": A, "unlimited": o}
        budgets = {0, 1, 2, 3, 5}
        if A is not None and o["end"] == "ok":
            budgets |= {max(A - 2, 0), max(A - 1, 0), A, A + 1, A + 7}
        for b in sorted(budgets):
            cid = len(cases) + 1
            # every third case runs a Clone() of the compiled script: the clone carries the budget of the script it came from
            cases.append({"id": cid, "pid": p["id"], "src": p["src"], "inputs": p.get("inputs", []), "mods": p.get("mods", []), "budget": b, "clone": cid % 3 == 0})
    r1 = vlib.run_cases(ck, "alloctrace", cases, nproc=8)
    # one VM object run three times: every run has the whole budget (programs without inputs, so that the runs are independent)
    reuse = []
    for p in progs:
        m = meta.get(p["id"])
        if m and m["A"] is not None and m["unlimited"]["end"] == "ok" and not p.get("inputs") and len(reuse) < (150 if quick else 3000):
            for b in (m["A"], m["A"] + 1, max(m["A"] - 1, 0)):
                reuse.append({"id": len(reuse) + 1, "pid": p["id"], "src": p["src"], "inputs": [], "mods": p.get("mods", []), "budget": b, "runs": 3, "A": m["A"]})
    rr = vlib.run_cases(ck, "vmreuse", reuse, nproc=8)
    for c in reuse:
        o = rr[c["id"]]
        ck.evaluations += 1
        want = "ok" if c["budget"] >= c["A"] else "alloc_limit"
        ends = o.get("ends")
        if ends is None:
            continue
        if any(e != want for e in ends):
            ck.violation("budget-per-run", "a VM with budget %d (the program makes %d tracked allocations) run %d times ended with %s; every run should end with %s\n%s" % (
                c["budget"], c["A"], c["runs"], ends, want, c["src"]), {"program": {"src": c["src"]}, "budget": c["budget"], "A": c["A"], "ends": ends})
        else:
            ck.traces += 1
    ck.extra["vm_reuse_cases"] = len(reuse)
    traces = []
    for p in progs:
        if p["id"] in meta:
            o = meta[p["id"]]["unlimited"]
            traces.append({"id": "u%d" % p["id"], "budget": -1, "ev": o["ev"], "end": o["end"], "has_end": o.get("al_end") is not None,
                           "al_end": o.get("al_end") or 0})
    for c in cases:
        o = r1[c["id"]]
        if "ev" not in o or o.get("over") or o["end"] == "timeout":
            continue
        traces.append({"id": "b%d" % c["id"], "budget": c["budget"], "ev": o["ev"], "end": o["end"], "has_end": o.get("al_end") is not None,
                       "al_end": o.get("al_end") or 0})
    traces = [t for t in traces if t["ev"]]
    njobs = 12
    batches = [traces[i::njobs] for i in range(njobs) if traces[i::njobs]]

    def job(ib):
        i, b = ib
        return ck.tlc("AllocTrace", CFG, files={"alloctraces.ndjson": vlib.ndjson(b)}, workers=1, name="alloc%d" % i, timeout=1800, xmx="3g")
    caseby = {"b%d" % c["id"]: c for c in cases}
    judged = 0
    for r in vlib.parallel(job, list(enumerate(batches)), nproc=len(batches)):
        if r.violated:
            ck.violation("alloc-invariant", "BudgetRespected violated on a recorded run", {"tlc": r.stdout[-2000:]})
        for v in r.tagged("ALLOC"):
            judged += 1
            if not v["verdict"]["ok"]:
                tid = v["id"]
                p = byid[caseby[tid]["pid"]] if tid in caseby else byid[int(tid[1:])]
                ck.violation("alloc:" + v["verdict"]["why"], "allocation accounting (budget %d): %s at instruction %d of the trace\n%s" % (
                    v["budget"], v["verdict"]["why"], v["verdict"]["at"], p["src"]), {"program": p, "budget": v["budget"], "verdict": v})
            else:
                ck.traces += 1
    if judged != len(traces):
        raise vlib.Infra("AllocTrace judged %d of %d traces" % (judged, len(traces)))
    ck.extra["alloc_traces"] = len(traces)
    # monotonicity on the real outcomes
    per = {}
    for c in cases:
        o = r1[c["id"]]
        if "end" in o:
            # (a Clone() copies the inputs with Copy(), which makes immutable containers mutable: a program with such an input is another
            #  program in the clone - its counter trace is validated against the rule above, its result is not compared with the original's)
            if c.get("clone") and '"imm": true' in json.dumps(c.get("inputs", [])):
                continue
            per.setdefault(c["pid"], []).append((c["budget"], o))
    mono = 0
    for pid, lst in per.items():
        lst.sort(key=lambda x: x[0])
        un = meta[pid]["unlimited"]
        first_ok = None
        for b, o in lst:
            if o["end"] == "ok":
                if first_ok is None:
                    first_ok = b
                if un["end"] == "ok" and semcmp.canon_globals(o["g"]) != semcmp.canon_globals(un["g"]) and not order_dependent(byid[pid]):
                    ck.violation("budget-changes-result", "the result under budget %d differs from the unlimited run\n%s" % (b, byid[pid]["src"]),
                                 {"program": byid[pid], "budget": b})
            elif first_ok is not None and o["end"] == "alloc_limit":
                ck.violation("budget-not-monotone", "success under budget %d but allocation-limit error under the larger budget %d\n%s" % (
                    first_ok, b, byid[pid]["src"]), {"program": byid[pid], "budgets": [first_ok, b]})
            A = meta[pid]["A"]
            if A is not None and un["end"] == "ok" and not order_dependent(byid[pid]):
                want = "ok" if b >= A else "alloc_limit"
                if o["end"] != want:
                    ck.violation("budget-threshold", "program makes %d tracked allocations; under budget %d it ended with %s\n%s" % (
                        A, b, o["end"], byid[pid]["src"]), {"program": byid[pid], "budget": b, "A": A})
        mono += 1
    ck.extra["programs_budget_sweep"] = mono
    # ---- (b) string / bytes limits
    lim = semlib.generate(ck, "limits", L)
    for i, p in enumerate(lim):
        p["id"] = i + 1
    # the two maxima are independent settings: the family runs with equal limits and with the bytes limit below / above the string limit
    configs = [(L, L), (L, L - 3), (L, L + 3)]
    runs = []
    for (ms, mb) in configs:
        o_ = semlib.tlc_outcomes(ck, lim, njobs=6, maxstr=ms, maxbytes=mb, tag="lim%d_%d" % (ms, mb))
        r_ = semlib.real_outcomes(ck, lim, nproc=4, extra={"max_str": ms, "max_bytes": mb})
        runs.append((ms, mb, o_, r_))
    for (ms, mb, outs, real) in runs:
      for p in lim:
        o = real[p["id"]]
        ck.evaluations += 1
        v, det = semcmp.compare(outs[p["id"]], o)
        if (ms, mb) != (L, L):
            if v == "disagree":
                ck.violation("limit-sem:" + p["cell"].split(" ")[0] + ":unequal-limits", "limits program (MaxStringLen=%d, MaxBytesLen=%d, %s) disagrees with TengoSem: expected %s got %s\n%s" % (
                    ms, mb, p["cell"], det["expected"], det["got"], p["src"]), {"program": p, "model": outs[p["id"]], "real": o, "maxstr": ms, "maxbytes": mb})
            elif v == "agree":
                ck.traces += 1
            continue
        if v == "disagree":
            ck.violation("limit-sem:" + p["cell"].split(" ")[0], "limits program (L=%d, %s) disagrees with TengoSem: expected %s got %s\n%s" % (
                L, p["cell"], det["expected"], det["got"], p["src"]), {"program": p, "model": outs[p["id"]], "real": o})
            continue
        if v == "host_down":
            ck.violation("limit-host-down", "run did not return: %s\n%s" % (o, p["src"]), {"program": p})
            continue
        sizes = []
        measure(o.get("g", []), sizes)
        too = [(k, n) for k, n in sizes if n > L]
        if too:
            ck.violation("limit-exceeded:" + p["cell"].split(" ")[0], "a %s of length %d exists although the maximum is %d (%s)\n%s" % (
                too[0][0], too[0][1], L, p["cell"], p["src"]), {"program": p, "real": o})
            continue
        ck.traces += 1
        ck.note_distinct(p["cell"])
    ck.extra["limit_cells"] = len(lim)
    # ---- (c) recursion deeper than the frame / operand-stack capacity
    rec = []
    for pend in range(0, 4):
        for depth in (1000, 1030, 2500):
            operands = "".join("%d + (" % (k + 1) for k in range(pend))
            src = "f := func(n) { if n == 0 { return 0 }; return %sf(n - 1)%s }\nr := f(%d)\n" % (operands, ")" * pend, depth)
            if pend == 0:
                src = "f := func(n) { if n == 0 { return 0 }; x := f(n - 1); return x }\nr := f(%d)\n" % depth
            rec.append({"id": len(rec) + 1, "src": src, "inputs": [], "mods": [], "pend": pend, "depth": depth})
    # one slot per frame: the frame limit (1024) is what runs out, so the error must be the stack-overflow error
    for depth in (1000, 1022, 1023, 1024, 1030, 5000):
        src = "n := 0\nf := func() { n += 1; if n > %d { return 0 }; return f() + 0 }\nr := f()\n" % depth
        rec.append({"id": len(rec) + 1, "src": src, "inputs": [], "mods": [], "pend": -1, "depth": depth})
    # frames pushed by calls that are not self calls: mutual recursion, one slot per frame
    for depth in (1000, 1030, 3000):
        src = ("n := 0\ng := undefined\nf := func() { n += 1; if n > %d { return 0 }; return g() + 0 }\n"
               "g = func() { n += 1; if n > %d { return 0 }; return f() + 0 }\nr := f()\n" % (depth, depth))
        rec.append({"id": len(rec) + 1, "src": src, "inputs": [], "mods": [], "pend": -1, "depth": depth})
        src3 = ("n := 0\ng := undefined\nh := undefined\nf := func() { n += 1; if n > %d { return 0 }; return g() + 0 }\n"
                "g = func() { n += 1; if n > %d { return 0 }; return h() + 0 }\nh = func() { n += 1; if n > %d { return 0 }; return f() + 0 }\nr := f()\n" % (depth, depth, depth))
        rec.append({"id": len(rec) + 1, "src": src3, "inputs": [], "mods": [], "pend": -1, "depth": depth})
        srcv = "n := 0\nf := func(...a) { n += 1; if n > %d { return 0 }; return f(a...) + 0 }\nr := f()\n" % depth
        rec.append({"id": len(rec) + 1, "src": srcv, "inputs": [], "mods": [], "pend": -1, "depth": depth})
    # the other limit errors raised deep inside recursion (allocation budget, string length): the error handed back is still the limit
    # error for the host (errors.Is), whatever the depth of the trace attached to it
    for depth in (5, 31, 32, 33, 40, 200, 900):
        rec.append({"id": len(rec) + 1, "src": "f := func(n) { if n == 0 { return [1, 2, 3] }; return f(n - 1) + [n] }\nr := f(%d)\n" % depth, "inputs": [], "mods": [],
                    "pend": -2, "depth": depth, "max_allocs": 2, "want": "alloc_limit"})
        rec.append({"id": len(rec) + 1, "src": "s := \"0123456789012345678901234567890123456789\"\nf := func(n) { if n == 0 { return s + s + s }; return f(n - 1) + \"x\" }\nr := f(%d)\n" % depth,
                    "inputs": [], "mods": [], "pend": -2, "depth": depth, "max_str": 100, "want": "string_limit"})
    rr = vlib.run_cases(ck, "deep", rec, nproc=6)
    for c in rec:
        o = rr[c["id"]]
        ck.evaluations += 1
        if o.get("hang") or o.get("died") or o.get("panic"):
            ck.violation("recursion-host-down", "deep recursion did not return an error value\n" + c["src"], {"case": c, "real": o})
            continue
        out = o["outcome"]
        bad_sent = [k for k, v in (out.get("sentinels") or {}).items() if v["text"] != v["is"]]
        if bad_sent:
            ck.violation("limit-error-unrecognisable:" + bad_sent[0], "the error text names %s but errors.Is does not recognise it (or vice versa), recursion depth %d: %s\n%s" % (
                bad_sent[0], c["depth"], str(out.get("msg"))[:160], c["src"]), {"case": c, "real": o})
            continue
        if c["pend"] == -2:
            if out.get("kind") != c["want"]:
                ck.violation("limit-in-recursion:" + c["want"], "expected the %s error at recursion depth %d, got %s\n%s" % (c["want"], c["depth"], json.dumps(out)[:200], c["src"]), {"case": c, "real": o})
            else:
                ck.traces += 1
            continue
        if c["pend"] == -1:
            # frames needed: main + depth + 1 calls
            want_ok = c["depth"] + 2 <= 1024
            if want_ok != (out["k"] == "ok") or (not want_ok and out.get("kind") != "stack_overflow"):
                ck.violation("frame-limit", "one-slot-per-frame recursion of depth %d: expected %s, got %s\n%s" % (
                    c["depth"], "success" if want_ok else "the stack-overflow error", json.dumps(out)[:200], c["src"]), {"case": c, "real": o})
                continue
            ck.traces += 1
            continue
        frames_needed = c["depth"] + 2
        if out["k"] == "ok":
            if frames_needed > 1024:
                ck.violation("recursion-unbounded", "recursion of depth %d completed although only 1024 frames exist\n%s" % (c["depth"], c["src"]), {"case": c, "real": o})
                continue
        elif out["kind"] not in ("stack_overflow", "go_index_panic"):
            ck.violation("recursion-error", "deep recursion ended with %s\n%s" % (out, c["src"]), {"case": c, "real": o})
            continue
        elif out["kind"] == "go_index_panic" and o["max_sp"] < 2040:
            ck.violation("recursion-error", "bounds error although the operand stack was not full\n" + c["src"], {"case": c, "real": o})
            continue
        if o["max_fi"] > 1024 or o["max_sp"] > 2048:
            ck.violation("recursion-capacity", "frames %d / stack %d exceed the VM capacities\n%s" % (o["max_fi"], o["max_sp"], c["src"]), {"case": c, "real": o})
            continue
        ck.traces += 1
    ck.evaluations += len(traces)
    if traces:
        t = traces[len(traces) // 2]
        ck.add_sample({"budget": t["budget"], "end": t["end"], "events": t["ev"][:6]})
    ck.rule = ("allocation: programs x budgets {0,1,2,3,5,A-2..A+1,A+7,unlimited}, every instruction trace replayed by AllocTrace.tla; "
               "limits: every string/bytes producing operation x lengths L-1..L+2; recursion: pending operands 0-3 x depths")
    ck.assumptions = ["the probe reports VM.allocs before each instruction; tracked-site table transcribed from vm.go",
                      "MaxStringLen/MaxBytesLen are set to %d inside the child process for the limits family" % L]


def order_dependent(p):
    """Conservative: the program iterates (for-in) and a map can exist in it - literal, host input or module export - so
    that the iteration order, which Go randomises per run, may reach the result.  Such programs are compared through
    their error class only, never value by value across two real runs."""
    import re
    src = p["src"]
    if not re.search(r"\bfor\b[^\n{]*\bin\b", src):
        return False
    has_map = bool(re.search(r"\{\s*(\w+|\"[^\"]*\")\s*:", src)) or '"map"' in json.dumps(p.get("inputs", [])) or "import(" in src
    return has_map


def replay(ck, path):
    rep = json.load(open(path))["replay"]
    print(json.dumps(rep, indent=1)[:3000])
    return 0
