----------------------------- MODULE AllocTrace -----------------------------
(***************************************************************************)
(* Allocation accounting of the VM (vm.go): SetMaxAllocs(N) starts the     *)
(* counter at N + 1; every *tracked* allocation decrements it after the    *)
(* operation itself succeeded, and the run stops with the allocation-limit *)
(* error when the counter reaches 0.  With N = -1 (unlimited) the counter   *)
(* starts at 0 and only ever gets more negative.                           *)
(*                                                                         *)
(* Tracked sites, transcribed from vm.go: BINARYOP, NEG (minus, complement)*)
(* ARR, MAP, ERROR, IMMUT (array and map operands only), SLICE, native     *)
(* CALL (whatever is returned), CLOSURE, ITER.  Not tracked: INDEX,        *)
(* ITKEY/ITVAL, the variadic roll-up, GETLP boxing, calls of compiled      *)
(* functions, EQL/NEQ/NOT and all moves/jumps.                             *)
(*                                                                         *)
(* A trace is the sequence of dispatched instructions of one real run with *)
(* the counter before each of them (probe hook) plus how the run ended;    *)
(* this spec replays it: one action per event, the counter as the only     *)
(* state.  Properties: the counter never moves except by the rule; a run   *)
(* with budget N makes at most N tracked allocations unless it ends with   *)
(* the limit error, in which case it made exactly N + 1 attempts.          *)
(***************************************************************************)
EXTENDS Integers, Sequences, TLC, Json

Traces == ndJsonDeserialize("alloctraces.ndjson")

OpBINOP == 40 OpBCOMPL == 1 OpMINUS == 7 OpARR == 14 OpMAP == 15 OpERROR == 16 OpIMMUT == 17
OpSLICE == 19 OpCALL == 20 OpCLOSURE == 35 OpITER == 36

\* does a successfully executed instruction count as a tracked allocation?
Tracked(e) ==
  \/ e.op \in {OpBINOP, OpBCOMPL, OpMINUS, OpARR, OpMAP, OpERROR, OpSLICE, OpCLOSURE, OpITER}
  \/ (e.op = OpIMMUT /\ e.top \in {"array", "map"})
  \/ (e.op = OpCALL /\ e.native /\ ~e.tailcall)

VARIABLES ti, i, allocs, made, verdict
vars == <<ti, i, allocs, made, verdict>>

T == Traces[ti]
Init == ti = 1 /\ i = 1 /\ allocs = Traces[1].budget + 1 /\ made = 0 /\ verdict = [ok |-> TRUE]

Bad(why) == verdict' = [ok |-> FALSE, why |-> why, at |-> i] /\ UNCHANGED <<ti, i, allocs, made>>

\* consume event i of the current trace
Step ==
  /\ verdict.ok /\ i <= Len(T.ev)
  /\ LET e == T.ev[i]
         last == i = Len(T.ev)
         \* the instruction completed unless it is the last one of a run that ended in a (non-limit) error
         failed == last /\ T.end = "error"
         limit == last /\ T.end = "alloc_limit"
         d == IF ~failed /\ Tracked(e) THEN 1 ELSE 0
     IN IF e.al # allocs THEN Bad("counter before the instruction differs from the rule")
        ELSE IF limit /\ ~Tracked(e) THEN Bad("allocation-limit error raised by an instruction that allocates nothing tracked")
        ELSE IF limit /\ allocs - 1 # 0 THEN Bad("allocation-limit error although the counter did not reach zero")
        ELSE IF ~limit /\ d = 1 /\ allocs - 1 = 0 THEN Bad("counter reached zero but the run went on")
        ELSE /\ allocs' = allocs - d /\ made' = made + d /\ i' = i + 1 /\ UNCHANGED <<ti, verdict>>

\* end of trace: final counter reported by the run-end hook must agree; emit verdict; next trace
Finish ==
  /\ (~verdict.ok \/ i > Len(T.ev))
  /\ LET v == IF verdict.ok /\ T.has_end /\ T.al_end # allocs THEN [ok |-> FALSE, why |-> "final counter differs", at |-> i]
              ELSE IF verdict.ok /\ T.budget >= 0 /\ T.end # "alloc_limit" /\ made > T.budget
                   THEN [ok |-> FALSE, why |-> "more tracked allocations than the budget", at |-> i]
              ELSE IF verdict.ok /\ T.end = "alloc_limit" /\ made # T.budget + 1
                   THEN [ok |-> FALSE, why |-> "limit error after a number of allocations other than budget + 1", at |-> i]
              ELSE verdict
     IN PrintT(<<"ALLOC", ToJson([id |-> T.id, budget |-> T.budget, verdict |-> v, made |-> made, n |-> Len(T.ev)])>>)
  /\ IF ti < Len(Traces)
     THEN ti' = ti + 1 /\ i' = 1 /\ allocs' = Traces[ti + 1].budget + 1 /\ made' = 0 /\ verdict' = [ok |-> TRUE]
     ELSE ti' = ti /\ i' = 0 /\ allocs' = 0 /\ made' = 0 /\ verdict' = [ok |-> TRUE, done |-> TRUE]

Next == (i > 0 /\ Step) \/ (i > 0 /\ Finish)
Spec == Init /\ [][Next]_vars

BudgetRespected == (i > 0 /\ T.budget >= 0 /\ verdict.ok) => allocs >= 0
=============================================================================
