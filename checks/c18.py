"""C18 JSON encode/decode round-trips and agrees with encoding/json.

E: JsonGrammar.tla - the RFC 8259 grammar as a recogniser written in TLA+, with the value a valid text
   denotes (numbers typed int without fraction/exponent, float otherwise; duplicate keys; white space),
   the decoding rules of string bodies (escapes, surrogate pairs, U+FFFD for lone surrogates and
   ill-formed UTF-8) and the shape space of encodable values.  TLC enumerates every symbol sequence up
   to the bound, every single-symbol mutation of valid base documents, every number-character
   sequence, every string-token sequence, every value shape - and the verdict for each.
R: each case is rendered to bytes (seeded choice among the concrete spellings of a symbol) and goes
   through json.Decode / json.Encode and, sampled, through the json module in a compiled script.
O: three-way agreement: specification, real codec, encoding/json (Valid; Decoder with UseNumber).
   Values: the encoding is valid JSON, encoding/json reads the same data, decoding it gives an Equal
   value.  Seeded random values (depth <= 4, boundary numbers, random float bits, nasty strings) and
   byte-level mutations of encodings extend the enumeration; every input runs under recover().
"""
import json

import vlib

CFG = ('SPECIFICATION Spec\nCONSTANTS\n  Mode = "%s"\n  MaxLen = %d\n  Part = %d\n  NParts = %d\n'
       'INVARIANTS EmitText EmitMutate EmitNumber EmitString EmitValue Sanity\n')


def enum(ck, mode, maxlen, nparts, tag):
    def one(part):
        r = ck.tlc("JsonGrammar", CFG % (mode, maxlen, part, nparts), workers=1, name="%s-%d" % (mode, part), timeout=3000, xmx="3g")
        return r.tagged(tag)
    out = []
    for l in vlib.parallel(one, list(range(nparts)), nproc=min(nparts, 12)):
        out += l
    return out


def run(ck):
    quick = ck.quick()
    fam = {
        "text": enum(ck, "text", 3 if quick else 4, 1 if quick else 23, "JTEXT") + enum(ck, "mutate", 0, 7, "JTEXT"),
        "num": enum(ck, "number", 5 if quick else 7, 1, "JNUM"),
        "str": enum(ck, "string", 2 if quick else 3, 1 if quick else 19, "JSTR") + enum(ck, "surrogates", 4 if quick else 5, 1 if quick else 8, "JSTR"),
        "val": enum(ck, "value", 0, 1, "JVAL"),
    }
    batches = []
    B = 500
    for kind, cases in fam.items():
        for k in range(0, len(cases), B):
            batches.append({"id": len(batches), "kind": kind, "batch": cases[k:k + B], "seed": ck.seed * 1000003 + len(batches)})
    for i in range(12):
        batches.append({"id": len(batches), "kind": "fuzzvalue", "n": 40000 if quick else 3000000, "seed": ck.seed * 7919 + i})
        batches.append({"id": len(batches), "kind": "fuzztext", "n": 80000 if quick else 5000000, "seed": ck.seed * 104729 + i})
    for depth in (100, 2000, 10000, 10001) + (() if quick else (100000, 3000000)):
        batches.append({"id": len(batches), "kind": "deep", "n": depth, "seed": 1})
    res = vlib.run_cases(ck, "json", batches, nproc=14, timeout=3000)
    res = vlib.retry_hangs(ck, "json", batches, res, timeout=3000)
    stats, keycount, seen = {}, {}, set()
    for b in batches:
        o = res[b["id"]]
        if o.get("died") or o.get("hang") or o.get("panic"):
            ck.violation("fatal:json:" + b["kind"], "the JSON codec killed, hung or panicked the driver: %s" % json.dumps(o)[:400], {"kind": "batch", "batch": {k: v for k, v in b.items() if k != "batch"}, "real": o})
            continue
        if "error" in o:
            raise vlib.Infra("json driver: " + o["error"])
        for k, v in o["stats"].items():
            stats[k] = stats.get(k, 0) + v
        for k, v in (o.get("by_key") or {}).items():
            keycount[k] = keycount.get(k, 0) + v
        for m in o.get("mismatches") or []:
            if m["key"] in seen:
                continue
            seen.add(m["key"])
            ck.violation(m["key"], "%s\n  text: %s" % (m["what"], m["show"]), {"kind": "text", "text": m["text"], "show": m["show"], "what": m["what"]})
    n = sum(stats.get(k, 0) for k in ("invalid_agreed", "valid_agreed", "values_roundtripped"))
    ck.evaluations += n + sum(v for k, v in stats.items() if k.startswith("excluded:"))
    ck.traces += n
    ck.extra.update({"cases_by_family": {k: len(v) for k, v in fam.items()}, "stats": stats, "mismatch_instances_by_key": keycount})
    for k in stats:
        ck.note_distinct(k)
    for kind, cases in fam.items():
        for c in cases[::53]:
            ck.note_distinct(kind + json.dumps(c)[:200])
    ck.add_sample({"text_case": fam["text"][len(fam["text"]) // 2], "string_case": fam["str"][len(fam["str"]) // 2]})
    ck.rule = ("TLC-enumerated symbol sequences / mutations / number spellings / string-token sequences / value shapes, each rendered and decided "
               "three ways, plus seeded random values and byte mutations; non-trivial counted conservatively as outcome classes plus every 53rd enumerated case")
    ck.assumptions = ["'equal value' is Object.Equals (1.0 round-trips to 1, which Equals accepts)",
                      "strings that are not valid UTF-8, NaN and infinities are not JSON-representable and only required not to panic",
                      "numbers outside int64 / float64 range are outside the stated claim (counted as excluded)",
                      "encoding/json's nesting limit (10000) is part of 'considers the text invalid': depth 10001 must be rejected by both"]


def replay(ck, path):
    rep = json.load(open(path))["replay"]
    if rep.get("kind") == "text":
        print(json.dumps(vlib.run_cases(ck, "json", [{"id": 0, "kind": "replay", "text": rep["text"]}], nproc=1)[0], indent=1)[:3000])
    else:
        print(json.dumps(rep)[:3000])
    return 0
