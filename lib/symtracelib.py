"""Trace validation of the compiler's use of its symbol table (drive symtrace -> SymbolTableTrace.tla)."""
import json

import vlib

CFG = """SPECIFICATION TSpec
CONSTANTS
  Names <- TraceNames
  MaxDepth = 0
  MaxLen = 0
INVARIANTS LiveLocalsDisjoint FrameCovers GlobalsUnique GlobalsCounted FreeServed FreeIndexed TLexical TReach TResolveStable
CHECK_DEADLOCK FALSE
"""


def validate(ck, progs, key="symtab-trace", batch=150, njobs=8):
    """Every compilation unit of every program: the recorded symbol-table calls must be a behaviour of SymbolTable.tla
    (and its invariants hold in every state reached).  Returns the number of accepted units."""
    cases = [{"id": p["id"], "src": p["src"], "inputs": p.get("inputs", []), "mods": [{"name": m["name"], "src": m["src"]} for m in p.get("mods", [])],
              "stdlib": p.get("stdlib", False)} for p in progs]
    res = vlib.run_cases(ck, "symtrace", cases, nproc=8)
    byid = {p["id"]: p for p in progs}
    traces = []
    for c in cases:
        o = res[c["id"]]
        if o.get("hang") or o.get("died") or o.get("panic"):
            ck.violation(key + ":host-down", "compiling with the symbol-table recorder took the driver down: %s\n%s" % (str(o)[:300], c["src"][:600]), {"program": byid[c["id"]], "real": o})
            continue
        if o.get("error"):
            raise vlib.Infra("symtrace driver: %s" % o["error"])
        for u in o.get("units") or []:
            if "ev" in u and u["ev"]:
                traces.append({"id": "%s/%d" % (c["id"], u["unit"]), "unit": u["unit"], "ev": u["ev"], "names": u["names"], "pid": c["id"]})
    if not traces:
        return 0
    batches = [traces[i:i + batch] for i in range(0, len(traces), batch)]

    def job(ib):
        i, b = ib
        names = sorted({n for t in b for n in t["names"]})
        lines = [{"id": t["id"], "unit": t["unit"], "ev": t["ev"], "names": t["names"] or ["x"]} for t in b]
        return ck.tlc("SymbolTableTrace", CFG, files={"symtraces.ndjson": vlib.ndjson(lines), "symnames.ndjson": json.dumps(names) + "\n"},
                      workers=1, name="symtrace%d" % i, timeout=3000, xmx="4g")
    ok = 0
    judged = 0
    tby = {t["id"]: t for t in traces}
    for r in vlib.parallel(job, list(enumerate(batches)), nproc=min(njobs, len(batches))):
        if r.violated:
            # an invariant of SymbolTable.tla fails in a state reached by a real compilation
            ck.violation(key + ":invariant:" + str(r.violated), "an invariant of SymbolTable.tla (%s) fails in a state a real compilation reaches:\n%s" % (r.violated, r.stdout[-1500:]),
                         {"tlc": r.stdout[-3000:]})
            continue
        for v in r.tagged("SYMTRACE"):
            judged += 1
            t = tby[v["id"]]
            if not v["verdict"]["ok"]:
                e = t["ev"][v["verdict"]["at"] - 1] if 0 < v["verdict"].get("at", 0) <= len(t["ev"]) else None
                ck.violation(key + ":" + v["verdict"]["why"][:60], "the compiler's symbol-table calls are not a behaviour of SymbolTable.tla: %s at event %d of %d (%s)\n%s" % (
                    v["verdict"]["why"], v["verdict"]["at"], len(t["ev"]), json.dumps(e)[:300], byid[t["pid"]]["src"][:1500]),
                    {"program": byid[t["pid"]], "unit": t["unit"], "verdict": v, "event": e})
            else:
                ok += 1
                ck.traces += 1
    nv0 = len(ck.violations)
    if judged != len(traces) and nv0 == 0:
        raise vlib.Infra("SymbolTableTrace judged %d of %d traces" % (judged, len(traces)))
    ck.extra["symtab_traces_accepted"] = ck.extra.get("symtab_traces_accepted", 0) + ok
    ck.extra["symtab_trace_events"] = ck.extra.get("symtab_trace_events", 0) + sum(len(t["ev"]) for t in traces)
    return ok
