-------------------------- MODULE RunContextMC --------------------------
(* Model-checking wrapper of RunContext: emits the set of observations the  *)
(* design allows for round 1 (consumed by the gate-replay conformance).     *)
EXTENDS RunContext, Json

EmitObs == (pc["caller"] = "c_ret" /\ round = 1) => PrintT(<<"OBS", ToJson(Obs)>>)
=============================================================================
