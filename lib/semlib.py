"""Batch evaluation of programs by the TengoSem reference semantics (TLC) and by
the real compiler+VM (harness `run`), shared by the semantic properties."""
import json

import vlib

SEM_CFG = """SPECIFICATION Spec
CONSTANTS
  MaxStringLen = %d
  MaxBytesLen = %d
INVARIANTS EmitOutcome EnvForest ValsSane ImmStable
"""


def strip_for_tlc(p):
    """Only what TengoSem reads (smaller JSON => faster parse)."""
    return {"id": p["id"], "nodes": p["nodes"], "root": p["root"], "inputs": p.get("inputs", [])}


def tlc_outcomes(ck, progs, njobs=8, maxstr=1000000, maxbytes=1000000, timeout=1200, tag="sem"):
    """Returns {id: [outcome, ...]} - every way TengoSem allows the program to end."""
    if not progs:
        return {}
    njobs = max(1, min(njobs, (len(progs) + 19) // 20))
    batches = [progs[i::njobs] for i in range(njobs)]
    cfg = SEM_CFG % (maxstr, maxbytes)

    def job(ib):
        i, batch = ib
        files = {"progs.ndjson": vlib.ndjson([strip_for_tlc(p) for p in batch])}
        r = ck.tlc("TengoSem", cfg, files=files, workers=1, name="%s%d" % (tag, i), timeout=timeout, xmx="3g", xss="256m")
        if r.violated:
            raise vlib.Infra("TengoSem machine invariant %s violated:\n%s" % (r.violated, r.stdout[-3000:]))
        return r

    outs = {}
    for r in vlib.parallel(job, list(enumerate(batches)), nproc=njobs):
        for o in r.tagged("OUT"):
            lst = outs.setdefault(o["id"], [])
            if o["o"] not in lst:
                lst.append(o["o"])
    missing = [p["id"] for p in progs if p["id"] not in outs]
    if missing:
        raise vlib.Infra("TengoSem produced no outcome for programs %s" % missing[:10])
    return outs


def real_outcomes(ck, progs, nproc=8, extra=None, race=False):
    cases = []
    for p in progs:
        c = {"id": p["id"], "src": p["src"], "inputs": p.get("inputs", []),
             "mods": [{"name": m["name"], "src": m["src"]} for m in p.get("mods", [])]}
        if extra:
            c.update(extra)
        cases.append(c)
    res = vlib.run_cases(ck, "run", cases, nproc=nproc, race=race)
    out = {}
    for c in cases:
        r = res.get(c["id"])
        if r is None:
            raise vlib.Infra("no result for program %s" % c["id"])
        if r.get("hang"):
            out[c["id"]] = {"k": "host_down", "how": "hang"}
        elif r.get("died"):
            out[c["id"]] = {"k": "host_down", "how": "fatal", "stderr": r.get("stderr", "")[-1500:]}
        elif r.get("panic"):
            out[c["id"]] = {"k": "host_down", "how": "panic", "msg": r["panic"]}
        elif "outcome" in r:
            out[c["id"]] = r["outcome"]
        else:
            raise vlib.Infra("driver error: %s" % r)
    return out


def generate(ck, family, n, seed=None):
    p = ck.drive(["gen", "-family", family, "-n", str(n), "-seed", str(ck.seed if seed is None else seed)], timeout=300)
    progs = [json.loads(l) for l in p.stdout.splitlines() if l.strip()]
    return progs


VM_CFG = """SPECIFICATION Spec
CONSTANTS
  MaxStringLen = %d
  MaxBytesLen = %d
INVARIANTS FrameDiscipline CellsWellFormed
"""


def vm_validate(ck, progs, njobs=10, maxstr=1000000, maxbytes=1000000, tag="vm", max_steps=3000, nproc=8):
    """Trace validation at bytecode level: record one event per dispatched instruction of the real VM for
    every program and check with TLC that the recording is a behaviour of TengoVM.tla (and that the
    machine's final globals are the real ones).  Returns {id: verdict}; verdict['v'] is one of
    accepted / excluded / rejected / skipped, with details for rejected runs."""
    import semcmp
    cases = [{"id": p["id"], "src": p["src"], "inputs": p.get("inputs", []), "max_steps": max_steps,
              "mods": [{"name": m["name"], "src": m["src"]} for m in p.get("mods", [])]} for p in progs]
    res = vlib.run_cases(ck, "vmtrace", cases, nproc=nproc)
    out, runs = {}, []
    for c in cases:
        o = res[c["id"]]
        if o.get("hang") or o.get("died") or o.get("panic"):
            out[c["id"]] = {"v": "skipped", "why": "driver"}
        elif "run" not in o:
            out[c["id"]] = {"v": "skipped", "why": (o.get("outcome") or {}).get("k", "no-run")}
        else:
            runs.append(o["run"])
    if not runs:
        return out
    # at most ~400 runs per TLC process (the recorded events are held in memory as one TLA+ value), njobs processes at a time
    nb = max(1, min(njobs, (len(runs) + 19) // 20), (len(runs) + 399) // 400)
    batches = [runs[i::nb] for i in range(nb)]
    cfg = VM_CFG % (maxstr, maxbytes)

    def job(ib):
        i, batch = ib
        r = ck.tlc("TengoVM", cfg, files={"vmruns.ndjson": vlib.ndjson(batch), "progs.ndjson": ""}, workers=1, name="%s%d" % (tag, i),
                   timeout=2400, xmx="4g", xss="256m")
        if r.violated:
            raise vlib.Infra("TengoVM machine invariant %s violated:\n%s" % (r.violated, r.stdout[-3000:]))
        return r
    best = {}
    for r in vlib.parallel(job, list(enumerate(batches)), nproc=min(njobs, len(batches))):
        for o in r.tagged("VMTRACE"):
            b = best.get(o["id"])
            if b is None or (o["ok"] and not b["ok"]) or (o["ok"] == b["ok"] and o["consumed"] > b["consumed"]):
                best[o["id"]] = o
    for run in runs:
        pid = run["id"]
        o = best.get(pid)
        if o is None:
            raise vlib.Infra("TengoVM produced no verdict for program %s" % pid)
        real = res[pid]
        if not o["ok"]:
            out[pid] = {"v": "rejected", "why": o["verdict"].get("why"), "at": o["verdict"].get("at"), "n": o["n"],
                        "event": run["ev"][min(o["verdict"].get("at", 1), len(run["ev"])) - 1]}
        elif o["status"] == "excluded":
            out[pid] = {"v": "excluded", "why": o["why"]}
        elif o["status"] == "done":
            want = [semcmp.canon(x) for x in real["g_real"]]
            got = [semcmp.canon(x) for x in o["globals"]][:len(want)]
            if any(semcmp.has_unrep(x) for x in real["g_real"]):
                out[pid] = {"v": "accepted", "n": o["n"], "globals": "unrepresentable"}
            elif want != got:
                out[pid] = {"v": "rejected", "why": "final globals differ: machine %s, real %s" % (
                    [semcmp.show(x) for x in got], [semcmp.show(x) for x in want]), "at": o["n"], "n": o["n"], "event": {}}
            else:
                out[pid] = {"v": "accepted", "n": o["n"]}
        else:
            out[pid] = {"v": "accepted", "n": o["n"], "end": o["why"]}
    return out
