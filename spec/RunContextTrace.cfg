SPECIFICATION TraceSpec
CONSTANTS
  Shapes = {"finite", "error", "panic", "loop"}
  MaxSteps = 12
  ResetOnEntry = FALSE
  Drain = TRUE
CONSTRAINT Consumed
INVARIANT Safety
POSTCONDITION AllAccepted
