package main

// vmabort: one VM object (NewVM) aborted in the middle of a run - inside nested calls, with operands pending, inside an
// iteration - and then run again: the second run starts from a clean machine (frames, instruction pointer, operand stack)
// and computes what a fresh VM computes.  Embedders that pool VMs do exactly this.

import (
	"encoding/json"
	"fmt"
	"sync/atomic"
	"time"

	"github.com/d5/tengo/v2"
)

var vmAbortScenarios = map[string]string{
	"main-loop":        "n := 0\nfor spin { n += 1 }\nr := n >= 0 ? 10 : 0\n",
	"one-call":         "inner := func(n) { for spin { n += 1 }; return n }\nr := inner(0) >= 0 ? 11 : 0\n",
	"nested-calls":     "inner := func(n) { for spin { n += 1 }; return 1 }\nmid := func(n) { return inner(n) + 1 }\nouter := func(n) { return mid(n) + 1 }\nr := outer(0) + 1\ns := [outer(1), 7]\n",
	"pending-operands": "inner := func(n) { for spin { n += 1 }; return 1 }\nr := [1, 2, [3, inner(0) + 4], {k: inner(1)}]\n",
	"closure":          "mk := func() { c := 0; return func() { for spin { c += 1 }; c += 5; return c } }\nf := mk()\nr := f() >= 5 ? f() >= 10 : false\n",
	"for-in":           "inner := func(v) { for spin { v += 1 }; return 2 }\nt := 0\nfor k, v in [1, 2, 3] { t += inner(v) }\nr := t\n",
	"deep":             "rec := func(n) { if n == 0 { for spin { n += 0 }; return 1 }; return rec(n - 1) + 1 }\nr := rec(40)\n",
	"method-on-map":    "o := {go: func(n) { for spin { n += 1 }; return 3 }}\nr := o.go(0) + o.go(1)\n",
}

func vmAbortHandle(raw []byte) map[string]interface{} {
	var in struct {
		Scenario string `json:"scenario"`
		MinFrame int    `json:"min_frame"` // abort once the VM is at least this deep (frame index), after some instructions there
	}
	if err := json.Unmarshal(raw, &in); err != nil {
		return map[string]interface{}{"error": err.Error()}
	}
	src, ok := vmAbortScenarios[in.Scenario]
	if !ok {
		return map[string]interface{}{"error": "unknown scenario"}
	}
	compile := func(spin bool) (*tengo.Compiled, error) {
		s := tengo.NewScript([]byte(src))
		_ = s.Add("spin", spin)
		return s.Compile()
	}
	// reference: a fresh object that never spins
	ref, err := compile(false)
	if err != nil {
		return map[string]interface{}{"error": "compile: " + err.Error()}
	}
	if err := ref.Run(); err != nil {
		return map[string]interface{}{"error": "reference run: " + err.Error()}
	}
	want := snapshotGlobals(ref)

	c, _ := compile(true)
	globals, _ := c.VerifGlobals()
	vm := tengo.NewVM(c.VerifBytecode(), globals, -1)
	var deepSteps int64
	reached := make(chan struct{}, 1)
	tengo.VerifSetStep(func(v *tengo.VM) {
		if v != vm {
			return
		}
		if s := v.VerifState(); s.FI >= in.MinFrame {
			if atomic.AddInt64(&deepSteps, 1) == 200 {
				select {
				case reached <- struct{}{}:
				default:
				}
			}
		}
	})
	defer tengo.VerifSetStep(nil)
	done := make(chan error, 1)
	go func() {
		defer func() {
			if r := recover(); r != nil {
				done <- fmt.Errorf("panic: %v", r)
			}
		}()
		done <- vm.Run()
	}()
	select {
	case <-reached:
	case e := <-done:
		return map[string]interface{}{"error": fmt.Sprintf("the first run ended before it could be aborted: %v", e)}
	case <-time.After(10 * time.Second):
		return map[string]interface{}{"error": "the first run never got deep enough"}
	}
	vm.Abort()
	var first string
	select {
	case e := <-done:
		first = fmt.Sprint(e)
	case <-time.After(10 * time.Second):
		return map[string]interface{}{"ok": false, "what": "the aborted run did not return within 10 s"}
	}
	tengo.VerifSetStep(nil)
	_ = c.Set("spin", false)
	res := map[string]interface{}{"first": first}
	second := make(chan error, 1)
	go func() {
		defer func() {
			if r := recover(); r != nil {
				second <- fmt.Errorf("panic: %v", r)
			}
		}()
		second <- vm.Run()
	}()
	select {
	case e := <-second:
		if e != nil {
			res["ok"] = false
			res["what"] = "the second run of the same VM failed: " + e.Error()
			return res
		}
	case <-time.After(10 * time.Second):
		res["ok"] = false
		res["what"] = "the second run of the same VM did not return within 10 s"
		return res
	}
	got := snapshotGlobals(c)
	if got != want {
		res["ok"] = false
		res["what"] = "the second run of the same VM computed " + got + ", a fresh VM computes " + want
		return res
	}
	res["ok"] = true
	return res
}

func init() {
	register("vmabort", "a VM aborted mid-run and run again (cases on stdin)", func(args []string) error {
		return runCases(60*time.Second, vmAbortHandle)
	})
}
