"""C11 A program means the same wherever its variables live.

E: the transformations AsFunctionBody, AsModule, WrapIIFE (single sub-expressions, all at once,
   and combined with AsFunctionBody) and Rename are applied to the harness AST; TLC evaluates the
   base program and every variant with TengoSem, and the variants' outcomes must equal the base's
   under the transformation's result mapping (this validates that the *documented* semantics is
   placement invariant on these programs - closures inside global-scope loops, the one documented
   scope-dependent case, are not generated).
E2: SymbolTable.tla - the compiler's symbol table (the component that decides where a variable
   lives) as a state machine over Define/Resolve/assign/Fork/leave with the invariants the
   rest of the system relies on (lexical resolution across any block/function boundaries, no two
   live variables of a function in one slot, frames large enough, global slots never reused,
   free lists the enclosing function can serve); TLC prints one witness history per edge.
R2: every witness history replayed on a real tengo.SymbolTable, every return value compared.
R3: the other direction - hooks report every Define/Resolve/assignment mark the compiler makes and what it reads when a
   function literal ends; SymbolTableTrace.tla replays each compilation unit with the spec's operators (scope exits are
   silent steps), compares every logged result and symbol identity, and evaluates the invariants in every state reached.
R: every variant through the real compiler and VM: its outcome must be one TengoSem allows for it,
   hence all placements (globals / locals / captured variables / module locals) agree with each
   other.  The probe counts which variable-instruction families each variant exercised.
"""
import json

import c06
import semcmp
import largelib
import symtracelib
import semlib
import vlib


def project(p, outcome):
    """Outcome of a variant mapped back to the base's vocabulary: (kind, canonical globals or error kind)."""
    kind = p["variant"]
    if outcome["k"] != "ok":
        return (outcome["k"], outcome.get("kind"))
    g = {n: semcmp.canon(v) for n, v in outcome["g"]}
    names = p.get("names") or []
    if kind in ("fn", "mod", "fn+iife"):
        out = g.get("__out")
        if out is None or out[0] != "map":
            return ("ok", ("bad-out", str(out)))
        vals = {bytes(k).decode(): v for k, v in out[2]}
        return ("ok", tuple(sorted((n, vals.get(n)) for n in names)))
    if kind == "rename":
        inv = {v: k for k, v in p["renaming"].items()}
        return ("ok", tuple(sorted((inv.get(n, n), v) for n, v in g.items() if inv.get(n, n) in names)))
    return ("ok", tuple(sorted((n, g.get(n)) for n in names)))


def run(ck):
    quick = ck.quick()
    nbase = 150 if quick else 4000
    progs = semlib.generate(ck, "variants", nbase)
    for i, p in enumerate(progs):
        p["id"] = i + 1
    outs = semlib.tlc_outcomes(ck, progs, njobs=14)
    real = semlib.real_outcomes(ck, progs, nproc=8)
    groups = {}
    for p in progs:
        groups.setdefault(p["base"], []).append(p)
    fam_counts = {}
    nvar = 0
    for b, grp in groups.items():
        base = grp[0]
        mb = outs[base["id"]]
        if any(o["k"] == "excluded" for o in mb):
            ck.extra["bases_excluded"] = ck.extra.get("bases_excluded", 0) + 1
            continue
        base_proj = {project(base, o) for o in mb}
        for p in grp:
            ck.evaluations += 1
            mv = outs[p["id"]]
            if any(o["k"] == "excluded" for o in mv):
                continue
            mproj = {project(p, o) for o in mv}
            if mproj != base_proj:
                # the documented semantics itself is not placement invariant here: a problem of the spec or of the
                # transformation, never a verdict about the implementation
                raise vlib.Infra("TengoSem is not invariant under %s for base %d:\n%s\n--- variant\n%s\nbase: %s\nvariant: %s" % (
                    p["variant"], b, base["src"], p["src"], sorted(base_proj, key=str)[:2], sorted(mproj, key=str)[:2]))
            v, det = semcmp.compare(mv, real[p["id"]])
            if v == "disagree":
                ck.violation("variant:" + p["variant"], "variant %s of a program disagrees with the reference semantics (expected %s, got %s)\n--- base\n%s\n--- variant\n%s" % (
                    p["variant"], det["expected"], det["got"], base["src"], p["src"]), {"program": p, "base": base, "model": mv, "real": real[p["id"]]})
                continue
            if v == "host_down":
                ck.violation("host-down", "variant did not return: %s\n%s" % (real[p["id"]], p["src"]), {"program": p})
                continue
            if v != "agree":
                continue
            # a failing program fails with the same words wherever its variables live (the first line of the error text; the
            # location lines differ by construction).  Order-dependent programs may fail on another element first.
            rb, rv = real[base["id"]], real[p["id"]]
            if (rb.get("k") == rv.get("k") == "runtime_error" and rb.get("kind") == rv.get("kind") and not c06.order_dependent(base)
                    and (rb.get("msg") or "").split("\n")[0] != (rv.get("msg") or "").split("\n")[0]):
                ck.violation("placement-message:" + p["variant"], "variant %s fails with other words than the base program: %r vs %r\n--- base\n%s\n--- variant\n%s" % (
                    p["variant"], (rv.get("msg") or "").split("\n")[0], (rb.get("msg") or "").split("\n")[0], base["src"], p["src"]), {"program": p, "base": base, "real": rv})
                continue
            rproj = project(p, real[p["id"]])
            if rproj not in base_proj:
                ck.violation("placement:" + p["variant"], "variant %s computes something else than the base program\n--- base\n%s\n--- variant\n%s\nbase: %s\nvariant: %s" % (
                    p["variant"], base["src"], p["src"], sorted(base_proj, key=str)[:1], rproj), {"program": p, "base": base, "real": real[p["id"]]})
                continue
            nvar += 1
            ck.traces += 1
            fam_counts[p["variant"]] = fam_counts.get(p["variant"], 0) + 1
            ck.note_distinct(p["src"])
        if len(ck.samples) < 2 and len(grp) > 5:
            ck.add_sample({"base": base["src"], "variant_fn_iife": [q["src"] for q in grp if q["variant"] == "fn+iife"][0][:1500]})
    ck.extra["bases"] = len(groups)
    ck.extra["variants_agreeing"] = fam_counts
    symtab(ck, quick)
    # ---- the compiler's own use of the symbol table, recorded by hooks while it compiles programs, validated against SymbolTable.tla
    tp = []
    for fam, k in ((("scopes", 70), ("random", 50), ("modules", 12), ("m-closure", 0)) if quick
                   else (("scopes", 1500), ("random", 1500), ("modules", 300), ("m-closure", 0), ("tailcalls", 0), ("variants", 60))):
        for p in semlib.generate(ck, fam, k):
            p = dict(p)
            p["id"] = len(tp) + 1
            tp.append(p)
    ck.extra["symtab_trace_programs"] = len(tp)
    symtracelib.validate(ck, tp)
    # placement in slots whose index needs more than one byte (more than 255 globals, also as block variables)
    largelib.judge(ck, quick)
    ck.rule = ("base programs (random-clean without closures in global loops, dce) x {function body, module body, IIFE of 3 random "
               "sub-expressions, IIFE of all, function body + IIFE of all, renaming}; non-trivial = distinct variant sources that agree")
    ck.assumptions = ["the transformations are applied to the harness AST; that they preserve the documented meaning is itself checked by TLC per program"]


SYMTAB_CFG = """SPECIFICATION Spec
CONSTANTS
  Names <- %s
  MaxDepth = %d
  MaxLen = %d
VIEW View
CONSTRAINT Bounded
ACTION_CONSTRAINT EmitEdge
INVARIANTS LiveLocalsDisjoint FrameCovers GlobalsUnique GlobalsCounted FreeServed FreeIndexed Lexical Reach ResolveStable
"""


def symtab(ck, quick):
    runs = [("MCNames2", 4, 7)] if quick else [("MCNames2", 5, 9), ("MCNames3", 4, 7)]
    cases = []
    seen = set()
    for names, depth, length in runs:
        r = ck.tlc("SymbolTable", SYMTAB_CFG % (names, depth, length), workers=1, name="symtab-%s-%d" % (names, length), timeout=3000, xmx="12g")
        if r.violated:
            raise vlib.Infra("SymbolTable.tla violates %s:\n%s" % (r.violated, r.stdout[-2000:]))
        for c in r.tagged("CASE"):
            key = json.dumps(c, sort_keys=True)
            if key in seen:
                continue
            seen.add(key)
            c["id"] = len(cases)
            cases.append(c)
        ck.log("SymbolTable.tla (%s, depth %d, %d calls): %d abstract states, %d witness histories so far" % (names, depth, length, r.distinct, len(cases)))
    res = vlib.run_cases(ck, "symtab", cases, nproc=12)
    edges = {}
    for c in cases:
        o = res[c["id"]]
        ck.evaluations += 1
        last = c["calls"][-1]
        if o.get("hang") or o.get("died") or o.get("panic"):
            ck.violation("symtab-down:" + last["op"], "symbol table history did not return / panicked: %s" % json.dumps(c["calls"])[:600], {"symtab": c, "real": o})
            continue
        if o.get("error"):
            raise vlib.Infra("symtab driver: %s" % o["error"])
        if not o["ok"]:
            call = c["calls"][o["at"]]
            ck.violation("symtab:" + call["op"],
                         "call %d %s%s returned %s, SymbolTable.tla says %s; history: %s" % (
                             o["at"], call["op"], json.dumps(call["args"]), json.dumps(o["got"]), json.dumps(o["want"]),
                             " ".join("%s%s" % (x["op"], json.dumps(x["args"])) for x in c["calls"][:o["at"] + 1]))[:900],
                         {"symtab": c, "real": o})
            continue
        ck.traces += 1
        edges[last["op"]] = edges.get(last["op"], 0) + 1
        ck.note_distinct("symtab/" + json.dumps(c["calls"][-1], sort_keys=True))
    ck.extra["symtab_edges_by_call"] = edges


def replay(ck, path):
    rep = json.load(open(path))["replay"]
    if "symtab" in rep:
        c = rep["symtab"]
        c["id"] = 0
        print(json.dumps(vlib.run_cases(ck, "symtab", [c], nproc=1)[0], indent=1))
        return 0
    import c01
    return c01.replay(ck, path)
