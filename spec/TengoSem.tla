------------------------------ MODULE TengoSem ------------------------------
(***************************************************************************)
(* Reference semantics of the Tengo language at source level: a small-step *)
(* abstract machine over the harness's node table (one program = one       *)
(* record of Progs).  It has names, lexical environments, cells and value  *)
(* semantics - no slots, operand widths, frames or bytecode.  What the     *)
(* documentation leaves open is nondeterministic (map iteration order) or  *)
(* yields outcome "excluded" (hidden append capacity, cycles, arithmetic   *)
(* outside the modelled range).                                            *)
(*                                                                         *)
(* Machine state m:                                                        *)
(*   ctl    continuation: sequence of frames, head = next thing to do      *)
(*   vals   value stack, head = top                                        *)
(*   env    current environment (index into envs; 0 = only builtins)       *)
(*   envs   persistent environment frames [p, name, cell]; a frame with    *)
(*          name "" marks a block boundary.  Environments are never        *)
(*          mutated, so a closure sees exactly the declarations that       *)
(*          textually precede it: lexical scoping as the compiler resolves *)
(*   cells  variable cells (closures capture variables, not values)        *)
(*   h      heap of TengoValues                                            *)
(*   fd     function depth: 0 = global scope, where every declaration site *)
(*          owns one static cell (the documented scope-dependent case)     *)
(*   decl   static cells of global-scope declaration sites                 *)
(*   cur    innermost executing statement; calls: call-site statements     *)
(*   out    outcome, once finished                                         *)
(***************************************************************************)
EXTENDS TengoValues, Json

Progs == ndJsonDeserialize("progs.ndjson")

VARIABLES pi, m

Nd(P, n) == P.nodes[n]

BuiltinNames == {"len", "copy", "append", "delete", "splice", "string", "int", "bool", "float", "char",
                 "bytes", "time", "is_int", "is_float", "is_string", "is_bool", "is_char", "is_bytes",
                 "is_array", "is_immutable_array", "is_map", "is_immutable_map", "is_iterable", "is_time",
                 "is_error", "is_undefined", "is_function", "is_callable", "type_name", "format", "range",
                 "freeze"}

StepBound == 4000
MaxBranchings == 3      \* map iterations with more than one possible order, per path

\* ------------------------------------------------------------ environments
RECURSIVE Lookup(_, _, _)
Lookup(envs, e, name) ==   \* cell bound to name, 0 if none
  IF e = 0 THEN 0
  ELSE IF envs[e].name = name THEN envs[e].cell
  ELSE Lookup(envs, envs[e].p, name)

RECURSIVE LookupBlock(_, _, _)
LookupBlock(envs, e, name) ==   \* same, but only within the innermost block
  IF e = 0 THEN 0
  ELSE IF envs[e].name = "" THEN 0
  ELSE IF envs[e].name = name THEN envs[e].cell
  ELSE LookupBlock(envs, envs[e].p, name)

RECURSIVE AtRoot(_, _)
AtRoot(envs, e) == IF e = 0 THEN TRUE ELSE IF envs[e].name = "" THEN FALSE ELSE AtRoot(envs, envs[e].p)

Mark(mm) == [mm EXCEPT !.envs = Append(@, [p |-> mm.env, name |-> "", cell |-> 0]),
                       !.env = Len(mm.envs) + 1]

BindCell(mm, name, c) == [mm EXCEPT !.envs = Append(@, [p |-> mm.env, name |-> name, cell |-> c]),
                                    !.env = Len(mm.envs) + 1]

BindFresh(mm, name, v) ==
  BindCell([mm EXCEPT !.cells = Append(@, v)], name, Len(mm.cells) + 1)

\* A declaration executed at global scope owns one static cell per declaration site.
BindDecl(mm, key, name, v) ==
  IF mm.fd > 0 \/ name = "_" THEN (IF name = "_" THEN mm ELSE BindFresh(mm, name, v))
  ELSE IF TableHas(mm.decl, key)
       THEN LET c == TableGet(mm.decl, key) IN BindCell([mm EXCEPT !.cells[c] = v], name, c)
       ELSE LET m2 == BindFresh(mm, name, v) IN [m2 EXCEPT !.decl = TablePut(@, key, Len(m2.cells))]

\* ----------------------------------------------------------------- results
Push(mm, v) == [mm EXCEPT !.vals = <<v>> \o @]
Drop(mm, n) == [mm EXCEPT !.vals = SubSeq(@, n + 1, Len(@))]
Finish(mm, o) == [mm EXCEPT !.out = o, !.ctl = <<>>]
Fail(mm, kind) == Finish(mm, [k |-> "runtime_error", kind |-> kind, stmt |-> mm.cur, calls |-> mm.calls])
Excl(mm, why) == Finish(mm, [k |-> "excluded", why |-> why])
CompErr(mm, kind, n) == Finish(mm, [k |-> "compile_error", kind |-> kind, node |-> n])
Res(mm, r) == IF r.ok THEN Push([mm EXCEPT !.h = r.h], r.v)
              ELSE IF r.kind = "excluded" THEN Excl(mm, r.why) ELSE Fail(mm, r.kind)
ResNoVal(mm, r) == IF r.ok THEN [mm EXCEPT !.h = r.h]
                   ELSE IF r.kind = "excluded" THEN Excl(mm, r.why) ELSE Fail(mm, r.kind)
Sched(mm, fs) == [mm EXCEPT !.ctl = fs \o @]

Ev(n) == [k |-> "ev", n |-> n]
Ex(n) == [k |-> "ex", n |-> n]
Lit(v) == [k |-> "lit", v |-> v]
EvOrUndef(n) == IF n = 0 THEN Lit(VUndef) ELSE Ev(n)

Rev(s) == [i \in 1..Len(s) |-> s[Len(s) + 1 - i]]

\* --------------------------------------------------------- reachability
\* Store ids reachable from a value (depth-bounded; used only to decide whether an
\* append whose sharing is unknown could be observed)
RECURSIVE SidsOf(_, _, _)
SidsOf(h, v, d) ==
  IF d > MaxDepth THEN {}
  ELSE CASE v.k = "array" -> {v.sid} \cup UNION {SidsOf(h, h.stores[v.sid][v.off + i], d + 1) : i \in 1..v.len}
    [] v.k = "map" -> LET t == TableOf(h, v) IN UNION {SidsOf(h, t[i].val, d + 1) : i \in 1..Len(t)}
    [] v.k = "error" -> SidsOf(h, v.v, d + 1)
    [] OTHER -> {}
FrameSids(h, f) == IF f.k = "loop" /\ f.t = "forin" /\ f.it.t = "array" THEN {f.it.sid}
                   ELSE IF f.k = "lit" THEN SidsOf(h, f.v, 0) ELSE {}
LiveSids(mm) == UNION ({SidsOf(mm.h, mm.cells[i], 0) : i \in 1..Len(mm.cells)}
                       \cup {SidsOf(mm.h, mm.vals[i], 0) : i \in 1..Len(mm.vals)}
                       \cup {FrameSids(mm.h, mm.ctl[i]) : i \in 1..Len(mm.ctl)})
\* stores that some live *mutable* array value points into
RECURSIVE MutSidsOf(_, _, _)
MutSidsOf(h, v, d) ==
  IF d > MaxDepth THEN {}
  ELSE CASE v.k = "array" -> (IF v.imm THEN {} ELSE {v.sid})
                             \cup UNION {MutSidsOf(h, h.stores[v.sid][v.off + i], d + 1) : i \in 1..v.len}
    [] v.k = "map" -> LET t == TableOf(h, v) IN UNION {MutSidsOf(h, t[i].val, d + 1) : i \in 1..Len(t)}
    [] v.k = "error" -> MutSidsOf(h, v.v, d + 1)
    [] OTHER -> {}
LiveMutSids(mm) == UNION ({MutSidsOf(mm.h, mm.cells[i], 0) : i \in 1..Len(mm.cells)}
                          \cup {MutSidsOf(mm.h, mm.vals[i], 0) : i \in 1..Len(mm.vals)}
                          \cup {FrameSids(mm.h, mm.ctl[i]) : i \in 1..Len(mm.ctl)})
\* An immutable array whose storage is also reachable through a mutable array is the case the
\* documentation does not settle (is a value derived from it a fresh array or "like Go"?)
ImmAliased(mm, a) == a.imm /\ a.sid \in LiveMutSids(mm)

\* tables that some live mutable map value points to
RECURSIVE MutMidsOf(_, _, _)
MutMidsOf(h, v, d) ==
  IF d > MaxDepth THEN {}
  ELSE CASE v.k = "map" -> (IF v.imm THEN {} ELSE {v.mid})
                           \cup LET t == TableOf(h, v) IN UNION {MutMidsOf(h, t[i].val, d + 1) : i \in 1..Len(t)}
    [] v.k = "array" -> UNION {MutMidsOf(h, h.stores[v.sid][v.off + i], d + 1) : i \in 1..v.len}
    [] v.k = "error" -> MutMidsOf(h, v.v, d + 1)
    [] OTHER -> {}
LiveMutMids(mm) == UNION ({MutMidsOf(mm.h, mm.cells[i], 0) : i \in 1..Len(mm.cells)}
                          \cup {MutMidsOf(mm.h, mm.vals[i], 0) : i \in 1..Len(mm.vals)})
\* C09 ghost: when a container becomes immutable and no mutable value shares its storage, its
\* (shallow) contents are recorded; the invariant ImmStable says they never change afterwards
Snapshot(mm, v) ==
  IF v.k = "array" /\ v.sid \notin LiveMutSids(mm) THEN {[k |-> "array", sid |-> v.sid, off |-> v.off, len |-> v.len, snap |-> ArrElems(mm.h, v)]}
  ELSE IF v.k = "map" /\ v.mid \notin LiveMutMids(mm) THEN {[k |-> "map", mid |-> v.mid, snap |-> TableOf(mm.h, v)]}
  ELSE {}

\* writing through store s could be observed through (or clobber) a store that may share with it
Hazard(mm, s, asSource) ==
  LET ps == IF asSource THEN Results(mm.h, s) ELSE Partners(mm.h, s)
  IN ps # {} /\ (ps \cap LiveSids(mm)) # {}

\* ---------------------------------------------------------------- builtins
IsKind(v, ks) == VBool(v.k \in ks)

\* append(arr, items...): Go semantics where Go is deterministic, fresh storage otherwise
Append_(mm, a, items) ==
  LET h == mm.h
      L == Len(h.stores[a.sid])
      end == a.off + a.len
      n == Len(items)
  IN IF end + n <= L
     THEN \* spare positions of the known store are overwritten in place, result shares it
          IF a.imm THEN \* an immutable array never hands out its storage (C09)
            NewArr(h, ArrElems(h, a) \o items)
          ELSE IF Hazard(mm, a.sid, FALSE) THEN Excluded("capacity")
          ELSE Ok([h EXCEPT !.stores[a.sid] = [i \in 1..L |-> IF i > end /\ i <= end + n THEN items[i - end] ELSE @[i]]],
                  VArr(FALSE, a.sid, a.off, a.len + n))
     ELSE IF ~a.imm /\ Hazard(mm, a.sid, TRUE) THEN Excluded("capacity")
     ELSE LET r == NewArr(h, ArrElems(h, a) \o items) IN
          IF a.imm THEN r
          ELSE Ok([r.h EXCEPT !.pairs = @ \cup {<<a.sid, r.v.sid>>}], r.v)

WrongArgs == Err("wrong_num_args")
BadArg == Err("invalid_arg_type")

ConvString(h, args) ==
  IF Len(args) \notin {1, 2} THEN WrongArgs
  ELSE LET s == ToStringConv(h, args[1]) IN
       IF s.conv THEN (IF ~s.ok THEN Excluded("string-of")
                       ELSE IF Len(s.b) > MaxStringLen THEN Err("string_limit") ELSE Ok(h, VStr(s.b)))
       ELSE Ok(h, IF Len(args) = 2 THEN args[2] ELSE VUndef)

ConvInt(h, args) ==
  IF Len(args) \notin {1, 2} THEN WrongArgs
  ELSE LET c == ToIntConv(args[1]) IN
       IF c.ok THEN (IF c.ex THEN Excluded("range") ELSE Ok(h, VInt(c.n)))
       ELSE Ok(h, IF Len(args) = 2 THEN args[2] ELSE VUndef)

ConvBool(h, args) ==
  IF Len(args) # 1 THEN WrongArgs ELSE Ok(h, VBool(~IsFalsy(h, args[1])))

ConvFloat(h, args) ==
  IF Len(args) \notin {1, 2} THEN WrongArgs
  ELSE LET v == args[1] IN
       CASE v.k = "float" -> Ok(h, v)
         [] v.k = "int" -> OkFloat(h, v.n * 16)
         [] v.k = "string" -> LET p == ParseInt(v.b) IN
                              IF p.ok THEN (IF p.big THEN Excluded("range") ELSE OkFloat(h, p.n * 16))
                              ELSE Excluded("float-parse")      \* strconv.ParseFloat is not modelled
         [] OTHER -> Ok(h, IF Len(args) = 2 THEN args[2] ELSE VUndef)

ConvChar(h, args) ==
  IF Len(args) \notin {1, 2} THEN WrongArgs
  ELSE LET v == args[1] IN
       CASE v.k = "char" -> Ok(h, v)
         [] v.k = "int" -> IF v.n >= 0 /\ v.n < 1114112 THEN Ok(h, VChar(v.n)) ELSE Excluded("range")
         [] OTHER -> Ok(h, IF Len(args) = 2 THEN args[2] ELSE VUndef)

ConvBytes(h, args) ==
  IF Len(args) \notin {1, 2} THEN WrongArgs
  ELSE LET v == args[1] IN
       CASE v.k = "bytes" -> Ok(h, v)
         [] v.k = "string" -> IF Len(v.b) > MaxBytesLen THEN Err("bytes_limit") ELSE Ok(h, VBytes(v.b))
         [] v.k = "int" -> IF v.n > MaxBytesLen THEN Err("bytes_limit")
                           ELSE IF v.n < 0 \/ v.n > 64 THEN Excluded("range")
                           ELSE Ok(h, VBytes([i \in 1..v.n |-> 0]))
         [] OTHER -> Ok(h, IF Len(args) = 2 THEN args[2] ELSE VUndef)

Builtin(mm, name, args) ==
  LET h == mm.h n == Len(args) IN
  CASE name = "len" ->
         IF n # 1 THEN WrongArgs
         ELSE LET v == args[1] IN
              (CASE v.k = "array" -> Ok(h, VInt(v.len))
                [] v.k \in {"string", "bytes"} -> Ok(h, VInt(Len(v.b)))
                [] v.k = "map" -> Ok(h, VInt(Len(TableOf(h, v))))
                [] OTHER -> BadArg)
    [] name = "copy" -> IF n # 1 THEN WrongArgs ELSE CopyDeep(h, args[1], 0)
    [] name = "append" ->
         IF n < 2 THEN WrongArgs
         ELSE IF args[1].k # "array" THEN BadArg
         ELSE Append_(mm, args[1], SubSeq(args, 2, n))
    [] name = "delete" ->
         IF n # 2 THEN WrongArgs
         ELSE IF args[1].k # "map" \/ args[1].imm THEN BadArg
         ELSE IF args[2].k # "string" THEN BadArg
         ELSE Ok([h EXCEPT !.tables[args[1].mid] = TableDel(@, args[2].b)], VUndef)
    [] name = "string" -> ConvString(h, args)
    [] name = "int" -> ConvInt(h, args)
    [] name = "bool" -> ConvBool(h, args)
    [] name = "float" -> ConvFloat(h, args)
    [] name = "char" -> ConvChar(h, args)
    [] name = "bytes" -> ConvBytes(h, args)
    [] name = "freeze" -> IF n # 1 THEN WrongArgs ELSE Freeze(h, args[1], 0)
    [] name = "type_name" ->
         IF n # 1 THEN WrongArgs
         ELSE IF args[1].k \in {"builtin", "hostfn"} THEN Excluded("type-name")
         ELSE Ok(h, VStr(Ascii(TypeName(args[1]))))
    [] name \in {"is_int", "is_float", "is_string", "is_bool", "is_char", "is_bytes", "is_error", "is_undefined"} ->
         IF n # 1 THEN WrongArgs
         ELSE Ok(h, IsKind(args[1], {CASE name = "is_int" -> "int" [] name = "is_float" -> "float"
                                       [] name = "is_string" -> "string" [] name = "is_bool" -> "bool"
                                       [] name = "is_char" -> "char" [] name = "is_bytes" -> "bytes"
                                       [] name = "is_error" -> "error" [] name = "is_undefined" -> "undef"}))
    [] name = "is_array" -> IF n # 1 THEN WrongArgs ELSE Ok(h, VBool(args[1].k = "array" /\ ~args[1].imm))
    [] name = "is_immutable_array" -> IF n # 1 THEN WrongArgs ELSE Ok(h, VBool(args[1].k = "array" /\ args[1].imm))
    [] name = "is_map" -> IF n # 1 THEN WrongArgs ELSE Ok(h, VBool(args[1].k = "map" /\ ~args[1].imm))
    [] name = "is_immutable_map" -> IF n # 1 THEN WrongArgs ELSE Ok(h, VBool(args[1].k = "map" /\ args[1].imm))
    [] name = "is_time" -> IF n # 1 THEN WrongArgs ELSE Ok(h, VBool(FALSE))
    [] name = "is_function" -> IF n # 1 THEN WrongArgs ELSE Ok(h, VBool(args[1].k = "func"))
    [] name = "is_callable" -> IF n # 1 THEN WrongArgs ELSE Ok(h, VBool(args[1].k \in {"func", "builtin", "hostfn"}))
    [] name = "is_iterable" -> IF n # 1 THEN WrongArgs
                               ELSE Ok(h, VBool(args[1].k \in {"array", "map", "string", "bytes", "undef"}))
    [] name = "range" ->   \* range(start, stop[, step]): ints from start towards stop (exclusive), step > 0
         IF n < 2 \/ n > 3 THEN WrongArgs
         ELSE IF \E i \in 1..n : args[i].k # "int" THEN BadArg
         ELSE IF n = 3 /\ args[3].n <= 0 THEN Err("range_step")
         ELSE LET a == args[1].n b == args[2].n st == IF n = 3 THEN args[3].n ELSE 1
                  cnt == IF a <= b THEN (b - a + st - 1) \div st ELSE (a - b + st - 1) \div st
              IN IF cnt > 64 THEN Excluded("range")
                 ELSE NewArr(h, [i \in 1..cnt |-> VInt(IF a <= b THEN a + (i - 1) * st ELSE a - (i - 1) * st)])
    [] OTHER -> Excluded("builtin-not-modelled")

\* ------------------------------------------------------------------- calls
\* Frames up to and including the first frame satisfying Stop are removed; returns [f, rest]
RECURSIVE Unwind(_, _)
Unwind(ctl, ks) == IF Len(ctl) = 0 THEN [found |-> FALSE]
                   ELSE IF Head(ctl).k \in ks THEN [found |-> TRUE, f |-> Head(ctl), rest |-> Tail(ctl)]
                   ELSE Unwind(Tail(ctl), ks)

RECURSIVE BindParams(_, _, _, _)
BindParams(mm, params, args, i) ==
  IF i > Len(params) THEN mm ELSE BindParams(BindFresh(mm, params[i], args[i]), params, args, i + 1)

CallFn(P, mm, callee, args, rest) ==
  LET fnode == Nd(P, callee.fn)
      np == Len(fnode.params)
      na == Len(args)
      RetMark == [k |-> "retmark", env |-> mm.env, fd |-> mm.fd, cur |-> mm.cur, calls |-> mm.calls,
                  modtop |-> mm.modtop]
      Enter(m1, as) ==
        LET m2 == BindParams(Mark([m1 EXCEPT !.env = callee.env]), fnode.params, as, 1) IN
        [m2 EXCEPT !.fd = mm.fd + 1, !.calls = <<mm.cur>> \o mm.calls, !.modtop = FALSE,
                   !.ctl = <<Ex(fnode.body), [k |-> "fallret"], RetMark>> \o rest]
  IN IF fnode.va
     THEN IF na < np - 1 THEN Fail(mm, "wrong_num_args")
          ELSE LET r == NewArr(mm.h, SubSeq(args, np, na)) IN
               Enter([mm EXCEPT !.h = r.h], SubSeq(args, 1, np - 1) \o <<r.v>>)
     ELSE IF na # np THEN Fail(mm, "wrong_num_args")
     ELSE Enter(mm, args)

DoCall(P, mm, f) ==   \* frame [k: "call", n, spread]
  LET raw == Rev(SubSeq(mm.vals, 1, f.n))
      callee == mm.vals[f.n + 1]
      m1 == Drop(mm, f.n + 1)
  IN IF callee.k \notin {"func", "builtin", "hostfn"} THEN Fail(mm, "not_callable")
     ELSE IF f.spread /\ raw[f.n].k # "array" THEN Fail(mm, "not_an_array")
     ELSE LET args == IF f.spread THEN SubSeq(raw, 1, f.n - 1) \o ArrElems(mm.h, raw[f.n]) ELSE raw IN
          IF callee.k = "func" THEN CallFn(P, m1, callee, args, m1.ctl)
          ELSE IF callee.k = "hostfn" THEN
            \* functions provided by the host: "hostfail" returns a Go error, "hostpanic" panics (recovered by
            \* RunContext), "hostid" returns its first argument
            (CASE callee.name = "hostfail" -> Fail(m1, "host_error")
               [] callee.name = "hostpanic" -> Fail(m1, "host_panic")
               [] OTHER -> Push(m1, IF Len(args) > 0 THEN args[1] ELSE VUndef))
          ELSE Res(m1, Builtin(m1, callee.name, args))

DoReturn(mm, v) ==
  LET u == Unwind(mm.ctl, {"retmark"}) IN
  IF ~u.found THEN CompErr(mm, "return_outside_function", mm.cur)
  ELSE Push([mm EXCEPT !.ctl = u.rest, !.env = u.f.env, !.fd = u.f.fd, !.cur = u.f.cur, !.calls = u.f.calls,
                       !.modtop = u.f.modtop], v)

\* ------------------------------------------------------------- expressions
StepEv(P, mm, n) ==   \* mm.ctl already popped
  LET nd == Nd(P, n) IN
  CASE nd.t = "int" -> Push(mm, VInt(nd.v))
    [] nd.t = "float" -> Push(mm, VFloat(nd.q))
    [] nd.t = "bool" -> Push(mm, VBool(nd.v))
    [] nd.t = "undef" -> Push(mm, VUndef)
    [] nd.t = "char" -> Push(mm, VChar(nd.c))
    [] nd.t = "str" -> IF Len(nd.b) > MaxStringLen THEN CompErr(mm, "string_limit", n) ELSE Push(mm, VStr(nd.b))
    [] nd.t = "id" ->
         LET c == Lookup(mm.envs, mm.env, nd.name) IN
         IF c # 0 THEN Push(mm, mm.cells[c])
         ELSE IF nd.name \in BuiltinNames THEN Push(mm, VBuiltin(nd.name))
         ELSE CompErr(mm, "unresolved_reference", n)
    [] nd.t = "arr" -> Sched(mm, [i \in 1..Len(nd.el) |-> Ev(nd.el[i])] \o <<[k |-> "mkarr", n |-> Len(nd.el)]>>)
    [] nd.t = "map" -> Sched(mm, [i \in 1..Len(nd.vals) |-> Ev(nd.vals[i])] \o <<[k |-> "mkmap", keys |-> nd.keys]>>)
    [] nd.t = "un" -> Sched(mm, <<Ev(nd.e), [k |-> "un", op |-> nd.op]>>)
    [] nd.t = "bin" -> Sched(mm, <<Ev(nd.l), Ev(nd.r), [k |-> "bin", op |-> nd.op]>>)
    [] nd.t = "and" -> Sched(mm, <<Ev(nd.l), [k |-> "andj", r |-> nd.r]>>)
    [] nd.t = "or" -> Sched(mm, <<Ev(nd.l), [k |-> "orj", r |-> nd.r]>>)
    [] nd.t = "cond" -> Sched(mm, <<Ev(nd.c), [k |-> "condj", a |-> nd.a, b |-> nd.b]>>)
    [] nd.t = "idx" -> Sched(mm, <<Ev(nd.e), Ev(nd.i), [k |-> "index"]>>)
    [] nd.t = "sel" -> IF Len(nd.key) > MaxStringLen THEN CompErr(mm, "string_limit", n)   \* a selector is a string literal
                       ELSE Sched(mm, <<Ev(nd.e), Lit(VStr(nd.key)), [k |-> "index"]>>)
    [] nd.t = "slice" -> Sched(mm, <<Ev(nd.e), EvOrUndef(nd.lo), EvOrUndef(nd.hi), [k |-> "slice"]>>)
    [] nd.t = "call" -> Sched(mm, <<Ev(nd.f)>> \o [i \in 1..Len(nd.args) |-> Ev(nd.args[i])]
                                   \o <<[k |-> "call", n |-> Len(nd.args), spread |-> nd.spread]>>)
    [] nd.t = "fn" -> Push(mm, [k |-> "func", fn |-> n, env |-> mm.env])
    [] nd.t = "err" -> Sched(mm, <<Ev(nd.e), [k |-> "mkerr"]>>)
    [] nd.t = "imm" -> Sched(mm, <<Ev(nd.e), [k |-> "mkimm"]>>)
    [] nd.t = "imp" ->
         IF nd.root = 0 THEN (IF nd.std THEN Excl(mm, "builtin-module") ELSE CompErr(mm, "module_not_found", n))
         ELSE \* a source module: its body runs afresh, in an environment with builtins only
              [mm EXCEPT !.env = 0, !.fd = mm.fd + 1, !.calls = <<mm.cur>> \o mm.calls, !.modtop = TRUE,
                         !.ctl = <<Ex(nd.root), [k |-> "fallret"],
                                   [k |-> "retmark", env |-> mm.env, fd |-> mm.fd, cur |-> mm.cur,
                                    calls |-> mm.calls, modtop |-> mm.modtop]>> \o @]

UnOp(h, op, v) ==
  CASE op = "!" -> Ok(h, VBool(IsFalsy(h, v)))
    [] op = "-" -> IF v.k = "int" THEN OkInt(h, 0 - v.n)
                   ELSE IF v.k = "float" THEN (IF v.q = 0 THEN Excluded("float") ELSE OkFloat(h, 0 - v.q))
                   ELSE Err("invalid_operation")
    [] op = "^" -> IF v.k = "int" THEN OkInt(h, 0 - v.n - 1) ELSE Err("invalid_operation")
    [] op = "+" -> Ok(h, v)

\* -------------------------------------------------------------- statements
CompoundOp(op) == CASE op = "+=" -> "+" [] op = "-=" -> "-" [] op = "*=" -> "*" [] op = "/=" -> "/"
                    [] op = "%=" -> "%" [] op = "&=" -> "&" [] op = "|=" -> "|" [] op = "^=" -> "^"
                    [] op = "&^=" -> "&^" [] op = "<<=" -> "<<" [] op = ">>=" -> ">>"

StepEx(P, mm0, n) ==
  LET nd == Nd(P, n)
      mm == [mm0 EXCEPT !.cur = IF nd.t \in {"blk", "top"} THEN @ ELSE n]
  IN
  CASE nd.t = "expr" -> Sched(mm, <<Ev(nd.e), [k |-> "pop"]>>)
    [] nd.t = "def" ->
         IF LookupBlock(mm.envs, mm.env, nd.name) # 0 THEN CompErr(mm, "redeclared", n)
         \* at the root of the main program the builtin functions live in the same block
         ELSE IF nd.name \in BuiltinNames /\ mm.fd = 0 /\ AtRoot(mm.envs, mm.env) THEN CompErr(mm, "redeclared", n)
         ELSE IF nd.isfn
           THEN LET m2 == BindDecl(mm, <<n, 0>>, nd.name, VUndef) IN
                Sched(m2, <<Ev(nd.e), [k |-> "assigncell", c |-> m2.envs[m2.env].cell]>>)
           ELSE Sched(mm, <<Ev(nd.e), [k |-> "def", name |-> nd.name, n |-> n]>>)
    [] nd.t = "set" ->
         LET ns == Len(nd.sels)
             store == IF ns = 0 THEN <<[k |-> "assign", name |-> nd.name, n |-> n]>>
                      ELSE [i \in 1..ns |-> Ev(nd.sels[ns + 1 - i])] \o <<[k |-> "setsel", name |-> nd.name, ns |-> ns, n |-> n]>>
         IN IF Lookup(mm.envs, mm.env, nd.name) = 0 THEN CompErr(mm, "unresolved_reference", n)
            ELSE IF nd.op = "=" THEN Sched(mm, <<Ev(nd.e)>> \o store)
            ELSE Sched(mm, <<[k |-> "getname", name |-> nd.name]>>
                           \o [i \in 1..(2 * ns) |-> IF i % 2 = 1 THEN Ev(nd.sels[(i + 1) \div 2]) ELSE [k |-> "index"]]
                           \o <<Ev(nd.e), [k |-> "bin", op |-> CompoundOp(nd.op)]>> \o store)
    [] nd.t = "if" ->
         LET m2 == Mark(mm) IN
         Sched(m2, (IF nd.init = 0 THEN <<>> ELSE <<Ex(nd.init)>>)
                   \o <<[k |-> "setcur", n |-> n], Ev(nd.c), [k |-> "ifj", a |-> nd.a, b |-> nd.b],
                        [k |-> "envrestore", env |-> mm.env]>>)
    [] nd.t = "for" ->
         LET m2 == Mark(mm) IN
         Sched(m2, (IF nd.init = 0 THEN <<>> ELSE <<Ex(nd.init)>>)
                   \o <<[k |-> "forstart", n |-> n, envout |-> mm.env]>>)
    [] nd.t = "forin" -> Sched(mm, <<Ev(nd.it), [k |-> "forinit", n |-> n]>>)
    [] nd.t = "brk" ->
         LET u == Unwind(mm.ctl, {"loop", "retmark"}) IN
         IF ~u.found \/ u.f.k = "retmark" THEN CompErr(mm, "branch_outside_loop", n)
         ELSE [mm EXCEPT !.ctl = u.rest, !.env = u.f.envout]
    [] nd.t = "cont" ->
         LET u == Unwind(mm.ctl, {"loop", "retmark"}) IN
         IF ~u.found \/ u.f.k = "retmark" THEN CompErr(mm, "branch_outside_loop", n)
         ELSE [mm EXCEPT !.ctl = <<u.f>> \o u.rest, !.env = u.f.env]
    [] nd.t = "ret" ->
         IF mm.fd = 0 THEN CompErr(mm, "return_outside_function", n)
         ELSE Sched(mm, <<EvOrUndef(nd.e), [k |-> "doret"]>>)
    [] nd.t = "exp" ->
         IF mm.fd = 0 THEN mm                               \* ignored in the main program
         ELSE IF ~mm.modtop THEN CompErr(mm, "export_inside_function", n)
         ELSE Sched(mm, <<Ev(nd.e), [k |-> "mkimm"], [k |-> "doret"]>>)
    [] nd.t = "blk" ->
         IF Len(nd.st) = 0 THEN mm
         ELSE Sched(Mark(mm), [i \in 1..Len(nd.st) |-> Ex(nd.st[i])] \o <<[k |-> "envrestore", env |-> mm.env]>>)
    [] nd.t = "top" -> Sched(mm, [i \in 1..Len(nd.st) |-> Ex(nd.st[i])])

\* all orders in which the keys of a table may be visited
RECURSIVE Perms(_)
Perms(S) == IF S = {} THEN {<<>>} ELSE UNION {{<<x>> \o p : p \in Perms(S \ {x})} : x \in S}

IterOf(h, v) ==   \* set of possible iterators (more than one only for maps)
  CASE v.k = "array" -> {[t |-> "array", sid |-> v.sid, off |-> v.off, len |-> v.len]}
    [] v.k = "string" -> LET rs == Runes(v.b) IN {[t |-> "seq", items |-> [i \in 1..Len(rs) |-> VChar(rs[i])]]}
    [] v.k = "bytes" -> {[t |-> "seq", items |-> [i \in 1..Len(v.b) |-> VInt(v.b[i])]]}
    [] v.k = "undef" -> {[t |-> "seq", items |-> <<>>]}
    [] v.k = "map" -> {[t |-> "map", mid |-> v.mid, keys |-> p] : p \in Perms(TableKeys(TableOf(h, v)))}
    [] OTHER -> {}

IterLen(it) == CASE it.t = "array" -> it.len [] it.t = "seq" -> Len(it.items) [] it.t = "map" -> Len(it.keys)
IterKey(it, i) == IF it.t = "map" THEN VStr(it.keys[i]) ELSE VInt(i - 1)
IterVal(h, it, i) == CASE it.t = "array" -> h.stores[it.sid][it.off + i]
                       [] it.t = "seq" -> it.items[i]
                       [] it.t = "map" -> TableGet(h.tables[it.mid], it.keys[i])   \* deleted meanwhile: undefined

\* ------------------------------------------------------------------ frames
Steps(P, mm0) ==   \* the set of successor machine states
  LET f == Head(mm0.ctl)
      mm == [mm0 EXCEPT !.ctl = Tail(@), !.steps = @ + 1]
      top == mm.vals[1]
  IN
  CASE f.k = "ev" -> {StepEv(P, mm, f.n)}
    [] f.k = "ex" -> {StepEx(P, mm, f.n)}
    [] f.k = "lit" -> {Push(mm, f.v)}
    [] f.k = "pop" -> {Drop(mm, 1)}
    [] f.k = "setcur" -> {[mm EXCEPT !.cur = f.n]}
    [] f.k = "envrestore" -> {[mm EXCEPT !.env = f.env]}
    [] f.k = "mkarr" -> {Res(Drop(mm, f.n), NewArr(mm.h, Rev(SubSeq(mm.vals, 1, f.n))))}
    [] f.k = "mkmap" ->
         LET n == Len(f.keys)
             vs == Rev(SubSeq(mm.vals, 1, n))
             RECURSIVE build(_, _)
             build(i, t) == IF i > n THEN t ELSE build(i + 1, TablePut(t, f.keys[i], vs[i]))
             h2 == NewTable(mm.h, build(1, <<>>))
         IN IF \E i \in 1..n : Len(f.keys[i]) > MaxStringLen THEN {CompErr(mm, "string_limit", mm.cur)}
            ELSE {Push([Drop(mm, n) EXCEPT !.h = h2], VMap(FALSE, Len(h2.tables)))}
    [] f.k = "mkerr" -> {Push([Drop(mm, 1) EXCEPT !.h.nerr = @ + 1], VErr(mm.h.nerr + 1, top))}
    [] f.k = "mkimm" -> {IF top.k \in {"array", "map"}
                         THEN LET m1 == Drop(mm, 1) IN Push([m1 EXCEPT !.imms = @ \cup Snapshot(m1, top)], [top EXCEPT !.imm = TRUE])
                         ELSE mm}
    [] f.k = "un" -> {Res(Drop(mm, 1), UnOp(mm.h, f.op, top))}
    [] f.k = "bin" ->
         LET l == mm.vals[2] r == mm.vals[1] IN
         {IF f.op = "==" THEN Push(Drop(mm, 2), VBool(Equals(mm.h, l, r, 0)))
          ELSE IF f.op = "!=" THEN Push(Drop(mm, 2), VBool(~Equals(mm.h, l, r, 0)))
          ELSE Res(Drop(mm, 2), BinOp(mm.h, f.op, l, r))}
    [] f.k = "andj" -> {IF IsFalsy(mm.h, top) THEN mm ELSE Sched(Drop(mm, 1), <<Ev(f.r)>>)}
    [] f.k = "orj" -> {IF IsFalsy(mm.h, top) THEN Sched(Drop(mm, 1), <<Ev(f.r)>>) ELSE mm}
    [] f.k = "condj" -> {Sched(Drop(mm, 1), <<Ev(IF IsFalsy(mm.h, top) THEN f.b ELSE f.a)>>)}
    [] f.k = "index" -> {Res(Drop(mm, 2), IndexGet(mm.h, mm.vals[2], mm.vals[1]))}
    [] f.k = "slice" -> {Res(Drop(mm, 3), SliceOf(mm.h, mm.vals[3], mm.vals[2], mm.vals[1]))}
    [] f.k = "call" -> {DoCall(P, mm, f)}
    [] f.k = "doret" -> {DoReturn(Drop(mm, 1), top)}
    [] f.k = "fallret" -> {DoReturn(mm, VUndef)}
    [] f.k = "retmark" -> {Excl(mm, "internal-retmark")}
    [] f.k = "def" -> {BindDecl(Drop(mm, 1), <<f.n, 0>>, f.name, top)}
    [] f.k = "assigncell" -> {[Drop(mm, 1) EXCEPT !.cells[f.c] = top]}
    [] f.k = "getname" -> {Push(mm, mm.cells[Lookup(mm.envs, mm.env, f.name)])}
    [] f.k = "assign" -> {[Drop(mm, 1) EXCEPT !.cells[Lookup(mm.envs, mm.env, f.name)] = top]}
    [] f.k = "setsel" ->
         \* vals: sel_1 (top) .. sel_ns, value
         LET sels == SubSeq(mm.vals, 1, f.ns)
             val == mm.vals[f.ns + 1]
             m1 == Drop(mm, f.ns + 1)
             RECURSIVE walk(_, _)
             walk(dst, j) == IF j = f.ns THEN [ok |-> TRUE, v |-> dst]
                             ELSE LET r == IndexGet(mm.h, dst, sels[j]) IN
                                  IF ~r.ok THEN r ELSE walk(r.v, j + 1)
             w == walk(mm.cells[Lookup(mm.envs, mm.env, f.name)], 1)
         IN {IF ~w.ok THEN (IF w.kind = "excluded" THEN Excl(m1, w.why) ELSE Fail(m1, w.kind))
             ELSE IF w.v.k = "array" /\ ~w.v.imm /\ Hazard(mm, w.v.sid, FALSE) THEN Excl(m1, "capacity")
             ELSE ResNoVal(m1, IndexSet(mm.h, w.v, sels[f.ns], val))}
    [] f.k = "ifj" -> {IF ~IsFalsy(mm.h, top) THEN Sched(Drop(mm, 1), <<Ex(f.a)>>)
                       ELSE IF f.b # 0 THEN Sched(Drop(mm, 1), <<Ex(f.b)>>) ELSE Drop(mm, 1)}
    [] f.k = "forstart" ->
         {Sched(mm, <<[k |-> "loop", t |-> "for", n |-> f.n, stage |-> "cond", env |-> mm.env, envout |-> f.envout]>>)}
    [] f.k = "forinit" ->
         LET its == IterOf(mm.h, top) m1 == Drop(mm, 1) IN
         IF its = {} THEN {Fail(m1, "not_iterable")}
         ELSE IF Cardinality(its) > 1 /\ m1.br >= MaxBranchings THEN {Excl(m1, "map-order-budget")}
         ELSE {Sched(Mark([m1 EXCEPT !.br = IF Cardinality(its) > 1 THEN @ + 1 ELSE @]), <<[k |-> "loop", t |-> "forin", n |-> f.n, stage |-> "next", it |-> it, i |-> 1,
                                  env |-> Len(m1.envs) + 1, envout |-> m1.env]>>) : it \in its}
    [] f.k = "loop" ->
         LET nd == Nd(P, f.n) IN
         IF f.t = "for" THEN
           CASE f.stage = "cond" ->
                  {IF nd.c = 0
                   THEN Sched([mm EXCEPT !.env = f.env, !.cur = f.n], <<Ex(nd.body), [f EXCEPT !.stage = "post"]>>)
                   ELSE Sched([mm EXCEPT !.env = f.env, !.cur = f.n], <<Ev(nd.c), [f EXCEPT !.stage = "test"]>>)}
             [] f.stage = "test" ->
                  {IF IsFalsy(mm.h, top) THEN [Drop(mm, 1) EXCEPT !.env = f.envout]
                   ELSE Sched(Drop(mm, 1), <<Ex(nd.body), [f EXCEPT !.stage = "post"]>>)}
             [] f.stage = "post" ->
                  {Sched([mm EXCEPT !.env = f.env],
                         (IF nd.post = 0 THEN <<>> ELSE <<Ex(nd.post)>>) \o <<[f EXCEPT !.stage = "cond"]>>)}
         ELSE \* forin
           {IF f.i > IterLen(f.it) THEN [mm EXCEPT !.env = f.envout]
            ELSE LET m1 == [mm EXCEPT !.env = f.env, !.cur = f.n]
                     m2 == IF nd.k = "" THEN m1 ELSE BindDecl(m1, <<f.n, 1>>, nd.k, IterKey(f.it, f.i))
                     m3 == BindDecl(m2, <<f.n, 2>>, nd.v, IterVal(mm.h, f.it, f.i))
                 IN Sched(m3, <<Ex(nd.body), [f EXCEPT !.i = @ + 1]>>)}

\* ------------------------------------------------------------------ driver


Start(P) ==
  LET RECURSIVE addInputs(_, _)
      addInputs(mm, i) == IF i > Len(P.inputs) THEN mm
                          ELSE LET r == P.inputs[i]
                                   iv == Intern(mm.h, r[2], 0)
                               IN addInputs(BindFresh([mm EXCEPT !.h = iv.h], r[1], iv.v), i + 1)
      m0 == [ctl |-> <<Ex(P.root)>>, vals |-> <<>>, env |-> 0, envs |-> <<>>, cells |-> <<>>, h |-> EmptyHeap,
             fd |-> 0, decl |-> <<>>, cur |-> 0, calls |-> <<>>, out |-> [k |-> "running"], steps |-> 0,
             modtop |-> FALSE, br |-> 0, imms |-> {}]
  IN addInputs(m0, 1)

\* names bound at the root of the global scope, with their reified final values
RECURSIVE RootNames(_, _, _)
RootNames(envs, e, acc) == IF e = 0 THEN acc
                           ELSE RootNames(envs, envs[e].p,
                                          IF envs[e].name \in {acc[i][1] : i \in 1..Len(acc)} \/ envs[e].name = ""
                                          THEN acc ELSE Append(acc, <<envs[e].name, envs[e].cell>>))
Globals(mm) == LET ns == RootNames(mm.envs, mm.env, <<>>) IN
               [i \in 1..Len(ns) |-> <<ns[i][1], Reify(mm.h, mm.cells[ns[i][2]], 0)>>]

Done(mm) == Len(mm.ctl) = 0
Outcome(mm) == IF mm.out.k # "running" THEN mm.out ELSE [k |-> "ok", g |-> Globals(mm)]

Init == pi = 1 /\ m = Start(Progs[1])

Run == /\ ~Done(m)
       /\ IF m.steps >= StepBound THEN m' = Excl(m, "steps") ELSE m' \in Steps(Progs[pi], m)
       /\ pi' = pi

NextProg == /\ Done(m)
            /\ pi < Len(Progs)
            /\ pi' = pi + 1
            /\ m' = Start(Progs[pi + 1])

Next == Run \/ NextProg
Spec == Init /\ [][Next]_<<pi, m>>

\* Emission: one line per way a program can end (several for map-order dependent programs)
EmitOutcome == Done(m) => PrintT(<<"OUT", ToJson([id |-> Progs[pi].id, o |-> Outcome(m)])>>)

\* Invariants of the machine itself
EnvForest == \A e \in 1..Len(m.envs) : m.envs[e].p < e
ImmStable == \A r \in m.imms :
                IF r.k = "array" THEN [i \in 1..r.len |-> m.h.stores[r.sid][r.off + i]] = r.snap
                ELSE m.h.tables[r.mid] = r.snap
ValsSane == Done(m) /\ m.out.k = "running" => Len(m.vals) = 0
=============================================================================
