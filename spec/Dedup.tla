------------------------------- MODULE Dedup -------------------------------
(***************************************************************************)
(* Constant de-duplication (bytecode.go RemoveDuplicates/updateConstIndexes)*)
(* on an abstract bytecode:                                                 *)
(*   consts : Seq([k, v])  k in {"int","string","float","char"} compared by *)
(*            value v; "fn" compared by identity v (the function's id);     *)
(*            "mod" builtin-module tables compared by module name v;        *)
(*            "anon" immutable maps without a module name: never merged     *)
(*   fns    : Seq([id, refs]) the main function (id "main") and every       *)
(*            function constant; refs is the sequence of constant           *)
(*            references of its code, [op, i, n] with op "C" (CONST i) or   *)
(*            "L" (CLOSURE i n), i a 0-based constant index                 *)
(* Pass 1 builds the de-duplicated pool and the old->new index map with one *)
(* table per kind; pass 2 rewrites the references of the main function and  *)
(* of every function that is in the *new* pool (each exactly once).         *)
(***************************************************************************)
EXTENDS Integers, Sequences, FiniteSets, TLC

Mergeable(c) == c.k \notin {"anon", "other"}     \* "other": any object a custom Importable handed out
Same(a, b) == a.k = b.k /\ a.v = b.v /\ Mergeable(a)

\* pass 1: fold over the pool
RECURSIVE Pass1(_, _, _, _)
Pass1(consts, i, pool, imap) ==   \* imap: sequence, imap[i] = new 0-based index of old constant i-1
  IF i > Len(consts) THEN [pool |-> pool, imap |-> imap]
  ELSE LET c == consts[i]
           J == {j \in 1..Len(pool) : Same(pool[j], c)}
       IN IF J # {} THEN Pass1(consts, i + 1, pool, Append(imap, (CHOOSE j \in J : TRUE) - 1))
          ELSE Pass1(consts, i + 1, Append(pool, c), Append(imap, Len(pool)))

Remap(refs, imap) == [r \in 1..Len(refs) |-> [refs[r] EXCEPT !.i = imap[refs[r].i + 1]]]

RemoveDuplicates(bc) ==
  LET p == Pass1(bc.consts, 1, <<>>, <<>>)
      inPool(id) == id = "main" \/ \E j \in 1..Len(p.pool) : p.pool[j].k = "fn" /\ p.pool[j].v = id
  IN [consts |-> p.pool,
      \* functions that are not (or no longer) in the pool keep their references: nobody can load them
      fns |-> [f \in 1..Len(bc.fns) |-> IF inPool(bc.fns[f].id) THEN [bc.fns[f] EXCEPT !.refs = Remap(@, p.imap)] ELSE bc.fns[f]],
      imap |-> p.imap]

\* ---- properties -----------------------------------------------------------
WellFormed(bc) == \A f \in 1..Len(bc.fns) : \A r \in 1..Len(bc.fns[f].refs) :
                     LET x == bc.fns[f].refs[r] IN x.i >= 0 /\ x.i < Len(bc.consts) /\ (x.op = "L" => bc.consts[x.i + 1].k = "fn")
Live(bc, f) == bc.fns[f].id = "main" \/ \E j \in 1..Len(bc.consts) : bc.consts[j].k = "fn" /\ bc.consts[j].v = bc.fns[f].id

RefsPreserved(bc, out) ==   \* every reference of every loadable function denotes an equal constant, with the same operator
  \A f \in 1..Len(bc.fns) : Live(bc, f) =>
    /\ Len(out.fns[f].refs) = Len(bc.fns[f].refs)
    /\ \A r \in 1..Len(bc.fns[f].refs) :
         LET a == bc.fns[f].refs[r] b == out.fns[f].refs[r] IN
         /\ a.op = b.op /\ a.n = b.n
         /\ b.i >= 0 /\ b.i < Len(out.consts)
         /\ LET ca == bc.consts[a.i + 1] cb == out.consts[b.i + 1] IN ca.k = cb.k /\ ca.v = cb.v
NoDuplicatesLeft(out) == \A i, j \in 1..Len(out.consts) : i # j => ~Same(out.consts[i], out.consts[j])
NothingLost(bc, out) == \A i \in 1..Len(bc.consts) : \E j \in 1..Len(out.consts) :
                            out.consts[j].k = bc.consts[i].k /\ out.consts[j].v = bc.consts[i].v
Idempotent(out) == LET again == RemoveDuplicates([consts |-> out.consts, fns |-> out.fns]) IN
                   again.consts = out.consts /\ again.fns = out.fns

Props(bc) == LET out == RemoveDuplicates(bc) IN
  [refs |-> RefsPreserved(bc, out), nodup |-> NoDuplicatesLeft(out), nothing_lost |-> NothingLost(bc, out),
   idempotent |-> Idempotent(out), wellformed |-> WellFormed([consts |-> out.consts, fns |-> SelectSeq(out.fns, LAMBDA f : TRUE)])]
Holds(bc) == LET p == Props(bc) IN p.refs /\ p.nodup /\ p.nothing_lost /\ p.idempotent

\* ---- exhaustive exploration of small bytecodes ------------------------------
CONSTANTS MaxConsts, MaxRefs

Kinds == {"int", "string", "fn", "mod", "anon"}
ConstVals == {"x", "y"}
FnIds == {"f", "g"}
ConstSet == [k : {"int", "string", "mod", "anon"}, v : ConstVals] \cup [k : {"fn"}, v : FnIds]

VARIABLE bc
Init == bc = [consts |-> <<>>, fns |-> <<[id |-> "main", refs |-> <<>>], [id |-> "f", refs |-> <<>>], [id |-> "g", refs |-> <<>>]>>]
AddConst == /\ Len(bc.consts) < MaxConsts
            /\ \A f \in 1..Len(bc.fns) : Len(bc.fns[f].refs) = 0       \* constants first, then references
            /\ \E c \in ConstSet : bc' = [bc EXCEPT !.consts = Append(@, c)]
AddRef == /\ Len(bc.consts) > 0
          /\ \E f \in 1..Len(bc.fns) :
               /\ Len(bc.fns[f].refs) < MaxRefs
               /\ \A g \in (f + 1)..Len(bc.fns) : Len(bc.fns[g].refs) = 0  \* canonical order of construction
               /\ \E i \in 0..(Len(bc.consts) - 1) :
                    \/ bc' = [bc EXCEPT !.fns[f].refs = Append(@, [op |-> "C", i |-> i, n |-> 0])]
                    \/ /\ bc.consts[i + 1].k = "fn"
                       /\ bc' = [bc EXCEPT !.fns[f].refs = Append(@, [op |-> "L", i |-> i, n |-> 1])]
Next == AddConst \/ AddRef
Spec == Init /\ [][Next]_bc
Inv == WellFormed(bc) => Holds(bc)
=============================================================================
