package main

import (
	"fmt"
	"math/rand"
)

// Family "tailcalls": self-recursive functions in every tail / non-tail form, with 0-3 extra
// parameters, variadics, locals and closures capturing parameters.  Meta carries the depth, the
// form and whether the form is a tail position (so the deep runs know what to expect).
type tcForm struct {
	name string
	tail bool
	// body of f(n, acc...) given the recursive call expression `rec` and the base value `base`
	mk func(rec *Node, base *Node) []*Node
}

func tcForms() []tcForm {
	stop := func(base *Node) *Node { return If(nil, Bin("<=", Id("n"), Int(0)), Blk(Ret(base)), nil) }
	return []tcForm{
		{"return-call", true, func(rec, base *Node) []*Node { return []*Node{stop(base), Ret(rec)} }},
		{"and-call", true, func(rec, base *Node) []*Node { return []*Node{stop(base), Ret(Bin("&&", Bin(">", Id("n"), Int(0)), rec))} }},
		{"or-call", true, func(rec, base *Node) []*Node { return []*Node{stop(base), Ret(Bin("||", Bin("<", Id("n"), Int(0)), rec))} }},
		{"ternary-call", false, func(rec, base *Node) []*Node { return []*Node{stop(base), Ret(Cond(Bin(">", Id("n"), Int(0)), rec, Int(-1)))} }},
		{"if-else-return", true, func(rec, base *Node) []*Node {
			return []*Node{If(nil, Bin("<=", Id("n"), Int(0)), Blk(Ret(base)), Blk(Ret(rec)))}
		}},
		{"local-then-return-call", true, func(rec, base *Node) []*Node {
			return []*Node{stop(base), Def("t", Bin("+", Id("n"), Int(1))), Def("u", Arr(Id("t"))), Ret(rec)}
		}},
		{"plus-call", false, func(rec, base *Node) []*Node { return []*Node{stop(base), Ret(Bin("+", rec, Int(0)))} }},
		{"index-call", false, func(rec, base *Node) []*Node { return []*Node{stop(base), Ret(Idx(Arr(rec), Int(0)))} }},
		{"assign-then-return", false, func(rec, base *Node) []*Node { return []*Node{stop(base), Def("x", rec), Ret(Id("x"))} }},
		{"call-then-more", false, func(rec, base *Node) []*Node { return []*Node{stop(base), Def("x", rec), Def("y", Int(1)), Ret(Id("x"))} }},
		{"stmt-call-return", true, func(rec, base *Node) []*Node { return []*Node{stop(base), ExprS(rec), Ret(nil)} }},         // result discarded: undefined
		{"stmt-call-end", true, func(rec, base *Node) []*Node { return []*Node{stop(base), ExprS(rec)} }},                      // falls off the end: undefined
		{"stmt-call-return-value", false, func(rec, base *Node) []*Node { return []*Node{stop(base), ExprS(rec), Ret(Int(7))} }}, // not a tail call
		{"not-call", false, func(rec, base *Node) []*Node { return []*Node{stop(base), Ret(Un("!", rec))} }},
	}
}

func tailcallProgram(r *rand.Rand, form tcForm, nacc int, variadic, capture bool, depth int) *Program {
	params := []string{"n"}
	var recArgs []*Node
	recArgs = append(recArgs, Bin("-", Id("n"), Int(1)))
	var base *Node = Int(0)
	for i := 0; i < nacc; i++ {
		a := fmt.Sprintf("a%d", i)
		params = append(params, a)
		recArgs = append(recArgs, Bin("+", Id(a), Id("n")))
		base = Id(a)
	}
	if variadic {
		params = append(params, "rest")
		recArgs = append(recArgs, Id("n"), Int(1))
		base = Arr(base, Call(Id("len"), Id("rest")))
	}
	var pre []*Node
	if capture {
		// a closure created in every iteration captures the parameter of that iteration
		params = append(params, "fs")
		recArgs = append(recArgs, Call(Id("append"), Id("fs"), Fn(nil, false, Ret(Id("n")))))
		base = Arr(base, Call(Id("len"), Id("fs")), Call(Fn(nil, false, Def("out", Arr()),
			ForIn("", "g", Id("fs"), Blk(Set("out", nil, "=", Call(Id("append"), Id("out"), Call(Id("g")))))), Ret(Id("out")))))
	}
	if variadic && capture {
		// variadic parameter must be last
		params[len(params)-2], params[len(params)-1] = params[len(params)-1], params[len(params)-2]
		n := len(recArgs)
		// recArgs currently: ..., n, 1, append(fs,..)  ->  ..., append(fs,..), n, 1
		fsArg := recArgs[n-1]
		copy(recArgs[n-2:], []*Node{recArgs[n-3], recArgs[n-2]})
		recArgs[n-3] = fsArg
	}
	rec := Call(Id("f"), recArgs...)
	body := append(pre, form.mk(rec, base)...)
	callArgs := []*Node{Int(int64(depth))}
	for i := 0; i < nacc; i++ {
		callArgs = append(callArgs, Int(int64(i)))
	}
	if capture {
		callArgs = append(callArgs, Arr())
	}
	st := []*Node{Def("f", Fn(params, variadic, body...)), Def("r", Call(Id("f"), callArgs...))}
	return &Program{Stmts: st, Meta: map[string]interface{}{"form": form.name, "tail": form.tail, "depth": depth,
		"nacc": nacc, "variadic": variadic, "capture": capture}}
}

func tailcallPrograms(r *rand.Rand, depths []int, withCapture bool) []*Program {
	var ps []*Program
	for _, f := range tcForms() {
		for nacc := 0; nacc <= 2; nacc++ {
			for _, va := range []bool{false, true} {
				for _, cp := range []bool{false, true} {
					if cp && !withCapture {
						continue
					}
					for _, d := range depths {
						ps = append(ps, tailcallProgram(r, f, nacc, va, cp, d))
					}
				}
			}
		}
	}
	return ps
}

func init() {
	families["tailcalls"] = func(seed int64, n int) []*Program {
		// n selects the depth set: 0 -> model depths
		r := rand.New(rand.NewSource(seed))
		if n <= 0 {
			return tailcallPrograms(r, []int{0, 1, 2, 3, 7, 12}, true)
		}
		return tailcallPrograms(r, []int{n}, n <= 5000)
	}
}
