package main

import (
	"math/rand"
)

// Family "stdlibuse": deterministic programs that import builtin modules (and the source module
// "enum"), several times and from nested functions and source modules, so that module constants,
// function constants and plain constants are duplicated in the constant pool.
func stdlibUsePrograms(r *rand.Rand, n int) []*Program {
	var ps []*Program
	for i := 0; i < n; i++ {
		var st []*Node
		mods := []string{"math", "text", "base64", "hex", "enum", "fmt", "times", "json"}
		k := 1 + r.Intn(3)
		for j := 0; j < k; j++ {
			m := mods[r.Intn(4)]
			v := "m" + string(rune('a'+j))
			st = append(st, Def(v, Import(m)))
			switch m {
			case "math":
				st = append(st, Def("r"+v, Call(Sel(Id(v), "abs"), Float16(int64(-8*(1+r.Intn(5)))))), Def("p"+v, Sel(Id(v), "pi")))
			case "text":
				st = append(st, Def("r"+v, Call(Sel(Id(v), "to_upper"), Str("ab"))), Def("q"+v, Call(Sel(Id(v), "repeat"), Str("ab"), Int(2))))
			case "base64":
				st = append(st, Def("r"+v, Call(Sel(Id(v), "encode"), Call(Id("bytes"), Str("ab")))))
			case "hex":
				st = append(st, Def("r"+v, Call(Sel(Id(v), "encode"), Call(Id("bytes"), Str("ab")))))
			}
		}
		// the same module imported again inside a function and inside a source module
		st = append(st, Def("f", Fn([]string{"x"}, false, Def("m2", Import("math")), Ret(Call(Sel(Id("m2"), "abs"), Id("x"))))),
			Def("y", Call(Id("f"), Int(int64(-3-r.Intn(4))))))
		st = append(st, Def("e", Import("enum")), Def("z", Call(Sel(Id("e"), "map"), Arr(Int(1), Int(2), Int(3)),
			Fn([]string{"k", "v"}, false, Ret(Bin("*", Id("v"), Int(int64(1+r.Intn(3)))))))))
		st = append(st, Def("lib", Import("lib")), Def("w", Call(Sel(Id("lib"), "twice"), Int(int64(r.Intn(9))))))
		if r.Intn(3) == 0 {
			st = append(st, Def("bad", Call(Sel(Id("lib"), "fail"), Int(1))))
		}
		lib := &Program{Stmts: []*Node{
			Def("m", Import("math")),
			Def("one", Int(1)), Def("s", Str("ab")),
			Export(Map([]string{"twice", "fail"}, []*Node{
				Fn([]string{"x"}, false, Ret(Bin("+", Call(Sel(Id("m"), "abs"), Id("x")), Bin("*", Id("x"), Id("one"))))),
				Fn([]string{"x"}, false, Def("t", Str("ab")), Ret(Bin("-", Id("t"), Id("x")))),
			})),
		}}
		ps = append(ps, &Program{Stmts: st, Modules: []Module{{Name: "lib", Prog: lib}}, Meta: map[string]interface{}{"stdlib": true}})
	}
	return ps
}

func init() {
	families["stdlibuse"] = func(seed int64, n int) []*Program {
		return stdlibUsePrograms(rand.New(rand.NewSource(seed)), n)
	}
}
