package main

import (
	"encoding/json"
	"fmt"
	"io/ioutil"
	"os"
	"path/filepath"
	"sort"
	"strings"
	"time"

	"github.com/d5/tengo/v2"
)

// modgraph: replay an import graph chosen by Modules.tla into the real compiler.
type modgraphCase struct {
	ID      int                 `json:"id"`
	Imports map[string][]string `json:"imports"`
	Rename  map[string]string   `json:"rename"` // model module name -> name in the module map (path-like aliases of one another)
	Late    bool                `json:"late"`   // every module's last import stands after its export statement (compiled, never run)
}

// every module exports its own (model) name and the values its imports yielded, so that the value of an
// import expression identifies the module that was really compiled and run for it
func bodyFor(me string, imps []string, export bool, real func(string) string) string {
	return bodyForLayout(me, imps, export, real, false)
}

func bodyForLayout(me string, imps []string, export bool, real func(string) string, late bool) string {
	var sb strings.Builder
	lateImport := ""
	if late && export && len(imps) > 0 {
		lateImport = fmt.Sprintf("x%d := import(%q)\n", len(imps)-1, real(imps[len(imps)-1]))
		imps = imps[:len(imps)-1]
	}
	for i, m := range imps {
		fmt.Fprintf(&sb, "x%d := import(%q)\n", i, real(m))
	}
	if export {
		fmt.Fprintf(&sb, "export {me: %q, deps: [", me)
		for i := range imps {
			if i > 0 {
				sb.WriteString(", ")
			}
			fmt.Fprintf(&sb, "x%d", i)
		}
		sb.WriteString("]}\n")
	}
	sb.WriteString(lateImport)
	return sb.String()
}

// checkTree: the value an import of module m yielded must be {me: m, deps: [values of m's imports]}
func checkTree(o tengo.Object, m string, imports map[string][]string, depth int) string {
	im, ok := o.(*tengo.ImmutableMap)
	if !ok {
		return fmt.Sprintf("import of %s yielded %s, not an immutable map", m, o.TypeName())
	}
	me, _ := im.Value["me"].(*tengo.String)
	if me == nil || me.Value != m {
		return fmt.Sprintf("import of %s yielded the export of %v", m, im.Value["me"])
	}
	var deps []tengo.Object
	switch d := im.Value["deps"].(type) {
	case *tengo.ImmutableArray:
		deps = d.Value
	case *tengo.Array:
		deps = d.Value
	}
	if len(deps) != len(imports[m]) {
		return fmt.Sprintf("module %s saw %d imports, expected %d", m, len(deps), len(imports[m]))
	}
	if depth > 6 {
		return ""
	}
	for i, d := range deps {
		if w := checkTree(d, imports[m][i], imports, depth+1); w != "" {
			return w
		}
	}
	return ""
}

func modgraphHandle(raw []byte) map[string]interface{} {
	var c modgraphCase
	if err := json.Unmarshal(raw, &c); err != nil {
		return map[string]interface{}{"error": err.Error()}
	}
	real := func(m string) string {
		if r, ok := c.Rename[m]; ok {
			return r
		}
		return m
	}
	mm := tengo.NewModuleMap()
	names := make([]string, 0)
	for n, imps := range c.Imports {
		if n == "main" {
			continue
		}
		names = append(names, n)
		mm.AddSourceModule(real(n), []byte(bodyForLayout(n, imps, true, real, c.Late)))
	}
	sort.Strings(names)
	s := tengo.NewScript([]byte(bodyFor("main", c.Imports["main"], false, real)))
	s.SetImports(mm)
	res := map[string]interface{}{}
	var comp *tengo.Compiled
	var err error
	func() {
		defer func() {
			if r := recover(); r != nil {
				res["result"] = "panic"
				res["msg"] = fmt.Sprint(r)
			}
		}()
		comp, err = s.Compile()
	}()
	if res["result"] != nil {
		return res
	}
	if err != nil {
		kind := classifyCompile(err.Error())
		if kind == "cyclic_import" {
			res["result"] = "cyclic"
		} else {
			res["result"] = "error:" + kind
		}
		res["msg"] = err.Error()
		return res
	}
	res["result"] = "ok"
	counts := map[string]int{}
	byReal := map[string]string{}
	for _, n := range names {
		counts[n] = 0
		byReal[real(n)] = n
	}
	for _, f := range comp.VerifBytecode().FileSet.Files {
		if f.Name != "(main)" {
			if m, ok := byReal[f.Name]; ok {
				counts[m]++
			} else {
				counts["?"+f.Name]++
			}
		}
	}
	res["compiles"] = counts
	if c.Late {
		return res // the late imports never run: only the verdict and the compile counts are comparable
	}
	if e := comp.Run(); e != nil {
		res["run_error"] = e.Error()
		return res
	}
	for i, m := range c.Imports["main"] {
		v := comp.Get(fmt.Sprintf("x%d", i))
		if v == nil || v.Object() == nil {
			res["wrong_module"] = fmt.Sprintf("x%d is not set", i)
			break
		}
		if w := checkTree(v.Object(), m, c.Imports, 0); w != "" {
			res["wrong_module"] = w
			break
		}
	}
	return res
}

// fileimport: import names must resolve only from the module map when file import is
// disabled, whatever files exist; with file import enabled the module map still wins.
func fileImportHandle(raw []byte) map[string]interface{} {
	var c struct {
		ID     int    `json:"id"`
		Name   string `json:"name"`   // import name; "{dir}" is replaced by the decoy directory
		Enable bool   `json:"enable"` // EnableFileImport
		InMap  bool   `json:"inmap"`  // the name is also in the module map
		SetDir bool   `json:"setdir"`
		Near   []string `json:"near"` // other names present in the module map: look-alikes of the import name that must not be taken for it
		Nested bool     `json:"nested"` // the import stands inside a source module instead of the main script
	}
	if err := json.Unmarshal(raw, &c); err != nil {
		return map[string]interface{}{"error": err.Error()}
	}
	dir, err := ioutil.TempDir(os.Getenv("VERIF_SCRATCH_DIR"), "decoy")
	if err != nil {
		return map[string]interface{}{"error": err.Error()}
	}
	defer os.RemoveAll(dir)
	sub := filepath.Join(dir, "sub")
	_ = os.Mkdir(sub, 0o755)
	for _, f := range []string{filepath.Join(dir, "m.tengo"), filepath.Join(sub, "m.tengo"), filepath.Join(dir, "decoy.tengo")} {
		_ = ioutil.WriteFile(f, []byte("export \"FROM-FILE\"\n"), 0o644)
	}
	name := strings.ReplaceAll(c.Name, "{dir}", dir)
	mm := tengo.NewModuleMap()
	if c.InMap {
		mm.AddSourceModule(name, []byte("export \"FROM-MAP\"\n"))
	}
	for _, n := range c.Near {
		mm.AddSourceModule(n, []byte(fmt.Sprintf("export \"NEAR:%s\"\n", n)))
	}
	src := fmt.Sprintf("out := import(%q)\n", name)
	if c.Nested {
		mm.AddSourceModule("outer", []byte(fmt.Sprintf("export import(%q)\n", name)))
		src = "out := import(\"outer\")\n"
	}
	s := tengo.NewScript([]byte(src))
	s.SetImports(mm)
	s.EnableFileImport(c.Enable)
	if c.SetDir {
		_ = s.SetImportDir(sub)
	}
	cwd, _ := os.Getwd()
	_ = os.Chdir(sub)
	defer os.Chdir(cwd)
	res := map[string]interface{}{"name": name}
	var comp *tengo.Compiled
	func() {
		defer func() {
			if r := recover(); r != nil {
				res["result"] = "panic"
				res["msg"] = fmt.Sprint(r)
			}
		}()
		comp, err = s.Run()
	}()
	if res["result"] != nil {
		return res
	}
	if err != nil {
		res["result"] = "error:" + classifyCompile(err.Error())
		res["msg"] = err.Error()
		return res
	}
	res["result"] = "ok"
	res["out"] = comp.Get("out").String()
	return res
}

// mixedimport: graphs that mix module-map modules and file modules, with the import directory different from the working
// directory: a map module importing a file module, a file module importing a map module, file modules in a subdirectory
// importing their siblings.
func mixedImportHandle(raw []byte) map[string]interface{} {
	var c struct {
		ID   int    `json:"id"`
		Main string `json:"main"` // the name the main script imports
	}
	if err := json.Unmarshal(raw, &c); err != nil {
		return map[string]interface{}{"error": err.Error()}
	}
	dir, err := ioutil.TempDir(os.Getenv("VERIF_SCRATCH_DIR"), "mixed")
	if err != nil {
		return map[string]interface{}{"error": err.Error()}
	}
	defer os.RemoveAll(dir)
	imp := filepath.Join(dir, "imp")
	other := filepath.Join(dir, "other")
	_ = os.MkdirAll(filepath.Join(imp, "nested"), 0o755)
	_ = os.MkdirAll(other, 0o755)
	files := map[string]string{
		filepath.Join(imp, "helper.tengo"):      "export \"FROM-HELPER\"\n",
		filepath.Join(imp, "a.tengo"):           "export import(\"lib2\")\n",
		filepath.Join(imp, "e.tengo"):           "export import(\"nested/c\")\n",
		filepath.Join(imp, "nested", "c.tengo"): "export import(\"d\")\n",
		filepath.Join(imp, "nested", "d.tengo"): "export \"FROM-D\"\n",
		filepath.Join(imp, "d.tengo"):           "export \"FROM-OUTER-D\"\n",
		// decoys in the working directory: never the right answer
		filepath.Join(imp, "cfgfile.tengo"):  "export {a: 1, l: [1, 2]}\n",
		filepath.Join(imp, "arrfile.tengo"):  "export [1, [2]]\n",
		filepath.Join(other, "helper.tengo"): "export \"FROM-CWD\"\n",
		filepath.Join(other, "d.tengo"):      "export \"FROM-CWD\"\n",
	}
	for f, body := range files {
		_ = ioutil.WriteFile(f, []byte(body), 0o644)
	}
	mm := tengo.NewModuleMap()
	mm.AddSourceModule("lib", []byte("export import(\"helper\")\n"))
	mm.AddSourceModule("lib2", []byte("export \"FROM-LIB2\"\n"))
	mm.AddSourceModule("lib3", []byte("export [import(\"lib2\"), import(\"helper\"), import(\"a\")]\n"))
	mm.AddSourceModule("cfgmap", []byte("export {a: 1, l: [1, 2]}\n"))
	mm.AddSourceModule("arrmap", []byte("export [1, [2]]\n"))
	src := fmt.Sprintf("out := import(%q)\n", c.Main)
	fileImport := true
	use := mm
	switch c.Main {
	case "@immut": // what a module exports is immutable wherever the module came from
		src = "a := import(\"cfgmap\")\nb := import(\"cfgfile\")\nc := import(\"arrmap\")\nd := import(\"arrfile\")\n" +
			"out := [type_name(a), type_name(b), type_name(c), type_name(d), is_immutable_map(b), is_immutable_array(d)]\n"
	case "@immut-write-file":
		src = "b := import(\"cfgfile\")\nb.a = 5\nout := b.a\n"
	case "@immut-write-file-array":
		src = "d := import(\"arrfile\")\nd[0] = 5\nout := d[0]\n"
	case "@copy-secret", "@copy-kept": // a copy of the module map modified afterwards: the original is unchanged
		cp := mm.Copy()
		cp.AddSourceModule("secret", []byte("export \"SECRET\"\n"))
		cp.AddBuiltinModule("secretb", map[string]tengo.Object{"x": tengo.TrueValue})
		cp.Remove("lib2")
		fileImport = false
		if c.Main == "@copy-secret" {
			src = "out := import(\"secret\")\n"
		} else {
			src = "out := import(\"lib2\")\n"
		}
	}
	s := tengo.NewScript([]byte(src))
	s.SetImports(use)
	s.EnableFileImport(fileImport)
	_ = s.SetImportDir(imp)
	cwd, _ := os.Getwd()
	_ = os.Chdir(other)
	defer os.Chdir(cwd)
	res := map[string]interface{}{}
	var comp *tengo.Compiled
	func() {
		defer func() {
			if r := recover(); r != nil {
				res["result"] = "panic"
				res["msg"] = fmt.Sprint(r)
			}
		}()
		comp, err = s.Run()
	}()
	if res["result"] != nil {
		return res
	}
	if err != nil {
		res["result"] = "error"
		res["msg"] = strings.ReplaceAll(err.Error(), dir, "{dir}")
		return res
	}
	res["result"] = "ok"
	res["out"] = comp.Get("out").String()
	return res
}

func init() {
	register("mixedimport", "graphs mixing module-map and file modules", func(args []string) error {
		return runCases(20*time.Second, mixedImportHandle)
	})
	register("modgraph", "compile import graphs chosen by Modules.tla", func(args []string) error {
		return runCases(20*time.Second, modgraphHandle)
	})
	register("fileimport", "import name resolution with decoy files", func(args []string) error {
		return runCases(20*time.Second, fileImportHandle)
	})
}
