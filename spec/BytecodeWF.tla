---------------------------- MODULE BytecodeWF ----------------------------
(***************************************************************************)
(* Well-formedness of the code the compiler emits, decided by an abstract  *)
(* interpreter over the raw instruction bytes of every function of a       *)
(* compiled program (main function, function constants, module bodies).    *)
(*                                                                         *)
(* State: (pi, fi) the function under analysis, a worklist of              *)
(* <<offset, height>> items and the map H : offset -> operand-stack height *)
(* (relative to basePointer + NumLocals).  One TLC step pops one item,     *)
(* decodes the instruction at that offset with the operand-width table     *)
(* (transcribed from parser/opcodes.go), applies the opcode's stack effect *)
(* (transcribed from vm.go) and propagates to the successors - so every    *)
(* path of every function is followed, not only the executed one.          *)
(*                                                                         *)
(* A function is rejected (verdict ok = FALSE, with the offending offset)  *)
(* when: the linear sweep meets an unknown opcode or a truncated operand;  *)
(* a jump does not land on an instruction boundary inside the function;    *)
(* control can run off the end; an instruction pops more than the current  *)
(* height; two paths reach an instruction with different heights; an       *)
(* operand names a slot that does not exist (constant, local, global,      *)
(* builtin, free variable); CLOSURE names a non-function constant or       *)
(* captures fewer variables than the function uses; MAP has an odd         *)
(* operand; RET's operand is not 0/1; SUSPEND outside main or with a       *)
(* non-empty stack.  The computed H is also emitted: it is a prediction    *)
(* the real VM must meet at every dispatched instruction (probe check).    *)
(***************************************************************************)
EXTENDS Integers, Sequences, FiniteSets, TLC, Json

Progs == ndJsonDeserialize("bytecode.ndjson")

VARIABLES pi, fi, work, H, bad, done, bounds

\* ---- opcode tables (parser/opcodes.go) ----------------------------------
OpCONST == 0 OpBCOMPL == 1 OpPOP == 2 OpTRUE == 3 OpFALSE == 4 OpEQL == 5 OpNEQ == 6 OpMINUS == 7
OpLNOT == 8 OpJMPF == 9 OpANDJMP == 10 OpORJMP == 11 OpJMP == 12 OpNULL == 13 OpARR == 14 OpMAP == 15
OpERROR == 16 OpIMMUT == 17 OpINDEX == 18 OpSLICE == 19 OpCALL == 20 OpRET == 21 OpGETG == 22
OpSETG == 23 OpSETSG == 24 OpGETL == 25 OpSETL == 26 OpDEFL == 27 OpSETSL == 28 OpGETFP == 29
OpGETF == 30 OpSETF == 31 OpGETLP == 32 OpSETSF == 33 OpBUILTIN == 34 OpCLOSURE == 35 OpITER == 36
OpITNXT == 37 OpITKEY == 38 OpITVAL == 39 OpBINOP == 40 OpSUSPEND == 41
NumOpcodes == 42

Widths(op) ==
  CASE op \in {OpCONST, OpARR, OpMAP, OpGETG, OpSETG} -> <<2>>
    [] op \in {OpJMPF, OpANDJMP, OpORJMP, OpJMP} -> <<4>>
    [] op \in {OpSETSG, OpCLOSURE} -> <<2, 1>>
    [] op \in {OpCALL, OpSETSL, OpSETSF} -> <<1, 1>>
    [] op \in {OpRET, OpGETL, OpSETL, OpDEFL, OpGETFP, OpGETF, OpSETF, OpGETLP, OpBUILTIN, OpBINOP} -> <<1>>
    [] OTHER -> <<>>

RECURSIVE SumSeq(_)
SumSeq(s) == IF Len(s) = 0 THEN 0 ELSE Head(s) + SumSeq(Tail(s))

\* code is 1-based; byte at offset o is code[o + 1]
ByteAt(code, o) == code[o + 1]
RECURSIVE BE(_, _, _)
BE(code, o, w) == IF w = 0 THEN 0 ELSE BE(code, o, w - 1) * 256 + ByteAt(code, o + w - 1)

Decode(code, o) ==   \* [ok, op, a, b, len]
  LET op == ByteAt(code, o) IN
  IF op >= NumOpcodes THEN [ok |-> FALSE, why |-> "unknown opcode"]
  ELSE LET ws == Widths(op) tot == SumSeq(ws) IN
       IF o + 1 + tot > Len(code) THEN [ok |-> FALSE, why |-> "truncated operand"]
       ELSE [ok |-> TRUE, op |-> op, len |-> 1 + tot,
             a |-> IF Len(ws) >= 1 THEN BE(code, o + 1, ws[1]) ELSE 0,
             b |-> IF Len(ws) >= 2 THEN BE(code, o + 1 + ws[1], ws[2]) ELSE 0]

RECURSIVE Sweep(_, _, _)
Sweep(code, o, acc) ==   \* instruction boundaries by linear sweep; <<-1>> marks a decode failure
  IF o >= Len(code) THEN acc
  ELSE LET d == Decode(code, o) IN
       IF ~d.ok THEN acc \cup {-1} ELSE Sweep(code, o + d.len, acc \cup {o})

\* largest free-variable index a function uses (-1: none)
RECURSIVE MaxFree(_, _, _)
MaxFree(code, o, acc) ==
  IF o >= Len(code) THEN acc
  ELSE LET d == Decode(code, o) IN
       IF ~d.ok THEN acc
       ELSE MaxFree(code, o + d.len,
                    IF d.op \in {OpGETFP, OpGETF, OpSETF, OpSETSF} /\ d.a > acc THEN d.a ELSE acc)

\* ---- stack effects (vm.go) ----------------------------------------------
\* [pops, pushes]; jumps are handled separately
Effect(d) ==
  CASE d.op \in {OpCONST, OpNULL, OpTRUE, OpFALSE, OpGETG, OpGETL, OpBUILTIN, OpGETF, OpGETFP, OpGETLP} -> <<0, 1>>
    [] d.op \in {OpBINOP, OpEQL, OpNEQ, OpINDEX} -> <<2, 1>>
    [] d.op \in {OpPOP, OpSETG, OpSETL, OpDEFL, OpSETF} -> <<1, 0>>
    [] d.op \in {OpLNOT, OpMINUS, OpBCOMPL, OpERROR, OpIMMUT, OpITER, OpITNXT, OpITKEY, OpITVAL} -> <<1, 1>>
    [] d.op = OpSLICE -> <<3, 1>>
    [] d.op \in {OpARR, OpMAP} -> <<d.a, 1>>
    [] d.op \in {OpSETSG, OpSETSL, OpSETSF} -> <<d.b + 1, 0>>
    [] d.op = OpCALL -> <<d.a + 1, 1>>
    [] d.op = OpCLOSURE -> <<d.b, 1>>
    [] OTHER -> <<0, 0>>

P == Progs[pi]
F == P.fns[fi]
Code == F.code
FnOfConst(c) == LET I == {i \in 1..Len(P.fns) : P.fns[i].cidx = c} IN
                IF I = {} THEN 0 ELSE CHOOSE i \in I : TRUE

\* operand validity of a decoded instruction in the current function; "" = fine
OperandProblem(d) ==
  CASE d.op = OpCONST -> IF d.a >= Len(P.consts) THEN "constant index out of range"
                         ELSE IF P.consts[d.a + 1].kind = "fn" /\ FnOfConst(d.a) # 0
                                 /\ MaxFree(P.fns[FnOfConst(d.a)].code, 0, -1) >= 0
                              THEN "function with free variables loaded without CLOSURE" ELSE ""
    [] d.op = OpCLOSURE -> IF d.a >= Len(P.consts) THEN "constant index out of range"
                           ELSE IF P.consts[d.a + 1].kind # "fn" THEN "CLOSURE of a non-function constant"
                           ELSE IF d.b < MaxFree(P.fns[FnOfConst(d.a)].code, 0, -1) + 1
                                THEN "CLOSURE captures fewer variables than the function uses" ELSE ""
    [] d.op \in {OpGETL, OpSETL, OpDEFL, OpGETLP, OpSETSL} ->
         IF F.main THEN "local slot in main function" ELSE IF d.a >= F.nl THEN "local index >= NumLocals" ELSE ""
    [] d.op \in {OpGETG, OpSETG, OpSETSG} -> IF d.a >= P.nglobals THEN "global index out of range" ELSE ""
    [] d.op = OpBUILTIN -> IF d.a >= P.nbuiltins THEN "builtin index out of range" ELSE ""
    [] d.op \in {OpGETF, OpSETF, OpGETFP, OpSETSF} -> IF F.main THEN "free variable in main function" ELSE ""
    [] d.op = OpMAP -> IF d.a % 2 # 0 THEN "MAP with odd operand" ELSE ""
    [] d.op = OpRET -> IF d.a \notin {0, 1} THEN "RET operand not 0/1"
                       ELSE IF F.main THEN "RET in main function" ELSE ""
    [] d.op = OpSUSPEND -> IF ~F.main THEN "SUSPEND outside main" ELSE ""
    [] d.op = OpCALL -> IF d.b \notin {0, 1} THEN "CALL spread flag not 0/1"
                        ELSE IF d.b = 1 /\ d.a = 0 THEN "spread call without arguments" ELSE ""
    [] OTHER -> ""

Bounds == bounds

HGet(o) == LET I == {i \in 1..Len(H) : H[i][1] = o} IN IF I = {} THEN -1 ELSE H[CHOOSE i \in I : TRUE][2]

Init == /\ pi = 1 /\ fi = 1 /\ bad = [why |-> ""] /\ done = FALSE
        /\ work = <<<<0, 0>>>> /\ H = <<>>
        /\ bounds = Sweep(Progs[1].fns[1].code, 0, {})

Reject(why, at) == /\ bad' = [why |-> why, at |-> at]
                   /\ work' = <<>>
                   /\ UNCHANGED <<pi, fi, H, done, bounds>>

\* one worklist step
Step ==
  /\ ~done /\ bad.why = "" /\ Len(work) > 0
  /\ LET o == work[1][1] h == work[1][2] rest == Tail(work) IN
     IF -1 \in Bounds THEN Reject("undecodable instruction stream", o)
     ELSE IF o \notin Bounds THEN Reject(IF o >= Len(Code) THEN "control leaves the instruction stream" ELSE "not an instruction boundary", o)
     ELSE IF HGet(o) # -1 THEN
            (IF HGet(o) # h THEN Reject("stack height differs between paths", o)
             ELSE work' = rest /\ UNCHANGED <<pi, fi, H, bad, done, bounds>>)
     ELSE LET d == Decode(Code, o) pr == OperandProblem(d) e == Effect(d) nh == h - e[1] + e[2] nxt == o + d.len IN
          IF pr # "" THEN Reject(pr, o)
          ELSE IF d.op \in {OpANDJMP, OpORJMP} THEN
                 (IF h < 1 THEN Reject("pops below the frame", o)
                  ELSE /\ work' = <<<<d.a, h>>, <<nxt, h - 1>>>> \o rest
                       /\ H' = Append(H, <<o, h>>) /\ UNCHANGED <<pi, fi, bad, done, bounds>>)
          ELSE IF d.op = OpJMPF THEN
                 (IF h < 1 THEN Reject("pops below the frame", o)
                  ELSE /\ work' = <<<<d.a, h - 1>>, <<nxt, h - 1>>>> \o rest
                       /\ H' = Append(H, <<o, h>>) /\ UNCHANGED <<pi, fi, bad, done, bounds>>)
          ELSE IF d.op = OpJMP THEN
                 /\ work' = <<<<d.a, h>>>> \o rest
                 /\ H' = Append(H, <<o, h>>) /\ UNCHANGED <<pi, fi, bad, done, bounds>>
          ELSE IF d.op = OpRET THEN
                 (IF h < d.a THEN Reject("RET 1 with an empty stack", o)
                  ELSE work' = rest /\ H' = Append(H, <<o, h>>) /\ UNCHANGED <<pi, fi, bad, done, bounds>>)
          ELSE IF d.op = OpSUSPEND THEN
                 (IF h # 0 THEN Reject("SUSPEND with a non-empty stack", o)
                  ELSE work' = rest /\ H' = Append(H, <<o, h>>) /\ UNCHANGED <<pi, fi, bad, done, bounds>>)
          ELSE IF h < e[1] THEN Reject("pops below the frame", o)
          ELSE /\ work' = <<<<nxt, nh>>>> \o rest
               /\ H' = Append(H, <<o, h>>) /\ UNCHANGED <<pi, fi, bad, done, bounds>>

\* function finished (accepted or rejected): emit verdict, move on
Verdict == [id |-> P.id, cidx |-> F.cidx, ok |-> bad.why = "", why |-> bad.why,
            at |-> IF bad.why = "" THEN -1 ELSE bad.at,
            h |-> H, ninstr |-> Cardinality(Bounds \ {-1}), nvisited |-> Len(H)]

NextFn ==
  /\ ~done /\ (Len(work) = 0)
  /\ PrintT(<<"FN", ToJson(Verdict)>>)
  /\ IF fi < Len(P.fns) THEN pi' = pi /\ fi' = fi + 1 /\ done' = FALSE
     ELSE IF pi < Len(Progs) THEN pi' = pi + 1 /\ fi' = 1 /\ done' = FALSE
     ELSE pi' = pi /\ fi' = fi /\ done' = TRUE
  /\ bad' = [why |-> ""]
  /\ work' = IF done' THEN <<>> ELSE <<<<0, 0>>>>
  /\ H' = <<>>
  /\ bounds' = IF done' THEN {} ELSE Sweep(Progs[pi'].fns[fi'].code, 0, {})

Next == Step \/ NextFn
Spec == Init /\ [][Next]_<<pi, fi, work, H, bad, done, bounds>>

TypeOK == /\ pi \in 1..Len(Progs) /\ fi \in 1..Len(Progs[pi].fns)
          /\ \A i \in 1..Len(H) : H[i][2] >= 0
=============================================================================
