package main

// c07contend: several RunContext calls on ONE Compiled object.  One run holds the object while the context of a
// waiting call is cancelled; afterwards every call has returned and the object is as usable as before (Set, Run, Get, Clone).

import (
	"context"
	"encoding/json"
	"fmt"
	"sync"
	"time"

	"github.com/d5/tengo/v2"
)

func within(d time.Duration, f func()) bool {
	done := make(chan struct{})
	go func() { f(); close(done) }()
	select {
	case <-done:
		return true
	case <-time.After(d):
		return false
	}
}

func c07ContendHandle(raw []byte) map[string]interface{} {
	var in struct {
		Waiters     int `json:"waiters"`
		HolderMs    int `json:"holder_ms"`     // the holder's context expires after this long
		CancelMs    int `json:"cancel_ms"`     // the waiters' contexts are cancelled after this long (0: already cancelled at entry)
		WaiterDelay int `json:"waiter_delay"`  // the waiters enter this long after the holder
	}
	if err := json.Unmarshal(raw, &in); err != nil {
		return map[string]interface{}{"error": err.Error()}
	}
	s := tengo.NewScript([]byte("n := 0\nfor spin { n += 1 }\nr := 1\n"))
	_ = s.Add("spin", true)
	c, err := s.Compile()
	if err != nil {
		return map[string]interface{}{"error": err.Error()}
	}
	var wg sync.WaitGroup
	results := make([]string, in.Waiters+1)
	wg.Add(1)
	go func() {
		defer wg.Done()
		ctx, cancel := context.WithTimeout(context.Background(), time.Duration(in.HolderMs)*time.Millisecond)
		defer cancel()
		results[0] = fmt.Sprint(c.RunContext(ctx))
	}()
	time.Sleep(time.Duration(in.WaiterDelay) * time.Millisecond)
	for w := 1; w <= in.Waiters; w++ {
		w := w
		wg.Add(1)
		go func() {
			defer wg.Done()
			ctx, cancel := context.WithCancel(context.Background())
			if in.CancelMs == 0 {
				cancel()
			} else {
				time.AfterFunc(time.Duration(in.CancelMs)*time.Millisecond, cancel)
			}
			defer cancel()
			results[w] = fmt.Sprint(c.RunContext(ctx))
		}()
	}
	res := map[string]interface{}{}
	if !within(20*time.Second, wg.Wait) {
		res["ok"] = false
		res["what"] = fmt.Sprintf("not every RunContext call returned within 20 s (holder %d ms, waiters cancelled after %d ms)", in.HolderMs, in.CancelMs)
		return res
	}
	res["results"] = results
	for i, r := range results {
		if r != context.DeadlineExceeded.Error() && r != context.Canceled.Error() {
			res["ok"] = false
			res["what"] = fmt.Sprintf("call %d returned %q, expected the error of its context", i, r)
			return res
		}
	}
	// the object is as usable as before
	var serr, rerr error
	if !within(10*time.Second, func() { serr = c.Set("spin", false) }) {
		res["ok"] = false
		res["what"] = "Set blocks after the contended calls returned (the object's lock is still held)"
		return res
	}
	if !within(10*time.Second, func() {
		ctx, cancel := context.WithTimeout(context.Background(), 8*time.Second)
		defer cancel()
		rerr = c.RunContext(ctx)
	}) {
		res["ok"] = false
		res["what"] = "RunContext blocks after the contended calls returned"
		return res
	}
	var got int
	var cl *tengo.Compiled
	if !within(10*time.Second, func() { got = c.Get("r").Int(); cl = c.Clone() }) {
		res["ok"] = false
		res["what"] = "Get/Clone block after the contended calls returned"
		return res
	}
	if serr != nil || rerr != nil || got != 1 || cl == nil {
		res["ok"] = false
		res["what"] = fmt.Sprintf("after the contended calls: Set=%v Run=%v r=%d", serr, rerr, got)
		return res
	}
	res["ok"] = true
	return res
}

func init() {
	register("c07contend", "several RunContext calls on one Compiled, waiters cancelled while another run holds it (cases on stdin)", func(args []string) error {
		return runCases(90*time.Second, c07ContendHandle)
	})
}
