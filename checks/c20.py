"""C20 Parsing reflects the documented grammar and its own printed form.

E: Syntax.tla - (1) the documented precedence/associativity table: every expression tree up to the depth
   bound over every unary and binary operator and the ternary, printed with minimal parentheses (each
   tree then tests exactly the documented grouping) and fully parenthesised; (2) the semicolon-insertion
   rule over every token class x every kind of gap (newline, comments with/without newline, end of
   input, blanks); (3) a number-literal automaton: every spelling up to the length bound over the
   literal alphabet, classified int / float / not a literal.
R: the real parser parses each minimally parenthesised text and its tree (String()) must equal the
   fully parenthesised form; the real scanner must insert a semicolon exactly where the rule says;
   every spelling goes through the real scanner and through Go's own scanner (three-way agreement:
   when the spec and Go disagree the spec is wrong - infrastructure error), values are compared with
   go/constant; char and string escapes against strconv.Unquote; the printed form of parsed programs
   must parse again and compile to the same instructions and constants.
"""
import itertools
import json

import semlib
import vlib

CFG = "SPECIFICATION Spec\nCONSTANTS\n  Depth = %d\n  MaxLitLen = %d\n  Mode = \"%s\"\nINVARIANTS EmitNumber EmitTrees EmitSemis MinNotLonger\n"
CHARS = ["0", "1", "7", "9", "a", "e", "f", "x", "o", "b", "p", "_", ".", "+", "-"]

LITS = ["'a'", "'\\n'", "'\\t'", "'\\\\'", "'\\''", "'\\\"'", "'\\x41'", "'\\u00e9'", "'\\U0001F600'", "'\\101'", "'\\0'", "'\\a'", "'\\b'", "'\\f'",
        "'\\r'", "'\\v'", "'é'", "'世'", "''", "'ab'", "'\\q'", "'\\xZZ'", "'\\x4'", "'\\400'", "'\\ud800'", "'\\U00110000'", "'\\u12'", "'\\8'", "'\\18'",
        '"abc"', '""', '"a\\nb"', '"\\x41\\u00e9\\U0001F600\\101"', '"\\\'"', '"\\""', '"é世"', '"\\q"', '"\\xZ"', '"\\ud800"', '"\\400"', '"a\\', '"tab\\there"',
        "`raw\\n`", "`a\nb`", "``", '`"hi"`', '`x = "y"`', '`"`', '`""`', '`a"`', '`"a`', '"`a`"', '"`"', '"a`"', '"`a"', "`'`", '"\'"', "'\"'", "'`'", '"ab\\U00110000cd"', '"\\U0000D800"', '"\\UFFFFFFFF"', '"\\U0010FFFF"', '"\\uDFFF"', '"\\u00"', '"\\U0001F60"', '"\\x"', '"\\8"',
        "`\\U00110000`", '"a\\400b"', '"\\777"', '"\\a\\b\\f\\r\\v\\t"', '"\\377"', '"\\xff\\xfe"', "'\\xff'", "'\\377'"]


def run(ck):
    quick = ck.quick()
    depth, litlen = (2, 4) if quick else (2, 5)
    cases = []
    # (1) trees
    r = ck.tlc("Syntax", CFG % (depth, 1, "trees"), workers=1, name="trees", timeout=3000, xmx="12g", xss="512m")
    if r.violated:
        raise vlib.Infra("Syntax.tla trees: %s" % r.violated)
    seen = set()
    for t in r.tagged("TREE"):
        k = " ".join(t["min"])
        if k in seen:
            continue
        seen.add(k)
        cases.append({"id": len(cases), "kind": "tree", "min": t["min"], "full": t["full"]})
    ntrees = len(cases)
    # (1b) the same trees in every statement/expression context (r += e, return e, call argument, for post statement, ...): the
    # documented grouping does not depend on where the expression stands.  Plus forms TLC's binary-operator trees do not contain.
    CONTEXTS = ["define", "assign", "add-assign", "shl-assign", "andnot-assign", "return", "export", "expr-stmt", "call-arg", "spread-arg", "index", "slice-low",
                "slice-high", "array-elem", "map-value", "if-cond", "if-init", "for-cond", "for-post", "for-init", "forin", "ternary-cond", "ternary-true",
                "ternary-false", "error", "immutable", "paren-call", "sel-assign", "index-assign"]
    # (only contexts that delimit the expression: "e + z", "-e", "e ? 1 : 2" would legitimately regroup a minimally parenthesised e)
    CONTEXTS.remove("ternary-cond")
    P = lambda *t: list(t)
    extra_forms = [
        (P("c", "?", "2", ":", "3"), P("(", "c", "?", "2", ":", "3", ")")),
        (P("a", "?", "b", ":", "c", "?", "d", ":", "e"), P("(", "a", "?", "b", ":", "(", "c", "?", "d", ":", "e", ")", ")")),
        (P("a", "||", "b", "?", "c", "+", "1", ":", "d", "&&", "e"), P("(", "(", "a", "||", "b", ")", "?", "(", "c", "+", "1", ")", ":", "(", "d", "&&", "e", ")", ")")),
        (P("a", "?", "b", "?", "1", ":", "2", ":", "3"), P("(", "a", "?", "(", "b", "?", "1", ":", "2", ")", ":", "3", ")")),
        (P("-", "-", "x"), P("(", "-", "(", "-", "x", ")", ")")), (P("+", "+", "x"), P("(", "+", "(", "+", "x", ")", ")")),
        (P("-", "+", "-", "x"), P("(", "-", "(", "+", "(", "-", "x", ")", ")", ")")), (P("!", "!", "x"), P("(", "!", "(", "!", "x", ")", ")")),
        (P("^", "^", "x"), P("(", "^", "(", "^", "x", ")", ")")), (P("!", "-", "x"), P("(", "!", "(", "-", "x", ")", ")")),
        (P("-", "x", "*", "y"), P("(", "(", "-", "x", ")", "*", "y", ")")), (P("!", "a", "&&", "b"), P("(", "(", "!", "a", ")", "&&", "b", ")")),
        (P("a", "-", "-", "b"), P("(", "a", "-", "(", "-", "b", ")", ")")), (P("a", "+", "+", "b"), P("(", "a", "+", "(", "+", "b", ")", ")")),
        (P("-", "f", "(", "1", ")"), P("(", "-", "f", "(", "1", ")", ")")), (P("-", "a", "[", "0", "]"), P("(", "-", "a", "[", "0", "]", ")")),
        (P("-", "a", ".", "b"), P("(", "-", "a", ".", "b", ")")), (P("a", "<<", "b", "+", "c"), P("(", "(", "a", "<<", "b", ")", "+", "c", ")")),
    ]
    step = 11 if quick else 1
    tree_subset = [c for c in cases[:ntrees]][::step]
    for ctx in CONTEXTS:
        for c in tree_subset:
            cases.append({"id": len(cases), "kind": "treectx", "tc": ctx, "min": c["min"], "full": c["full"]})
        for mn, fl in extra_forms:
            cases.append({"id": len(cases), "kind": "treectx", "tc": ctx, "min": mn, "full": fl})
    if not quick:
        # depth 3 over one representative per precedence level and associativity class (the full depth-3 set has ~10^13 trees)
        for t in deep_trees():
            cases.append({"id": len(cases), "kind": "tree", "min": t[0], "full": t[1]})
    # (2) semicolons
    r = ck.tlc("Syntax", CFG % (1, 1, "semis"), workers=1, name="semis", timeout=600)
    semis = {}
    for t in r.tagged("SEMI"):
        semis[(t["tc"], t["gap"])] = t["semi"]
    for (tc, gap), semi in sorted(semis.items()):
        cases.append({"id": len(cases), "kind": "semi", "tc": tc, "gap": gap, "want": semi})
    # (3) numbers: all strings over the alphabet up to litlen; TLC says which are literals
    r = ck.tlc("Syntax", CFG % (1, litlen, "numbers"), workers=8, name="numbers", timeout=3000, xmx="12g", xss="512m")
    accepted = {"".join(t["s"]): t["k"] for t in r.tagged("NUM")}
    nnum = 0
    for n in range(1, litlen + 1):
        for tup in itertools.product(CHARS, repeat=n):
            s = "".join(tup)
            cases.append({"id": len(cases), "kind": "num", "s": s, "want": accepted.get(s, "no")})
            nnum += 1
    extra_nums = ["0x1p-2", "0x1.8p1", "0X1P+2", "0x_1", "0b1_0", "0o17", "1_000_000", "1__0", "1_", "_1", "0_7", "09", "08.5", "1e+10", "1E5", ".5e-3",
                  "0x.8p0", "0x1.p0", "0x1p", "9223372036854775807", "9223372036854775808", "18446744073709551615", "1e400", "0x1p1024", "1.7976931348623157e308",
                  "0b102", "0o8", "0xg", "1.2.3", "1e", "1e+", "0777", "0789", "00", "0.0", "000.5", "1.e2", "1._5", "1e1_0", "0b", "0o", "0x", "4e-324", "1e-400"]
    # (4) char / string escapes
    for s in LITS:
        cases.append({"id": len(cases), "kind": "lit", "s": s})
    # (5) print -> parse -> compile round trip on generated programs (map keys / module names printable)
    rt = []
    for fam, k in (("random", 300 if quick else 5000), ("shapes", 600 if quick else 0), ("dce", 100 if quick else 2000), ("m-assign", 0), ("m-closure", 0), ("m-call", 0)):
        for p in semlib.generate(ck, fam, k):
            if '"x y"' in p["src"] or "import(" in p["src"]:
                continue   # a map key that is not an identifier: the printer cannot quote it (excluded by the property)
            rt.append(p)
    for p in rt:
        cases.append({"id": len(cases), "kind": "roundtrip", "s": p["src"]})
    # every token that can begin an expression also begins an expression statement, at top level, in a block, in a function body,
    # after another statement on the same line, and as the last statement without a newline
    starts = ["-x", "+x", "!x", "^x", "(x)", "[1, 2]", '"s"', "`r`", "'c'", "1", "1.5", "x", "x.y", "x[0]", "f()", "func() {}()", "undefined", "true", "false",
              "error(1)", "immutable([])", 'import("m")', "x ? 1 : 2", "- -x", "^-x", "!f()", "x++", "x--", "x += 1", "x, y = 1, 2"]
    for st in starts:
        for tmpl in ("%s\n", "y := 0\n%s\n", "if true {\n  %s\n}\n", "f := func() {\n  %s\n  return 1\n}\n", "for {\n  %s\n  break\n}\n", "y := 0; %s\n", "%s", "y := 0\n%s // c\n",
                     "if y := 1; y { %s }\n", "if true { %s } else { %s }\n"):
            cases.append({"id": len(cases), "kind": "parses", "s": tmpl.replace("%s", st)})
    # hand-written sources for the printer: nested unary operators of the same and of different sign, with and without parentheses,
    # literals whose spelling matters, every statement kind once
    unary_srcs = []
    for a in ("-", "+", "!", "^"):
        for b in ("-", "+", "!", "^"):
            for operand in ("x", "1", "(x)", "f(1)", "x.y", "x[0]"):
                unary_srcs.append("x := {y: 1}\nf := func(a) { return a }\nr := %s %s%s\n" % (a, b, operand))
                unary_srcs.append("x := {y: 1}\nf := func(a) { return a }\nr := %s(%s%s)\n" % (a, b, operand))
                unary_srcs.append("x := {y: 1}\nf := func(a) { return a }\nr := 2 %s %s%s\n" % (a if a in "-+^" else "-", b, operand))
    unary_srcs += ['r := `"hi"`\n', 'r := "`a`"\n', "r := 'a'\n", "r := 1.0\n", "r := 1e3\n", "r := 0x1F\n", 'r := "a\\tb"\n',
                   "a := [1, 2, 3]\nr := a[1:]\ns := a[:2]\nt := a[:]\n", "f := func(a, ...b) { return b }\nr := f(1, [2]...)\n",
                   "r := 0\nfor i := 0; i < 3; i++ { if i == 1 { continue } else if i == 2 { break }; r += i > 0 ? 2 : 3 }\n",
                   "m := {a: 1}\nfor k, v in m { m[k] = v + 1 }\nr := immutable([error(1)])\n"]
    # every shape of a for header (each clause present or absent) and of an if header
    for hdr, body in (("for", "if i > 2 { break }; i++"), ("for i < 3", "i++"), ("for i = 1; i < 3; i++", "r += i"), ("for ; i < 3; i++", "r += i"), ("for ; ; i++", "if i > 2 { break }"),
                      ("for i = 1; i < 3;", "i++"), ("for i = 1; ; i++", "if i > 2 { break }"), ("for i = 1; ;", "if i > 2 { break }; i++"), ("for ; i < 3;", "i++"),
                      ("for j := 0; j < 2; j++", "r += j"), ("for j := 0; ; j += 2", "if j > 3 { break }"), ("for k, v in [1, 2]", "r += k + v"), ("for v in [1, 2]", "r += v"),
                      ("if i == 0", "r = 1"), ("if q := 2; q > i", "r = q"), ("if q := 2; q > i { r = q } else if i > 5 { r = 5 } else", "r = 7")):
        unary_srcs.append("i := 0\nr := 0\n%s {\n  %s\n}\n" % (hdr, body))
        unary_srcs.append("f := func(i, r) {\n  %s { %s }\n  return r\n}\nx := f(0, 0)\n" % (hdr, body))
    for src in unary_srcs:
        cases.append({"id": len(cases), "kind": "roundtrip", "s": src})
    # bracketed lists laid out over several lines: the closing bracket on a line of its own after the last element (with a comment
    # behind the last element, with an empty or comment line in between), as the tutorial writes map literals
    for opn, cls, els in (("f(", ")", ("1", "2")), ("[", "]", ("1", "2")), ("{", "}", ("a: 1", "b: 2")), ("f(", ")", ("x",)), ("[", "]", ("[1]",)), ("{", "}", ("a: {}",)),
                          ("f(", ")", ("func() {}", "g(\n    1\n  )")), ("immutable([", "])", ("1", "2")), ("f(", ")", ("xs...",))):
        for last in ("\n", " // c\n", " /* c */\n", "\n\n", "\n  // c\n"):      # (a trailing comma is not part of this grammar)
            body = ",\n  ".join(els)
            for tmpl in ("f := func(...a) { return a }\ng := f\nxs := [1]\nx := 1\nr := %s\n", "f := func(...a) { return a }\ng := f\nxs := [1]\nx := 1\nh := func() {\n  return %s\n}\n"):
                cases.append({"id": len(cases), "kind": "parses", "s": tmpl % (opn + "\n  " + body + last + cls)})
    res = vlib.run_cases(ck, "syntax", cases, nproc=12)
    # numbers outside the TLC alphabet: Go is the oracle for classification as well
    extra_res = vlib.run_cases(ck, "syntax", [{"id": i, "kind": "num", "s": s} for i, s in enumerate(extra_nums)], nproc=2)
    stats = {"tree": 0, "treectx": 0, "parses": 0, "semi": 0, "num": 0, "lit": 0, "roundtrip": 0}
    spec_vs_go = 0
    for c in cases:
        o = res[c["id"]]
        ck.evaluations += 1
        k = c["kind"]
        if o.get("hang") or o.get("died") or o.get("panic"):
            ck.violation("syntax-host-down:" + k, "scanner/parser did not return a value on %r" % (c.get("s") or " ".join(c.get("min", [])))[:300], {"case": c, "real": o})
            continue
        if k == "tree":
            if o.get("err") or o["got"] != o["want"]:
                ck.violation("grouping:" + outer_op(c), "%r is grouped as %s, the documented precedence/associativity gives %s" % (
                    " ".join(c["min"]), o.get("got") or o.get("err"), o.get("want", "".join(c["full"]))), {"case": c, "real": o})
                continue
        elif k == "parses":
            if o.get("err"):
                ck.violation("statement-rejected:" + c["s"].strip().split("\n")[-1].split(" ")[0][:12], "a statement the grammar allows is rejected: %s\n%s" % (o["err"].split("\n")[0], c["s"]), {"case": c, "real": o})
                continue
        elif k == "treectx":
            if o.get("skip"):
                continue
            if o.get("err") or o["got"] != o["want"]:
                ck.violation("grouping-in-context:" + c["tc"], "%r is parsed as %s, the documented grouping gives %s" % (
                    o.get("src"), o.get("got") or o.get("err"), o.get("want")), {"case": c, "real": o})
                continue
        elif k == "semi":
            if o["semi"] != c["want"]:
                ck.violation("semicolon:%s:%s" % (c["tc"], c["gap"]), "after token %r followed by %s the scanner %s a semicolon (tokens %s)" % (
                    c["tc"], c["gap"], "inserts" if o["semi"] else "does not insert", o["toks"]), {"case": c, "real": o})
                continue
        elif k == "num":
            if o["go"] != c["want"]:
                spec_vs_go += 1
                raise vlib.Infra("Syntax.tla classifies %r as %s, Go's scanner as %s: the spec is wrong" % (c["s"], c["want"], o["go"]))
            bad = check_num(c["s"], o)
            if bad:
                ck.violation("number:" + bad[0], "number literal %r: %s" % (c["s"], bad[1]), {"case": c, "real": o})
                continue
        elif k == "lit":
            g, t = o["go"], o["tengo"]
            if ("err" in g) != ("err" in t) or ("err" not in g and (g["k"] != t.get("k") or g["v"] != t.get("v"))):
                ck.violation("literal:" + c["s"][:12], "literal %s denotes %s, Go's literal syntax gives %s" % (c["s"], json.dumps(t)[:120], json.dumps(g)[:120]), {"case": c, "real": o})
                continue
        elif k == "roundtrip":
            if "skip" in o:
                continue
            if not o["same"]:
                ck.violation("roundtrip", "the printed form of a parsed program does not compile to the same code: %s\n--- source\n%s\n--- printed\n%s" % (
                    o.get("why", "instructions/constants differ"), c["s"][:1200], o.get("printed", "")[:1200]), {"case": c, "real": o})
                continue
        stats[k] += 1
        ck.traces += 1
    for i, s in enumerate(extra_nums):
        o = extra_res[i]
        ck.evaluations += 1
        bad = check_num(s, o)
        if bad:
            ck.violation("number:" + bad[0], "number literal %r: %s" % (s, bad[1]), {"case": {"s": s}, "real": o})
        else:
            ck.traces += 1
    ck.extra.update({"checked": stats, "trees_depth2": ntrees, "number_spellings": nnum, "number_literals_accepted_by_spec": len(accepted),
                     "semicolon_cells": len(semis), "roundtrip_programs": len(rt)})
    ck.exhaustive = True
    ck.add_sample({"tree": cases[ntrees // 2]["min"], "expected": cases[ntrees // 2]["full"]})
    for c in cases[:ntrees:37]:
        ck.note_distinct(" ".join(c["min"]))
    for c in cases:
        if c["kind"] != "tree":
            ck.note_distinct(json.dumps(c, sort_keys=True)[:200])
    ck.rule = ("all expression trees of depth <= 2 over all operators; token class x gap kind; all spellings over the literal alphabet up to "
               "the length bound; escape forms; round trip of generated programs")
    ck.assumptions = ["Go's scanner / go/constant / strconv.Unquote are the oracle for literal syntax and values, as the property names Go's literal syntax",
                      "the semicolon rule is Go's rule restricted to Tengo's tokens (the documentation says 'like Go')"]


def check_num(s, o):
    if o["go"] != "no" and o.get("govalue") == "overflow":
        # a literal Go accepts as an untyped constant but that fits neither int64 nor float64: outside the property
        return None
    if o["tengo"] != o["go"]:
        return ("class", "the scanner reads it as %s, Go's literal syntax says %s" % (o["tengo"], o["go"]))
    if o["go"] == "no":
        return None
    lit = o.get("lit") or {}
    if o["govalue"] == "overflow":
        if "err" not in lit:
            return ("overflow", "does not fit int64 but is accepted with value %s" % lit.get("v"))
        return None
    if lit.get("k") != o["go"] or lit.get("v") != o["govalue"]:
        return ("value", "denotes %s, Go gives %s %s" % (json.dumps(lit)[:100], o["go"], o["govalue"]))
    return None


def outer_op(c):
    # the operator of the root, for the violation key: the token at parenthesis depth 1 of the full form
    d = 0
    for t in c["full"]:
        if t == "(":
            d += 1
        elif t == ")":
            d -= 1
        elif d == 1 and t not in ("x",):
            return t
    return "?"


def deep_trees():
    """depth-3 trees over one representative operator per level (thorough tier); built here with the same two printing rules"""
    reps = {"*": 5, "+": 4, "<": 3, "&&": 2, "||": 1}
    uns = ["-", "!"]

    def prec(t):
        return 7 if t[0] == "leaf" else 6 if t[0] == "un" else 0 if t[0] == "cond" else reps[t[1]]

    def smin(t):
        def P(y, need):
            return ["("] + smin(y) + [")"] if need else smin(y)
        if t[0] == "leaf":
            return ["x"]
        if t[0] == "un":
            return [t[1]] + P(t[2], prec(t[2]) < 6)
        if t[0] == "bin":
            return P(t[2], prec(t[2]) < reps[t[1]]) + [t[1]] + P(t[3], prec(t[3]) <= reps[t[1]])
        return P(t[1], prec(t[1]) == 0) + ["?"] + smin(t[2]) + [":"] + smin(t[3])

    def sfull(t):
        if t[0] == "leaf":
            return ["x"]
        if t[0] == "un":
            return ["(", t[1]] + sfull(t[2]) + [")"]
        if t[0] == "bin":
            return ["("] + sfull(t[2]) + [t[1]] + sfull(t[3]) + [")"]
        return ["("] + sfull(t[1]) + ["?"] + sfull(t[2]) + [":"] + sfull(t[3]) + [")"]

    def trees(d):
        if d == 0:
            return [("leaf",)]
        s = trees(d - 1)
        out = list(s)
        out += [("un", u, e) for u in uns for e in s]
        out += [("bin", op, l, r) for op in reps for l in s for r in s]
        if d <= 2:
            out += [("cond", c, a, b) for c in s for a in s for b in s]
        return out
    seen = set()
    for t in trees(3):
        m = smin(t)
        k = " ".join(m)
        if k not in seen and len(m) <= 40:
            seen.add(k)
            yield (m, sfull(t))
        if len(seen) > 400000:
            return


def replay(ck, path):
    c = json.load(open(path))["replay"]["case"]
    c["id"] = 0
    print(json.dumps(vlib.run_cases(ck, "syntax", [c], nproc=1)[0], indent=1)[:3000])
    return 0
