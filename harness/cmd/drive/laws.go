package main

import (
	"strings"
	"bytes"
	"context"
	"fmt"
	"math"
	"strconv"
	"time"

	"github.com/d5/tengo/v2"
	"github.com/d5/tengo/v2/token"
)

// laws: evaluates equality / ordering / truthiness / copy / conversions of the real
// runtime on a concrete universe of values (with boundary numerics) and reports, per
// pair, the abstract descriptor computed with Go's own operators together with what
// the real code answered - through the Object API and through compiled scripts.

type lval struct {
	name string
	o    tengo.Object
}

func lawUniverse(rnd *lawRand) []lval {
	t1 := time.Unix(1000, 5).UTC()
	t2 := time.Unix(2000, 0).UTC()
	e1 := &tengo.Error{Value: &tengo.String{Value: "x"}}
	shared := &tengo.Array{Value: []tengo.Object{&tengo.Int{Value: 1}}}
	mk := func(vs ...tengo.Object) []tengo.Object { return vs }
	i := func(n int64) tengo.Object { return &tengo.Int{Value: n} }
	u := []lval{
		{"int:min", i(math.MinInt64)}, {"int:-1", i(-1)}, {"int:0", i(0)}, {"int:1", i(1)}, {"int:65", i(65)},
		{"int:2^53", i(1 << 53)}, {"int:2^53+1", i(1<<53 + 1)}, {"int:max", i(math.MaxInt64)},
		{"float:-inf", &tengo.Float{Value: math.Inf(-1)}}, {"float:-1.5", &tengo.Float{Value: -1.5}},
		{"float:-0", &tengo.Float{Value: math.Copysign(0, -1)}}, {"float:0", &tengo.Float{Value: 0}},
		{"float:0.5", &tengo.Float{Value: 0.5}}, {"float:1", &tengo.Float{Value: 1}}, {"float:65", &tengo.Float{Value: 65}},
		{"float:2^53", &tengo.Float{Value: 1 << 53}}, {"float:2^63", &tengo.Float{Value: 9223372036854775808.0}},
		{"float:+inf", &tengo.Float{Value: math.Inf(1)}}, {"float:nan", &tengo.Float{Value: math.NaN()}},
		{"char:0", &tengo.Char{Value: 0}}, {"char:1", &tengo.Char{Value: 1}}, {"char:A", &tengo.Char{Value: 'A'}},
		{"char:é", &tengo.Char{Value: 0xE9}}, {"char:max", &tengo.Char{Value: 0x10FFFF}},
		{"string:", &tengo.String{Value: ""}}, {"string:a", &tengo.String{Value: "a"}}, {"string:A", &tengo.String{Value: "A"}},
		{"string:ab", &tengo.String{Value: "ab"}}, {"string:é", &tengo.String{Value: "é"}}, {"string:65", &tengo.String{Value: "65"}},
		{"string:1.5", &tengo.String{Value: "1.5"}}, {"string:-7", &tengo.String{Value: "-7"}}, {"string:bad\xff", &tengo.String{Value: "bad\xff"}},
		// spellings that a more liberal parser would accept, and numbers beyond the range of the target type
		{"string:010", &tengo.String{Value: "010"}}, {"string:0x1f", &tengo.String{Value: "0x1f"}}, {"string:1_000", &tengo.String{Value: "1_000"}},
		{"string:+5", &tengo.String{Value: "+5"}}, {"string: 5", &tengo.String{Value: " 5"}}, {"string:1e3", &tengo.String{Value: "1e3"}},
		{"string:1e999", &tengo.String{Value: "1e999"}}, {"string:-1e400", &tengo.String{Value: "-1e400"}}, {"string:1e-999", &tengo.String{Value: "1e-999"}},
		{"string:2^63", &tengo.String{Value: "9223372036854775808"}}, {"string:-2^63-1", &tengo.String{Value: "-9223372036854775809"}},
		{"string:Inf", &tengo.String{Value: "Inf"}}, {"string:0x1p-2", &tengo.String{Value: "0x1p-2"}},
		{"bytes:", &tengo.Bytes{Value: []byte{}}}, {"bytes:a", &tengo.Bytes{Value: []byte("a")}}, {"bytes:ab", &tengo.Bytes{Value: []byte("ab")}},
		{"bool:true", tengo.TrueValue}, {"bool:false", tengo.FalseValue}, {"undefined", tengo.UndefinedValue},
		{"time:zero", &tengo.Time{Value: time.Time{}}}, {"time:t1", &tengo.Time{Value: t1}}, {"time:t2", &tengo.Time{Value: t2}},
		{"time:zero-otherzone", &tengo.Time{Value: time.Time{}.In(time.FixedZone("X", 3600))}},
		{"time:t1-otherzone", &tengo.Time{Value: t1.In(time.FixedZone("X", 3600))}},
		{"time:t1+1ns", &tengo.Time{Value: t1.Add(1)}}, {"time:t1+999ms", &tengo.Time{Value: t1.Add(999 * time.Millisecond)}},
		{"error:e1", e1}, {"error:e1again", e1}, {"error:e2", &tengo.Error{Value: &tengo.String{Value: "x"}}},
		{"array:[]", &tengo.Array{Value: mk()}}, {"array:[1]", &tengo.Array{Value: mk(i(1))}},
		{"array:[1.0]", &tengo.Array{Value: mk(&tengo.Float{Value: 1})}}, {"array:[1,2]", &tengo.Array{Value: mk(i(1), i(2))}},
		{"array:[[1],2]", &tengo.Array{Value: mk(shared, i(2))}}, {"array:[[1],[1]]", &tengo.Array{Value: mk(shared, shared)}},
		{"array:[nan]", &tengo.Array{Value: mk(&tengo.Float{Value: math.NaN()})}},
		{"array:[1.0,2]", &tengo.Array{Value: mk(&tengo.Float{Value: 1}, i(2))}},
		{"array:[imm[1],2]", &tengo.Array{Value: mk(&tengo.ImmutableArray{Value: mk(i(1))}, i(2))}},
		{"array:[imm{a:1}]", &tengo.Array{Value: mk(&tengo.ImmutableMap{Value: map[string]tengo.Object{"a": i(1)}})}},
		{"array:[{a:1}]", &tengo.Array{Value: mk(&tengo.Map{Value: map[string]tengo.Object{"a": &tengo.Float{Value: 1}}})}},
		{"immutable-array:[1.0,2]", &tengo.ImmutableArray{Value: mk(&tengo.Float{Value: 1}, i(2))}},
		{"map:{a:[1.0]}", &tengo.Map{Value: map[string]tengo.Object{"a": &tengo.Array{Value: mk(&tengo.Float{Value: 1})}}}},
		{"map:{a:imm[1]}", &tengo.Map{Value: map[string]tengo.Object{"a": &tengo.ImmutableArray{Value: mk(i(1))}}}},
		{"immutable-array:[]", &tengo.ImmutableArray{Value: mk()}}, {"immutable-array:[1]", &tengo.ImmutableArray{Value: mk(i(1))}},
		{"immutable-array:[[1],2]", &tengo.ImmutableArray{Value: mk(shared, i(2))}},
		{"map:{}", &tengo.Map{Value: map[string]tengo.Object{}}}, {"map:{a:1}", &tengo.Map{Value: map[string]tengo.Object{"a": i(1)}}},
		{"map:{a:1,b:[1]}", &tengo.Map{Value: map[string]tengo.Object{"a": i(1), "b": shared}}},
		{"map:{b:1}", &tengo.Map{Value: map[string]tengo.Object{"b": i(1)}}},
		{"map:{a:undef}", &tengo.Map{Value: map[string]tengo.Object{"a": tengo.UndefinedValue}}},
		{"immutable-map:{}", &tengo.ImmutableMap{Value: map[string]tengo.Object{}}},
		{"immutable-map:{a:1}", &tengo.ImmutableMap{Value: map[string]tengo.Object{"a": i(1)}}},
		{"immutable-map:{a:1,b:[1]}", &tengo.ImmutableMap{Value: map[string]tengo.Object{"a": i(1), "b": shared}}},
		{"function", &tengo.CompiledFunction{Instructions: []byte{21, 0}}},
		{"builtin", tengo.GetAllBuiltinFunctions()[0]},
	}
	if rnd != nil {
		for k := 0; k < rnd.n; k++ {
			u = append(u, rnd.value(k))
		}
	}
	return u
}

// lawRand produces random concrete values (numbers near boundaries, strings, chars, times).
type lawRand struct {
	n    int
	seed uint64
}

func (r *lawRand) next() uint64 {
	r.seed ^= r.seed << 13
	r.seed ^= r.seed >> 7
	r.seed ^= r.seed << 17
	return r.seed
}

func (r *lawRand) value(k int) lval {
	x := r.next()
	switch x % 6 {
	case 0:
		v := int64(r.next())
		switch r.next() % 4 {
		case 0:
			v = v % 100
		case 1:
			v = (1 << 53) + v%3
		case 2:
			v = math.MaxInt64 - int64(r.next()%3)
		}
		return lval{fmt.Sprintf("int:%d", v), &tengo.Int{Value: v}}
	case 1:
		f := math.Float64frombits(r.next())
		switch r.next() % 4 {
		case 0:
			f = float64(int64(r.next()%200)-100) / 4
		case 1:
			f = float64((1 << 53) + int64(r.next()%3))
		case 2:
			f = float64(int64(r.next()))
		}
		return lval{"float:" + strconv.FormatFloat(f, 'g', -1, 64), &tengo.Float{Value: f}}
	case 2:
		c := rune(r.next() % 300)
		return lval{fmt.Sprintf("char:%d", c), &tengo.Char{Value: c}}
	case 3:
		b := make([]byte, r.next()%4)
		for i := range b {
			b[i] = "abAé\xc3z0"[r.next()%8]
		}
		return lval{fmt.Sprintf("string:%q", string(b)), &tengo.String{Value: string(b)}}
	case 4:
		return lval{"time:r", &tengo.Time{Value: time.Unix(int64(r.next()%5000), int64(r.next()%3)).UTC()}}
	}
	b := make([]byte, r.next()%3)
	for i := range b {
		b[i] = byte(r.next())
	}
	return lval{fmt.Sprintf("bytes:%x", b), &tengo.Bytes{Value: b}}
}

func lawType(o tengo.Object) string {
	switch o.(type) {
	case *tengo.CompiledFunction:
		return "function"
	case *tengo.BuiltinFunction, *tengo.UserFunction:
		return "builtin"
	}
	return o.TypeName()
}

func cmp3(lt, eq bool) string {
	switch {
	case lt:
		return "lt"
	case eq:
		return "eq"
	}
	return "gt"
}

func isArr(t string) bool { return t == "array" || t == "immutable-array" }
func isMap(t string) bool { return t == "map" || t == "immutable-map" }

func arrVals(o tengo.Object) []tengo.Object {
	switch o := o.(type) {
	case *tengo.Array:
		return o.Value
	case *tengo.ImmutableArray:
		return o.Value
	}
	return nil
}

func mapVals(o tengo.Object) map[string]tengo.Object {
	switch o := o.(type) {
	case *tengo.Map:
		return o.Value
	case *tengo.ImmutableMap:
		return o.Value
	}
	return nil
}

// lawRel: the abstract relation of two concrete values, from Go's own operators.
func lawRel(a, b tengo.Object) string {
	ta, tb := lawType(a), lawType(b)
	num := func(o tengo.Object) (float64, int64, bool) {
		switch o := o.(type) {
		case *tengo.Int:
			return float64(o.Value), o.Value, true
		case *tengo.Float:
			return o.Value, 0, false
		}
		return 0, 0, false
	}
	switch {
	case (ta == "int" || ta == "float") && (tb == "int" || tb == "float"):
		fa, ia, inta := num(a)
		fb, ib, intb := num(b)
		if inta && intb {
			return cmp3(ia < ib, ia == ib)
		}
		if math.IsNaN(fa) || math.IsNaN(fb) {
			return "un"
		}
		return cmp3(fa < fb, fa == fb) // the int taken as a float
	case ta == "int" && tb == "char":
		return cmp3(a.(*tengo.Int).Value < int64(b.(*tengo.Char).Value), a.(*tengo.Int).Value == int64(b.(*tengo.Char).Value))
	case ta == "char" && tb == "int":
		return cmp3(int64(a.(*tengo.Char).Value) < b.(*tengo.Int).Value, int64(a.(*tengo.Char).Value) == b.(*tengo.Int).Value)
	case ta == "char" && tb == "char":
		return cmp3(a.(*tengo.Char).Value < b.(*tengo.Char).Value, a.(*tengo.Char).Value == b.(*tengo.Char).Value)
	case ta == "string" && tb == "string":
		return cmp3(a.(*tengo.String).Value < b.(*tengo.String).Value, a.(*tengo.String).Value == b.(*tengo.String).Value)
	case ta == "time" && tb == "time":
		return cmp3(a.(*tengo.Time).Value.Before(b.(*tengo.Time).Value), a.(*tengo.Time).Value.Equal(b.(*tengo.Time).Value))
	case ta == "bytes" && tb == "bytes":
		if bytes.Equal(a.(*tengo.Bytes).Value, b.(*tengo.Bytes).Value) {
			return "eq"
		}
		return "lt"
	case ta == "bool" && tb == "bool":
		if a == b {
			return "eq"
		}
		return "lt"
	case ta == "undefined" && tb == "undefined":
		return "eq"
	case ta == "error" && tb == "error":
		if a == b {
			return "same"
		}
		return "other"
	case (isArr(ta) && isArr(tb)) || (isMap(ta) && isMap(tb)):
		if lawEq(a, b, 0) {
			return "seq"
		}
		return "sne"
	}
	return "none"
}

// lawEq applies the documented equality table recursively (harness-side, independent of Object.Equals).
func lawEq(a, b tengo.Object, d int) bool {
	if d > 20 {
		return false
	}
	ta, tb := lawType(a), lawType(b)
	switch {
	case isArr(ta) && isArr(tb):
		x, y := arrVals(a), arrVals(b)
		if len(x) != len(y) {
			return false
		}
		for i := range x {
			if !lawEq(x[i], y[i], d+1) {
				return false
			}
		}
		return true
	case isMap(ta) && isMap(tb):
		x, y := mapVals(a), mapVals(b)
		if len(x) != len(y) {
			return false
		}
		for k, v := range x {
			w, ok := y[k]
			if !ok || !lawEq(v, w, d+1) {
				return false
			}
		}
		return true
	case isArr(ta) || isMap(ta) || isArr(tb) || isMap(tb):
		return false
	case ta == "function" || ta == "builtin" || tb == "function" || tb == "builtin":
		return false
	}
	r := lawRel(a, b)
	return r == "eq" || r == "same"
}

var lawOps = []struct {
	name string
	tok  token.Token
	src  string
}{{"lt", token.Less, "<"}, {"le", token.LessEq, "<="}, {"gt", token.Greater, ">"}, {"ge", token.GreaterEq, ">="}}

func boolOrErr(o tengo.Object, err error) interface{} {
	if err != nil {
		return "err"
	}
	if o == tengo.TrueValue {
		return true
	}
	if o == tengo.FalseValue {
		return false
	}
	return "notbool:" + o.TypeName()
}

func scriptBool(src string, a, b tengo.Object) interface{} {
	s := tengo.NewScript([]byte("r := " + src))
	_ = s.Add("a", a)
	if b != nil {
		_ = s.Add("b", b)
	}
	c, err := s.Compile()
	if err != nil {
		return "compile:" + err.Error()
	}
	ctx, cancel := context.WithTimeout(context.Background(), 5*time.Second)
	defer cancel()
	if err := c.RunContext(ctx); err != nil {
		return "err"
	}
	return boolOrErr(c.Get("r").Object(), nil)
}

func lawsPairs(u []lval, lo, hi int) {
	for i := lo; i < hi && i < len(u); i++ {
		for j := range u {
			a, b := u[i], u[j]
			rec := V{"a": a.name, "b": b.name, "ta": lawType(a.o), "tb": lawType(b.o), "rel": lawRel(a.o, b.o)}
			api := V{"eq": a.o.Equals(b.o)}
			scr := V{"eq": scriptBool("a == b", a.o, b.o), "ne": scriptBool("a != b", a.o, b.o)}
			for _, op := range lawOps {
				api[op.name] = boolOrErr(a.o.BinaryOp(op.tok, b.o))
				scr[op.name] = scriptBool("a "+op.src+" b", a.o, b.o)
			}
			rec["api"] = api
			rec["script"] = scr
			emit(rec)
		}
	}
}

func snapshot(o tengo.Object) string { b, _ := jsonMarshal(encodeValue(o)); return string(b) }

func lawsSingles(u []lval) {
	for _, a := range u {
		t := lawType(a.o)
		rec := V{"single": a.name, "t": t}
		// truthiness
		rec["falsy_api"] = a.o.IsFalsy()
		rec["falsy_script"] = scriptBool("!a", a.o, nil)
		// the same variable on both sides, and one object reached through two variables / a container
		rec["self_eq"] = scriptBool("a == a", a.o, nil)
		rec["self_ne"] = scriptBool("a != a", a.o, nil)
		rec["alias_eq"] = scriptBool("[a][0] == a", a.o, nil)
		rec["self_api"] = a.o.Equals(a.o)
		flag := "any"
		switch o := a.o.(type) {
		case *tengo.Int:
			flag = map[bool]string{true: "zero", false: "nonzero"}[o.Value == 0]
		case *tengo.Char:
			flag = map[bool]string{true: "zero", false: "nonzero"}[o.Value == 0]
		case *tengo.Float:
			flag = "nonzero"
			if math.IsNaN(o.Value) {
				flag = "nan"
			} else if o.Value == 0 {
				flag = "zero"
			}
		case *tengo.String:
			flag = map[bool]string{true: "empty", false: "nonempty"}[len(o.Value) == 0]
		case *tengo.Bytes:
			flag = map[bool]string{true: "empty", false: "nonempty"}[len(o.Value) == 0]
		case *tengo.Array:
			flag = map[bool]string{true: "empty", false: "nonempty"}[len(o.Value) == 0]
		case *tengo.ImmutableArray:
			flag = map[bool]string{true: "empty", false: "nonempty"}[len(o.Value) == 0]
		case *tengo.Map:
			flag = map[bool]string{true: "empty", false: "nonempty"}[len(o.Value) == 0]
		case *tengo.ImmutableMap:
			flag = map[bool]string{true: "empty", false: "nonempty"}[len(o.Value) == 0]
		case *tengo.Bool:
			flag = map[bool]string{true: "false", false: "true"}[o.IsFalsy()]
		case *tengo.Time:
			flag = map[bool]string{true: "zero", false: "nonzero"}[o.Value.IsZero()]
		}
		rec["flag"] = flag
		// copy: type, equality, and no shared mutable state (mutating the copy at every depth leaves the original alone)
		before := snapshot(a.o)
		cp := a.o.Copy()
		if cp == nil {
			rec["copy"] = V{"nil": true}
		} else {
			cinfo := V{"type": lawType(cp), "equal_api": cp.Equals(a.o) && a.o.Equals(cp), "same_snapshot": strings.ReplaceAll(snapshot(cp), `"imm":true`, `"imm":false`) == strings.ReplaceAll(before, `"imm":true`, `"imm":false`)} // a copy is mutable at every depth: the contents are compared, not the immutability
			mutateAll(cp, 0)
			cinfo["original_unchanged"] = snapshot(a.o) == before
			rec["copy"] = cinfo
		}
		// copy through the builtin, equality through the script
		rec["copy_script_equal"] = scriptBool("copy(a) == a", a.o, nil)
		// conversions
		conv := V{}
		for _, dst := range []string{"string", "int", "float", "bool", "char", "bytes", "time"} {
			if dst == "bytes" {
				if n, ok := a.o.(*tengo.Int); ok && (n.Value < 0 || n.Value > 4096) {
					continue // bytes(N) allocates N bytes; huge / negative N is outside the claim
				}
			}
			conv[dst] = convResult(dst, a.o)
		}
		rec["conv"] = conv
		rec["oracle"] = convOracle(a.o)
		emit(rec)
	}
}

func mutateAll(o tengo.Object, d int) {
	if d > 6 {
		return
	}
	switch o := o.(type) {
	case *tengo.Array:
		for _, e := range o.Value {
			mutateAll(e, d+1)
		}
		for i := range o.Value {
			o.Value[i] = &tengo.String{Value: "MUTATED"}
		}
	case *tengo.Map:
		for _, e := range o.Value {
			mutateAll(e, d+1)
		}
		for k := range o.Value {
			o.Value[k] = &tengo.String{Value: "MUTATED"}
		}
		o.Value["added"] = tengo.TrueValue
	case *tengo.Bytes:
		for i := range o.Value {
			o.Value[i] = 'M'
		}
	case *tengo.Error:
		mutateAll(o.Value, d+1)
	}
}

func convResult(dst string, a tengo.Object) V {
	run := func(src string) V {
		s := tengo.NewScript([]byte(src))
		_ = s.Add("a", a)
		c, err := s.Compile()
		if err != nil {
			return V{"compile": err.Error()}
		}
		ctx, cancel := context.WithTimeout(context.Background(), 5*time.Second)
		defer cancel()
		if err := c.RunContext(ctx); err != nil {
			return V{"err": err.Error()}
		}
		r := c.Get("r").Object()
		out := V{"t": lawType(r), "v": encodeValue(r)}
		if s, ok := r.(*tengo.String); ok {
			out["s"] = s.Value
		}
		if f, ok := r.(*tengo.Float); ok {
			out["fbits"] = strconv.FormatUint(math.Float64bits(f.Value), 16)
		}
		if tm, ok := r.(*tengo.Time); ok {
			out["unixnano"] = strconv.FormatInt(tm.Value.UnixNano(), 10)
		}
		return out
	}
	return V{"plain": run("r := " + dst + "(a)"), "dflt": run("r := " + dst + "(a, \"DFLT\")")}
}

// convOracle: what Go's own conversions give for the value (the documented table names them).
func convOracle(a tengo.Object) V {
	o := V{}
	switch x := a.(type) {
	case *tengo.Int:
		o["string"] = strconv.FormatInt(x.Value, 10)
		o["float_bits"] = strconv.FormatUint(math.Float64bits(float64(x.Value)), 16)
		o["int"] = strconv.FormatInt(x.Value, 10)
		o["char"] = strconv.FormatInt(int64(rune(x.Value)), 10)
		o["time_unixnano"] = strconv.FormatInt(time.Unix(x.Value, 0).UnixNano(), 10)
		if x.Value >= 0 && x.Value <= 4096 {
			o["bytes_len"] = x.Value
		}
	case *tengo.Float:
		o["string"] = strconv.FormatFloat(x.Value, 'f', -1, 64)
		o["float_bits"] = strconv.FormatUint(math.Float64bits(x.Value), 16)
		if !math.IsNaN(x.Value) && x.Value > -9.2e18 && x.Value < 9.2e18 {
			o["int"] = strconv.FormatInt(int64(x.Value), 10)
		}
	case *tengo.Char:
		o["string"] = string(x.Value)
		o["int"] = strconv.FormatInt(int64(x.Value), 10)
		o["char"] = strconv.FormatInt(int64(x.Value), 10)
	case *tengo.Bool:
		if x == tengo.TrueValue {
			o["string"], o["int"] = "true", "1"
		} else {
			o["string"], o["int"] = "false", "0"
		}
	case *tengo.String:
		o["string"] = x.Value
		if n, err := strconv.ParseInt(x.Value, 10, 64); err == nil {
			o["int"] = strconv.FormatInt(n, 10)
			o["int_parses"] = true
		} else {
			o["int_parses"] = false
		}
		if f, err := strconv.ParseFloat(x.Value, 64); err == nil {
			o["float_bits"] = strconv.FormatUint(math.Float64bits(f), 16)
			o["float_parses"] = true
		} else {
			o["float_parses"] = false
		}
		o["bytes"] = bytesV([]byte(x.Value))
	case *tengo.Bytes:
		o["string"] = string(x.Value)
		o["bytes"] = bytesV(x.Value)
	case *tengo.Time:
		o["time_unixnano"] = strconv.FormatInt(x.Value.UnixNano(), 10)
	}
	return o
}

func init() {
	register("laws", "equality/ordering/truthiness/copy/conversion observations: laws [-random N]", func(args []string) error {
		defer flushOut()
		var rnd *lawRand
		if len(args) >= 2 && args[0] == "-random" {
			n, _ := strconv.Atoi(args[1])
			rnd = &lawRand{n: n, seed: uint64(envInt("VERIF_SEED", 1))*2654435761 + 88172645463325252}
		}
		u := lawUniverse(rnd)
		lawsSingles(u)
		lawsPairs(u, 0, len(u))
		return nil
	})
}
