package main

import (
	"bufio"
	"encoding/json"
	"fmt"
	"os"
	"runtime/debug"
	"strconv"
	"sync"
	"time"
)

// Case-runner protocol: ndjson cases on stdin (each with an "id"), one ndjson
// result per case on stdout.  Before a case is executed a {"start":id} line is
// written, so that a hang or a process death is attributed to exactly one case.
// A case that exceeds its deadline produces {"id":..,"hang":true} and the
// process exits with status 3 (its goroutines cannot be reclaimed); a Go panic
// escaping the case produces {"id":..,"panic":"..."}; a fatal runtime error
// kills the process and the orchestrator attributes it to the started case.

var outMu sync.Mutex
var outW = bufio.NewWriterSize(os.Stdout, 1<<20)

func emit(v interface{}) {
	b, err := json.Marshal(v)
	if err != nil {
		b, _ = json.Marshal(map[string]string{"marshal_error": err.Error()})
	}
	outMu.Lock()
	outW.Write(b)
	outW.WriteByte('\n')
	outMu.Unlock()
}

func flushOut() {
	outMu.Lock()
	outW.Flush()
	outMu.Unlock()
}

type rawCase struct {
	ID  json.Number
	Raw []byte
}

func envInt(name string, def int) int {
	if s := os.Getenv(name); s != "" {
		if n, err := strconv.Atoi(s); err == nil {
			return n
		}
	}
	return def
}

// runCases reads cases and calls handle for each; handle returns the result
// object (a map gets "id" added).
func runCases(deadline time.Duration, handle func(raw []byte) map[string]interface{}) error {
	sc := bufio.NewScanner(os.Stdin)
	sc.Buffer(make([]byte, 1<<20), 1<<28)
	defer flushOut()
	for sc.Scan() {
		line := append([]byte(nil), sc.Bytes()...)
		if len(line) == 0 {
			continue
		}
		var hdr struct {
			ID json.Number `json:"id"`
		}
		if err := json.Unmarshal(line, &hdr); err != nil {
			return fmt.Errorf("bad case line: %v", err)
		}
		emit(map[string]interface{}{"start": hdr.ID})
		flushOut()
		done := make(chan map[string]interface{}, 1)
		go func() {
			defer func() {
				if r := recover(); r != nil {
					done <- map[string]interface{}{"panic": fmt.Sprint(r), "stack": string(debug.Stack())}
				}
			}()
			done <- handle(line)
		}()
		select {
		case res := <-done:
			if res == nil {
				res = map[string]interface{}{}
			}
			res["id"] = hdr.ID
			emit(res)
		case <-time.After(deadline):
			emit(map[string]interface{}{"id": hdr.ID, "hang": true})
			flushOut()
			os.Exit(3)
		}
	}
	return sc.Err()
}

func jsonMarshal(v interface{}) ([]byte, error) { return json.Marshal(v) }
