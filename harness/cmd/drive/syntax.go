package main

import (
	"encoding/json"
	"fmt"
	"go/constant"
	goscanner "go/scanner"
	gotoken "go/token"
	"math"
	"strconv"
	"strings"
	"time"

	"github.com/d5/tengo/v2"
	"github.com/d5/tengo/v2/parser"
	"github.com/d5/tengo/v2/token"
)

// syntax: the real scanner / parser against cases derived from Syntax.tla.

func scanAll(src string) (toks []string, lits []string, nerr int) {
	fs := parser.NewFileSet()
	f := fs.AddFile("t", -1, len(src))
	s := parser.NewScanner(f, []byte(src), func(_ parser.SourceFilePos, _ string) { nerr++ }, 0)
	for i := 0; i < 10000; i++ {
		t, lit, _ := s.Scan()
		toks = append(toks, t.String())
		lits = append(lits, lit)
		if t == token.EOF {
			break
		}
	}
	return
}

func parseExprString(src string) (string, error) {
	fs := parser.NewFileSet()
	f := fs.AddFile("t", -1, len(src))
	p := parser.NewParser(f, []byte(src), nil)
	file, err := p.ParseFile()
	if err != nil {
		return "", err
	}
	if len(file.Stmts) != 1 {
		return "", fmt.Errorf("%d statements", len(file.Stmts))
	}
	as, ok := file.Stmts[0].(*parser.AssignStmt)
	if !ok || len(as.RHS) != 1 {
		return "", fmt.Errorf("not an assignment")
	}
	return exprShape(as.RHS[0]), nil
}

// exprShape renders the parsed tree fully parenthesised, ignoring the parentheses that were written
// in the source (ParenExpr nodes): what remains is exactly how the parser grouped the operators.
func exprShape(e parser.Expr) string {
	if e == nil {
		return "<nil>"
	}
	list := func(l []parser.Expr) string {
		var parts []string
		for _, x := range l {
			parts = append(parts, exprShape(x))
		}
		return strings.Join(parts, ",")
	}
	switch e := e.(type) {
	case *parser.ParenExpr:
		return exprShape(e.Expr)
	case *parser.BinaryExpr:
		return "(" + exprShape(e.LHS) + e.Token.String() + exprShape(e.RHS) + ")"
	case *parser.UnaryExpr:
		return "(" + e.Token.String() + exprShape(e.Expr) + ")"
	case *parser.CondExpr:
		return "(" + exprShape(e.Cond) + "?" + exprShape(e.True) + ":" + exprShape(e.False) + ")"
	case *parser.CallExpr:
		sp := ""
		if e.Ellipsis.IsValid() {
			sp = "..."
		}
		return "call{" + exprShape(e.Func) + "|" + list(e.Args) + sp + "}"
	case *parser.IndexExpr:
		return "index{" + exprShape(e.Expr) + "|" + exprShape(e.Index) + "}"
	case *parser.SliceExpr:
		return "slice{" + exprShape(e.Expr) + "|" + exprShape(e.Low) + "|" + exprShape(e.High) + "}"
	case *parser.SelectorExpr:
		return "sel{" + exprShape(e.Expr) + "|" + exprShape(e.Sel) + "}"
	case *parser.ArrayLit:
		return "arr{" + list(e.Elements) + "}"
	case *parser.MapLit:
		var parts []string
		for _, el := range e.Elements {
			parts = append(parts, el.Key+":"+exprShape(el.Value))
		}
		return "map{" + strings.Join(parts, ",") + "}"
	case *parser.ErrorExpr:
		return "error{" + exprShape(e.Expr) + "}"
	case *parser.ImmutableExpr:
		return "immutable{" + exprShape(e.Expr) + "}"
	case *parser.FuncLit:
		return "func{" + e.Type.String() + "|" + stmtShape(e.Body) + "}"
	}
	return e.String()
}

// stmtShape: the same for statements (every expression position through exprShape)
func stmtShape(st parser.Stmt) string {
	if st == nil {
		return "<nil>"
	}
	list := func(l []parser.Expr) string {
		var parts []string
		for _, x := range l {
			parts = append(parts, exprShape(x))
		}
		return strings.Join(parts, ",")
	}
	switch st := st.(type) {
	case *parser.AssignStmt:
		return "assign{" + list(st.LHS) + st.Token.String() + list(st.RHS) + "}"
	case *parser.ExprStmt:
		return "expr{" + exprShape(st.Expr) + "}"
	case *parser.ReturnStmt:
		return "return{" + exprShape(st.Result) + "}"
	case *parser.ExportStmt:
		return "export{" + exprShape(st.Result) + "}"
	case *parser.IncDecStmt:
		return "incdec{" + exprShape(st.Expr) + st.Token.String() + "}"
	case *parser.BlockStmt:
		if st == nil {
			return "block{}"
		}
		var parts []string
		for _, x := range st.Stmts {
			parts = append(parts, stmtShape(x))
		}
		return "block{" + strings.Join(parts, ";") + "}"
	case *parser.IfStmt:
		return "if{" + stmtShape(st.Init) + "|" + exprShape(st.Cond) + "|" + stmtShape(st.Body) + "|" + stmtShape(st.Else) + "}"
	case *parser.ForStmt:
		return "for{" + stmtShape(st.Init) + "|" + exprShape(st.Cond) + "|" + stmtShape(st.Post) + "|" + stmtShape(st.Body) + "}"
	case *parser.ForInStmt:
		return "forin{" + st.Key.Name + "," + st.Value.Name + "|" + exprShape(st.Iterable) + "|" + stmtShape(st.Body) + "}"
	}
	return st.String()
}

func fileShape(src string) (string, error) {
	fs := parser.NewFileSet()
	f := fs.AddFile("t", -1, len(src))
	p := parser.NewParser(f, []byte(src), nil)
	file, err := p.ParseFile()
	if err != nil {
		return "", err
	}
	var parts []string
	for _, st := range file.Stmts {
		parts = append(parts, stmtShape(st))
	}
	return strings.Join(parts, ";"), nil
}

// statement and expression contexts an expression can stand in: the documented grouping must be the same in all of them
var exprContexts = map[string]string{
	"define": "r := %s", "assign": "r = %s", "add-assign": "r += %s", "shl-assign": "r <<= %s", "andnot-assign": "r &^= %s",
	"return": "f := func() { return %s }", "export": "export %s", "expr-stmt": "g(%s)", "call-arg": "r := g(1, %s, 2)", "spread-arg": "r := g(%s ...)",
	"index": "r := a[%s]", "slice-low": "r := a[%s:]", "slice-high": "r := a[:%s]", "array-elem": "r := [1, %s]", "map-value": "r := {k: %s}",
	"if-cond": "if %s { }", "if-init": "if q := %s; q { }", "for-cond": "for %s { }", "for-post": "for i := 0; i < 1; i += %s { }", "for-init": "for i := %s; i < 1; i++ { }",
	"forin": "for x in %s { }", "ternary-cond": "r := %s ? 1 : 2", "ternary-true": "r := c ? %s : 2", "ternary-false": "r := c ? 1 : %s",
	"error": "r := error(%s)", "immutable": "r := immutable(%s)", "paren-call": "r := (%s)(1)", "sel-assign": "a.b = %s", "index-assign": "a[0] += %s",
	"binary-left": "r := %s + z", "unary": "r := -%s", "not": "r := !%s",
}

var tokText = map[string]string{"ident": "abc", "int": "12", "float": "1.5", "char": "'c'", "string": "\"s\"", "rawstring": "`r`",
	"true": "true", "false": "false", "undefined": "undefined", "break": "break", "continue": "continue", "return": "return",
	"export": "export", "++": "++", "--": "--", ")": ")", "]": "]", "}": "}", "(": "(", "[": "[", "{": "{", ",": ",", ".": ".", ":": ":",
	":=": ":=", "=": "=", "+": "+", "-": "-", "*": "*", "&&": "&&", "!": "!", "?": "?", "...": "...", ";": ";", "func": "func", "if": "if",
	"else": "else", "for": "for", "in": "in", "import": "import", "error": "error", "immutable": "immutable", "+=": "+=", "==": "==", "<": "<"}

var gapText = map[string]string{"newline": "\n", "linecomment": " // c\n", "blockcomment-nl": " /* a\n b */ ", "blockcomment-then-nl": " /* c */\n",
	"eof": "", "spaces": "   ", "blockcomment-inline": " /* c */ ",
	"blockcomment-eof": " /* c */", "spaces-eof": "  \t ", "linecomment-eof": " // c", "blockcomments-eof": " /* a */ /* b */  ", "crlf": "\r\n"}

func goClassify(s string) (kind string, val constant.Value) {
	var sc goscanner.Scanner
	fset := gotoken.NewFileSet()
	file := fset.AddFile("", fset.Base(), len(s))
	nerr := 0
	sc.Init(file, []byte(s), func(gotoken.Position, string) { nerr++ }, 0)
	_, tok, lit := sc.Scan()
	_, tok2, lit2 := sc.Scan()
	if nerr > 0 || lit != s || !(tok2 == gotoken.EOF || (tok2 == gotoken.SEMICOLON && lit2 == "\n")) {
		return "no", nil
	}
	switch tok {
	case gotoken.INT:
		return "int", constant.MakeFromLiteral(lit, tok, 0)
	case gotoken.FLOAT:
		return "float", constant.MakeFromLiteral(lit, tok, 0)
	}
	return "no", nil
}

var _ = tengoClassify

func tengoClassify(s string) (kind string, lit string) {
	toks, lits, nerr := scanAll(s)
	if nerr > 0 || len(toks) < 2 || lits[0] != s {
		return "no", ""
	}
	rest := toks[1:]
	okTail := len(rest) == 1 && rest[0] == "EOF" || (len(rest) == 2 && rest[0] == ";" && lits[1] == "\n" && rest[1] == "EOF")
	if !okTail {
		return "no", ""
	}
	switch toks[0] {
	case "INT":
		return "int", lits[0]
	case "FLOAT":
		return "float", lits[0]
	}
	return "no", ""
}

func literalValue(src string) V {
	fs := parser.NewFileSet()
	f := fs.AddFile("t", -1, len(src)+5)
	p := parser.NewParser(f, []byte("r := "+src), nil)
	file, err := p.ParseFile()
	if err != nil {
		return V{"err": err.Error()}
	}
	if len(file.Stmts) != 1 {
		return V{"err": "statements"}
	}
	as, ok := file.Stmts[0].(*parser.AssignStmt)
	if !ok || len(as.RHS) != 1 {
		return V{"err": "shape"}
	}
	switch e := as.RHS[0].(type) {
	case *parser.IntLit:
		return V{"k": "int", "v": strconv.FormatInt(e.Value, 10)}
	case *parser.FloatLit:
		return V{"k": "float", "v": strconv.FormatUint(math.Float64bits(e.Value), 16)}
	case *parser.CharLit:
		return V{"k": "char", "v": strconv.Itoa(int(e.Value))}
	case *parser.StringLit:
		return V{"k": "string", "v": bytesV([]byte(e.Value))}
	}
	return V{"k": "other", "s": as.RHS[0].String()}
}

func syntaxHandle(raw []byte) map[string]interface{} {
	var c struct {
		ID   int      `json:"id"`
		Kind string   `json:"kind"`
		Min  []string `json:"min"`
		Full []string `json:"full"`
		Tc   string   `json:"tc"`
		Gap  string   `json:"gap"`
		S    string   `json:"s"`
	}
	if err := json.Unmarshal(raw, &c); err != nil {
		return map[string]interface{}{"error": err.Error()}
	}
	switch c.Kind {
	case "tree":
		got, err := parseExprString("r := " + strings.Join(c.Min, " "))
		if err != nil {
			return map[string]interface{}{"err": err.Error()}
		}
		return map[string]interface{}{"got": strings.ReplaceAll(got, " ", ""), "want": strings.Join(c.Full, "")}
	case "parses":
		// a statement form that the grammar allows: the parser must accept it (and say nothing)
		if _, err := fileShape(c.S); err != nil {
			return map[string]interface{}{"err": err.Error()}
		}
		return map[string]interface{}{"err": ""}
	case "treectx":
		// the same operator tree, minimally and fully parenthesised, in a statement/expression context
		tmpl, ok := exprContexts[c.Tc]
		if !ok {
			return map[string]interface{}{"error": "unknown context " + c.Tc}
		}
		minSrc := fmt.Sprintf(tmpl, strings.Join(c.Min, " "))
		fullSrc := fmt.Sprintf(tmpl, strings.Join(c.Full, " "))
		got, err := fileShape(minSrc)
		if err != nil {
			return map[string]interface{}{"err": err.Error(), "src": minSrc}
		}
		want, err := fileShape(fullSrc)
		if err != nil {
			return map[string]interface{}{"skip": "fully parenthesised form does not parse: " + err.Error(), "src": fullSrc}
		}
		return map[string]interface{}{"got": got, "want": want, "src": minSrc}
	case "semi":
		src := tokText[c.Tc] + gapText[c.Gap]
		if !strings.HasSuffix(c.Gap, "eof") {
			src += "z"
		}
		toks, lits, _ := scanAll(src)
		semi := len(toks) > 1 && toks[1] == ";" && lits[1] == "\n"
		return map[string]interface{}{"semi": semi, "toks": toks, "src": src}
	case "num":
		gk, gv := goClassify(c.S)
		// acceptance is decided by the parser (the scanner hands malformed spellings on as INT/FLOAT tokens
		// and the parser rejects them with strconv): the spelling is a literal iff "r := <s>" parses to exactly
		// one int / float literal
		tk := "no"
		if lv := literalValue(c.S); lv["k"] == "int" || lv["k"] == "float" {
			tk = lv["k"].(string)
		}
		out := map[string]interface{}{"go": gk, "tengo": tk}
		if gk != "no" {
			lv := literalValue(c.S)
			out["lit"] = lv
			if gk == "int" {
				if n, exact := constant.Int64Val(gv); exact {
					out["govalue"] = strconv.FormatInt(n, 10)
				} else {
					out["govalue"] = "overflow"
				}
			} else {
				f, _ := constant.Float64Val(gv)
				if math.IsInf(f, 0) {
					out["govalue"] = "overflow"
				} else {
					out["govalue"] = strconv.FormatUint(math.Float64bits(f), 16)
				}
			}
		}
		return out
	case "lit":
		// char / string literal spelling: Go's Unquote is the oracle
		out := map[string]interface{}{"tengo": literalValue(c.S)}
		if strings.HasPrefix(c.S, "'") {
			// a rune literal: exactly one (possibly escaped) character between the quotes, as Go's scanner accepts it
			gk := "no"
			var sc goscanner.Scanner
			fset := gotoken.NewFileSet()
			file := fset.AddFile("", fset.Base(), len(c.S))
			nerr := 0
			sc.Init(file, []byte(c.S), func(gotoken.Position, string) { nerr++ }, 0)
			_, tok, lit := sc.Scan()
			if nerr == 0 && tok == gotoken.CHAR && lit == c.S {
				gk = "char"
			}
			if r, _, tail, err := strconv.UnquoteChar(c.S[1:], '\''); gk == "char" && err == nil && tail == "'" {
				out["go"] = V{"k": "char", "v": strconv.Itoa(int(r))}
			} else {
				out["go"] = V{"err": "invalid"}
			}
		} else {
			if u, err := strconv.Unquote(c.S); err == nil {
				out["go"] = V{"k": "string", "v": bytesV([]byte(u))}
			} else {
				out["go"] = V{"err": "invalid"}
			}
		}
		return out
	case "roundtrip":
		return roundTrip(c.S)
	}
	return map[string]interface{}{"error": "unknown kind"}
}

func compileListing(src string) (string, error) {
	fs := parser.NewFileSet()
	f := fs.AddFile("t", -1, len(src))
	p := parser.NewParser(f, []byte(src), nil)
	file, err := p.ParseFile()
	if err != nil {
		return "", err
	}
	st := tengo.NewSymbolTable()
	for idx, fn := range tengo.GetAllBuiltinFunctions() {
		st.DefineBuiltin(idx, fn.Name)
	}
	c := tengo.NewCompiler(f, st, nil, nil, nil)
	if err := c.Compile(file); err != nil {
		return "", err
	}
	bc := c.Bytecode()
	return strings.Join(bc.FormatInstructions(), "\n") + "\n--\n" + strings.Join(stripPointers(bc.FormatConstants()), "\n"), nil
}

func stripPointers(lines []string) []string {
	out := make([]string, len(lines))
	for i, l := range lines {
		if j := strings.LastIndex(l, "|0x"); j >= 0 {
			l = l[:j] + ")"
		}
		out[i] = l
	}
	return out
}

func roundTrip(src string) map[string]interface{} {
	fs := parser.NewFileSet()
	f := fs.AddFile("t", -1, len(src))
	p := parser.NewParser(f, []byte(src), nil)
	file, err := p.ParseFile()
	if err != nil {
		return map[string]interface{}{"skip": "does not parse: " + err.Error()}
	}
	printed := file.String()
	l1, err1 := compileListing(src)
	if err1 != nil {
		return map[string]interface{}{"skip": "does not compile"}
	}
	l2, err2 := compileListing(printed)
	if err2 != nil {
		return map[string]interface{}{"same": false, "why": "printed form does not parse/compile: " + err2.Error(), "printed": printed}
	}
	return map[string]interface{}{"same": l1 == l2, "printed": printed}
}

func init() {
	register("syntax", "scanner/parser cases derived from Syntax.tla", func(args []string) error {
		return runCases(20*time.Second, syntaxHandle)
	})
}
