"""C03 Dead-code elimination never changes what a program does.

E: Optimizer.tla - the optimizer transcribed on index-addressed abstract code; TLC checks
   NoPanic, RemovedUnreachable (only unreachable code is removed), Simulates (same opcodes,
   same successor structure under posMap), EndOK, EndsInRet, PosPreserved for *every*
   instruction sequence up to a length bound over all jump kinds.
R: the real compiler emits every function twice (hook verifNoDCE keeps all instructions);
   OptimizerPairs.tla checks real_opt = Optimize(real_unopt), positions included, and the
   properties on that instance.  Both twins are run; results, error text and reported
   positions must be identical, and the optimized twin must agree with TengoSem.
"""
import json

import c06
import semcmp
import largelib
import semlib
import vlib

EXH_CFG = """SPECIFICATION Spec
CONSTANTS
  MaxLen = %d
  Alphabet = {%s}
INVARIANT Inv
"""
PAIR_CFG = """SPECIFICATION PSpec
CONSTANTS
  MaxLen = 1
  Alphabet = {"K"}
INVARIANT Emit
"""
FULL = '"K", "RET", "JMP", "JMPF", "ANDJMP", "ORJMP"'
COLLAPSED = '"K", "RET", "JMP", "JMPF"'


def run(ck):
    quick = ck.quick()
    # ---- E: exhaustive small scope
    jobs = [(4, FULL, "exh4")] if quick else [(5, FULL, "exh5"), (6, COLLAPSED, "exh6c")]
    for maxlen, alpha, name in jobs:
        r = ck.tlc("Optimizer", EXH_CFG % (maxlen, alpha), workers=16, name=name, timeout=3000, xmx="12g")
        if r.violated:
            raise vlib.Infra("Optimizer.tla violates %s on the transcribed algorithm (model/transcription problem):\n%s" % (
                r.violated, r.stdout[-3000:]))
        ck.log("exhaustive length<=%d: %d sequences" % (maxlen, r.distinct))
    ck.extra["exhaustive_sequences"] = ck.states
    # ---- R: real pairs
    n = 250 if quick else 6000
    progs = []
    for fam, k in (("dce", n), ("random", n // 2), ("smoke", 0), ("shapes", 600 if quick else 0)):
        for p in semlib.generate(ck, fam, k):
            p["id"] = len(progs) + 1
            p["family"] = fam
            progs.append(p)
    def cases(nodce):
        return [{"id": p["id"], "src": p["src"], "inputs": p.get("inputs", []), "mods": [], "nodce": nodce} for p in progs]
    d_opt = vlib.run_cases(ck, "dump", cases(False), nproc=8)
    pairs = []
    byid = {p["id"]: p for p in progs}
    for p in progs:
        a = d_opt[p["id"]]
        if "bc" not in a:
            continue
        for k, op in enumerate(a["optpairs"]):
            if not op["absok"]:
                ck.violation("jump-off-boundary", "a jump target is not an instruction boundary (optimizer call %d):\n%s" % (k, p["src"]),
                             {"program": p, "call": k})
                continue
            pairs.append({"id": p["id"], "fn": k, "unopt": op["unopt"], "opt": op["opt"], "retpos": op["retpos"]})
    ck.log("%d programs, %d function pairs" % (len(progs), len(pairs)))
    njobs = 12
    batches = [pairs[i::njobs] for i in range(njobs) if pairs[i::njobs]]

    def job(ib):
        i, b = ib
        return ck.tlc("OptimizerPairs", PAIR_CFG, files={"pairs.ndjson": vlib.ndjson(b)}, workers=1, name="pairs%d" % i,
                      timeout=1800, xmx="3g", xss="256m")
    removed_total = 0
    nontrivial = 0
    seen = 0
    for r in vlib.parallel(job, list(enumerate(batches)), nproc=njobs):
        for v in r.tagged("PAIR"):
            seen += 1
            p = byid[v["id"]]
            props = v["props"]
            bad = [k for k in props if not props[k]]
            removed_total += v["removed"]
            if v["removed"] > 0:
                nontrivial += 1
                ck.note_distinct("%d/%d" % (v["id"], v["fn"]))
            if not v["well"]:
                ck.violation("ill-targeted", "unoptimized code has a jump outside the function:\n" + p["src"], {"program": p, "v": v})
            elif not v["same"]:
                ck.violation("opt-differs", "optimized code of function #%d is not Optimize(input) (opcodes, targets or positions):\n%s" % (
                    v["fn"], p["src"]), {"program": p, "verdict": v})
            elif bad:
                ck.violation("opt-props:" + ",".join(sorted(bad)), "optimizer property %s fails on a real function:\n%s" % (bad, p["src"]),
                             {"program": p, "verdict": v})
            else:
                ck.traces += 1
    if seen != len(pairs):
        raise vlib.Infra("TLC judged %d of %d pairs" % (seen, len(pairs)))
    ck.extra["function_pairs"] = len(pairs)
    ck.extra["pairs_with_removed_code"] = nontrivial
    ck.extra["instructions_removed"] = removed_total
    # ---- twin runs, judged through the reference semantics: where TengoSem allows exactly one
    # outcome both twins must be identical (results, error text, positions); where several outcomes
    # are allowed (map iteration order) each twin must be one of them
    ro = semlib.real_outcomes(ck, progs, nproc=8)
    ru = semlib.real_outcomes(ck, progs, nproc=8, extra={"nodce": True})
    outs = semlib.tlc_outcomes(ck, progs, njobs=10, tag="sem")

    def norm(o):
        return json.dumps(o, sort_keys=True)
    twins_ok = 0
    agree = 0
    for p in progs:
        a, b = ro[p["id"]], ru[p["id"]]
        ms = outs[p["id"]]
        va, det = semcmp.compare(ms, a)
        vb, detb = semcmp.compare(ms, b)
        if va == "disagree":
            ck.violation("sem", "optimized program disagrees with TengoSem: expected %s got %s\n%s" % (det["expected"], det["got"], p["src"]),
                         {"program": p, "model": ms, "real": a})
            continue
        if vb == "disagree":
            ck.violation("sem-unopt", "unoptimized twin disagrees with TengoSem: expected %s got %s\n%s" % (detb["expected"], detb["got"], p["src"]),
                         {"program": p, "model": ms, "real": b})
            continue
        if va == "agree":
            agree += 1
        deterministic = len(ms) == 1 and ms[0]["k"] != "excluded"
        if deterministic and a["k"] == "runtime_error" and c06.order_dependent(p):
            # the model's outcome of a failing run is its error class and position, not the globals at that moment: with a for-in over
            # a map the globals reached before the failure may differ between two real runs
            # (the text names the operand types met first, and the element met first decides which operation of the body fails:
            #  only the class stays comparable between two real runs)
            a = {k: v for k, v in a.items() if k not in ("g", "msg", "positions")}
            b = {k: v for k, v in b.items() if k not in ("g", "msg", "positions")}
        if deterministic and norm(a) != norm(b):
            ck.violation("twin-run", "optimized and unoptimized code behave differently:\n%s\nopt:   %s\nunopt: %s" % (
                p["src"], json.dumps(a)[:600], json.dumps(b)[:600]), {"program": p, "opt": a, "unopt": b})
        elif a["k"] != b["k"] or a.get("kind") != b.get("kind"):
            ck.violation("twin-run", "optimized and unoptimized code end differently:\n%s\nopt:   %s\nunopt: %s" % (
                p["src"], json.dumps(a)[:600], json.dumps(b)[:600]), {"program": p, "opt": a, "unopt": b})
        else:
            twins_ok += 1
    ck.evaluations = len(progs) * 2 + len(pairs)
    ck.traces += twins_ok
    ck.extra["twin_runs_equal"] = twins_ok
    ck.extra["agree_with_TengoSem"] = agree
    if pairs:
        big = max(pairs, key=lambda q: len(q["unopt"]) - len(q["opt"]))
        ck.add_sample({"src": byid[big["id"]]["src"], "fn_const": big["fn"], "unopt_len": len(big["unopt"]), "opt_len": len(big["opt"])})
    # ---- independent scripts compiled at the same time by several goroutines compile to what they compile to alone
    csrc = [p["src"] for p in semlib.generate(ck, "dce", 24 if quick else 200)]
    groups = [csrc[i:i + 12] for i in range(0, len(csrc), 12)]
    cres = vlib.run_cases(ck, "conccompile", [{"id": i + 1, "srcs": g, "rounds": 40 if quick else 300} for i, g in enumerate(groups)], nproc=2, timeout=3000)
    for i, g in enumerate(groups):
        o = cres[i + 1]
        ck.evaluations += 1
        if o.get("hang") or o.get("died") or o.get("panic") or o.get("problems"):
            ck.violation("concurrent-compile", "scripts compiled concurrently do not compile as they do alone: %s" % str(o.get("problems") or o)[:400], {"srcs": g, "real": o})
        else:
            ck.traces += 1
    # ---- functions whose last instruction carries every small operand value (an optimizer that looks at raw bytes instead of decoded
    # instructions mistakes operands for opcodes): the last statement assigns through a selector to local / global number k
    tailprogs = []
    for k in list(range(0, 48)):
        decl = "".join("  v%d := {f: %d}\n" % (i, i) for i in range(k + 1))
        tailprogs.append({"src": "f := func() {\n" + decl + "  v%d.f = 7\n}\nr := f()\n" % k, "want_r": {"k": "undef"}, "tag": "last-stmt-selector-local/%d" % k})
        tailprogs.append({"src": "f := func(c) {\n" + decl + "  if c { return 1 }\n  v%d\n}\nr := [f(false), f(true)]\n" % k, "want_r": None, "tag": "last-stmt-expr-local/%d" % k})
        gdecl = "".join("g%d := {f: %d}\n" % (i, i) for i in range(k + 1))
        tailprogs.append({"src": gdecl + "f := func() {\n  g%d.f = 7\n}\nr := f()\n" % k, "want_r": {"k": "undef"}, "tag": "last-stmt-selector-global/%d" % k})
    for i, t in enumerate(tailprogs):
        t.update({"id": i + 1, "inputs": [], "mods": []})
    ta = semlib.real_outcomes(ck, tailprogs, nproc=8)
    tb = semlib.real_outcomes(ck, tailprogs, nproc=8, extra={"nodce": True})
    for t in tailprogs:
        a, b = ta[t["id"]], tb[t["id"]]
        ck.evaluations += 1
        ga = dict((n, v) for n, v in a.get("g", []))
        if a.get("k") != "ok" or b.get("k") != "ok" or json.dumps(a.get("g"), sort_keys=True) != json.dumps(b.get("g"), sort_keys=True) or (t["want_r"] is not None and ga.get("r") != t["want_r"]):
            ck.violation("tail-of-function:" + t["tag"].split("/")[0], "function ending in an instruction with operand %s: optimized run %s, unoptimized run %s\n%s" % (
                t["tag"].split("/")[1], str(a.get("msg") or ga.get("r"))[:200], str(b.get("msg") or dict((n, v) for n, v in b.get("g", [])).get("r"))[:200], t["src"][-300:]), {"program": t, "opt": a, "unopt": b})
        else:
            ck.traces += 1
    # functions beyond 64 KiB (jump operands above 16 bits, also after dead code was removed in front of them): optimized vs
    # not optimized vs closed form
    largelib.judge(ck, quick)
    ck.rule = ("exhaustive: all abstract instruction sequences up to the bound; real: every non-main function of generated programs "
               "(family dce biased to return/break/continue layouts); non-trivial = function pairs where the optimizer removed code")
    ck.assumptions = ["the no-DCE hook keeps every instruction and changes nothing else (it reuses the same passes)",
                      "abstraction to index-addressed code uses the repository's operand-width table (checked by C02)"]


def replay(ck, path):
    rep = json.load(open(path))["replay"]
    p = rep["program"]
    for nodce in (False, True):
        r = semlib.real_outcomes(ck, [p], nproc=1, extra={"nodce": nodce})
        print("nodce=%s:" % nodce, json.dumps(r[p["id"]])[:1500])
    print(p["src"])
    return 0
