package main

import (
	"fmt"
	"math"
	"sort"
	"time"

	"github.com/d5/tengo/v2"
)

// Value codec: tengo.Object <-> model value (the canonical JSON of DESIGN.md
// appendix A).  Encoding is total: what the model cannot represent becomes
// {"k":"unrep"}.  Cycles are cut with {"k":"cycle"}.

type V = map[string]interface{}

const modelIntBound = 1 << 30

func encodeValue(o tengo.Object) V {
	return encodeValueSeen(o, map[tengo.Object]bool{}, 0)
}

func bytesV(b []byte) []int {
	out := make([]int, len(b))
	for i, x := range b {
		out[i] = int(x)
	}
	return out
}

func encodeValueSeen(o tengo.Object, seen map[tengo.Object]bool, depth int) V {
	if o == nil {
		return V{"k": "nil"}
	}
	if depth > 40 {
		return V{"k": "cycle"}
	}
	switch o := o.(type) {
	case *tengo.Int:
		return V{"k": "int", "n": o.Value}
	case *tengo.Float:
		f := o.Value
		switch {
		case math.IsNaN(f):
			return V{"k": "float", "s": "NaN"}
		case math.IsInf(f, 1):
			return V{"k": "float", "s": "+Inf"}
		case math.IsInf(f, -1):
			return V{"k": "float", "s": "-Inf"}
		case f == 0 && math.Signbit(f):
			return V{"k": "float", "s": "-0"}
		}
		q := f * 16
		if q == math.Trunc(q) && math.Abs(q) < modelIntBound {
			return V{"k": "float", "q": int64(q)}
		}
		return V{"k": "unrep", "why": "float", "text": o.String()}
	case *tengo.Bool:
		return V{"k": "bool", "b": !o.IsFalsy()}
	case *tengo.Undefined:
		return V{"k": "undef"}
	case *tengo.Char:
		return V{"k": "char", "c": int64(o.Value)}
	case *tengo.String:
		return V{"k": "string", "b": bytesV([]byte(o.Value))}
	case *tengo.Bytes:
		return V{"k": "bytes", "b": bytesV(o.Value)}
	case *tengo.Array:
		if seen[o] {
			return V{"k": "cycle"}
		}
		seen[o] = true
		defer delete(seen, o)
		return V{"k": "array", "imm": false, "e": encodeList(o.Value, seen, depth)}
	case *tengo.ImmutableArray:
		if seen[o] {
			return V{"k": "cycle"}
		}
		seen[o] = true
		defer delete(seen, o)
		return V{"k": "array", "imm": true, "e": encodeList(o.Value, seen, depth)}
	case *tengo.Map:
		if seen[o] {
			return V{"k": "cycle"}
		}
		seen[o] = true
		defer delete(seen, o)
		return V{"k": "map", "imm": false, "kv": encodeKV(o.Value, seen, depth)}
	case *tengo.ImmutableMap:
		if seen[o] {
			return V{"k": "cycle"}
		}
		seen[o] = true
		defer delete(seen, o)
		return V{"k": "map", "imm": true, "kv": encodeKV(o.Value, seen, depth)}
	case *tengo.Error:
		return V{"k": "error", "v": encodeValueSeen(o.Value, seen, depth+1)}
	case *tengo.Time:
		if o.Value.IsZero() {
			return V{"k": "time", "zero": true}
		}
		return V{"k": "time", "t": o.Value.Unix(), "ns": o.Value.Nanosecond()}
	case *tengo.CompiledFunction:
		return V{"k": "func"}
	case *tengo.BuiltinFunction:
		return V{"k": "builtin", "name": o.Name}
	case *tengo.UserFunction:
		return V{"k": "userfunc", "name": o.Name}
	}
	return V{"k": "other", "type": o.TypeName()}
}

func encodeList(l []tengo.Object, seen map[tengo.Object]bool, depth int) []interface{} {
	out := make([]interface{}, 0, len(l))
	for _, e := range l {
		out = append(out, encodeValueSeen(e, seen, depth+1))
	}
	return out
}

func encodeKV(m map[string]tengo.Object, seen map[tengo.Object]bool, depth int) []interface{} {
	keys := make([]string, 0, len(m))
	for k := range m {
		keys = append(keys, k)
	}
	sort.Strings(keys)
	out := make([]interface{}, 0, len(m))
	for _, k := range keys {
		out = append(out, []interface{}{bytesV([]byte(k)), encodeValueSeen(m[k], seen, depth+1)})
	}
	return out
}

// ErrHost is the Go error returned by the host function "hostfail".
var ErrHost = fmt.Errorf("host function failed")

// hostErrMode selects the shape of the error "hostfail" returns: "" the plain sentinel; "wrapnum" / "wraptype" an error
// of the host's own type whose chain contains ErrHost *and* one of the engine's argument errors (a host function
// that delegates to another callable).  In every shape the error the embedder gets back must still be ErrHost.
var hostErrMode string

type hostWrapErr struct{ inner error }

func (e *hostWrapErr) Error() string   { return ErrHost.Error() + ": " + e.inner.Error() }
func (e *hostWrapErr) Unwrap() []error { return []error{ErrHost, e.inner} }

func hostFunction(name string) tengo.Object {
	switch name {
	case "hostfail":
		return &tengo.UserFunction{Name: name, Value: func(args ...tengo.Object) (tengo.Object, error) {
			switch hostErrMode {
			case "wrapnum":
				return nil, &hostWrapErr{tengo.ErrWrongNumArguments}
			case "wraptype":
				return nil, &hostWrapErr{tengo.ErrInvalidArgumentType{Name: "first", Expected: "int", Found: "string"}}
			}
			return nil, ErrHost
		}}
	case "hostpanic":
		return &tengo.UserFunction{Name: name, Value: func(args ...tengo.Object) (tengo.Object, error) { panic("host function panicked") }}
	}
	return &tengo.UserFunction{Name: name, Value: func(args ...tengo.Object) (tengo.Object, error) {
		if len(args) > 0 {
			return args[0], nil
		}
		return nil, nil
	}}
}

func toInt64(x interface{}) int64 {
	switch x := x.(type) {
	case float64:
		return int64(x)
	case int:
		return int64(x)
	case int64:
		return x
	}
	return 0
}

func toBytes(x interface{}) []byte {
	l, _ := x.([]interface{})
	out := make([]byte, 0, len(l))
	for _, e := range l {
		out = append(out, byte(toInt64(e)))
	}
	return out
}

// decodeValue builds a fresh tengo.Object from a model value (after JSON decoding).
func decodeValue(x interface{}) (tengo.Object, error) {
	m, ok := x.(map[string]interface{})
	if !ok {
		return nil, fmt.Errorf("decodeValue: not an object: %v", x)
	}
	switch m["k"] {
	case "int":
		return &tengo.Int{Value: toInt64(m["n"])}, nil
	case "float":
		if s, ok := m["s"].(string); ok {
			switch s {
			case "NaN":
				return &tengo.Float{Value: math.NaN()}, nil
			case "+Inf":
				return &tengo.Float{Value: math.Inf(1)}, nil
			case "-Inf":
				return &tengo.Float{Value: math.Inf(-1)}, nil
			case "-0":
				return &tengo.Float{Value: math.Copysign(0, -1)}, nil
			}
		}
		return &tengo.Float{Value: float64(toInt64(m["q"])) / 16}, nil
	case "bool":
		if b, _ := m["b"].(bool); b {
			return tengo.TrueValue, nil
		}
		return tengo.FalseValue, nil
	case "undef":
		return tengo.UndefinedValue, nil
	case "char":
		return &tengo.Char{Value: rune(toInt64(m["c"]))}, nil
	case "string":
		return &tengo.String{Value: string(toBytes(m["b"]))}, nil
	case "bytes":
		return &tengo.Bytes{Value: toBytes(m["b"])}, nil
	case "array":
		l, _ := m["e"].([]interface{})
		var els []tengo.Object
		for _, e := range l {
			o, err := decodeValue(e)
			if err != nil {
				return nil, err
			}
			els = append(els, o)
		}
		if imm, _ := m["imm"].(bool); imm {
			return &tengo.ImmutableArray{Value: els}, nil
		}
		return &tengo.Array{Value: els}, nil
	case "map":
		l, _ := m["kv"].([]interface{})
		kv := map[string]tengo.Object{}
		for _, p := range l {
			pp, _ := p.([]interface{})
			if len(pp) != 2 {
				return nil, fmt.Errorf("decodeValue: bad kv pair")
			}
			o, err := decodeValue(pp[1])
			if err != nil {
				return nil, err
			}
			kv[string(toBytes(pp[0]))] = o
		}
		if imm, _ := m["imm"].(bool); imm {
			return &tengo.ImmutableMap{Value: kv}, nil
		}
		return &tengo.Map{Value: kv}, nil
	case "error":
		o, err := decodeValue(m["v"])
		if err != nil {
			return nil, err
		}
		return &tengo.Error{Value: o}, nil
	case "hostfn":
		name, _ := m["name"].(string)
		return hostFunction(name), nil
	case "time":
		if z, _ := m["zero"].(bool); z {
			return &tengo.Time{Value: time.Time{}}, nil
		}
		return &tengo.Time{Value: time.Unix(toInt64(m["t"]), toInt64(m["ns"]))}, nil
	}
	return nil, fmt.Errorf("decodeValue: unsupported kind %v", m["k"])
}
