---------------------------- MODULE CompiledConc ----------------------------
(***************************************************************************)
(* Concurrent use of Compiled objects (script.go): an original and its     *)
(* clones, each with its own RW lock and its own globals, sharing the      *)
(* bytecode (constants, file set) and the global-index map.  Goroutines    *)
(* call Run / Get / GetAll / IsDefined / Set / Clone / ReplaceBuiltinModule*)
(* on them.  Every call is Acquire; Access*; Release, the accesses being   *)
(* the memory regions the implementation touches:                          *)
(*   <<"globals", o>>   private globals of object o                        *)
(*   <<"indexes", b>>   global-index map of bytecode group b (read-only    *)
(*                      after compile; ReplaceBuiltinModule on a clone     *)
(*                      first un-shares it: copy-on-write)                 *)
(*   <<"consts", b>>    constant pool of bytecode group b                  *)
(*   "runeCache"        String.runeStr of a shared string constant, written*)
(*                      lazily by the first index/iteration (no lock)      *)
(*   "lastFile"         SourceFileSet.LastFile, written by an error        *)
(*                      position look-up ("race is ok" in the source)      *)
(* Scripts are abstracted to which of the lazily written caches a run      *)
(* touches (RunTouches).                                                   *)
(*                                                                         *)
(* NoRace: no two goroutines are inside calls that access the same region, *)
(* one of them writing.  With Caches = {"runeCache","lastFile"} (faithful) *)
(* TLC reports the two known races; with Caches = {} (contract: the caches *)
(* declared benign) NoRace and Isolation hold - that configuration         *)
(* generates the histories replayed under Go's race detector.              *)
(***************************************************************************)
EXTENDS Integers, Sequences, FiniteSets, TLC, Json

CONSTANTS Objs,        \* e.g. {"orig", "c1", "c2"}
          Gs,          \* goroutines
          MaxOps,      \* calls per goroutine
          Caches,      \* lazily written shared caches a run touches (subset of {"runeCache", "lastFile"})
          OpKinds

Kinds == OpKinds

VARIABLES plan,     \* plan[g]: sequence of [kind, obj] the goroutine will issue
          pc,       \* pc[g]: index of the call in progress / next
          inside,   \* inside[g]: set of <<region, mode>> the goroutine is accessing right now ({} = outside)
          rlock, wlock,   \* per object: number of readers / writer present
          group,    \* group[o]: bytecode group of o (clones share the original's until copy-on-write)
          written   \* ghost: which goroutine wrote which object's globals

vars == <<plan, pc, inside, rlock, wlock, group, written>>

Mode(kind) == IF kind \in {"Run", "Set", "Replace"} THEN "w" ELSE "r"      \* lock mode of the method

Accesses(kind, o) ==
  CASE kind = "Run" -> {<<<<"globals", o>>, "w">>, <<<<"consts", group[o]>>, "r">>} \cup {<<<<"cache", c>>, "w">> : c \in Caches}
    [] kind = "Set" -> {<<<<"globals", o>>, "w">>, <<<<"indexes", group[o]>>, "r">>}
    [] kind \in {"Get", "GetAll", "IsDefined"} -> {<<<<"globals", o>>, "r">>, <<<<"indexes", group[o]>>, "r">>}
    [] kind = "Clone" -> {<<<<"globals", o>>, "r">>}
    \* ReplaceBuiltinModule: un-share (copy-on-write) when the object still shares its group, then write its own constants
    [] kind = "Replace" -> {<<<<"consts", o>>, "w">>, <<<<"consts", group[o]>>, "r">>, <<<<"indexes", group[o]>>, "r">>}

Plans == UNION {[1..n -> [kind : Kinds, obj : Objs]] : n \in 0..MaxOps}

Init == /\ plan \in [Gs -> Plans]
        /\ pc = [g \in Gs |-> 1]
        /\ inside = [g \in Gs |-> {}]
        /\ rlock = [o \in Objs |-> 0] /\ wlock = [o \in Objs |-> FALSE]
        /\ group = [o \in Objs |-> "shared"]
        /\ written = {}

Enter(g) ==
  /\ inside[g] = {} /\ pc[g] <= Len(plan[g])
  /\ LET c == plan[g][pc[g]] IN
     /\ IF Mode(c.kind) = "w" THEN ~wlock[c.obj] /\ rlock[c.obj] = 0 /\ wlock' = [wlock EXCEPT ![c.obj] = TRUE] /\ UNCHANGED rlock
        ELSE ~wlock[c.obj] /\ rlock' = [rlock EXCEPT ![c.obj] = @ + 1] /\ UNCHANGED wlock
     /\ inside' = [inside EXCEPT ![g] = Accesses(c.kind, c.obj)]
     /\ written' = IF c.kind \in {"Run", "Set"} THEN written \cup {<<g, c.obj>>} ELSE written
     /\ UNCHANGED <<plan, pc, group>>

Leave(g) ==
  /\ inside[g] # {}
  /\ LET c == plan[g][pc[g]] IN
     /\ IF Mode(c.kind) = "w" THEN wlock' = [wlock EXCEPT ![c.obj] = FALSE] /\ UNCHANGED rlock
        ELSE rlock' = [rlock EXCEPT ![c.obj] = @ - 1] /\ UNCHANGED wlock
     /\ group' = IF c.kind = "Replace" THEN [group EXCEPT ![c.obj] = c.obj] ELSE group
     /\ inside' = [inside EXCEPT ![g] = {}]
     /\ pc' = [pc EXCEPT ![g] = @ + 1]
     /\ UNCHANGED <<plan, written>>

Next == \E g \in Gs : Enter(g) \/ Leave(g)
Spec == Init /\ [][Next]_vars

Conflict(a, b) == a[1] = b[1] /\ ("w" \in {a[2], b[2]})
NoRace == \A g, h \in Gs : g # h => \A a \in inside[g], b \in inside[h] : ~Conflict(a, b)
LocksSane == \A o \in Objs : ~(wlock[o] /\ rlock[o] > 0)
\* an object's globals are written only by calls issued on that object (by construction of Accesses);
\* what TLC checks is that two writers of the same globals never overlap
Isolation == \A g, h \in Gs : g # h =>
               \A o \in Objs : ~(<<<<"globals", o>>, "w">> \in inside[g] /\ \E m \in {"r", "w"} : <<<<"globals", o>>, m>> \in inside[h])
AllDone == \A g \in Gs : pc[g] > Len(plan[g])
EmitPlan == (AllDone /\ \A g \in Gs : inside[g] = {}) => PrintT(<<"PLAN", ToJson([plan |-> plan])>>)
=============================================================================
