----------------------------- MODULE SourceSpace -----------------------------
(***************************************************************************)
(* The input space of the front end at token level, for the totality       *)
(* property (C04): every sequence of tokens up to a length bound over the  *)
(* complete token alphabet of the language (one representative spelling    *)
(* per token class), enumerated by TLC and handed to the real scanner,     *)
(* parser, compiler and Script entry points.  Also: maximal munch of the   *)
(* operator characters (every string over them up to a bound, with the     *)
(* token sequence the documented operator set implies), and the table of   *)
(* static errors per construct and scope position.                         *)
(***************************************************************************)
EXTENDS Integers, Sequences, FiniteSets, TLC, Json

Tokens == {"a", "b", "1", "1.5", "\"s\"", "'c'", "true", "undefined", ":=", "=", "+=", "+", "-", "*", "!", "&&", "==", "<",
           "?", ":", ",", ".", "...", ";", "NL", "(", ")", "[", "]", "{", "}", "func", "if", "else", "for", "in", "return",
           "break", "continue", "export", "import", "error", "immutable", "++"}

CONSTANTS MaxLen, Mode       \* Mode: "tokens" | "munch"

\* ---- operator maximal munch -------------------------------------------------
OpChars == {"+", "-", "*", "/", "%", "&", "|", "^", "<", ">", "=", "!", ":", "."}
\* the operator / delimiter tokens of the language made of these characters
OpTokens == {"+", "-", "*", "/", "%", "&", "|", "^", "<<", ">>", "&^", "+=", "-=", "*=", "/=", "%=", "&=", "|=", "^=", "<<=", ">>=", "&^=",
             "&&", "||", "++", "--", "==", "<", ">", "=", "!", "!=", "<=", ">=", ":=", ":", ".", "..."}
Concat(t) == t     \* tokens are TLA+ strings; spelling as a sequence of characters:
Spell(t) ==
  CASE t = "<<=" -> <<"<", "<", "=">> [] t = ">>=" -> <<">", ">", "=">> [] t = "&^=" -> <<"&", "^", "=">> [] t = "..." -> <<".", ".", ".">>
    [] t = "<<" -> <<"<", "<">> [] t = ">>" -> <<">", ">">> [] t = "&^" -> <<"&", "^">> [] t = "+=" -> <<"+", "=">> [] t = "-=" -> <<"-", "=">>
    [] t = "*=" -> <<"*", "=">> [] t = "/=" -> <<"/", "=">> [] t = "%=" -> <<"%", "=">> [] t = "&=" -> <<"&", "=">> [] t = "|=" -> <<"|", "=">>
    [] t = "^=" -> <<"^", "=">> [] t = "&&" -> <<"&", "&">> [] t = "||" -> <<"|", "|">> [] t = "++" -> <<"+", "+">> [] t = "--" -> <<"-", "-">>
    [] t = "==" -> <<"=", "=">> [] t = "!=" -> <<"!", "=">> [] t = "<=" -> <<"<", "=">> [] t = ">=" -> <<">", "=">> [] t = ":=" -> <<":", "=">>
    [] OTHER -> <<t>>
IsPrefixAt(w, i, sp) == i + Len(sp) - 1 <= Len(w) /\ \A k \in 1..Len(sp) : w[i + k - 1] = sp[k]
\* longest operator token starting at position i ("//" and "/*" start comments: excluded from the words below)
Longest(w, i) == LET C == {t \in OpTokens : IsPrefixAt(w, i, Spell(t))}
                 IN CHOOSE t \in C : \A u \in C : Len(Spell(u)) <= Len(Spell(t))
RECURSIVE Munch(_, _)
Munch(w, i) == IF i > Len(w) THEN <<>> ELSE LET t == Longest(w, i) IN <<t>> \o Munch(w, i + Len(Spell(t)))
\* ".." is not a token but two periods; "..." needs all three - Longest handles it since "." is always a candidate
NoComment(w) == \A i \in 1..(Len(w) - 1) : ~(w[i] = "/" /\ w[i + 1] \in {"/", "*"})

\* ---- enumeration ---------------------------------------------------------------
VARIABLE w
Init == w = <<>>
Next == /\ Len(w) < MaxLen
        /\ \E t \in (IF Mode = "tokens" THEN Tokens ELSE OpChars) : w' = Append(w, t)
Spec == Init /\ [][Next]_w

EmitTokens == (Mode = "tokens" /\ Len(w) > 0) => PrintT(<<"TOKS", ToJson([w |-> w])>>)
EmitMunch == (Mode = "munch" /\ Len(w) > 0 /\ NoComment(w)) => PrintT(<<"MUNCH", ToJson([w |-> w, toks |-> Munch(w, 1)])>>)

\* ---- static errors: what must be rejected at compile time, whatever the scope position ---------
\* [construct |-> expected error class]; the harness places each construct at top level, in a block, in a
\* function body, in a nested function and in a module body
StaticErrors ==
  [unresolved_read |-> "unresolved_reference", unresolved_assign |-> "unresolved_reference",
   redeclare_same_block |-> "redeclared", define_with_selector |-> "define_with_selector",
   tuple_define |-> "tuple_assignment", tuple_assign |-> "tuple_assignment",
   break_outside_loop |-> "branch_outside_loop", continue_outside_loop |-> "branch_outside_loop",
   break_in_function_in_loop |-> "branch_outside_loop",
   return_top |-> "return_outside_function", return_in_block |-> "return_outside_function", return_in_loop |-> "return_outside_function",
   return_in_nested_blocks |-> "return_outside_function", export_in_function |-> "export_inside_function",
   assign_to_builtin |-> "any_compile_error", import_unknown |-> "module_not_found", import_empty |-> "empty_module_name"]
EmitStatic == (Len(w) = 0) => PrintT(<<"STATIC", ToJson(StaticErrors)>>)
=============================================================================
