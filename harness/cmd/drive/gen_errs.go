package main

import (
	"fmt"
	"math/rand"
)

// Family "errs": programs that fail at run time with every failing operation kind, at
// call depth 0..4, with the failing statement and each call site placed in different
// statement forms and next to code the dead-code optimizer removes.
func failingExpr(r *rand.Rand, kind int, v string) *Node {
	switch kind % 12 {
	case 0:
		return Bin("+", Int(1), Str("x")) // invalid operation
	case 1:
		return Bin("/", Id(v), Int(0)) // division by zero (recovered Go panic)
	case 2:
		return Idx(Int(5), Int(0)) // not indexable
	case 3:
		return Idx(Arr(Int(1)), Str("k")) // invalid index type
	case 4:
		return Slice(Arr(Int(1), Int(2)), Int(2), Int(1)) // invalid slice index
	case 5:
		return Call(Int(3)) // not callable
	case 6:
		return Call(Id("len"), Int(1), Int(2)) // wrong number of arguments (native)
	case 7:
		return Call(Id("len"), Int(1)) // invalid argument type
	case 8:
		return Call(Fn([]string{"a", "b"}, false, Ret(Id("a"))), Int(1)) // wrong number of arguments (compiled)
	case 9:
		return CallSpread(Fn([]string{"a"}, true, Ret(Id("a"))), Int(1)) // not an array
	case 10:
		return Un("-", Str("s")) // invalid unary
	default:
		return Sel(ErrE(Str("e")), "nope") // invalid index on error
	}
}

func failingStmt(r *rand.Rand, kind int, v string, n *int) []*Node {
	nm := func() string { *n++; return fmt.Sprintf("w%d", *n) }
	if kind%18 >= 16 {
		e := Call(Id("hostfail"), Id(v)) // error returned by a host-provided function
		if kind%18 == 17 {
			return []*Node{Def(nm(), Bin("+", e, Int(1)))}
		}
		return []*Node{ExprS(e)}
	}
	switch kind % 18 {
	case 12:
		a := nm()
		return []*Node{Def(a, Imm(Arr(Int(1)))), Set(a, []*Node{Int(0)}, "=", Int(2))} // not index-assignable
	case 13:
		a := nm()
		return []*Node{Def(a, Arr(Int(1))), Set(a, []*Node{Int(3)}, "=", Int(2))} // index out of bounds
	case 14:
		return []*Node{ForIn("", nm(), Int(7), Blk())} // not iterable
	case 15:
		a := nm()
		return []*Node{Def(a, Map([]string{"k"}, []*Node{Int(1)})), Set(a, []*Node{DotKey("k"), DotKey("z")}, "=", Int(2))} // not index-assignable through selector chain
	}
	e := failingExpr(r, kind, v)
	switch r.Intn(7) {
	case 0:
		return []*Node{Def(nm(), e)}
	case 1:
		return []*Node{ExprS(e)}
	case 2:
		return []*Node{If(nil, e, Blk(Def(nm(), Int(1))), nil)}
	case 3:
		return []*Node{Ret(e)}
	case 4:
		return []*Node{For(nil, Bin("==", e, Int(1)), nil, Blk(Brk()))}
	case 5:
		return []*Node{Def(nm(), Arr(Int(1), e))}
	}
	return []*Node{If(Def(nm(), e), Bool(true), Blk(), nil)}
}

// twinProgram: two function literals with identical bodies and no constants, on different lines;
// only the later one fails (what it is given makes the difference), so the reported position must be
// the later one's - a post-processing step that merges "equal" functions would report the earlier.
func twinProgram(r *rand.Rand, idx int) *Program {
	bodies := []func() *Node{
		func() *Node { return Fn([]string{"x"}, false, Ret(Call(Id("x")))) },
		func() *Node { return Fn([]string{"a", "b"}, false, Def("t", Bin("+", Id("a"), Id("b"))), Ret(Id("t"))) },
		func() *Node { return Fn([]string{"a"}, false, Ret(Idx(Id("a"), Id("a")))) },
		func() *Node { return Fn([]string{"a", "b"}, false, If(nil, Id("a"), Blk(Ret(Un("-", Id("b")))), nil), Ret(Id("b"))) },
	}
	b := bodies[idx%len(bodies)]
	good := [][]*Node{{Fn(nil, false, Ret(Undef()))}, {Int(1), Int(2)}, {Arr()}, {Bool(true), Int(3)}}[idx%len(bodies)]
	bad := [][]*Node{{Int(3)}, {Int(1), Arr()}, {Int(5)}, {Bool(true), Str("s")}}[idx%len(bodies)]
	st := []*Node{Def("first", b()), Def("pad", Int(int64(r.Intn(9)))), Def("second", b()),
		Def("ok", Call(Id("first"), good...))}
	if r.Intn(2) == 0 {
		st = append(st, Def("w", Fn([]string{"q"}, false, Ret(Call(Id("second"), bad...)))), Def("res", Call(Id("w"), Int(0))))
	} else {
		st = append(st, Def("res", Call(Id("second"), bad...)))
	}
	return &Program{Stmts: st, Inputs: []Input{{Name: "hostfail", V: V{"k": "hostfn", "name": "hostfail"}}}}
}

func errsProgram(r *rand.Rand, idx int) *Program {
	if idx%9 == 8 {
		return twinProgram(r, idx/9)
	}
	p := &Program{}
	n := 0
	depth := r.Intn(5)
	kind := idx
	nm := func(pfx string) string { n++; return fmt.Sprintf("%s%d", pfx, n) }
	pad := func(vars string) []*Node {
		var out []*Node
		for i, k := 0, r.Intn(3); i < k; i++ {
			switch r.Intn(4) {
			case 0:
				out = append(out, Def(nm("y"), Bin("+", Id(vars), Int(int64(r.Intn(5))))))
			case 1:
				out = append(out, If(nil, Bin("<", Id(vars), Int(-5)), Blk(Ret(Int(0)), Def(nm("dead"), Int(1))), nil))
			case 2:
				i := nm("i")
				out = append(out, For(Def(i, Int(0)), Bin("<", Id(i), Int(2)), IncDec(i, nil, "++"), Blk(If(nil, Bin("==", Id(i), Int(5)), Blk(Ret(Int(1))), nil))))
			case 3:
				out = append(out, Def(nm("y"), Cond(Bin(">", Id(vars), Int(100)), Int(1), Int(2))))
			}
		}
		return out
	}
	// innermost function fails
	prev := ""
	for d := depth; d >= 1; d-- {
		fn := nm("f")
		prm := nm("p")
		body := pad(prm)
		if prev == "" {
			body = append(body, failingStmt(r, kind, prm, &n)...)
			body = append(body, Ret(Id(prm)))
		} else {
			call := Call(Id(prev), Bin("+", Id(prm), Int(1)))
			switch r.Intn(6) {
			case 0:
				body = append(body, Ret(Bin("+", call, Int(1)))) // not a tail call
			case 1:
				body = append(body, Def(nm("t"), call), Ret(Int(0)), Def(nm("dead"), Int(2)))
			case 2:
				body = append(body, If(nil, Bin("==", call, Int(-1)), Blk(Ret(Int(1))), Blk(Ret(Int(2)))))
			case 3:
				body = append(body, ExprS(call))
			case 4:
				body = append(body, Def(nm("t"), Arr(Int(0), call)))
			case 5:
				i := nm("i")
				body = append(body, For(Def(i, Int(0)), Bin("<", Id(i), Int(2)), IncDec(i, nil, "++"), Blk(Def(nm("t"), call))))
			}
		}
		p.Stmts = append(p.Stmts, Def(fn, Fn([]string{prm}, false, body...)))
		prev = fn
	}
	p.Stmts = append(p.Stmts, Def(nm("g"), Int(int64(r.Intn(5)))))
	if prev == "" {
		p.Stmts = append(p.Stmts, failingStmt(r, kind, fmt.Sprintf("g%d", n), &n)...)
	} else {
		call := Call(Id(prev), Int(1))
		switch r.Intn(4) {
		case 0:
			p.Stmts = append(p.Stmts, Def(nm("r"), call))
		case 1:
			p.Stmts = append(p.Stmts, If(nil, Bin("==", call, Int(0)), Blk(Def(nm("r"), Int(1))), nil))
		case 2:
			p.Stmts = append(p.Stmts, ExprS(call))
		case 3:
			p.Stmts = append(p.Stmts, Def(nm("r"), Map([]string{"k"}, []*Node{call})))
		}
	}
	p.Stmts = append(p.Stmts, Def(nm("after"), Int(1)))
	p.Inputs = []Input{{Name: "hostfail", V: V{"k": "hostfn", "name": "hostfail"}}}
	if depth >= 1 && r.Intn(3) == 0 {
		// move the functions into a source module; the host function is handed down as an argument
		// is not possible for a module (it sees builtins only), so keep host-error kinds in main
		if kind%18 < 16 {
			var defs, rest []*Node
			var keys []string
			var vals []*Node
			for _, s := range p.Stmts {
				if s.T == "def" && s.E != nil && s.E.T == "fn" {
					defs = append(defs, s)
					keys = append(keys, s.Name)
					vals = append(vals, Id(s.Name))
				} else {
					rest = append(rest, s)
				}
			}
			if len(defs) >= 2 && r.Intn(2) == 0 {
				// two modules: the innermost (failing) function lives in lib1, which main imports first;
				// its callers live in lib2, which imports lib1 itself
				m1 := &Program{Stmts: []*Node{defs[0], Export(Map(keys[:1], vals[:1]))}}
				m2st := []*Node{Def("l1", Import("lib1")), Def(keys[0], Sel(Id("l1"), keys[0]))}
				m2st = append(m2st, defs[1:]...)
				m2st = append(m2st, Export(Map(keys[1:], vals[1:])))
				main := []*Node{Def("first", Import("lib1")), Def("lib", Import("lib2"))}
				for _, k := range keys[1:] {
					main = append(main, Def(k, Sel(Id("lib"), k)))
				}
				p.Stmts = append(main, rest...)
				p.Modules = []Module{{Name: "lib1", Prog: m1}, {Name: "lib2", Prog: &Program{Stmts: m2st}}}
			} else {
				mod := &Program{Stmts: append(defs, Export(Map(keys, vals)))}
				main := []*Node{Def("lib", Import("lib"))}
				for _, k := range keys {
					main = append(main, Def(k, Sel(Id("lib"), k)))
				}
				p.Stmts = append(main, rest...)
				p.Modules = []Module{{Name: "lib", Prog: mod}}
			}
		}
	}
	return p
}

// errsFixed: failing statements inside immediately-invoked function literals used as statements (with and without a trailing
// return, nested, after other statements), and in the top-level code of source modules (directly, through a function of the
// module, through a function of a second module).
func errsFixed(r *rand.Rand) []*Program {
	var ps []*Program
	host := []Input{{Name: "hostfail", V: V{"k": "hostfn", "name": "hostfail"}}}
	for kind := 0; kind < 16; kind++ {
		n := 0
		fail := func() []*Node { return failingStmt(r, kind, "g1", &n) }
		iife := func(body ...*Node) *Node { return ExprS(Call(Fn(nil, false, body...))) }
		shapes := [][]*Node{
			{iife(fail()...)},
			{iife(append([]*Node{Def("x1", Int(1))}, fail()...)...)},
			{iife(append(fail(), Ret(Int(1)))...)},
			{iife(Def("x1", Int(1)), iife(fail()...))},
			{iife(If(nil, Bin(">", Id("g1"), Int(0)), Blk(fail()...), nil))},
			{Def("y1", Call(Fn(nil, false, append(fail(), Ret(Int(2)))...)))},
			{iife(Def("x1", Int(1))), iife(fail()...)},
		}
		for si, sh := range shapes {
			st := append([]*Node{Def("g1", Int(2)), Def("before", Int(1))}, sh...)
			st = append(st, Def("after", Int(1)))
			ps = append(ps, &Program{Stmts: st, Inputs: host, Meta: map[string]interface{}{"cell": fmt.Sprintf("iife-stmt-%d kind %d", si, kind)}})
		}
		// recursion that is not a tail call, through one call site: every active call has its line in the trace
		for ri, wrap := range []func(c *Node) *Node{
			func(c *Node) *Node { return Bin("+", Int(1), c) }, func(c *Node) *Node { return Arr(c) }, func(c *Node) *Node { return Cond(Bool(true), c, Int(0)) },
		} {
			body := []*Node{If(nil, Bin("==", Id("q"), Int(0)), Blk(append(fail(), Ret(Int(0)))...), nil), Ret(wrap(Call(Id("rec"), Bin("-", Id("q"), Int(1)))))}
			ps = append(ps, &Program{Stmts: []*Node{Def("g1", Int(2)), Def("rec", Fn([]string{"q"}, false, body...)), Def("before", Int(1)), Def("r", Call(Id("rec"), Int(int64(2+ri)))), Def("after", Int(1))},
				Inputs: host, Meta: map[string]interface{}{"cell": fmt.Sprintf("non-tail-recursion-%d kind %d", ri, kind)}})
		}
		// top-level code of a module
		modTop := &Program{Stmts: append(append([]*Node{Def("g1", Int(2)), Def("m1", Int(1))}, fail()...), Export(Id("m1")))}
		ps = append(ps, &Program{Stmts: []*Node{Def("before", Int(1)), Def("c", Import("cfg")), Def("after", Int(1))}, Modules: []Module{{Name: "cfg", Prog: modTop}},
			Inputs: host, Meta: map[string]interface{}{"cell": fmt.Sprintf("module-top kind %d", kind)}})
		modFn := &Program{Stmts: []*Node{Def("g1", Int(2)), Def("h", Fn([]string{"q"}, false, append(fail(), Ret(Id("q")))...)), Def("m1", Int(1)), Def("m2", Call(Id("h"), Int(3))), Export(Id("m2"))}}
		ps = append(ps, &Program{Stmts: []*Node{Def("before", Int(1)), Def("c", Import("cfg")), Def("after", Int(1))}, Modules: []Module{{Name: "cfg", Prog: modFn}},
			Inputs: host, Meta: map[string]interface{}{"cell": fmt.Sprintf("module-top-call kind %d", kind)}})
		lib := &Program{Stmts: []*Node{Def("g1", Int(2)), Export(Fn([]string{"q"}, false, append(fail(), Ret(Id("q")))...))}}
		modUse := &Program{Stmts: []*Node{Def("f", Import("lib")), Def("m1", Int(1)), If(nil, Bin("==", Id("m1"), Int(1)), Blk(Def("m2", Call(Id("f"), Int(3)))), nil), Export(Id("m1"))}}
		ps = append(ps, &Program{Stmts: []*Node{Def("before", Int(1)), If(nil, Bool(true), Blk(Def("c", Import("cfg"))), nil), Def("after", Int(1))},
			Modules: []Module{{Name: "lib", Prog: lib}, {Name: "cfg", Prog: modUse}}, Inputs: host, Meta: map[string]interface{}{"cell": fmt.Sprintf("module-top-call-lib kind %d", kind)}})
	}
	return ps
}

func init() {
	families["errs"] = func(seed int64, n int) []*Program {
		r := rand.New(rand.NewSource(seed))
		ps := errsFixed(r)
		for i := 0; i < n; i++ {
			ps = append(ps, errsProgram(r, i))
		}
		return ps
	}
}
